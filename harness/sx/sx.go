// Package sx is the s-expression interchange syntax shared with the Coq/OCaml model.
package sx

import (
	"fmt"
	"strconv"
	"strings"
)

// Node is an atom (Atom!=""), a quoted string (IsStr) or a list.
type Node struct {
	Atom  string
	IsStr bool
	Str   string
	List  []*Node
	isList bool
}

func A(s string) *Node            { return &Node{Atom: s} }
func S(s string) *Node            { return &Node{IsStr: true, Str: s} }
func L(items ...*Node) *Node      { return &Node{List: append([]*Node(nil), items...), isList: true} }
func I(i int64) *Node             { return A(strconv.FormatInt(i, 10)) }
func U(i uint64) *Node            { return A(strconv.FormatUint(i, 10)) }
func B(b bool) *Node {
	if b {
		return A("1")
	}
	return A("0")
}
func (n *Node) IsList() bool { return n.isList }
func (n *Node) IsAtom(s string) bool { return !n.isList && !n.IsStr && n.Atom == s }
func (n *Node) Head() string {
	if n.isList && len(n.List) > 0 && !n.List[0].isList && !n.List[0].IsStr {
		return n.List[0].Atom
	}
	return ""
}
func (n *Node) Int() int64 {
	v, err := strconv.ParseInt(n.Atom, 10, 64)
	if err != nil {
		panic(fmt.Sprintf("sx: not an int: %q", n.Atom))
	}
	return v
}
func (n *Node) Append(items ...*Node) *Node { n.List = append(n.List, items...); return n }

func plain(c byte) bool { return c >= 0x20 && c <= 0x7e && c != '"' && c != '\\' }

func (n *Node) write(b *strings.Builder) {
	switch {
	case n.isList:
		b.WriteByte('(')
		for i, x := range n.List {
			if i > 0 {
				b.WriteByte(' ')
			}
			x.write(b)
		}
		b.WriteByte(')')
	case n.IsStr:
		b.WriteByte('"')
		for i := 0; i < len(n.Str); i++ {
			c := n.Str[i]
			if plain(c) {
				b.WriteByte(c)
			} else {
				fmt.Fprintf(b, "\\%02x", c)
			}
		}
		b.WriteByte('"')
	default:
		b.WriteString(n.Atom)
	}
}

func (n *Node) String() string {
	var b strings.Builder
	n.write(&b)
	return b.String()
}

func hexval(c byte) int {
	switch {
	case c >= '0' && c <= '9':
		return int(c - '0')
	case c >= 'a' && c <= 'f':
		return int(c-'a') + 10
	case c >= 'A' && c <= 'F':
		return int(c-'A') + 10
	}
	panic("sx: bad hex")
}

// Parse parses one s-expression from a line.
func Parse(s string) (n *Node, err error) {
	defer func() {
		if r := recover(); r != nil {
			err = fmt.Errorf("%v", r)
		}
	}()
	n, _ = parse(s, 0)
	return n, nil
}

func parse(s string, i int) (*Node, int) {
	for i < len(s) && (s[i] == ' ' || s[i] == '\t') {
		i++
	}
	if i >= len(s) {
		panic("sx: eof")
	}
	switch s[i] {
	case '(':
		i++
		n := L()
		for {
			for i < len(s) && (s[i] == ' ' || s[i] == '\t') {
				i++
			}
			if i >= len(s) {
				panic("sx: unclosed")
			}
			if s[i] == ')' {
				return n, i + 1
			}
			var x *Node
			x, i = parse(s, i)
			n.List = append(n.List, x)
		}
	case '"':
		i++
		var b []byte
		for {
			if i >= len(s) {
				panic("sx: unclosed string")
			}
			if s[i] == '"' {
				return S(string(b)), i + 1
			}
			if s[i] == '\\' {
				b = append(b, byte(hexval(s[i+1])*16+hexval(s[i+2])))
				i += 3
			} else {
				b = append(b, s[i])
				i++
			}
		}
	default:
		j := i
		for j < len(s) && s[j] != ' ' && s[j] != '(' && s[j] != ')' && s[j] != '"' {
			j++
		}
		return A(s[i:j]), j
	}
}
