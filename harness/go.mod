module verif/harness

go 1.23.0

toolchain go1.23.5

require (
	github.com/fxamacker/cbor/v2 v2.7.0
	go.flow.arcalot.io/pluginsdk v0.0.0
	gopkg.in/yaml.v3 v3.0.1
)

require (
	github.com/x448/float16 v0.8.4 // indirect
	go.arcalot.io/log/v2 v2.2.0 // indirect
	golang.org/x/sys v0.30.0 // indirect
	golang.org/x/term v0.29.0 // indirect
)

replace go.flow.arcalot.io/pluginsdk => /repo
