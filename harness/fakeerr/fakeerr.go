// Package fakeerr declares the types the C18 matrix needs as real, named Go types: a struct
// type whose NAME is "error" (it shadows the predeclared interface inside this package and
// has nothing to do with it — defect D35), a struct that implements error, and a plain struct.
package fakeerr

// error is a struct type named "error". It is NOT the error interface.
type error struct{ X int }

// New returns a value of the struct type named "error" (reflect.TypeOf(New()).Name() == "error").
func New() any { return error{} }

// Int64AndFake returns a literal handler func() (int64, error) whose second result is the
// struct type above.
func Int64AndFake(k int64, called func()) any {
	return func() (int64, error) {
		called()
		return k, error{}
	}
}

// Other is a plain struct (used as a wrongly typed argument and as a non-error result).
type Other struct{ X int }

// MyErr is a struct that implements the error interface (value receiver).
type MyErr struct{ X int }

func (MyErr) Error() string { return "MyErr" }
