package main

import (
	"encoding/json"
	"fmt"
	"math"
	"os"
	"path/filepath"
	"reflect"
	"regexp/syntax"
	"sort"
	"strings"
	"unicode/utf8"

	"go.flow.arcalot.io/pluginsdk/schema"
)

// writeExtraTables is extended as more of the SDK's tables enter the model.
func writeExtraTables(b *strings.Builder) {}

// ---------------------------------------------------------------------------------------------
// The meta-schema table (schema/schema_schema.go), translated as DATA (DESIGN 2.4, C09_accepted):
// the SDK's meta-schema describes itself, so `DescribeScope().SelfSerialize()` IS the 1300-line
// table in the wire format of descriptions.  It is printed as a Gallina `gval`; Schema/MetaTable.v
// turns it into a `schema` of the shared syntax with the model's own reader (`rebuild`), and the
// theorems of Proofs/C09Acc*.v are about that term - re-dumped, hence re-proved, on every run.
// The file is Generated/MetaDesc.v next to Tables.v (written only when changed).
// ---------------------------------------------------------------------------------------------

type coqValErr struct{ what string }

// coqVal renders a value of the description format as a Gallina gval.
func coqVal(b *strings.Builder, v any, ind int) {
	if v == nil {
		b.WriteString("VNil")
		return
	}
	rv := reflect.ValueOf(v)
	pad := strings.Repeat(" ", ind)
	switch rv.Kind() {
	case reflect.String:
		fmt.Fprintf(b, "(vstr %s)", coqStr(rv.String()))
	case reflect.Bool:
		fmt.Fprintf(b, "(vbool %v)", rv.Bool())
	case reflect.Int64:
		if rv.Type() != reflect.TypeOf(int64(0)) {
			panic(coqValErr{"named integer " + rv.Type().String()})
		}
		fmt.Fprintf(b, "(vi64 (%d))", rv.Int())
	case reflect.Float64:
		f := rv.Float()
		if f != math.Trunc(f) || math.Abs(f) > 1e15 || (f == 0 && math.Signbit(f)) {
			panic(coqValErr{fmt.Sprintf("float %v", f)})
		}
		fmt.Fprintf(b, "(vf64 (fl_of_Z b64 (%d)))", int64(f))
	case reflect.Slice:
		if rv.Type() != reflect.TypeOf([]any(nil)) {
			panic(coqValErr{"slice type " + rv.Type().String()})
		}
		b.WriteString("(VSlice t_any_slice false [")
		for i := 0; i < rv.Len(); i++ {
			if i > 0 {
				b.WriteString("; ")
			}
			coqVal(b, rv.Index(i).Interface(), ind+1)
		}
		b.WriteString("])")
	case reflect.Map:
		var ty string
		switch rv.Type() {
		case reflect.TypeOf(map[string]any(nil)):
			ty = "t_str_map"
		case reflect.TypeOf(map[any]any(nil)):
			ty = "t_any_map"
		default:
			panic(coqValErr{"map type " + rv.Type().String()})
		}
		type ent struct {
			rank int
			s    string
			i    int64
			k, v any
		}
		var es []ent
		it := rv.MapRange()
		for it.Next() {
			k := it.Key().Interface()
			e := ent{k: k, v: it.Value().Interface()}
			switch kk := k.(type) {
			case string:
				e.rank, e.s = 1, kk
			case int64:
				e.rank, e.i = 0, kk
			default:
				panic(coqValErr{fmt.Sprintf("map key %T", k)})
			}
			es = append(es, e)
		}
		sort.Slice(es, func(a, c int) bool {
			if es[a].rank != es[c].rank {
				return es[a].rank < es[c].rank
			}
			if es[a].rank == 0 {
				return es[a].i < es[c].i
			}
			return es[a].s < es[c].s
		})
		fmt.Fprintf(b, "(VMap %s false [", ty)
		for i, e := range es {
			if i > 0 {
				b.WriteString(";")
			}
			b.WriteString("\n" + pad + " (")
			coqVal(b, e.k, ind+1)
			b.WriteString(", ")
			coqVal(b, e.v, ind+1)
			b.WriteString(")")
		}
		b.WriteString("])")
	default:
		panic(coqValErr{"kind " + rv.Kind().String()})
	}
}

// collectTexts gathers every string found under the given field name of a map[string]any node.
func collectTexts(v any, field string, out map[string]bool) {
	switch x := v.(type) {
	case map[string]any:
		for k, c := range x {
			if s, ok := c.(string); ok && k == field {
				out[s] = true
			}
			collectTexts(c, field, out)
		}
	case map[any]any:
		for _, c := range x {
			collectTexts(c, field, out)
		}
	case []any:
		for _, c := range x {
			collectTexts(c, field, out)
		}
	}
}

// coqRe translates a regular expression, parsed by Go's own regexp/syntax, into the model's `re`
// (Schema/Regex.v, byte semantics).  ok=false: outside the supported subset.
func coqRe(r *syntax.Regexp) (string, bool) {
	chr := func(c byte) string { return fmt.Sprintf("(Chr (chrz %d))", c) }
	cat := func(parts []string, unit, op string) string {
		if len(parts) == 0 {
			return unit
		}
		res := parts[len(parts)-1]
		for i := len(parts) - 2; i >= 0; i-- {
			res = fmt.Sprintf("(%s %s %s)", op, parts[i], res)
		}
		return res
	}
	subs := func() ([]string, bool) {
		var ps []string
		for _, s := range r.Sub {
			t, ok := coqRe(s)
			if !ok {
				return nil, false
			}
			ps = append(ps, t)
		}
		return ps, true
	}
	switch r.Op {
	case syntax.OpEmptyMatch:
		return "Eps", true
	case syntax.OpLiteral:
		if r.Flags&syntax.FoldCase != 0 {
			return "", false
		}
		var ps []string
		for _, ru := range r.Rune {
			var buf [4]byte
			n := utf8.EncodeRune(buf[:], ru)
			for i := 0; i < n; i++ {
				ps = append(ps, chr(buf[i]))
			}
		}
		return cat(ps, "Eps", "Cat"), true
	case syntax.OpCharClass:
		var rs []string
		for i := 0; i+1 < len(r.Rune); i += 2 {
			lo, hi := r.Rune[i], r.Rune[i+1]
			if lo > 127 {
				if lo == 128 && hi == utf8.MaxRune { // the tail of a negated ASCII class: every non-ASCII byte
					rs = append(rs, "(chrz 128, chrz 255)")
					continue
				}
				return "", false
			}
			if hi > 127 {
				if hi != utf8.MaxRune {
					return "", false
				}
				hi = 255
			}
			rs = append(rs, fmt.Sprintf("(chrz %d, chrz %d)", lo, hi))
		}
		return "(Cls false [" + strings.Join(rs, "; ") + "])", true
	case syntax.OpAnyCharNotNL:
		return "AnyC", true
	case syntax.OpAnyChar:
		return "(Cls true [])", true
	case syntax.OpBeginText:
		return "Bol", true
	case syntax.OpEndText:
		return "Eol", true
	case syntax.OpCapture:
		ps, ok := subs()
		if !ok {
			return "", false
		}
		return fmt.Sprintf("(Grp %d %s)", r.Cap, ps[0]), true
	case syntax.OpStar, syntax.OpPlus, syntax.OpQuest:
		if r.Flags&syntax.NonGreedy != 0 {
			return "", false
		}
		ps, ok := subs()
		if !ok {
			return "", false
		}
		switch r.Op {
		case syntax.OpStar:
			return fmt.Sprintf("(Star %s)", ps[0]), true
		case syntax.OpPlus:
			return fmt.Sprintf("(Cat %s (Star %s))", ps[0], ps[0]), true
		default:
			return fmt.Sprintf("(Alt %s Eps)", ps[0]), true
		}
	case syntax.OpConcat:
		ps, ok := subs()
		if !ok {
			return "", false
		}
		return cat(ps, "Eps", "Cat"), true
	case syntax.OpAlternate:
		ps, ok := subs()
		if !ok {
			return "", false
		}
		return cat(ps, "Eps", "Alt"), true
	}
	return "", false
}

func sortedSet(m map[string]bool) []string {
	var ks []string
	for k := range m {
		ks = append(ks, k)
	}
	sort.Strings(ks)
	return ks
}

func writeMetaTable(path string) {
	var b strings.Builder
	b.WriteString("(* GENERATED by `harness tables` from the SDK built from /repo's working tree: the meta-schema\n" +
		"   (schema/schema_schema.go) as it describes itself.  Do not edit. *)\n")
	b.WriteString("From Verif Require Import Base.Prelude Base.Str Base.Float Base.GoVal Schema.Regex.\nOpen Scope string_scope.\nOpen Scope Z_scope.\n\n")
	b.WriteString("Definition mt_bytes_str (l : list Z) : string := unchars (map chrz l).\n\n")
	scopes := []struct {
		name string
		s    *schema.ScopeSchema
	}{
		{"meta_scope_description", schema.DescribeScope()},
		{"meta_schema_description", schema.DescribeSchema()},
		{"meta_stepoutput_description", schema.DescribeStepOutput()},
	}
	pats, dflts := map[string]bool{}, map[string]bool{}
	for _, sc := range scopes {
		d, err := sc.s.SelfSerialize()
		if err != nil {
			fmt.Fprintf(os.Stderr, "the meta-schema cannot describe itself (%s): %v\n", sc.name, err)
			os.Exit(1)
		}
		collectTexts(d, "pattern", pats)
		collectTexts(d, "default", dflts)
		fmt.Fprintf(&b, "Definition %s : gval :=\n ", sc.name)
		coqVal(&b, d, 1)
		b.WriteString(".\n\n")
	}
	// regexp.Compile on the pattern texts of the table, through Go's own parser
	b.WriteString("(* regexp/syntax.Parse(src, Perl) of every pattern text in the table, in the model's `re` *)\n")
	b.WriteString("Definition meta_patterns : list (string * re) :=\n  [")
	first := true
	for _, src := range sortedSet(pats) {
		r, err := syntax.Parse(src, syntax.Perl)
		if err != nil {
			continue
		}
		t, ok := coqRe(r)
		if !ok {
			continue
		}
		if !first {
			b.WriteString(";\n   ")
		}
		first = false
		fmt.Fprintf(&b, "(%s, %s)", coqStr(src), t)
	}
	b.WriteString("].\n\n")
	// encoding/json on the default texts of the table (and on their quoted form, which the SDK
	// retries for string-typed properties)
	b.WriteString("(* encoding/json into `any` of every default text in the table (None: not JSON) *)\n")
	b.WriteString("Definition meta_json : list (string * option gval) :=\n  [")
	first = true
	texts := map[string]bool{}
	for t := range dflts {
		texts[t] = true
		texts[`"`+t+`"`] = true
	}
	for _, txt := range sortedSet(texts) {
		if !first {
			b.WriteString(";\n   ")
		}
		first = false
		var v any
		entry := "None"
		if err := json.Unmarshal([]byte(txt), &v); err == nil {
			func() {
				defer func() {
					if r := recover(); r != nil {
						if _, mine := r.(coqValErr); !mine {
							panic(r)
						}
						entry = "None"
					}
				}()
				var vb strings.Builder
				coqVal(&vb, v, 4)
				entry = "(Some " + vb.String() + ")"
			}()
		}
		fmt.Fprintf(&b, "(%s, %s)", coqStr(txt), entry)
	}
	b.WriteString("].\n")

	content := strings.ReplaceAll(b.String(), "bytes_str [", "mt_bytes_str [")
	content = strings.ReplaceAll(content, "mt_mt_bytes_str", "mt_bytes_str")
	old, err := os.ReadFile(path)
	if err == nil && string(old) == content {
		fmt.Println("meta table unchanged")
		return
	}
	if err := os.WriteFile(path, []byte(content), 0o644); err != nil {
		panic(err)
	}
	fmt.Println("meta table written")
}

func metaTablePath(tablesPath string) string {
	return filepath.Join(filepath.Dir(tablesPath), "MetaDesc.v")
}
