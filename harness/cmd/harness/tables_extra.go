package main

import "strings"

// writeExtraTables is extended as more of the SDK's tables enter the model.
func writeExtraTables(b *strings.Builder) {}
