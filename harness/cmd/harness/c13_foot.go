package main

// C13 — family c13foot: the sequential footprint of the unit operations.  A fresh unit definition,
// the operations one after the other, and after each the cache cells it filled (read through the
// verif-tagged accessor schema.VerifUnitsCacheState).  The model (ATP/Footprint.v through
// Interp/RunFootprint.v) predicts exactly these write sets: first use fills, later use fills nothing.

import (
	"go.flow.arcalot.io/pluginsdk/schema"
	"verif/harness/sx"
)

func runFootCase(p *sx.Node) *sx.Node {
	u := unitsFromSx(p.List[1]).build()
	res := sx.L(sx.A("r"))
	ps, pr := schema.VerifUnitsCacheState(u)
	for _, op := range p.List[2].List[1:] {
		if c13UnitsOp(u, op) == "panic" {
			return sx.A("panic")
		}
		s, r := schema.VerifUnitsCacheState(u)
		w := sx.L(sx.A("w"))
		if s && !ps {
			w.Append(sx.A("sorted"))
		}
		if r && !pr {
			w.Append(sx.A("re"))
		}
		if (ps && !s) || (pr && !r) {
			w.Append(sx.A("emptied"))
		}
		res.Append(w)
		ps, pr = s, r
	}
	return res
}

func init() {
	families["c13foot"] = &Family{
		Gen: func(r *Rng, tier string, emit func(*sx.Node)) {
			n := 400
			if tier == "thorough" {
				n = 6000
			}
			for i := 0; i < n; i++ {
				var u unitsD
				if i%4 == 0 {
					u = unitsFromSDK(pick(r, builtinUnits))
				} else {
					u = genUnits(r)
				}
				ops := c13UnitsOps(r, u, 2+r.Intn(7))
				// the edge operations: zero (formatted without the multipliers), blank strings (rejected before any cache)
				for j := 0; j < r.Intn(3); j++ {
					extra := pick(r, []*sx.Node{sx.L(sx.A("fsi"), sx.I(0)), sx.L(sx.A("fli"), sx.I(0)), sx.L(sx.A("fsf"), flSx(0)),
						sx.L(sx.A("pi"), sx.S("")), sx.L(sx.A("pi"), sx.S("  ")), sx.L(sx.A("pf"), sx.S(" \t")), sx.L(sx.A("pi"), sx.S("garbage"))})
					k := 1 + r.Intn(len(ops.List))
					nl := sx.L(ops.List[:k]...)
					nl.Append(extra)
					nl.Append(ops.List[k:]...)
					ops = nl
				}
				emit(sx.L(sx.A("foot"), u.sx(), ops))
			}
			// whole schema operations and lazily decoded object defaults (c13_footops.go)
			genFootOps(r, tier, emit)
		},
		Run: func(p *sx.Node) *sx.Node {
			if p.Head() == "footops" {
				return runFootOpsCase(p)
			}
			return runFootCase(p)
		},
	}
}
