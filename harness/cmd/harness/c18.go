package main

// C18 — callable functions (schema/function.go).  Case syntax: coq/Interp/RunFunction.v.
//
// Handlers of arbitrary signature (including variadic ones and ones returning the struct type
// that is merely NAMED "error") are built at run time with reflect.FuncOf + reflect.MakeFunc and
// handed to the real constructors as `handler any`.  For the signatures in c18_literals.go the
// same case is additionally run with a literal Go func and both observations must be equal, so
// that "a MakeFunc func behaves like a written func" is itself under test.

import (
	"errors"
	"fmt"
	"reflect"
	"sort"
	"strconv"

	"go.flow.arcalot.io/pluginsdk/schema"
	"verif/harness/fakeerr"
	"verif/harness/sx"
)

// ---- types ----

var (
	rtBool   = reflect.TypeOf(false)
	rtInt64  = reflect.TypeOf(int64(0))
	rtFloat  = reflect.TypeOf(float64(0))
	rtString = reflect.TypeOf("")
	rtAny    = reflect.TypeOf((*any)(nil)).Elem()
	rtErr    = reflect.TypeOf((*error)(nil)).Elem()
	rtStruct = map[string]reflect.Type{
		"error": reflect.TypeOf(fakeerr.New()),
		"Other": reflect.TypeOf(fakeerr.Other{}),
		"MyErr": reflect.TypeOf(fakeerr.MyErr{}),
	}
)

// tokErr is the non-nil error a handler returns; it carries the case's token.
type tokErr struct{ k int64 }

func (t tokErr) Error() string { return "handler error " + strconv.FormatInt(t.k, 10) }

func tSl(t *sx.Node) *sx.Node   { return sx.L(sx.A("sl"), t) }
func tM(k, v *sx.Node) *sx.Node { return sx.L(sx.A("m"), k, v) }
func tSt(name string) *sx.Node {
	return sx.L(sx.A("st"), sx.S(name), sx.B(rtStruct[name].Implements(rtErr)))
}
func tyIs(n *sx.Node, a string) bool { return n.IsAtom(a) }

// fnType maps a TY node to the Go type.
func fnType(n *sx.Node) reflect.Type {
	if !n.IsList() {
		switch n.Atom {
		case "bool":
			return rtBool
		case "i64":
			return rtInt64
		case "f64":
			return rtFloat
		case "str":
			return rtString
		case "any":
			return rtAny
		case "err":
			return rtErr
		}
		panic("c18: unknown type " + n.Atom)
	}
	switch n.Head() {
	case "sl":
		return reflect.SliceOf(fnType(n.List[1]))
	case "m":
		return reflect.MapOf(fnType(n.List[1]), fnType(n.List[2]))
	case "st":
		t, ok := rtStruct[n.List[1].Str]
		if !ok {
			panic("c18: unknown struct " + n.List[1].Str)
		}
		// the descriptor must tell the truth about the real type
		if t.Name() != n.List[1].Str || t.Implements(rtErr) != (n.List[2].Atom == "1") {
			panic("c18: struct descriptor does not match the Go type")
		}
		return t
	}
	panic("c18: unknown type " + n.String())
}

// fnSchema builds a real schema whose ReflectedType is the type described by n.
func fnSchema(n *sx.Node) schema.Type {
	var s schema.Type
	if !n.IsList() {
		switch n.Atom {
		case "bool":
			s = schema.NewBoolSchema()
		case "i64":
			s = schema.NewIntSchema(nil, nil, nil)
		case "f64":
			s = schema.NewFloatSchema(nil, nil, nil)
		case "str":
			s = schema.NewStringSchema(nil, nil, nil)
		case "any":
			s = schema.NewAnySchema()
		}
	} else {
		switch n.Head() {
		case "sl":
			s = schema.NewListSchema(fnSchema(n.List[1]), nil, nil)
		case "m":
			s = schema.NewMapSchema(fnSchema(n.List[1]), fnSchema(n.List[2]), nil, nil)
		}
	}
	if s == nil {
		panic("c18: no schema reflects to " + n.String())
	}
	if s.ReflectedType() != fnType(n) {
		panic("c18: schema for " + n.String() + " reflects to " + s.ReflectedType().String())
	}
	return s
}

func schemable(n *sx.Node) bool {
	if !n.IsList() {
		return n.Atom != "err"
	}
	switch n.Head() {
	case "sl":
		return schemable(n.List[1])
	case "m":
		return schemable(n.List[1]) && schemable(n.List[2])
	}
	return false
}

// ---- values ----

// mkValue builds the value "made from token k" at the type described by n.
func mkValue(n *sx.Node, k int64) reflect.Value {
	t := fnType(n)
	if !n.IsList() {
		switch n.Atom {
		case "bool":
			return reflect.ValueOf(k%2 == 1)
		case "i64":
			return reflect.ValueOf(k)
		case "f64":
			return reflect.ValueOf(float64(k))
		case "str":
			return reflect.ValueOf(strconv.FormatInt(k, 10))
		case "any":
			v := reflect.New(rtAny).Elem()
			v.Set(reflect.ValueOf(k))
			return v
		case "err":
			v := reflect.New(rtErr).Elem()
			v.Set(reflect.ValueOf(tokErr{k}))
			return v
		}
	}
	switch n.Head() {
	case "sl":
		v := reflect.MakeSlice(t, 0, 2)
		return reflect.Append(v, mkValue(n.List[1], k), mkValue(n.List[1], k+1))
	case "m":
		v := reflect.MakeMapWithSize(t, 1)
		v.SetMapIndex(mkValue(n.List[1], k), mkValue(n.List[2], k))
		return v
	}
	return reflect.Zero(t)
}

// showValue is the canonical rendering (by dynamic type) of a value; mkval in the model.
func showValue(v reflect.Value) *sx.Node {
	if !v.IsValid() {
		return sx.A("nil")
	}
	switch v.Kind() {
	case reflect.Interface:
		if v.IsNil() {
			return sx.A("nil")
		}
		return showValue(v.Elem())
	case reflect.Bool:
		return sx.L(sx.A("b"), sx.B(v.Bool()))
	case reflect.Int64:
		return sx.L(sx.A("i"), sx.I(v.Int()))
	case reflect.Float64:
		return sx.L(sx.A("f"), sx.I(int64(v.Float())))
	case reflect.String:
		return sx.L(sx.A("s"), sx.S(v.String()))
	case reflect.Slice:
		if v.IsNil() {
			return sx.A("nil")
		}
		n := sx.L(sx.A("sl"))
		for i := 0; i < v.Len(); i++ {
			n.Append(showValue(v.Index(i)))
		}
		return n
	case reflect.Map:
		if v.IsNil() {
			return sx.A("nil")
		}
		var entries []*sx.Node
		it := v.MapRange()
		for it.Next() {
			entries = append(entries, sx.L(showValue(it.Key()), showValue(it.Value())))
		}
		sort.Slice(entries, func(i, j int) bool { return entries[i].String() < entries[j].String() })
		return sx.L(sx.A("m")).Append(entries...)
	case reflect.Struct:
		if te, ok := v.Interface().(tokErr); ok {
			return sx.L(sx.A("i"), sx.I(te.k))
		}
		return sx.L(sx.A("st"), sx.S(v.Type().Name()))
	}
	return sx.L(sx.A("unprintable"), sx.S(v.Type().String()))
}

// ---- handlers ----

// recorder is the handler's side channel: how often it ran and what it received.
type recorder struct {
	calls    int
	got      *sx.Node
	returned error // the error value the handler returned (nil: none)
}

func (r *recorder) record(args ...any) {
	r.calls++
	r.got = sx.L(sx.A("got"))
	for _, a := range args {
		r.got.Append(showValue(reflect.ValueOf(a)))
	}
}

func (r *recorder) recordValues(args []reflect.Value) {
	r.calls++
	r.got = sx.L(sx.A("got"))
	for _, a := range args {
		r.got.Append(showValue(a))
	}
}

// ret notes the error value the handler is about to return (so that the observation can ask
// whether the error Call reports is this very value) and passes it through.
func (r *recorder) ret(e error) error {
	r.returned = e
	return e
}

// errKind is the handler-behaviour dimension "which error value does the handler return":
// 0 nil; 1 a plain error (tokErr{k}); 2 an error that already IS a *schema.FunctionCallError
// with IsFunctionReportedError=false (what a handler gets back from a mis-shaped call of another
// function and passes on); 3 the same with IsFunctionReportedError=true.
type errKind int

func behErr(k int64, e errKind) error {
	switch e {
	case 0:
		return nil
	case 2:
		return schema.NewFunctionCallError(tokErr{k}, false)
	case 3:
		return schema.NewFunctionCallError(tokErr{k}, true)
	}
	return tokErr{k}
}

// showHandlerErr renders the error value a handler returned: K for tokErr{K}, fce0 K / fce1 K
// for a *FunctionCallError wrapping tokErr{K} (case_handler in Interp/RunFunction.v).
func showHandlerErr(e error) []*sx.Node {
	switch v := e.(type) {
	case tokErr:
		return []*sx.Node{sx.I(v.k)}
	case *schema.FunctionCallError:
		if te, ok := v.SourceError.(tokErr); ok {
			tag := "fce0"
			if v.IsFunctionReportedError {
				tag = "fce1"
			}
			return []*sx.Node{sx.A(tag), sx.I(te.k)}
		}
	}
	return nil
}

// makeHandler builds a func of the described signature whose body implements (beh k e): the
// last result, when it is of the error interface type, is nil / tokErr{k}; every other result
// is the value made from k at that result's type.
func makeHandler(sig *sx.Node, k int64, e errKind, rec *recorder) any {
	var ins, outs []reflect.Type
	for _, t := range sig.List[1].List {
		ins = append(ins, fnType(t))
	}
	outNodes := sig.List[2].List
	for _, t := range outNodes {
		outs = append(outs, fnType(t))
	}
	ft := reflect.FuncOf(ins, outs, sig.List[3].Atom == "1")
	return reflect.MakeFunc(ft, func(args []reflect.Value) []reflect.Value {
		rec.recordValues(args)
		res := make([]reflect.Value, len(outs))
		for i, t := range outNodes {
			if i == len(outs)-1 && outs[i] == rtErr {
				v := reflect.New(rtErr).Elem()
				if he := rec.ret(behErr(k, e)); he != nil {
					v.Set(reflect.ValueOf(he))
				}
				res[i] = v
			} else {
				res[i] = mkValue(t, k)
			}
		}
		return res
	}).Interface()
}

// ---- running a case ----

func fnConstruct(mode string, decl *sx.Node, handler any) (f schema.CallableFunction, obs string) {
	defer func() {
		if r := recover(); r != nil {
			f, obs = nil, "panic"
		}
	}()
	var inputs []schema.Type
	for _, t := range decl.List[1].List {
		inputs = append(inputs, fnSchema(t))
	}
	var err error
	switch mode {
	case "static":
		var out schema.Type
		if !decl.List[2].IsAtom("none") {
			out = fnSchema(decl.List[2])
		}
		f, err = schema.NewCallableFunction("f", inputs, out, decl.List[3].Atom == "1", nil, handler)
	case "dynamic":
		f, err = schema.NewDynamicCallableFunction("f", inputs, nil, handler,
			func([]schema.Type) (schema.Type, error) { return schema.NewAnySchema(), nil })
	default:
		panic("c18: mode")
	}
	if err != nil {
		return nil, "reject"
	}
	if f == nil {
		return nil, "nil-without-error"
	}
	return f, "accept"
}

func fnArgs(n *sx.Node) []any {
	args := make([]any, 0, len(n.List)-1)
	for _, a := range n.List[1:] {
		if a.IsAtom("nil") {
			args = append(args, nil)
			continue
		}
		args = append(args, mkValue(a.List[1], a.List[2].Int()).Interface())
	}
	return args
}

func fnCall(f schema.CallableFunction, hasOut bool, args []any, rec *recorder) (obs *sx.Node) {
	defer func() {
		if r := recover(); r != nil {
			obs = sx.L(sx.A("r"), sx.A("panic"))
		}
	}()
	v, err := f.Call(args)
	if err != nil {
		obs = sx.L(sx.A("r"), sx.A("err"))
		var fce *schema.FunctionCallError
		switch {
		case !errors.As(err, &fce):
			obs.Append(sx.A("untyped"))
		case fce.IsFunctionReportedError:
			obs.Append(sx.A("reported"))
			// "the handler's own error": the reported error carries (or, for a handler error that
			// already is a *FunctionCallError flagged function-reported, is) the very value the
			// handler returned
			own := rec.returned != nil && (fce.SourceError == rec.returned || error(fce) == rec.returned)
			if shown := showHandlerErr(rec.returned); own && shown != nil && rec.calls == 1 {
				obs.Append(shown...).Append(rec.got)
			} else {
				obs.Append(sx.A("not-the-handlers-error"), sx.I(int64(rec.calls)))
			}
		default:
			obs.Append(sx.A("shape"))
			if rec.calls != 0 {
				obs.Append(sx.A("handler-ran"))
			}
		}
		if v != nil {
			obs.Append(sx.A("with-value"))
		}
		return obs
	}
	obs = sx.L(sx.A("r"), sx.A("ok"))
	if rec.calls != 1 {
		return obs.Append(sx.A("handler-calls"), sx.I(int64(rec.calls)))
	}
	if !hasOut {
		if v != nil {
			return obs.Append(sx.A("unexpected-value"))
		}
		return obs.Append(sx.A("none"))
	}
	return obs.Append(showValue(reflect.ValueOf(v)), rec.got)
}

// runFunctionWith executes one case with the handler produced by mk.
func runFunctionWith(p *sx.Node, mk func(k int64, e errKind, rec *recorder) any) *sx.Node {
	mode, decl := p.List[1].Atom, p.List[3]
	rec := &recorder{}
	switch p.Head() {
	case "accept":
		_, obs := fnConstruct(mode, decl, mk(0, 0, rec))
		return sx.L(sx.A("r"), sx.A(obs))
	case "call":
		beh := p.List[5]
		kind := errKind(beh.List[2].Int())
		if kind < 0 || kind > 3 {
			return sx.L(sx.A("bad"), sx.S("call"))
		}
		f, obs := fnConstruct(mode, decl, mk(beh.List[1].Int(), kind, rec))
		if f == nil {
			return sx.L(sx.A("r"), sx.A(obs))
		}
		hasOut := mode == "dynamic" || !decl.List[2].IsAtom("none")
		return fnCall(f, hasOut, fnArgs(p.List[4]), rec)
	}
	return sx.L(sx.A("bad"), sx.S("function case"))
}

func runFunction(p *sx.Node) (res *sx.Node) {
	defer func() {
		if r := recover(); r != nil {
			res = sx.L(sx.A("bad"), sx.S(fmt.Sprint(r)))
		}
	}()
	sig := p.List[2]
	res = runFunctionWith(p, func(k int64, e errKind, rec *recorder) any { return makeHandler(sig, k, e, rec) })
	if lit, ok := literalHandlers[sig.String()]; ok {
		res2 := runFunctionWith(p, lit)
		if res.String() != res2.String() {
			return sx.L(sx.A("bad"), sx.S("literal handler and MakeFunc handler differ"), res, res2)
		}
	}
	return res
}

// ---- generation ----

type fnSig struct {
	ins, outs []*sx.Node
	variadic  bool
}
type fnDecl struct {
	ins []*sx.Node
	out *sx.Node // nil = none
	err bool
}

func (s fnSig) sx() *sx.Node {
	return sx.L(sx.A("sig"), sx.L(s.ins...), sx.L(s.outs...), sx.B(s.variadic))
}
func (d fnDecl) sx() *sx.Node {
	out := sx.A("none")
	if d.out != nil {
		out = d.out
	}
	return sx.L(sx.A("decl"), sx.L(d.ins...), out, sx.B(d.err))
}

var (
	tyBool, tyI64, tyF64, tyStr, tyAny, tyErr = sx.A("bool"), sx.A("i64"), sx.A("f64"), sx.A("str"), sx.A("any"), sx.A("err")
	// the native types of the scalar, list, map and any schemas
	fnParamPool = []*sx.Node{tyI64, tyF64, tyStr, tyBool, tyAny, tSl(tyI64), tM(tyStr, tyAny)}
	fnWidePool  = []*sx.Node{tyI64, tyF64, tyStr, tyBool, tyAny, tSl(tyI64), tSl(tyAny), tSl(tSl(tyStr)),
		tM(tyStr, tyAny), tM(tyI64, tyStr), tM(tyStr, tSl(tyF64)), tSl(tM(tyStr, tyI64))}
)

func tyEq(a, b *sx.Node) bool { return a.String() == b.String() }

// a type different from t, deterministic
func otherType(t *sx.Node, i int) *sx.Node {
	for j := 0; j < len(fnParamPool); j++ {
		c := fnParamPool[(i+j)%len(fnParamPool)]
		if !tyEq(c, t) {
			return c
		}
	}
	return tyI64
}

// the declaration a signature was presumably written for
func derivedDecl(s fnSig) fnDecl {
	d := fnDecl{ins: s.ins}
	firstSchemable := func() *sx.Node {
		if len(s.outs) > 0 && schemable(s.outs[0]) {
			return s.outs[0]
		}
		return tyI64
	}
	switch len(s.outs) {
	case 0:
	case 1:
		if tyEq(s.outs[0], tyErr) {
			d.err = true
		} else {
			d.out = firstSchemable()
		}
	default:
		d.out, d.err = firstSchemable(), true
	}
	// a declared input must be a schema's type
	ins := make([]*sx.Node, len(d.ins))
	for i, t := range d.ins {
		if schemable(t) {
			ins[i] = t
		} else {
			ins[i] = tyAny
		}
	}
	d.ins = ins
	return d
}

// declarations that differ from d in exactly one place
func declMutants(d fnDecl, salt int) []fnDecl {
	var out []fnDecl
	cp := func() fnDecl {
		c := d
		c.ins = append([]*sx.Node(nil), d.ins...)
		return c
	}
	for i := range d.ins {
		c := cp()
		c.ins[i] = otherType(d.ins[i], salt+i)
		out = append(out, c)
	}
	if len(d.ins) > 0 {
		c := cp()
		c.ins = c.ins[:len(c.ins)-1]
		out = append(out, c)
	}
	c := cp()
	c.ins = append(c.ins, fnParamPool[salt%len(fnParamPool)])
	out = append(out, c)
	c = cp()
	c.err = !d.err
	out = append(out, c)
	c = cp()
	if d.out == nil {
		c.out = fnParamPool[(salt+1)%len(fnParamPool)]
	} else {
		c.out = nil
	}
	out = append(out, c)
	if d.out != nil {
		c = cp()
		c.out = otherType(d.out, salt+2)
		out = append(out, c)
	}
	return out
}

func tuples(pool []*sx.Node, n int) [][]*sx.Node {
	if n == 0 {
		return [][]*sx.Node{{}}
	}
	var out [][]*sx.Node
	for _, rest := range tuples(pool, n-1) {
		for _, t := range pool {
			out = append(out, append(append([]*sx.Node(nil), rest...), t))
		}
	}
	return out
}

// the result shapes of the matrix
func resultShapes() [][]*sx.Node {
	fake, myErr, other := tSt("error"), tSt("MyErr"), tSt("Other")
	shapes := [][]*sx.Node{{}, {tyErr}}
	for _, t := range []*sx.Node{tyI64, tyStr, tyAny, tSl(tyI64)} {
		shapes = append(shapes, []*sx.Node{t}, []*sx.Node{t, tyErr})
	}
	shapes = append(shapes,
		[]*sx.Node{tyI64, tyErr, tyI64}, // extra result
		[]*sx.Node{tyI64, tyI64, tyErr}, // extra result before the error
		[]*sx.Node{tyStr, tyStr},        // non-error last result
		[]*sx.Node{tyAny, tyAny},        // interface, but not error
		[]*sx.Node{tyErr, tyI64},        // wrong order
		[]*sx.Node{tyI64, fake},         // a struct NAMED error (D35)
		[]*sx.Node{tyAny, fake},         //   ... for the dynamic constructor
		[]*sx.Node{fake},                //   ... alone
		[]*sx.Node{tyI64, myErr},        // implements error, is not the interface
		[]*sx.Node{tyI64, other},
		[]*sx.Node{tyErr, tyErr}, // interface kind as the dynamic value result
		[]*sx.Node{other, tyErr},
	)
	return shapes
}

// result lists whose first two entries are what NewDynamicCallableFunction wants, or whose prefix
// is what NewCallableFunction wants, followed by extra results
func extraDynamicShapes() [][]*sx.Node {
	return [][]*sx.Node{
		{tyAny, tyErr, tyErr},
		{tyAny, tyErr, tyI64},
		{tyAny, tyErr, tyStr, tyI64},
		{tyErr, tyErr, tyErr},
		{tyAny, tyErr, tyAny, tyErr},
		{tyStr, tyErr, tyErr},
		{tyErr, tyErr, tyI64, tyErr},
	}
}

func isSliceTy(t *sx.Node) bool { return t.IsList() && t.Head() == "sl" }

// an argument of (dynamic) type t made from token k
func argOf(t *sx.Node, k int64) *sx.Node { return sx.L(sx.A("a"), t, sx.I(k)) }

// a concrete dynamic type for an argument passed to a parameter of type p
func concreteFor(p *sx.Node, i int) *sx.Node {
	if tyEq(p, tyAny) {
		return []*sx.Node{tyI64, tyStr, tSl(tyI64), tSt("Other"), tM(tyStr, tyAny)}[i%5]
	}
	if tyEq(p, tyErr) {
		return tSt("MyErr")
	}
	return p // composite types are dynamic types as they are (a []any stays a []any)
}

// a type whose values are NOT assignable to p (nil when there is none: p is any)
func wrongFor(p *sx.Node, i int) *sx.Node {
	if tyEq(p, tyAny) {
		return nil
	}
	cands := []*sx.Node{tyStr, tyI64, tSl(tyAny), tSt("Other"), tSt("error"), tM(tyI64, tyStr), tyF64, tSl(tyI64)}
	for j := range cands {
		c := cands[(i+j)%len(cands)]
		if !tyEq(c, p) {
			return c
		}
	}
	return nil
}

func argLists(ins []*sx.Node, salt int) [][]*sx.Node {
	good := make([]*sx.Node, len(ins))
	for i, p := range ins {
		good[i] = argOf(concreteFor(p, salt+i), int64(3+i))
	}
	out := [][]*sx.Node{good}
	with := func(i int, a *sx.Node) []*sx.Node {
		c := append([]*sx.Node(nil), good...)
		c[i] = a
		return c
	}
	for i, p := range ins {
		out = append(out, with(i, sx.A("nil")))
		if w := wrongFor(p, salt+i); w != nil {
			out = append(out, with(i, argOf(w, 9)))
		}
	}
	// every length 0..4 other than the declared one
	for n := 0; n <= 4; n++ {
		if n == len(ins) {
			continue
		}
		var l []*sx.Node
		for i := 0; i < n; i++ {
			if i < len(good) {
				l = append(l, good[i])
			} else if (salt+i)%3 == 0 {
				l = append(l, sx.A("nil"))
			} else {
				l = append(l, argOf(tyI64, int64(20+i)))
			}
		}
		out = append(out, l)
	}
	return out
}

func callCase(mode string, s fnSig, d fnDecl, args []*sx.Node, k int64, e bool) *sx.Node {
	kind := errKind(0)
	if e {
		kind = 1
	}
	return callCaseKind(mode, s, d, args, k, kind)
}

// callCaseKind: the handler returns the error value of the given kind (errKind)
func callCaseKind(mode string, s fnSig, d fnDecl, args []*sx.Node, k int64, kind errKind) *sx.Node {
	return sx.L(sx.A("call"), sx.A(mode), s.sx(), d.sx(), sx.L(sx.A("args")).Append(args...), sx.L(sx.A("beh"), sx.I(k), sx.I(int64(kind))))
}
func acceptCase(mode string, s fnSig, d fnDecl) *sx.Node {
	return sx.L(sx.A("accept"), sx.A(mode), s.sx(), d.sx())
}

func genRandomSig(r *Rng) fnSig {
	pool := append(append([]*sx.Node(nil), fnWidePool...), tyErr, tSt("Other"), tSt("error"), tSt("MyErr"))
	var s fnSig
	for i, n := 0, r.Intn(5); i < n; i++ {
		s.ins = append(s.ins, pick(r, pool))
	}
	switch r.Intn(6) {
	case 0:
	case 1:
		s.outs = []*sx.Node{tyErr}
	case 2:
		s.outs = []*sx.Node{pick(r, fnWidePool)}
	case 3, 4:
		s.outs = []*sx.Node{pick(r, fnWidePool), tyErr}
	default:
		for i, n := 0, r.Intn(4); i < n; i++ {
			s.outs = append(s.outs, pick(r, pool))
		}
	}
	if len(s.ins) > 0 && isSliceTy(s.ins[len(s.ins)-1]) && r.Chance(25) {
		s.variadic = true
	}
	return s
}

func genRandomArgs(r *Rng, ins []*sx.Node) []*sx.Node {
	n := len(ins)
	if r.Chance(25) {
		n = r.Intn(6)
	}
	var out []*sx.Node
	for i := 0; i < n; i++ {
		switch {
		case r.Chance(15):
			out = append(out, sx.A("nil"))
		case i < len(ins) && r.Chance(75):
			out = append(out, argOf(concreteFor(ins[i], r.Intn(5)), int64(r.Intn(50))))
		default:
			t := pick(r, append(append([]*sx.Node(nil), fnWidePool...), tSt("Other"), tSt("error"), tSt("MyErr")))
			if tyEq(t, tyAny) {
				t = tyI64
			}
			out = append(out, argOf(t, int64(r.Intn(50))))
		}
	}
	return out
}

func init() {
	families["function"] = &Family{
		Gen: func(r *Rng, tier string, emit func(*sx.Node)) {
			shapes := resultShapes()
			salt := 0
			// (0) the earlier defects first: D35, D38 (both flavours), D39, a wrongly typed argument
			fake := tSt("error")
			d35 := fnSig{outs: []*sx.Node{tyI64, fake}}
			emit(acceptCase("static", d35, fnDecl{out: tyI64, err: true}))
			emit(callCase("static", d35, fnDecl{out: tyI64, err: true}, nil, 5, false))
			emit(acceptCase("dynamic", fnSig{outs: []*sx.Node{tyAny, fake}}, fnDecl{}))
			for _, el := range []*sx.Node{tyI64, tyAny} {
				d38 := fnSig{ins: []*sx.Node{tSl(el)}, outs: []*sx.Node{tyI64}, variadic: true}
				emit(acceptCase("static", d38, fnDecl{ins: d38.ins, out: tyI64}))
				emit(callCase("static", d38, fnDecl{ins: d38.ins, out: tyI64}, []*sx.Node{argOf(tSl(el), 1)}, 5, false))
			}
			d39 := fnSig{ins: []*sx.Node{tyAny}, outs: []*sx.Node{tyAny, tyErr}}
			emit(callCase("static", d39, fnDecl{ins: d39.ins, out: tyAny, err: true}, []*sx.Node{sx.A("nil")}, 5, false))
			emit(callCase("dynamic", d39, fnDecl{ins: d39.ins}, []*sx.Node{sx.A("nil")}, 5, true))
			wt := fnSig{ins: []*sx.Node{tyI64}}
			emit(callCase("static", wt, fnDecl{ins: wt.ins}, []*sx.Node{argOf(tyStr, 1)}, 5, false))
			emit(callCase("static", wt, fnDecl{ins: wt.ins}, []*sx.Node{sx.A("nil")}, 5, false))
			// a handler whose error value already is a *FunctionCallError (flag false / true): still the
			// handler's error, hence function-reported
			for _, kind := range []errKind{2, 3} {
				emit(callCaseKind("static", fnSig{outs: []*sx.Node{tyErr}}, fnDecl{err: true}, nil, 5, kind))
				he := fnSig{ins: []*sx.Node{tyI64}, outs: []*sx.Node{tyI64, tyErr}}
				emit(callCaseKind("static", he, fnDecl{ins: he.ins, out: tyI64, err: true}, []*sx.Node{argOf(tyI64, 1)}, 5, kind))
				emit(callCaseKind("dynamic", d39, fnDecl{ins: d39.ins}, []*sx.Node{argOf(tyStr, 1)}, 5, kind))
			}
			// dynamic handlers with results AFTER (any, error)
			for _, outs := range extraDynamicShapes() {
				xs := fnSig{outs: outs}
				emit(acceptCase("dynamic", xs, fnDecl{}))
				emit(callCase("dynamic", xs, fnDecl{}, nil, 5, false))
			}

			// (1) acceptance: every parameter tuple of length 0..3 (thorough: 0..4) x every result shape (+ the
			// variadic variant when the last parameter is a slice) x the declaration it was
			// written for and every declaration differing from that in exactly one place, for
			// both constructors
			maxAccept := 3
			if tier == "thorough" {
				maxAccept = 4
			}
			for n := 0; n <= maxAccept; n++ {
				for _, ins := range tuples(fnParamPool, n) {
					for _, outs := range shapes {
						salt++
						vs := []bool{false}
						if n > 0 && isSliceTy(ins[n-1]) {
							vs = append(vs, true)
						}
						for _, v := range vs {
							s := fnSig{ins: ins, outs: outs, variadic: v}
							d := derivedDecl(s)
							emit(acceptCase("static", s, d))
							emit(acceptCase("dynamic", s, d))
							for i, m := range declMutants(d, salt) {
								emit(acceptCase("static", s, m))
								if i < len(d.ins)+2 { // only the input part matters to the dynamic constructor
									emit(acceptCase("dynamic", s, m))
								}
							}
						}
					}
				}
			}

			// (1b) result lists that EXTEND an accepted one: (I, error) of the dynamic constructor followed by
			// one or two more results, and the static (T, error) / (error) followed by more - for every
			// parameter tuple of length 0..2, the declaration written for the prefix and its one-place mutants
			for n := 0; n <= 2; n++ {
				for _, ins := range tuples(fnParamPool, n) {
					for _, outs := range extraDynamicShapes() {
						salt++
						s := fnSig{ins: ins, outs: outs}
						d := derivedDecl(s)
						emit(acceptCase("static", s, d))
						emit(acceptCase("dynamic", s, d))
						for i, m := range declMutants(d, salt) {
							emit(acceptCase("static", s, m))
							if i < len(d.ins)+2 {
								emit(acceptCase("dynamic", s, m))
							}
						}
						good := argLists(ins, salt)[0]
						emit(callCase("dynamic", s, d, good, int64(7+salt%5), false))
						emit(callCase("dynamic", s, d, good, int64(7+salt%5), true))
					}
				}
			}

			// (2) calls: every parameter tuple of length 0..3 x the accepted result shapes x
			// {the declared arguments, nil at each position, a wrong type at each position,
			//  every other length 0..4} x {nil error, non-nil error}; also through handlers
			// that only the defective constructors accept (struct named error, variadic)
			type callShape struct {
				mode string
				outs []*sx.Node
				out  *sx.Node
				err  bool
			}
			callShapes := []callShape{
				{"static", nil, nil, false},
				{"static", []*sx.Node{tyI64}, tyI64, false},
				{"static", []*sx.Node{tyErr}, nil, true},
				{"static", []*sx.Node{tyStr, tyErr}, tyStr, true},
				{"static", []*sx.Node{tM(tyStr, tyAny), tyErr}, tM(tyStr, tyAny), true},
				{"dynamic", []*sx.Node{tyAny, tyErr}, nil, true},
				{"dynamic", []*sx.Node{tyErr, tyErr}, nil, true},
				{"static", []*sx.Node{tyI64, fake}, tyI64, true},
			}
			for n := 0; n <= 3; n++ {
				for _, ins := range tuples(fnParamPool, n) {
					for ci, cs := range callShapes {
						salt++
						vs := []bool{false}
						if n > 0 && isSliceTy(ins[n-1]) && ci < 2 {
							vs = append(vs, true)
						}
						for _, v := range vs {
							s := fnSig{ins: ins, outs: cs.outs, variadic: v}
							d := fnDecl{ins: ins, out: cs.out, err: cs.err}
							lists := argLists(ins, salt)
							if v || ci == len(callShapes)-1 {
								// handlers only a defective constructor accepts: the declared arguments,
								// one nil and one other list are enough
								lists = lists[:min(3, len(lists))]
							}
							for _, args := range lists {
								emit(callCase(cs.mode, s, d, args, int64(7+salt%5), false))
								if cs.err {
									emit(callCase(cs.mode, s, d, args, int64(7+salt%5), true))
								}
							}
							if cs.err && !v && ci != len(callShapes)-1 {
								// the handler-behaviour dimension "kind of error value": an error that already is a
								// *FunctionCallError (flag false / true), with the declared arguments and with one
								// mis-shaped list (the handler must not even run)
								for li, args := range lists {
									if li == 0 || li == len(lists)-1 {
										emit(callCaseKind(cs.mode, s, d, args, int64(7+salt%5), 2))
										emit(callCaseKind(cs.mode, s, d, args, int64(7+salt%5), 3))
									}
								}
							}
						}
					}
				}
			}

			// (3) random signatures (nested types, 0..4 parameters, 0..3 results), declarations
			// (the one written for the signature, a one-place mutant, or unrelated) and
			// argument lists of length 0..5
			nRand := 10000
			if tier == "thorough" {
				nRand = 200000
			}
			for i := 0; i < nRand; i++ {
				s := genRandomSig(r)
				d := derivedDecl(s)
				switch r.Intn(4) {
				case 0:
					ms := declMutants(d, r.Intn(7))
					d = ms[r.Intn(len(ms))]
				case 1:
					d = derivedDecl(genRandomSig(r))
				}
				mode := pick(r, []string{"static", "static", "dynamic"})
				if r.Chance(35) {
					emit(acceptCase(mode, s, d))
				} else {
					emit(callCaseKind(mode, s, d, genRandomArgs(r, s.ins), int64(r.Intn(100)), pick(r, []errKind{0, 0, 0, 1, 1, 2, 2, 3})))
				}
			}
		},
		Run: runFunction,
	}
}
