package main

import (
	"fmt"
	"regexp"

	"go.flow.arcalot.io/pluginsdk/schema"
	"verif/harness/sx"
)

// Families of property C01:
//
//   c01typed    (label "c01typed", interpreted by the model as an ordinary schema case): the ops of a schema case are executed through the TYPED entry
//               points (UnserializeType / ValidateType / SerializeType, called through generic helpers) of
//               a schema built with the typed constructors; each typed result is compared with the untyped
//               call on the same instance: equal -> the ordinary observation is printed (and compared with
//               the model of the untyped operation), different -> (typed-differs TYPED UNTYPED).
//   c01typedobj (label "c01typedobj"): the same for NewTypedObject[T] / NewTypedScopeSchema[T] over fixed Go
//               struct types; struct-mapped objects are not in Schema/Ops.v, so this family is judged on the
//               implementation alone (typed == untyped, no panic).
//   c01rt       (label "schema"): round-trip cases with a high accept rate: every accepted raw value is
//               re-expressed in every decoder representation (all int/uint widths, float32/64, numeric
//               strings; map[string]any / map[any]any / typed maps and slices).

type typedCalls struct {
	u func(v any) (any, error)
	v func(v any) (error, bool) // false: the value is not a T, the typed call cannot be written
	s func(v any) (any, error, bool)
}

func mkTyped[T any](s schema.TypedType[T]) typedCalls {
	return typedCalls{
		u: func(v any) (any, error) {
			r, err := s.UnserializeType(v)
			if err != nil {
				return nil, err
			}
			return r, nil
		},
		v: func(v any) (error, bool) {
			t, ok := v.(T)
			if !ok {
				return nil, false
			}
			return s.ValidateType(t), true
		},
		s: func(v any) (any, error, bool) {
			t, ok := v.(T)
			if !ok {
				return nil, nil, false
			}
			r, err := s.SerializeType(t)
			return r, err, true
		},
	}
}

// the typed string enum over a named string type: written without the TypedType[T] interface so that the
// harness also builds against a tree in which UnserializeType still returns string
func mkTypedEnum(s *schema.TypedStringEnumSchema[MyStr]) typedCalls {
	return typedCalls{
		u: func(v any) (any, error) {
			r, err := s.UnserializeType(v)
			if err != nil {
				return nil, err
			}
			return any(r), nil
		},
		v: func(v any) (error, bool) {
			t, ok := v.(MyStr)
			if !ok {
				return nil, false
			}
			return s.ValidateType(t), true
		},
		s: func(v any) (any, error, bool) {
			t, ok := v.(MyStr)
			if !ok {
				return nil, nil, false
			}
			r, err := s.SerializeType(t)
			return r, err, true
		},
	}
}

// buildTyped builds the schema of a descriptor with the typed constructors, for the shapes that have one.
func buildTyped(n *sx.Node) (schema.Type, *typedCalls) {
	ret := func(s schema.Type, c typedCalls) (schema.Type, *typedCalls) { return s, &c }
	if !n.IsList() {
		switch n.Atom {
		case "bool":
			s := schema.NewBoolSchema()
			return ret(s, mkTyped[bool](s))
		case "pattern":
			s := schema.NewPatternSchema()
			return ret(s, mkTyped[*regexp.Regexp](s))
		}
		return nil, nil
	}
	switch n.Head() {
	case "int":
		s := schema.NewIntSchema(optInt(n.List[1]), optInt(n.List[2]), optUnits(n.List[3]))
		return ret(s, mkTyped[int64](s))
	case "float":
		s := schema.NewFloatSchema(optFloat(n.List[1]), optFloat(n.List[2]), optUnits(n.List[3]))
		return ret(s, mkTyped[float64](s))
	case "string":
		s := buildSchema(n).(*schema.StringSchema)
		return ret(s, mkTyped[string](s))
	case "enum_int":
		s := buildSchema(n).(*schema.IntEnumSchema)
		return ret(s, mkTyped[int64](s))
	case "enum_str":
		if isNone(n.List[1]) {
			s := buildSchema(n).(*schema.StringEnumSchema)
			return ret(s, mkTyped[string](s))
		}
		s := buildSchema(n).(*schema.TypedStringEnumSchema[MyStr])
		return ret(s, mkTypedEnum(s))
	case "list":
		it := n.List[1]
		mn, mx := optInt(n.List[2]), optInt(n.List[3])
		switch it.Head() {
		case "int":
			s := schema.NewTypedListSchema[int64](schema.NewIntSchema(optInt(it.List[1]), optInt(it.List[2]), optUnits(it.List[3])), mn, mx)
			return ret(s, mkTyped[[]int64](s))
		case "float":
			s := schema.NewTypedListSchema[float64](schema.NewFloatSchema(optFloat(it.List[1]), optFloat(it.List[2]), optUnits(it.List[3])), mn, mx)
			return ret(s, mkTyped[[]float64](s))
		case "string":
			s := schema.NewTypedListSchema[string](buildSchema(it).(*schema.StringSchema), mn, mx)
			return ret(s, mkTyped[[]string](s))
		case "list":
			if it.List[1].Head() == "int" {
				in := it.List[1]
				inner := schema.NewTypedListSchema[int64](schema.NewIntSchema(optInt(in.List[1]), optInt(in.List[2]), optUnits(in.List[3])), optInt(it.List[2]), optInt(it.List[3]))
				s := schema.NewTypedListSchema[[]int64](inner, mn, mx)
				return ret(s, mkTyped[[][]int64](s))
			}
		}
		if !it.IsList() && it.Atom == "bool" {
			s := schema.NewTypedListSchema[bool](schema.NewBoolSchema(), mn, mx)
			return ret(s, mkTyped[[]bool](s))
		}
	case "map":
		k, v := n.List[1], n.List[2]
		mn, mx := optInt(n.List[3]), optInt(n.List[4])
		switch {
		case k.Head() == "string" && v.Head() == "int":
			s := schema.NewTypedMapSchema[string, int64](buildSchema(k).(*schema.StringSchema), buildSchema(v).(*schema.IntSchema), mn, mx)
			return ret(s, mkTyped[map[string]int64](s))
		case k.Head() == "int" && v.Head() == "string":
			s := schema.NewTypedMapSchema[int64, string](buildSchema(k).(*schema.IntSchema), buildSchema(v).(*schema.StringSchema), mn, mx)
			return ret(s, mkTyped[map[int64]string](s))
		case k.Head() == "enum_str" && isNone(k.List[1]) && v.Head() == "float":
			s := schema.NewTypedMapSchema[string, float64](buildSchema(k).(*schema.StringEnumSchema), buildSchema(v).(*schema.FloatSchema), mn, mx)
			return ret(s, mkTyped[map[string]float64](s))
		case k.Head() == "string" && v.Head() == "list" && v.List[1].Head() == "int":
			in := v.List[1]
			vs := schema.NewTypedListSchema[int64](schema.NewIntSchema(optInt(in.List[1]), optInt(in.List[2]), optUnits(in.List[3])), optInt(v.List[2]), optInt(v.List[3]))
			s := schema.NewTypedMapSchema[string, []int64](buildSchema(k).(*schema.StringSchema), vs, mn, mx)
			return ret(s, mkTyped[map[string][]int64](s))
		}
	case "oneof":
		if n.List[1].Atom == "1" {
			s := buildSchema(n).(*schema.OneOfSchema[int64])
			return ret(s, mkTyped[any](s))
		}
		s := buildSchema(n).(*schema.OneOfSchema[string])
		return ret(s, mkTyped[any](s))
	}
	return nil, nil
}

// typedObs merges the typed and the untyped observation of one call
func typedObs(typed, untyped *sx.Node) *sx.Node {
	if typed.String() == untyped.String() {
		return typed
	}
	return sx.L(sx.A("typed-differs"), typed, untyped)
}

func runTypedOps(s schema.Type, c *typedCalls, ops []*sx.Node) *sx.Node {
	res := sx.L(sx.A("r"))
	for _, op := range ops {
		v := valFromSx(op.List[1])
		switch op.Head() {
		case "u":
			un, _, _ := obsUnser(s, v)
			ty := outcomeSx(func() (*sx.Node, error) {
				r, err := c.u(v)
				if err != nil {
					return nil, err
				}
				return valSx(r), nil
			})
			res.Append(typedObs(ty, un))
		case "v":
			un := obsValidate(s, v)
			expressible := true
			ty := outcomeSx(func() (*sx.Node, error) {
				err, ok := c.v(v)
				expressible = ok
				return unit(), err
			})
			if !expressible {
				ty = un
			}
			res.Append(typedObs(ty, un))
		case "s":
			un, _, _ := obsSerialize(s, v)
			expressible := true
			ty := outcomeSx(func() (*sx.Node, error) {
				r, err, ok := c.s(v)
				expressible = ok
				if err != nil || !ok {
					return nil, err
				}
				return valSx(r), nil
			})
			if !expressible {
				ty = un
			}
			res.Append(typedObs(ty, un))
		default:
			res.Append(sx.L(sx.A("bad"), sx.S("op")))
		}
	}
	return res
}

func runTypedCase(p *sx.Node) *sx.Node {
	var s schema.Type
	var c *typedCalls
	built := outcomeSx(func() (*sx.Node, error) {
		s, c = buildTyped(p.List[2])
		return unit(), nil
	})
	if s == nil || c == nil {
		return sx.L(sx.A("build-failed"), built)
	}
	return runTypedOps(s, c, p.List[3].List[1:])
}

// ---- typed objects over fixed struct types (implementation-only) ----

type TObj struct {
	A int64   `json:"a"`
	B *string `json:"b"`
	C []int64 `json:"c"`
}
type TOuter struct {
	Name  string `json:"name"`
	Inner TObj   `json:"inner"`
	Ptr   *TObj  `json:"ptr"`
	Kind  MyStr  `json:"kind"`
}

func tobjProps() map[string]*schema.PropertySchema {
	return map[string]*schema.PropertySchema{
		"a": schema.NewPropertySchema(schema.NewIntSchema(nil, nil, nil), nil, true, nil, nil, nil, nil, nil),
		"b": schema.NewPropertySchema(schema.NewStringSchema(nil, nil, nil), nil, false, nil, nil, nil, nil, nil),
		"c": schema.NewPropertySchema(schema.NewListSchema(schema.NewIntSchema(nil, nil, nil), nil, nil), nil, false, nil, nil, nil, nil, nil),
	}
}
func touterProps() map[string]*schema.PropertySchema {
	return map[string]*schema.PropertySchema{
		"name":  schema.NewPropertySchema(schema.NewStringSchema(nil, nil, nil), nil, true, nil, nil, nil, nil, nil),
		"inner": schema.NewPropertySchema(schema.NewRefSchema("TObj", nil), nil, true, nil, nil, nil, nil, nil),
		"ptr":   schema.NewPropertySchema(schema.NewRefSchema("TObj", nil), nil, false, nil, nil, nil, nil, nil),
		"kind": schema.NewPropertySchema(schema.NewTypedStringEnumSchema[MyStr](map[MyStr]*schema.DisplayValue{"x": nil, "y": nil}), nil, false, nil, nil, nil,
			sp(`"x"`), nil),
	}
}

func buildTypedObj(kind string) (schema.Type, *typedCalls) {
	ret := func(s schema.Type, c typedCalls) (schema.Type, *typedCalls) { return s, &c }
	switch kind {
	case "obj":
		s := schema.NewTypedObject[TObj]("TObj", tobjProps())
		return ret(s, mkTyped[TObj](s))
	case "objptr":
		s := schema.NewTypedObject[*TObj]("TObj", tobjProps())
		return ret(s, mkTyped[*TObj](s))
	case "scope":
		s := schema.NewTypedScopeSchema[TOuter](schema.NewStructMappedObjectSchema[TOuter]("TOuter", touterProps()), schema.NewStructMappedObjectSchema[TObj]("TObj", tobjProps()))
		return ret(s, mkTyped[TOuter](s))
	case "scopeptr":
		s := schema.NewTypedScopeSchema[*TOuter](schema.NewStructMappedObjectSchema[*TOuter]("TOuter", touterProps()), schema.NewStructMappedObjectSchema[TObj]("TObj", tobjProps()))
		return ret(s, mkTyped[*TOuter](s))
	}
	return nil, nil
}

// ---- representation variants of a raw value ----

// reprVariant re-expresses every integer leaf of v in representation j (0..12: the ten int kinds, float64,
// float32, decimal string) when it fits, and flips untyped map types with the parity of j.
func reprVariant(v *sx.Node, j int) *sx.Node {
	if !v.IsList() {
		return v
	}
	switch v.Head() {
	case "i":
		if v.List[1].IsList() || v.List[1].Atom != "i64" {
			return v
		}
		z := v.List[2].Int()
		rs := intReprs(z)
		want := ""
		switch {
		case j < 10:
			want = intKinds[j]
		case j == 10:
			want = "f64"
		case j == 11:
			want = "f32"
		default:
			want = "str"
		}
		for _, r := range rs {
			if r.List[1].String() == want {
				return r
			}
		}
		return v
	case "sl":
		out := sx.L(v.List[0], v.List[1], v.List[2])
		for _, x := range v.List[3:] {
			out.Append(reprVariant(x, j))
		}
		return out
	case "m":
		t := v.List[1]
		allStr := true
		for _, e := range v.List[3:] {
			if e.List[0].Head() != "s" || e.List[0].List[1].String() != "str" {
				allStr = false
			}
		}
		if t.String() == tAnyMap.String() && allStr && j%2 == 1 {
			t = tStrMap
		} else if t.String() == tStrMap.String() && j%2 == 0 {
			t = tAnyMap
		}
		out := sx.L(v.List[0], t, v.List[2])
		for _, e := range v.List[3:] {
			k := e.List[0]
			if t.String() == tAnyMap.String() {
				k = reprVariant(k, j)
			}
			out.Append(sx.L(k, reprVariant(e.List[1], j)))
		}
		return out
	}
	return v
}

func init() {
	typedSchemas := func(r *Rng) []*sx.Node {
		secs := unitsFromSDK(schema.UnitDurationSeconds)
		return []*sx.Node{
			dInt(nil, nil, nil), dInt(ip(-5), ip(50), nil), dInt(ip(0), nil, &secs), dFloat(nil, nil, nil), dFloat(fp(-1.5), fp(100), nil),
			dString(nil, nil, nil), dString(ip(1), ip(5), nil), dString(nil, nil, patternPool[0]), dBool(), dPattern(),
			dEnumInt([]int64{1, 2, 60}, nil), dEnumStr(nil, []string{"x", "y", "zed"}), dEnumStr(sp("MyStr"), []string{"x", "y", "zed"}),
			dList(dInt(ip(0), ip(60), nil), nil, ip(3)), dList(dFloat(nil, nil, nil), nil, nil), dList(dString(nil, ip(4), nil), ip(1), nil), dList(dBool(), nil, nil),
			dList(dList(dInt(nil, nil, nil), nil, ip(2)), nil, ip(3)),
			dMap(dString(ip(1), nil, nil), dInt(nil, nil, nil), nil, ip(4)), dMap(dInt(nil, nil, nil), dString(nil, nil, nil), nil, nil),
			dMap(dEnumStr(nil, []string{"x", "y", "zed"}), dFloat(nil, nil, nil), nil, nil), dMap(dString(nil, nil, nil), dList(dInt(nil, nil, nil), nil, nil), nil, nil),
			dOneOf(true, "kind", false, memberD{ikey: 1, t: dObject("A", false, propD{name: "p", t: dInt(nil, nil, nil), required: true})}, memberD{ikey: 2, t: dObject("B", false, propD{name: "q", t: dString(nil, nil, nil)})}),
			dOneOf(false, "kind", true, memberD{skey: "A", t: dObject("A", false, propD{name: "p", t: dInt(nil, nil, nil)}, propD{name: "kind", t: dString(nil, nil, nil), required: true})}),
		}
	}
	families["c01typed"] = &Family{
		Label: "c01typed",
		Gen: withProfile(genProfile{edgeInts: true, utf8Strings: true, unitEdges: true}, func(r *Rng, tier string, emit func(*sx.Node)) {
			rounds := 20
			if tier == "thorough" {
				rounds = 200
			}
			for _, s := range typedSchemas(r) {
				real, _ := buildTyped(s)
				for k := 0; k < rounds; k++ {
					var ops []*sx.Node
					for j := 0; j < 6; j++ {
						v := rawFor(r, s, scopeCtx{}, 3)
						if r.Chance(50) {
							v = reprVariant(v, r.Intn(13))
						}
						ops = append(ops, op("u", v))
						// the native value the SDK itself returns, back through ValidateType / SerializeType
						if real != nil {
							if n, err := real.Unserialize(valFromSx(v)); err == nil {
								ns := valSx(n)
								ops = append(ops, op("v", ns), op("s", ns))
							}
						}
						if r.Chance(40) {
							m := mutate(r, v)
							ops = append(ops, op("u", m), op("v", m), op("s", m))
						}
					}
					emit(schCase(nil, s, ops...))
				}
			}
		}),
		Run: runTypedCase,
	}
	families["c01typedobj"] = &Family{
		Label: "c01typedobj",
		Gen: func(r *Rng, tier string, emit func(*sx.Node)) {
			rounds := 40
			if tier == "thorough" {
				rounds = 400
			}
			inner := func() *sx.Node {
				kv := []*sx.Node{vS("a"), pickRepr(r, int64(r.Intn(100)))}
				if r.Bool() {
					kv = append(kv, vS("b"), vS("txt"))
				}
				if r.Bool() {
					kv = append(kv, vS("c"), vSl(tAnySlice, vI("i64", 1), vU("u64", 2)))
				}
				mt := tStrMap
				if r.Bool() {
					mt = tAnyMap
				}
				return vM(mt, kv...)
			}
			for _, kind := range []string{"obj", "objptr", "scope", "scopeptr"} {
				for k := 0; k < rounds; k++ {
					var ops []*sx.Node
					for j := 0; j < 5; j++ {
						var v *sx.Node
						if kind == "obj" || kind == "objptr" {
							v = inner()
						} else {
							kv := []*sx.Node{vS("name"), vS(fmt.Sprintf("n%d", r.Intn(9))), vS("inner"), inner()}
							if r.Bool() {
								kv = append(kv, vS("ptr"), inner())
							}
							if r.Bool() {
								kv = append(kv, vS("kind"), vS(pick(r, []string{"x", "y"})))
							}
							v = vM(tAnyMap, kv...)
						}
						if r.Chance(25) {
							v = mutate(r, v)
						}
						ops = append(ops, op("u", v))
					}
					emit(sx.L(sx.A("tobj"), sx.A(kind), sx.L(sx.A("ops")).Append(ops...)))
				}
			}
		},
		Run: func(p *sx.Node) *sx.Node {
			s, c := buildTypedObj(p.List[1].Atom)
			if s == nil {
				return sx.L(sx.A("bad"), sx.S("kind"))
			}
			res := sx.L(sx.A("r"))
			for _, o := range p.List[2].List[1:] {
				v := valFromSx(o.List[1])
				un, n, ok := obsUnser(s, v)
				ty := outcomeSx(func() (*sx.Node, error) {
					r, err := c.u(v)
					if err != nil {
						return nil, err
					}
					return valSx(r), nil
				})
				same := func(a, b *sx.Node) *sx.Node {
					if a.String() == b.String() {
						if a.Head() == "ok" {
							return sx.A("same-ok")
						}
						return sx.A("same-" + a.Head() + a.Atom)
					}
					return sx.L(sx.A("typed-differs"), a, b)
				}
				res.Append(same(ty, un))
				if ok {
					// the native value back through ValidateType / SerializeType
					uv := obsValidate(s, n)
					tv := outcomeSx(func() (*sx.Node, error) { err, _ := c.v(n); return unit(), err })
					res.Append(same(tv, uv))
					us, _, _ := obsSerialize(s, n)
					ts := outcomeSx(func() (*sx.Node, error) {
						r, err, _ := c.s(n)
						if err != nil {
							return nil, err
						}
						return valSx(r), nil
					})
					res.Append(same(ts, us))
				}
			}
			return res
		},
	}
	families["c01rt"] = &Family{
		Label: "schema",
		Gen: withProfile(genProfile{edgeInts: true, utf8Strings: true, unitEdges: true, anyDeep: true, anyDirty: true, oneofRich: true}, func(r *Rng, tier string, emit func(*sx.Node)) {
			n := 1200
			if tier == "thorough" {
				n = 12000
			}
			for i := 0; i < n; i++ {
				g := &sgen{r: r}
				depth := 1 + r.Intn(3)
				var s *sx.Node
				var sc scopeCtx
				if r.Chance(70) {
					s = g.scope(depth)
					if r.Chance(15) {
						// a one-of directly under the root object (members: generated objects and references into the scope)
						root := s.List[1].List[0].List[1]
						root.List[3].Append(propD{name: "uo", t: g.oneof(1), required: r.Bool()}.sx())
					}
					sc = scopeTable(s)
				} else {
					s = g.typ(depth)
					sc = scopeCtx{}
				}
				real := func() (t schema.Type) {
					defer func() { _ = recover() }()
					return buildWithEnv(mkEnv(nil, s, nil), s)
				}()
				var ops []*sx.Node
				for j := 0; j < 4; j++ {
					v := rawFor(r, s, sc, depth+1)
					// keep looking for a value the schema accepts, so that the chain is exercised
					if real != nil {
						for try := 0; try < 6; try++ {
							ok := func() (ok bool) {
								defer func() { _ = recover() }()
								_, err := real.Unserialize(valFromSx(v))
								return err == nil
							}()
							if ok {
								break
							}
							v = rawFor(r, s, sc, depth+1)
						}
					}
					ops = append(ops, op("rt", v))
					for _, k := range []int{r.Intn(13), r.Intn(13), 10 + r.Intn(3)} {
						w := reprVariant(v, k)
						if w.String() != v.String() {
							ops = append(ops, op("rt", w))
						}
					}
				}
				emit(schCase(nil, s, ops...))
			}
		}),
		Run: runSchemaCase,
	}
}
