package main

// C13 — schemas are safe for concurrent use from their very first use.  Family c13race: one TRIAL
// per case, executed by the harness binary built with -race (lib/props_c13.py builds it and runs
// the trials in batches, a fresh process per batch so that first-use paths of the package-level
// unit definitions are raced too).  A trial builds an instance that nobody has used yet (fresh from
// the constructors, or freshly rebuilt: SelfSerialize -> UnserializeSchema), computes the result of
// every operation IN ISOLATION on separately built instances, then releases 2..16 goroutines
// together, each running all operations (rotated) on the one shared instance, and compares.
//
//   (race ID schema fresh|rebuilt NG SCOPE (ops (u V)|(v V)|(s V)|(c V) ...))
//   (race ID units  (pkg NAME)|(new UNITS) NG (ops (pi "s")|(pf "s")|(fsi N)|(fli N)|(fsf F)|(flf F) ...))
//   (race ID steps  NG PLUGIN (calls ...))                 the c11steps plugin and call syntax
//   (race ID errs|structs|xstruct ...), the (cs) operation                 see c13_race2.go
//   (race ID lazy unlinked NG OBJECT (ops (gd fwd|rev)|(u V)|...))         see c13_race3.go
//   (race ID loads mixed NG (insts ...) (ops (ld scope|schema V)|(on I OP)...))   see c13_race4.go
//   observation: (t ID same N) | (t ID (diff (G I GOT WANT)...)) ; stderr carries "@@trial ID" /
//   "@@end ID" markers around the race detector's reports.

import (
	"fmt"
	"os"
	"sync"

	"go.flow.arcalot.io/pluginsdk/schema"
	"verif/harness/sx"
)

var c13PkgUnits = map[string]*schema.UnitsDefinition{
	"bytes": schema.UnitBytes, "nanoseconds": schema.UnitDurationNanoseconds, "seconds": schema.UnitDurationSeconds,
	"characters": schema.UnitCharacters, "percent": schema.UnitPercentage,
}

// c13Rebuild: SelfSerialize -> UnserializeSchema, the way a client receives a plugin's schema.
func c13Rebuild(sc *schema.ScopeSchema, out *schema.ScopeSchema) (res schema.Scope) {
	defer func() {
		if recover() != nil {
			res = nil
		}
	}()
	st := schema.NewStepSchema("s", sc, map[string]*schema.StepOutputSchema{
		"o": schema.NewStepOutputSchema(out, schema.NewDisplayValue(sp("o"), nil, nil), false)}, nil, nil,
		schema.NewDisplayValue(sp("s"), nil, nil))
	ser, err := schema.NewSchema(map[string]*schema.StepSchema{"s": st}).SelfSerialize()
	if err != nil {
		return nil
	}
	rs, err := schema.UnserializeSchema(ser)
	if err != nil {
		return nil
	}
	return rs.Steps()["s"].Input()
}

func c13Rebuildable(desc *sx.Node) (ok bool) {
	defer func() {
		if recover() != nil {
			ok = false
		}
	}()
	return c13Rebuild(buildScope(desc), buildScope(desc)) != nil
}

// c13Out: an outcome projected to what does not depend on Go's map iteration order: the value
// for success, the bare fact for an error (with several faults the first one found varies).
func c13Out(f func() (*sx.Node, error)) (res string) {
	defer func() {
		if r := recover(); r != nil {
			res = "panic"
		}
	}()
	v, err := f()
	if err != nil {
		return "err"
	}
	return "(ok " + v.String() + ")"
}

func c13SchemaOp(s schema.Type, partner schema.Type, op *sx.Node) string {
	if op.Head() == "cs" {
		// a THIRD PARTY's read-only use of s: another instance checks its compatibility against s
		return c13Out(func() (*sx.Node, error) { return unit(), partner.ValidateCompatibility(s) })
	}
	v := valFromSx(op.List[1])
	switch op.Head() {
	case "u":
		return c13Out(func() (*sx.Node, error) {
			r, err := s.Unserialize(v)
			if err != nil {
				return nil, err
			}
			return valSx(r), nil
		})
	case "v":
		return c13Out(func() (*sx.Node, error) { return unit(), s.Validate(v) })
	case "s":
		return c13Out(func() (*sx.Node, error) {
			r, err := s.Serialize(v)
			if err != nil {
				return nil, err
			}
			return valSx(r), nil
		})
	case "c":
		return c13Out(func() (*sx.Node, error) { return unit(), s.ValidateCompatibility(v) })
	}
	return "bad-op"
}

func c13UnitsOp(u *schema.UnitsDefinition, op *sx.Node) string {
	switch op.Head() {
	case "pi":
		return c13Out(func() (*sx.Node, error) {
			r, err := u.ParseInt(op.List[1].Str)
			return sx.I(r), err
		})
	case "pf":
		return c13Out(func() (*sx.Node, error) {
			r, err := u.ParseFloat(op.List[1].Str)
			return flSx(r), err
		})
	case "fsi":
		return c13Out(func() (*sx.Node, error) { return sx.S(u.FormatShortInt(op.List[1].Int())), nil })
	case "fli":
		return c13Out(func() (*sx.Node, error) { return sx.S(u.FormatLongInt(op.List[1].Int())), nil })
	case "fsf":
		return c13Out(func() (*sx.Node, error) { return sx.S(u.FormatShortFloat(flFromSx(op.List[1]))), nil })
	case "flf":
		return c13Out(func() (*sx.Node, error) { return sx.S(u.FormatLongFloat(flFromSx(op.List[1]))), nil })
	}
	return "bad-op"
}

// c13Race runs ops on the shared instance from ng goroutines released together; goroutine g starts
// at operation g (rotation), so different first uses meet.  want[i] is the set of isolated results.
func c13Race(id string, ng int, nops int, want [][]string, run func(i int) string) *sx.Node {
	got := make([][]string, ng)
	start := make(chan struct{})
	var wg sync.WaitGroup
	for g := 0; g < ng; g++ {
		got[g] = make([]string, nops)
		wg.Add(1)
		go func(g int) {
			defer wg.Done()
			<-start
			for k := 0; k < nops; k++ {
				i := (g + k) % nops
				got[g][i] = run(i)
			}
		}(g)
	}
	close(start)
	wg.Wait()
	diff := sx.L(sx.A("diff"))
	compared := 0
	for g := 0; g < ng; g++ {
		for i := 0; i < nops; i++ {
			stable := true
			for _, w := range want[i][1:] {
				if w != want[i][0] {
					stable = false
				}
			}
			if !stable {
				continue // the isolated result itself varies (map iteration order): not comparable
			}
			compared++
			if got[g][i] != want[i][0] {
				diff.Append(sx.L(sx.I(int64(g)), sx.I(int64(i)), sx.S(got[g][i]), sx.S(want[i][0])))
			}
		}
	}
	if len(diff.List) > 1 {
		return sx.L(sx.A("t"), sx.A(id), diff)
	}
	return sx.L(sx.A("t"), sx.A(id), sx.A("same"), sx.I(int64(compared)))
}

const c13IsoReps = 3

func runRaceTrial(p *sx.Node) *sx.Node {
	id := p.List[1].Atom
	fmt.Fprintf(os.Stderr, "@@trial %s\n", id)
	defer fmt.Fprintf(os.Stderr, "@@end %s\n", id)
	if r := runRaceTrial2(id, p); r != nil {
		return r
	}
	if r := runRaceTrial3(id, p); r != nil {
		return r
	}
	if r := runRaceTrial4(id, p); r != nil {
		return r
	}
	switch p.List[2].Atom {
	case "schema":
		kind, ng, desc := p.List[3].Atom, int(p.List[4].Int()), p.List[5]
		ops := p.List[6].List[1:]
		build := func() schema.Type {
			sc := buildScope(desc)
			if kind == "rebuilt" {
				if r := c13Rebuild(sc, buildScope(desc)); r != nil {
					return r
				}
				return nil
			}
			return sc
		}
		needPartner := false
		for _, op := range ops {
			if op.Head() == "cs" {
				needPartner = true
			}
		}
		want := make([][]string, len(ops))
		for rep := 0; rep < c13IsoReps; rep++ {
			iso := build()
			if iso == nil {
				return sx.L(sx.A("t"), sx.A(id), sx.A("not-rebuildable"))
			}
			var isoPartner schema.Type
			if needPartner {
				isoPartner = buildScope(desc)
			}
			for i, op := range ops {
				want[i] = append(want[i], c13SchemaOp(iso, isoPartner, op))
			}
		}
		shared := build()
		if shared == nil {
			return sx.L(sx.A("t"), sx.A(id), sx.A("not-rebuildable"))
		}
		var partner schema.Type
		if needPartner {
			partner = buildScope(desc)
		}
		return c13Race(id, ng, len(ops), want, func(i int) string { return c13SchemaOp(shared, partner, ops[i]) })
	case "units":
		target, ng := p.List[3], int(p.List[4].Int())
		ops := p.List[5].List[1:]
		var shared *schema.UnitsDefinition
		var iso func() *schema.UnitsDefinition
		if target.Head() == "pkg" {
			shared = c13PkgUnits[target.List[1].Atom]
			iso = func() *schema.UnitsDefinition { return schema.NewUnits(shared.BaseUnit(), shared.Multipliers()) }
		} else {
			d := unitsFromSx(target.List[1])
			shared = d.build()
			iso = d.build
		}
		want := make([][]string, len(ops))
		for rep := 0; rep < c13IsoReps; rep++ {
			u := iso()
			for i, op := range ops {
				want[i] = append(want[i], c13UnitsOp(u, op))
			}
		}
		return c13Race(id, ng, len(ops), want, func(i int) string { return c13UnitsOp(shared, ops[i]) })
	case "steps":
		// the isolated run: the same calls one after the other on a separately built plugin
		seq := sx.L(sx.A("steps"), mkEnvEmpty(), p.List[4], sx.A("seq"), p.List[5])
		conc := sx.L(sx.A("steps"), mkEnvEmpty(), p.List[4], sx.A("conc"), p.List[5])
		wantN, gotN := runStepsCase(seq), runStepsCase(conc)
		want, got := wantN.String(), gotN.String()
		if got != want {
			// name the part that differs: the initialiser counts, or the first call whose row differs
			call := 0
			if wantN.Head() == "r" && gotN.Head() == "r" && len(wantN.List) == 3 && len(gotN.List) == 3 {
				if w, g := wantN.List[2].String(), gotN.List[2].String(); w != g {
					want, got = "initialiser runs "+w, "initialiser runs "+g
				} else if len(wantN.List[1].List) == len(gotN.List[1].List) {
					for i := range wantN.List[1].List {
						if w, g := wantN.List[1].List[i].String(), gotN.List[1].List[i].String(); w != g {
							call, want, got = i, w, g
							break
						}
					}
				}
			}
			return sx.L(sx.A("t"), sx.A(id), sx.L(sx.A("diff"), sx.L(sx.I(0), sx.I(int64(call)), sx.S(got), sx.S(want))))
		}
		return sx.L(sx.A("t"), sx.A(id), sx.A("same"), sx.I(int64(len(p.List[5].List)-1)))
	}
	return sx.L(sx.A("bad"), sx.S("race trial kind"))
}

func mkEnvEmpty() *sx.Node {
	return sx.L(sx.A("env"), sx.L(sx.A("ext"), sx.L()), sx.L(sx.A("json"), sx.L()), sx.L(sx.A("reok"), sx.L()))
}

// ---- generation ----

func c13SchemaOps(r *Rng, s *sx.Node, depth, n int) *sx.Node {
	sc := scopeTable(s)
	ops := sx.L(sx.A("ops"))
	for j := 0; j < n; j++ {
		v := rawFor(r, s, sc, depth+1)
		if r.Chance(25) {
			v = mutate(r, v)
		}
		if nv := c11Norm(v); nv != nil {
			v = nv
		}
		ops.Append(op("u", v))
		switch r.Intn(4) {
		case 0:
			ops.Append(op("c", v))
		case 1:
			nat := c11Native(r, s, depth+1)
			ops.Append(op("v", nat), op("s", nat))
		}
	}
	return ops
}

func c13UnitsOps(r *Rng, u unitsD, n int) *sx.Node {
	ops := sx.L(sx.A("ops"))
	for j := 0; j < n; j++ {
		switch r.Intn(6) {
		case 0, 1:
			ops.Append(sx.L(sx.A("pi"), sx.S(genWellFormed(r, u))))
		case 2:
			ops.Append(sx.L(sx.A("pf"), sx.S(genWellFormed(r, u))))
		case 3:
			ops.Append(sx.L(sx.A("fsi"), sx.I(int64(r.Intn(100000)))))
		case 4:
			ops.Append(sx.L(sx.A("fli"), sx.I(int64(r.Intn(100000)))))
		default:
			ops.Append(sx.L(sx.A(pick(r, []string{"fsf", "flf"})), flSx(float64(r.Intn(100000))/8)))
		}
	}
	return ops
}

func init() {
	families["c13race"] = &Family{
		Gen: func(r *Rng, tier string, emit func(*sx.Node)) {
			n := 360
			if tier == "thorough" {
				n = 4000
			}
			id := 0
			next := func() *sx.Node { id++; return sx.A(fmt.Sprintf("t%d", id)) }
			ngs := []int{2, 2, 3, 4, 8, 16}
			pkgNames := []string{"bytes", "nanoseconds", "seconds", "characters", "percent"}
			for i := 0; i < n; i++ {
				switch k := i % 10; {
				case k == 0: // the package-level unit definitions (first use: once per process)
					name := pkgNames[(i/10)%len(pkgNames)]
					u := unitsFromSDK(c13PkgUnits[name])
					emit(sx.L(sx.A("race"), next(), sx.A("units"), sx.L(sx.A("pkg"), sx.A(name)), sx.I(int64(pick(r, ngs))), c13UnitsOps(r, u, 6)))
				case k == 1: // a fresh definition
					u := genUnits(r)
					emit(sx.L(sx.A("race"), next(), sx.A("units"), sx.L(sx.A("new"), u.sx()), sx.I(int64(pick(r, ngs))), c13UnitsOps(r, u, 6)))
				case k == 2: // step calls and signals on a shared callable schema
					var steps []c11StepD
					var calls []*sx.Node
					switch (i / 10) % 3 {
					case 0:
						steps = c11OrderSteps(true, r.Chance(30))
						kinds := []string{"call", "call", "cancel", "pause", "cancel", "badcall", "badsig", "nosig", "dcall"}
						for j := 0; j < 4+r.Intn(13); j++ {
							calls = append(calls, c11OrderOp(pick(r, kinds), pick(r, c11Runs), pick(r, []string{"step1", "step1", "step2"})))
						}
					case 1:
						// the step call and signals for the SAME new run id arrive together (each in its own goroutine,
						// as the ATP server dispatches them); the initialiser takes a moment
						steps = c11OrderSteps(true, r.Chance(30))
						for _, run := range c11Runs[:1+r.Intn(3)] {
							for _, st := range []string{"step1", "step2"}[:1+r.Intn(2)] {
								calls = append(calls, c11OrderOp("call", run, st), c11OrderOp("cancel", run, st))
								if r.Bool() {
									calls = append(calls, c11OrderOp("pause", run, st))
								}
							}
						}
					default:
						var depth int
						steps, depth = c11GenPlugin(r)
						calls = c11GenCalls(r, steps, depth, 4+r.Intn(8))
					}
					plugin := sx.L(sx.A("plugin"))
					for _, s := range steps {
						plugin.Append(s.sx())
					}
					cl := sx.L(sx.A("calls"))
					cl.Append(calls...)
					emit(sx.L(sx.A("race"), next(), sx.A("steps"), sx.I(int64(len(calls))), plugin, cl))
				case k == 3: // c13_race2.go: error results, struct-mapped nests, third-party compatibility checks
					ng := pick(r, []int{2, 4, 8, 16})
					switch (i / 10) % 3 {
					case 0:
						emit(c13GenErrs(r, next(), ng))
					case 1:
						emit(c13GenStructs(r, next(), ng))
					default:
						emit(c13GenCompat(r, next(), ng))
					}
				default:
					depth := 1 + r.Intn(2)
					s := (&sgen{r: r}).scope(depth)
					kind := "fresh"
					if k >= 6 {
						// a scope that survives SelfSerialize -> UnserializeSchema (D27-D29 make some generated
						// scopes undescribable; those are C09's subject)
						kind = "rebuilt"
						for try := 0; try < 10 && !c13Rebuildable(s); try++ {
							s = (&sgen{r: r}).scope(depth)
						}
					}
					emit(sx.L(sx.A("race"), next(), sx.A("schema"), sx.A(kind), sx.I(int64(pick(r, ngs))), s, c13SchemaOps(r, s, depth, 3+r.Intn(4))))
				}
				if i%8 == 5 { // c13_race3.go: first use of a rebuilt, NEVER LINKED object tree (defaults decoded lazily)
					emit(c13GenLazy(r, next(), pick(r, ngs)))
				}
				if i%8 == 3 { // c13_race2.go: generated struct-mapped schemas with sub-object defaults at every level
					emit(c13GenXStruct(r, next(), pick(r, ngs)))
				}
			}
			// c13_race4.go: rejected loads and failing operations next to healthy instances (after all other kinds)
			c13EmitLoads(r, tier, next, emit)
			// c13_race5.go: default-rich scopes (container defaults on `any`, lists, maps), inputs that leave properties out;
			// one per eight of the trials above, from a stream of their own and AFTER everything else: the trials above and
			// the composition of their processes stay as they were
			rd := &Rng{s: r.s ^ 0x5eedd3fa17}
			for i := 0; i < n/8; i++ {
				if i%4 == 3 { // struct-mapped: the xstruct trial with container defaults on its `any` / list / map members
					xgenRichDefaults = true
					t := c13GenXStruct(rd, next(), pick(rd, ngs))
					xgenRichDefaults = false
					emit(t)
					continue
				}
				emit(c13GenDefaults(rd, next(), pick(rd, ngs)))
			}
			// as many struct-mapped (xstruct) trials again, from a stream of their own: whether a quick run contains the rarer
			// shapes (a declared PARTIAL default on a member whose own object has no defaults, three levels down) depended on
			// the seed with 45 trials — C13-r3m1 was caught with seeds 2 and 3 and not with seed 1
			rx := &Rng{s: r.s ^ 0x7c13d3fa11}
			for i := 0; i < n/8; i++ {
				emit(c13GenXStruct(rx, next(), pick(rx, ngs)))
			}
		},
		Run: runRaceTrial,
	}
}
