package main

// C13 race engine, fourth part: REJECTED LOADS and FAILING OPERATIONS next to healthy instances —
// "a failed call leaves no lock held".
//
//   (race ID loads mixed NG (insts (fresh SCOPE)|(rebuilt SCOPE)|(desc VALUE) ...)
//                           (ops (ld scope|schema VALUE) | (on I (u V)|(v V)|(s V)|(c V)) ...))
//
// insts: 2-3 HEALTHY schema instances: built in code, rebuilt (SelfSerialize -> UnserializeSchema), or loaded
//        with UnserializeScope from a valid description that arrived as data.
// ops:   (ld scope V) / (ld schema V): UnserializeScope / UnserializeSchema of a description given as DATA - most of
//        them malformed (an unparsable default at every kind of place, dangling and foreign references, a missing or
//        mistyped root, a wrong table key, an uncompilable pattern, an unknown type id, single structural mutations of
//        generated descriptions of scopes and of whole plugin schemas), a few valid;  (on I OP): OP on healthy instance I,
//        with valid, mutated (failing) and empty inputs.
//
// A trial has three phases, each under a WATCHDOG (no operation of any goroutine returned for c13StuckAfter):
//   iso    every operation in isolation, c13IsoReps times on separately built instances, each repetition starting at
//          another operation (so a rejected load is FOLLOWED by operations on other instances already here);
//   after  on one more set of instances: for every operation that FAILED in isolation (rejected load, failing
//          Unserialize / Validate / Serialize / ValidateCompatibility; the first c13AfterMax of them): run it, then
//          one new goroutine per OTHER instance runs all operations of that instance; each must return, with the
//          isolated result;
//   conc   NG goroutines released together, each running all operations (rotated start) on shared instances: loads
//          race with, and are followed by, the other goroutines' operations on the other instances.
//
// observation: (t ID same N) | (t ID (diff (G I GOT WANT)...)) | (t ID (diffafter (K I GOT WANT)...))
//            | (t ID (stuck PHASE K (pending (G I)...)))   K: the failed operation that was followed (phase after) /
//                                                          the last operation that had failed before (-1: none);
//                                                          I = -2: building the healthy instances
//            | (t ID after-stuck)   an earlier trial of this process left goroutines blocked: not run
//            | (t ID not-rebuildable)

import (
	"crypto/sha1"
	"fmt"
	"os"
	"strings"
	"sync"
	"sync/atomic"
	"time"

	"go.flow.arcalot.io/pluginsdk/schema"
	"verif/harness/sx"
)

const c13StuckAfter = 5 * time.Second
const c13AfterMax = 8

var c13LoadsPoisoned int32

// c13WD: per-goroutine progress slots.  Every slot is written by its own goroutine only (atomically) and read by
// the watchdog: no happens-before edge between two worker goroutines comes from here.
type c13WD struct{ cur, cnt, lastFail []int64 }

func newC13WD(n int) *c13WD {
	w := &c13WD{make([]int64, n), make([]int64, n), make([]int64, n)}
	for i := range w.cur {
		w.cur[i], w.lastFail[i] = -1, -1
	}
	return w
}

func (w *c13WD) do(g, i int, f func() string) string {
	atomic.StoreInt64(&w.cur[g], int64(i))
	r := f()
	if !strings.HasPrefix(r, "(ok") {
		atomic.StoreInt64(&w.lastFail[g], int64(i))
	}
	atomic.AddInt64(&w.cnt[g], 1)
	atomic.StoreInt64(&w.cur[g], -1)
	return r
}

func (w *c13WD) total() int64 {
	var t int64
	for i := range w.cnt {
		t += atomic.LoadInt64(&w.cnt[i])
	}
	return t
}

// wait: true when done was closed; false when no operation returned for c13StuckAfter.
func (w *c13WD) wait(done <-chan struct{}) bool {
	const tick = 50 * time.Millisecond
	last, idle := w.total(), time.Duration(0)
	for {
		select {
		case <-done:
			return true
		case <-time.After(tick):
			if t := w.total(); t != last {
				last, idle = t, 0
			} else if idle += tick; idle >= c13StuckAfter {
				return false
			}
		}
	}
}

func (w *c13WD) stuck(id, phase string, after int) *sx.Node {
	atomic.StoreInt32(&c13LoadsPoisoned, 1)
	pend := sx.L(sx.A("pending"))
	for g := range w.cur {
		if i := atomic.LoadInt64(&w.cur[g]); i != -1 {
			pend.Append(sx.L(sx.I(int64(g)), sx.I(i)))
		}
		if after < 0 {
			if f := atomic.LoadInt64(&w.lastFail[g]); f > int64(after) {
				after = int(f)
			}
		}
	}
	return sx.L(sx.A("t"), sx.A(id), sx.L(sx.A("stuck"), sx.A(phase), sx.I(int64(after)), pend))
}

// c13LoadsBuild builds the healthy instances; nil when one of them cannot be built.
func c13LoadsBuild(instD []*sx.Node) (out []schema.Type) {
	defer func() {
		if recover() != nil {
			out = nil
		}
	}()
	for _, n := range instD {
		var s schema.Type
		switch n.Head() {
		case "fresh":
			s = buildScope(n.List[1])
		case "rebuilt":
			if r := c13Rebuild(buildScope(n.List[1]), buildScope(n.List[1])); r != nil {
				s = r
			}
		case "desc":
			if r, err := schema.UnserializeScope(valFromSx(n.List[1])); err == nil && r.ValidateReferences() == nil {
				s = r
			}
		}
		if s == nil {
			return nil
		}
		out = append(out, s)
	}
	return out
}

func c13Digest(d describer) *sx.Node {
	v, err := d.SelfSerialize()
	if err != nil {
		return sx.A("not-describable")
	}
	return sx.S(fmt.Sprintf("%x", sha1.Sum([]byte(valSx(v).String())))[:12])
}

// c13LoadsOp: one operation of a loads trial.  A load is projected to: err | panic | (ok pending) |
// (ok (usable DIGEST-OF-THE-DESCRIPTION-OF-WHAT-WAS-BUILT RESULT-OF-UNSERIALIZING-THE-EMPTY-MAP)).
func c13LoadsOp(insts []schema.Type, op *sx.Node) string {
	switch op.Head() {
	case "ld":
		d := valFromSx(op.List[2])
		return c13Out(func() (*sx.Node, error) {
			if op.List[1].Atom == "schema" {
				p, err := schema.UnserializeSchema(d)
				if err != nil {
					return nil, err
				}
				return sx.L(sx.A("usable"), c13Digest(p)), nil
			}
			s, err := schema.UnserializeScope(d)
			if err != nil {
				return nil, err
			}
			if s.ValidateReferences() != nil {
				return sx.A("pending"), nil // waits for another namespace, like a scope built in code
			}
			first := c13Out(func() (*sx.Node, error) {
				r, err := s.Unserialize(map[string]any{})
				if err != nil {
					return nil, err
				}
				return valSx(r), nil
			})
			return sx.L(sx.A("usable"), c13Digest(s), sx.S(first)), nil
		})
	case "on":
		i := int(op.List[1].Int())
		if i < 0 || i >= len(insts) {
			return "bad-op"
		}
		return c13SchemaOp(insts[i], nil, op.List[2])
	}
	return "bad-op"
}

// runRaceTrial4 handles the kinds of this file; nil = not one of them.
func runRaceTrial4(id string, p *sx.Node) *sx.Node {
	if p.List[2].Atom != "loads" {
		return nil
	}
	if atomic.LoadInt32(&c13LoadsPoisoned) != 0 {
		return sx.L(sx.A("t"), sx.A(id), sx.A("after-stuck"))
	}
	ng := int(p.List[4].Int())
	instD := p.List[5].List[1:]
	ops := p.List[6].List[1:]
	n, ni := len(ops), len(instD)
	notBuilt := sx.L(sx.A("t"), sx.A(id), sx.A("not-rebuildable"))

	// ---- iso ----
	want := make([][]string, n)
	built := true
	wa := newC13WD(1)
	done := make(chan struct{})
	go func() {
		defer close(done)
		for rep := 0; rep < c13IsoReps; rep++ {
			var insts []schema.Type
			wa.do(0, -2, func() string { insts = c13LoadsBuild(instD); return "(ok)" })
			if insts == nil {
				built = false
				return
			}
			for k := 0; k < n; k++ {
				i := (rep + k) % n
				want[i] = append(want[i], wa.do(0, i, func() string { return c13LoadsOp(insts, ops[i]) }))
			}
		}
	}()
	if !wa.wait(done) {
		return wa.stuck(id, "iso", -1)
	}
	if !built {
		return notBuilt
	}
	stable := func(i int) bool {
		for _, w := range want[i][1:] {
			if w != want[i][0] {
				return false
			}
		}
		return true
	}
	compared := 0

	// ---- after ----
	var fails []int
	for i := range ops {
		for _, r := range want[i] {
			if !strings.HasPrefix(r, "(ok") {
				fails = append(fails, i)
				break
			}
		}
	}
	if len(fails) > c13AfterMax {
		fails = fails[:c13AfterMax]
	}
	var instsB []schema.Type
	wb := newC13WD(1 + ni)
	done = make(chan struct{})
	go func() {
		defer close(done)
		wb.do(0, -2, func() string { instsB = c13LoadsBuild(instD); return "(ok)" })
	}()
	if !wb.wait(done) {
		return wb.stuck(id, "after", -1)
	}
	if instsB == nil {
		return notBuilt
	}
	diffB := sx.L(sx.A("diffafter"))
	for _, k := range fails {
		k := k
		done := make(chan struct{})
		go func() {
			defer close(done)
			wb.do(0, k, func() string { return c13LoadsOp(instsB, ops[k]) })
		}()
		if !wb.wait(done) {
			return wb.stuck(id, "after", k)
		}
		skip := -1
		if ops[k].Head() == "on" {
			skip = int(ops[k].List[1].Int())
		}
		got := make([]string, n)
		var wg sync.WaitGroup
		for j := 0; j < ni; j++ {
			if j == skip {
				continue
			}
			wg.Add(1)
			go func(j int) {
				defer wg.Done()
				for i := range ops {
					i := i
					if ops[i].Head() == "on" && int(ops[i].List[1].Int()) == j {
						got[i] = wb.do(1+j, i, func() string { return c13LoadsOp(instsB, ops[i]) })
					}
				}
			}(j)
		}
		done2 := make(chan struct{})
		go func() { wg.Wait(); close(done2) }()
		if !wb.wait(done2) {
			return wb.stuck(id, "after", k)
		}
		for i := range ops {
			if got[i] != "" && stable(i) {
				compared++
				if got[i] != want[i][0] {
					diffB.Append(sx.L(sx.I(int64(k)), sx.I(int64(i)), sx.S(got[i]), sx.S(want[i][0])))
				}
			}
		}
	}
	if len(diffB.List) > 1 {
		return sx.L(sx.A("t"), sx.A(id), diffB)
	}

	// ---- conc ----
	var shared []schema.Type
	wc := newC13WD(ng)
	done = make(chan struct{})
	go func() {
		defer close(done)
		wc.do(0, -2, func() string { shared = c13LoadsBuild(instD); return "(ok)" })
	}()
	if !wc.wait(done) {
		return wc.stuck(id, "conc", -1)
	}
	if shared == nil {
		return notBuilt
	}
	got := make([][]string, ng)
	start := make(chan struct{})
	var wg sync.WaitGroup
	for g := 0; g < ng; g++ {
		got[g] = make([]string, n)
		wg.Add(1)
		go func(g int) {
			defer wg.Done()
			<-start
			for k := 0; k < n; k++ {
				i := (g + k) % n
				got[g][i] = wc.do(g, i, func() string { return c13LoadsOp(shared, ops[i]) })
			}
		}(g)
	}
	doneC := make(chan struct{})
	go func() { wg.Wait(); close(doneC) }()
	close(start)
	if !wc.wait(doneC) {
		return wc.stuck(id, "conc", -1)
	}
	diff := sx.L(sx.A("diff"))
	for g := 0; g < ng; g++ {
		for i := 0; i < n; i++ {
			if !stable(i) {
				continue
			}
			compared++
			if got[g][i] != want[i][0] {
				diff.Append(sx.L(sx.I(int64(g)), sx.I(int64(i)), sx.S(got[g][i]), sx.S(want[i][0])))
			}
		}
	}
	if len(diff.List) > 1 {
		return sx.L(sx.A("t"), sx.A(id), diff)
	}
	// what the history contained (statistics for the evidence; stderr, next to the race detector's reports)
	cnt := map[string]int{}
	for i, o := range ops {
		cls := "ok"
		if want[i][0] == "err" || want[i][0] == "panic" {
			cls = want[i][0]
		}
		cnt[o.Head()+"-"+cls]++
	}
	fmt.Fprintf(os.Stderr, "@@loads %s loads_rejected=%d loads_accepted=%d loads_panic=%d ops_failing=%d ops_ok=%d failed_calls_followed=%d\n",
		id, cnt["ld-err"], cnt["ld-ok"], cnt["ld-panic"], cnt["on-err"]+cnt["on-panic"], cnt["on-ok"], len(fails))
	return sx.L(sx.A("t"), sx.A(id), sx.A("same"), sx.I(int64(compared)))
}

// ---- generation ----

// c13BadDescs: a fixed family of descriptions as they arrive as data, one per CLASS of rejection (plus the few that
// are accepted or accepted-pending), each also wrapped as the input of a step of a whole plugin schema.
func c13BadDescs() []*sx.Node {
	obj := func(id string, props ...*sx.Node) *sx.Node {
		return vM(tStrMap, vS("id"), vS(id), vS("properties"), vM(tAnyMap, props...))
	}
	prop := func(t *sx.Node, extra ...*sx.Node) *sx.Node {
		return vM(tStrMap, append([]*sx.Node{vS("type"), t}, extra...)...)
	}
	ty := func(id string, kv ...*sx.Node) *sx.Node {
		return vM(tStrMap, append([]*sx.Node{vS("type_id"), vS(id)}, kv...)...)
	}
	scope := func(root *sx.Node, objs ...*sx.Node) *sx.Node {
		return vM(tStrMap, vS("objects"), vM(tAnyMap, objs...), vS("root"), root)
	}
	step := func(in *sx.Node) *sx.Node {
		return vM(tStrMap, vS("steps"), vM(tAnyMap, vS("s"), vM(tStrMap, vS("id"), vS("s"), vS("input"), in,
			vS("outputs"), vM(tAnyMap, vS("ok"), vM(tStrMap, vS("schema"), scope(vS("R"), vS("R"), obj("R")))))))
	}
	str := prop(ty("string"), vS("required"), vB(true))
	inner := func(dflt string) *sx.Node {
		return vM(tStrMap, vS("type_id"), vS("object"), vS("id"), vS("In"), vS("properties"),
			vM(tAnyMap, vS("k"), prop(ty("integer"), vS("default"), vS(dflt))))
	}
	scopes := []*sx.Node{
		// an unparsable default: on a number next to a healthy property, on a float, inside an inline sub-object, in an
		// object reached through a reference, on a list, inside a list's item object
		scope(vS("A"), vS("A"), obj("A", vS("s"), str, vS("n"), prop(ty("integer"), vS("default"), vS("oops")))),
		scope(vS("A"), vS("A"), obj("A", vS("f"), prop(ty("float"), vS("default"), vS("nul")))),
		scope(vS("A"), vS("A"), obj("A", vS("s"), str, vS("sub"), prop(inner("{")))),
		scope(vS("A"), vS("A"), obj("A", vS("b"), prop(ty("ref", vS("id"), vS("B")))), vS("B"), obj("B", vS("l"), prop(ty("list", vS("items"), ty("integer")), vS("default"), vS("[1,")))),
		scope(vS("A"), vS("A"), obj("A", vS("l"), prop(ty("list", vS("items"), inner("\"open"))))),
		// the same shapes with parsable defaults: accepted
		scope(vS("A"), vS("A"), obj("A", vS("s"), str, vS("n"), prop(ty("integer"), vS("default"), vS("5")))),
		scope(vS("A"), vS("A"), obj("A", vS("s"), str, vS("sub"), prop(inner("7")))),
		// references: dangling, into another namespace (accepted, pending), root missing / mistyped, wrong table key
		scope(vS("A"), vS("A"), obj("A", vS("a"), prop(ty("ref", vS("id"), vS("Missing"))))),
		scope(vS("A"), vS("A"), obj("A", vS("a"), prop(ty("ref", vS("id"), vS("B"), vS("namespace"), vS("other"))))),
		scope(vS("Nope"), vS("A"), obj("A")),
		scope(vI("i64", 3), vS("A"), obj("A")),
		scope(vS("K"), vS("K"), obj("A")),
		// an uncompilable pattern, an unknown type id, a mistyped table, a property without a type, a one-of with a dangling member
		scope(vS("A"), vS("A"), obj("A", vS("p"), prop(ty("string", vS("pattern"), vS("("))))),
		scope(vS("A"), vS("A"), obj("A", vS("p"), prop(ty("Nope")))),
		vM(tStrMap, vS("objects"), vS("x"), vS("root"), vS("A")),
		scope(vS("A"), vS("A"), obj("A", vS("p"), vM(tStrMap, vS("required"), vB(true)))),
		scope(vS("A"), vS("A"), obj("A", vS("o"), prop(ty("one_of_string", vS("discriminator_field_name"), vS("k"),
			vS("types"), vM(tAnyMap, vS("x"), ty("ref", vS("id"), vS("Missing"))))))),
		vNil(),
	}
	var out []*sx.Node
	for _, s := range scopes {
		out = append(out, sx.L(sx.A("ld"), sx.A("scope"), s))
	}
	for _, i := range []int{0, 2, 3, 5, 7, 9, 12} {
		out = append(out, sx.L(sx.A("ld"), sx.A("schema"), step(scopes[i])))
	}
	return out
}

// c13LoadsFixed: healthy scopes built in code whose Unserialize looks defaults up at every level.
func c13LoadsFixed(i int) *sx.Node {
	switch i % 3 {
	case 0:
		return dScope("H", dObject("H", false, propD{name: "s", t: dString(nil, nil, nil), required: true},
			propD{name: "n", t: dInt(nil, nil, nil), dflt: sp("5")}))
	case 1:
		return dScope("H", dObject("H", false, propD{name: "name", t: dString(nil, nil, nil), dflt: sp(`"x"`)},
			propD{name: "sub", t: dObject("In", false, propD{name: "k", t: dInt(ip(0), ip(9), nil), dflt: sp("1")},
				propD{name: "t", t: dString(nil, ip(4), nil)})}))
	}
	return dScope("A", dObject("A", false, propD{name: "b", t: dRef("B", "")}, propD{name: "c", t: dInt(nil, nil, nil), dflt: sp("2")}),
		dObject("B", false, propD{name: "d", t: dString(nil, nil, nil), dflt: sp(`"d"`)}, propD{name: "e", t: dList(dInt(nil, nil, nil), nil, ip(3))}))
}

func c13DescUsable(v *sx.Node) (ok bool) {
	defer func() {
		if recover() != nil {
			ok = false
		}
	}()
	s, err := schema.UnserializeScope(valFromSx(v))
	return err == nil && s.ValidateReferences() == nil
}

// c13GenLoads: see the head of the file.  seq numbers the trials: the fixed families are walked through in order.
// The generator never runs a load of a description it has mutated (only the healthy ones, to see that they are
// usable without another namespace).
func c13GenLoads(r *Rng, id *sx.Node, ng int, seq int) *sx.Node {
	insts := sx.L(sx.A("insts"))
	var ops []*sx.Node
	on := func(i int, o *sx.Node) *sx.Node { return sx.L(sx.A("on"), sx.I(int64(i)), o) }
	addScope := func(kind string, s *sx.Node, depth int) {
		i := len(insts.List) - 1
		insts.Append(sx.L(sx.A(kind), s))
		ops = append(ops, on(i, op("u", vM(tAnyMap))))
		for _, o := range c13SchemaOps(r, s, depth, 1+r.Intn(3)).List[1:] {
			ops = append(ops, on(i, o))
		}
	}
	// (0) built in code, fixed
	kind := "fresh"
	if r.Chance(30) {
		kind = "rebuilt"
	}
	addScope(kind, c13LoadsFixed(seq), 2)
	// (1) a valid description that arrived as data, or a generated scope rebuilt through the meta-schema
	var bases []c10Base
	placed := false
	for try := 0; try < 3 && !placed; try++ {
		bs := c10Bases(r, 1, true)
		bases = append(bases, bs...)
		if b := bs[0]; b.kind == "scope" && r.Chance(70) && c13DescUsable(b.val) {
			i := len(insts.List) - 1
			insts.Append(sx.L(sx.A("desc"), b.val))
			ops = append(ops, on(i, op("u", vM(tAnyMap))))
			for j, in := range b.inputs.List[1:] {
				if j >= 4 {
					break
				}
				ops = append(ops, on(i, op(pick(r, []string{"u", "u", "c"}), in)))
			}
			placed = true
		}
	}
	if !placed {
		depth := 1 + r.Intn(2)
		s := (&sgen{r: r}).scope(depth)
		for try := 0; try < 10 && !c13Rebuildable(s); try++ {
			s = (&sgen{r: r}).scope(depth)
		}
		if c13Rebuildable(s) {
			addScope("rebuilt", s, depth)
		} else {
			addScope("fresh", s, depth)
		}
	}
	// (2) sometimes a third one, built in code from the shared generator
	if r.Bool() {
		depth := 1 + r.Intn(2)
		addScope("fresh", (&sgen{r: r}).scope(depth), depth)
	}
	// the loads: two of the fixed family, then single structural mutations of a generated description
	fixed := c13BadDescs()
	ops = append(ops, fixed[(2*seq)%len(fixed)], fixed[(2*seq+1)%len(fixed)])
	b := bases[len(bases)-1]
	singles, sensitive := singleMutations(r, b.val, 1)
	var muts []*sx.Node
	for i := 0; i < 2 && len(sensitive) > 0; i++ {
		muts = append(muts, pick(r, sensitive))
	}
	if len(singles) > 0 {
		muts = append(muts, pick(r, singles))
	}
	if r.Chance(30) {
		muts = append(muts, b.val) // the unmutated description
	}
	for _, m := range muts {
		if m != nil && !hasDupKeys(m) {
			ops = append(ops, sx.L(sx.A("ld"), sx.A(b.kind), m))
		}
	}
	// seeded shuffle: loads and operations on the healthy instances interleave
	for i := len(ops) - 1; i > 0; i-- {
		j := r.Intn(i + 1)
		ops[i], ops[j] = ops[j], ops[i]
	}
	ol := sx.L(sx.A("ops"))
	ol.Append(ops...)
	return sx.L(sx.A("race"), id, sx.A("loads"), sx.A("mixed"), sx.I(int64(ng)), insts, ol)
}

// c13EmitLoads: the loads trials of one run (after all other kinds: their seeded stream stays what it was).
func c13EmitLoads(r *Rng, tier string, next func() *sx.Node, emit func(*sx.Node)) {
	n := 48
	if tier == "thorough" {
		n = 480
	}
	for i := 0; i < n; i++ {
		emit(c13GenLoads(r, next(), pick(r, []int{2, 3, 4, 8, 16}), i))
	}
}
