package main

import (
	"fmt"
	"math"
	"math/big"

	"go.flow.arcalot.io/pluginsdk/schema"
	"verif/harness/sx"
)

// C04 (totality): family `c04total` (label c04).
//
//   case    (c04 ENV SCHEMA (hyp NIC NDC) (ops OP...))     OP ::= (u V) | (v V) | (s V) | (c V)
//   obs     (r (wf 1) (hyp NIC NDC) CLS...)                CLS ::= ok | err | panic
//           (r (wf 0))                                      the constructors refused the schema
//
// NIC / NDC are the generator's own evaluation of the theorem's two cycle hypotheses (no inline-shorthand
// cycle, no diverging default); the runner echoes them and the model prints ITS evaluation of
// Wf.no_inline_cycle / Wf.defaults_total, so a generator/model disagreement about the class is a
// correspondence failure.  Values: a valid raw tree (for Unserialize / data-mode compatibility) and
// the native tree Unserialize produced from it (for Validate / Serialize), with a value from the two
// pools injected at every position.

// ---------------------------------------------------------------------------------------------
// value pools
// ---------------------------------------------------------------------------------------------

type c04Val struct {
	v        *sx.Node
	hashable bool // may be used as a key of map[any]any
	decoder  bool // a decoder (CBOR/JSON/YAML into any) can produce it
}

func tSlice(e *sx.Node) *sx.Node  { return sx.L(sx.A("slice"), e) }
func tMap(k, v *sx.Node) *sx.Node { return sx.L(sx.A("map"), k, v) }
func tPtr(e *sx.Node) *sx.Node    { return sx.L(sx.A("ptr"), e) }
func tNamed(n string, u *sx.Node) *sx.Node {
	return sx.L(sx.A("named"), sx.S(n), u)
}
func tStruct(n string) *sx.Node { return sx.L(sx.A("struct"), sx.S(n)) }
func vPtr(t *sx.Node, x *sx.Node) *sx.Node {
	if x == nil {
		return sx.L(sx.A("p"), t, sx.A("nil"))
	}
	return sx.L(sx.A("p"), t, x)
}
func vNilSl(t *sx.Node) *sx.Node { return sx.L(sx.A("sl"), t, sx.A("1")) }
func vNilM(t *sx.Node) *sx.Node  { return sx.L(sx.A("m"), t, sx.A("1")) }
func vOp(kind, desc string) *sx.Node {
	return sx.L(sx.A("op"), sx.A(kind), sx.S(desc))
}
func vSt(name string, fields ...*sx.Node) *sx.Node {
	n := sx.L(sx.A("st"), tStruct(name))
	for i := 0; i+1 < len(fields); i += 2 {
		n.Append(sx.L(fields[i], fields[i+1]))
	}
	return n
}

func deepSlice(d int) *sx.Node {
	v := vSl(tAnySlice, vI("i64", 1))
	for i := 0; i < d; i++ {
		v = vSl(tAnySlice, v)
	}
	return v
}
func deepMap(d int) *sx.Node {
	v := vM(tAnyMap, vS("k"), vS("leaf"))
	for i := 0; i < d; i++ {
		if i%2 == 0 {
			v = vM(tStrMap, vS("k"), v)
		} else {
			v = vM(tAnyMap, vS("k"), v)
		}
	}
	return v
}

var tI64Map = tMap(sx.A("i64"), sx.A("any"))

func c04Pool() []c04Val {
	d := func(v *sx.Node, hashable bool) c04Val { return c04Val{v, hashable, true} }
	g := func(v *sx.Node, hashable bool) c04Val { return c04Val{v, hashable, false} }
	return []c04Val{
		// (a) what decoding into `any` can hand over
		d(vNil(), true),
		d(vB(true), true), d(vB(false), true),
		d(vI("i64", 0), true), d(vI("i64", 1), true), d(vI("i64", -1), true), d(vI("i64", math.MinInt64), true), d(vI("i64", math.MaxInt64), true),
		d(vU("u64", 1), true), d(vU("u64", math.MaxUint64), true), d(vU("u64", 1<<63), true),
		d(vI("i0", 7), true), d(vI("i8", -128), true), d(vI("i16", 300), true), d(vI("i32", -70000), true), d(vU("u8", 255), true), d(vU("u16", 65535), true), d(vU("u32", 1), true), d(vU("u0", 2), true),
		// NaN IS hashable (a map may hold it as a key; it just cannot be looked up again: D81)
		d(vF("f64", 1.5), true), d(vF("f64", 1), true), d(vF("f64", math.NaN()), true), d(vF("f64", math.Inf(1)), true), d(vF("f64", math.Inf(-1)), true),
		d(vF("f64", math.Copysign(0, -1)), true), d(vF("f64", 1e300), true), d(vF("f64", 9223372036854775808.0), true), d(vF("f32", 0.5), true), d(vF("f32", float64(float32(math.Inf(1)))), true),
		d(vS(""), true), d(vS("x"), true), d(vS("1"), true), d(vS("kind"), true), d(vS("true"), true), d(vS("1.5"), true), d(vS("\xff\xfe"), true), d(vS("a+"), true), d(vS("("), true),
		d(vSl(tSlice(sx.A("u8")), vU("u8", 104), vU("u8", 105)), false), d(vSl(tSlice(sx.A("u8"))), false),
		d(vSl(tAnySlice), false), d(vSl(tAnySlice, vNil()), false), d(vSl(tAnySlice, vI("i64", 1), vS("a"), vNil()), false), d(vNilSl(tAnySlice), false),
		d(vSl(tSlice(sx.A("str")), vS("a"), vS("b")), false), d(vSl(tSlice(sx.A("i64")), vI("i64", 1)), false), d(vSl(tSlice(sx.A("f64")), vF("f64", 1)), false),
		d(vSl(tSlice(tStrMap), vM(tStrMap, vS("a"), vI("i64", 1))), false),
		d(vM(tAnyMap), false), d(vM(tStrMap), false), d(vNilM(tAnyMap), false), d(vNilM(tStrMap), false),
		d(vM(tAnyMap, vNil(), vS("v")), false), d(vM(tAnyMap, vI("i64", 1), vS("a"), vS("1"), vS("b")), false), d(vM(tAnyMap, vS("a"), vNil()), false),
		d(vM(tAnyMap, vB(true), vS("a"), vF("f64", 1.5), vS("b")), false), d(vM(tAnyMap, vU("u64", 1), vS("a")), false),
		d(vM(tStrMap, vS("a"), vI("i64", 1)), false), d(vM(tStrMap, vS("kind"), vS("A")), false), d(vM(tStrMap, vS("kind"), vI("i64", 1)), false),
		d(vM(tAnyMap, vS("kind"), vS("A")), false), d(vM(tAnyMap, vS("kind"), vU("u64", 1)), false), d(vM(tAnyMap, vS("kind"), vNil()), false),
		d(vM(tI64Map, vI("i64", 1), vS("a")), false), d(vM(tMap(sx.A("str"), sx.A("str")), vS("a"), vS("b")), false), d(vM(tMap(sx.A("str"), sx.A("i64")), vS("a"), vI("i64", 1)), false),
		d(vM(tMap(sx.A("i64"), sx.A("str")), vI("i64", 1), vS("b")), false), d(vM(tMap(sx.A("u64"), sx.A("any")), vU("u64", 1), vS("b")), false),
		// maps with a float key that is not an ordinary number: NaN (not equal to itself: MapIndex cannot find it again, D81),
		// +-Inf, -0; untyped and float-keyed, at the root, below a map / a list / an object property / a one-of member
		d(vM(tAnyMap, vF("f64", math.NaN()), vI("i64", 1)), false), d(vM(tAnyMap, vF("f64", math.Inf(1)), vS("a"), vF("f64", math.Inf(-1)), vS("b")), false),
		d(vM(tAnyMap, vF("f64", math.Copysign(0, -1)), vS("a")), false), d(vM(tAnyMap, vF("f32", math.NaN()), vS("a"), vS("k"), vS("b")), false),
		d(vM(tMap(sx.A("f64"), sx.A("any")), vF("f64", math.NaN()), vS("a")), false), d(vM(tMap(sx.A("f64"), sx.A("str")), vF("f64", math.Inf(1)), vS("a"), vF("f64", math.Copysign(0, -1)), vS("b")), false),
		d(vM(tAnyMap, vS("a"), vM(tAnyMap, vF("f64", math.NaN()), vS("x"))), false), d(vM(tStrMap, vS("x"), vM(tAnyMap, vF("f64", math.NaN()), vS("x"))), false),
		d(vSl(tAnySlice, vM(tAnyMap, vF("f64", math.NaN()), vS("x"))), false),
		d(vM(tStrMap, vS("kind"), vS("A"), vS("q"), vM(tAnyMap, vF("f64", math.NaN()), vI("i64", 1))), false),
		d(vM(tAnyMap, vS("kind"), vS("A"), vF("f64", math.NaN()), vI("i64", 1)), false),
		d(vOp("struct", "cbor.Tag"), false), d(vOp("struct", "big.Int"), false), d(vOp("ptr", "*big.Int"), true),
		d(deepSlice(40), false), d(deepMap(40), false),
		// (b) arbitrary Go values
		g(vNamed("s", "MyStr", "str", sx.S("x")), true), g(vNamed("s", "MyStr", "str", sx.S("A")), true), g(vNamed("i", "MyInt", "i64", sx.I(1)), true), g(vNamed("i", "MyInt32", "i32", sx.I(1)), true),
		g(vNamed("i", "MyUint8", "u8", sx.I(1)), true), g(vNamed("b", "MyBool", "bool", sx.B(true)), true), g(vNamed("f", "MyF64", "f64", flSx(1.5)), true), g(vNamed("f", "MyF32", "f32", flSx(1.5)), true),
		g(sx.L(sx.A("sl"), tNamed("MySlice", tAnySlice), sx.A("0"), vI("i64", 1)), false), g(sx.L(sx.A("sl"), tNamed("MySlice", tAnySlice), sx.A("1")), false),
		g(sx.L(sx.A("m"), tNamed("MyMap", tStrMap), sx.A("0"), sx.L(vS("a"), vI("i64", 1))), false), g(sx.L(sx.A("m"), tNamed("MyMap", tStrMap), sx.A("0"), sx.L(vS("kind"), vS("A"))), false),
		g(sx.L(sx.A("m"), tNamed("MyMap", tStrMap), sx.A("1")), false),
		g(vPtr(tPtr(sx.A("i64")), nil), true), g(vPtr(tPtr(sx.A("i64")), vI("i64", 1)), true), g(vPtr(tPtr(sx.A("str")), vS("x")), true), g(vPtr(tPtr(sx.A("str")), nil), true),
		g(vPtr(tPtr(sx.A("bool")), vB(true)), true), g(vPtr(tPtr(sx.A("f64")), vF("f64", 1)), true),
		g(vPtr(tPtr(tAnySlice), nil), true), g(vPtr(tPtr(tAnySlice), vSl(tAnySlice, vI("i64", 1))), true), g(vPtr(tPtr(tSlice(sx.A("str"))), vSl(tSlice(sx.A("str")), vS("a"))), true),
		g(vPtr(tPtr(tStrMap), nil), true), g(vPtr(tPtr(tStrMap), vM(tStrMap, vS("a"), vI("i64", 1))), true), g(vPtr(tPtr(tStrMap), vM(tStrMap, vS("kind"), vS("A"))), true),
		g(vPtr(tPtr(tAnyMap), vM(tAnyMap, vS("a"), vI("i64", 1))), true), g(vPtr(tPtr(sx.A("any")), vI("i64", 1)), true), g(vPtr(tPtr(sx.A("any")), nil), true),
		g(vPtr(tPtr(tPtr(sx.A("i64"))), vPtr(tPtr(sx.A("i64")), vI("i64", 1))), true),
		g(vPtr(sx.A("regexp"), nil), true), g(sx.L(sx.A("re"), sx.S("a+")), true),
		g(vSt("MyStruct", sx.S("A"), vI("i64", 1), sx.S("B"), vS("x")), true), g(vPtr(tPtr(tStruct("MyStruct")), nil), true),
		g(vPtr(tPtr(tStruct("MyStruct")), vSt("MyStruct", sx.S("A"), vI("i64", 1), sx.S("B"), vS("x"))), true),
		g(vOp("chan", "chan int"), true), g(vOp("func", "func()"), false), g(vOp("array", "[2]int"), true), g(vOp("complex", "complex128"), true),
		g(vSl(tSlice(tAnySlice), vSl(tAnySlice, vI("i64", 1))), false), g(vSl(tSlice(tPtr(sx.A("i64"))), vPtr(tPtr(sx.A("i64")), nil)), false),
		g(vM(tMap(sx.A("str"), tPtr(sx.A("i64"))), vS("a"), vPtr(tPtr(sx.A("i64")), nil)), false),
		g(vM(tAnyMap, vPtr(tPtr(sx.A("i64")), nil), vS("a")), false), g(vM(tAnyMap, vNamed("s", "MyStr", "str", sx.S("kind")), vS("A")), false),
		g(vM(tMap(tNamed("MyStr", sx.A("str")), sx.A("any")), vNamed("s", "MyStr", "str", sx.S("kind")), vS("A")), false),
	}
}

func init() {
	opaqueValues["uintptr"] = func() any { return uintptr(5) }
	opaqueValues["*big.Int"] = func() any { return big.NewInt(5) }
}

// ---------------------------------------------------------------------------------------------
// positions of a value tree at which an arbitrary value may be put (the container's element type is `any`)
// ---------------------------------------------------------------------------------------------

func isAnyT(t *sx.Node) bool { return !t.IsList() && !t.IsStr && t.Atom == "any" }

// elemAny / keyAny: does a container of this type hold arbitrary values / keys?
func elemAny(t *sx.Node) bool {
	if !t.IsList() {
		return false
	}
	switch t.Head() {
	case "named":
		return elemAny(t.List[2])
	case "slice":
		return isAnyT(t.List[1])
	case "map":
		return isAnyT(t.List[2])
	}
	return false
}
func keyAny(t *sx.Node) bool {
	if !t.IsList() {
		return false
	}
	switch t.Head() {
	case "named":
		return keyAny(t.List[2])
	case "map":
		return isAnyT(t.List[1])
	}
	return false
}

type c04Pos struct {
	path  []int // child indices from the root (into Node.List)
	isKey bool
}

func c04Positions(v *sx.Node) []c04Pos {
	var out []c04Pos
	var walk func(n *sx.Node, path []int)
	walk = func(n *sx.Node, path []int) {
		if !n.IsList() {
			return
		}
		cp := func(extra ...int) []int { return append(append([]int(nil), path...), extra...) }
		switch n.Head() {
		case "sl":
			for i := 3; i < len(n.List); i++ {
				if elemAny(n.List[1]) {
					out = append(out, c04Pos{cp(i), false})
				}
				walk(n.List[i], cp(i))
			}
		case "m":
			for i := 3; i < len(n.List); i++ {
				if elemAny(n.List[1]) {
					out = append(out, c04Pos{cp(i, 1), false})
				}
				if keyAny(n.List[1]) {
					out = append(out, c04Pos{cp(i, 0), true})
				}
				walk(n.List[i].List[1], cp(i, 1))
			}
		case "p":
			if n.List[2].IsList() {
				walk(n.List[2], cp(2))
			}
		}
	}
	out = append(out, c04Pos{nil, false})
	walk(v, nil)
	return out
}

func c04Replace(v *sx.Node, path []int, w *sx.Node) *sx.Node {
	if len(path) == 0 {
		return w
	}
	out := sx.L(v.List...)
	out.List[path[0]] = c04Replace(v.List[path[0]], path[1:], w)
	return out
}

// keyClash: would putting key w at entry path collide with another key of the same map?
func c04KeyClash(v *sx.Node, path []int, w *sx.Node) bool {
	n := v
	for _, i := range path[:len(path)-2] {
		n = n.List[i]
	}
	self := path[len(path)-2]
	ws := w.String()
	for i := 3; i < len(n.List); i++ {
		if i != self && n.List[i].List[0].String() == ws {
			return true
		}
	}
	return false
}

// ---------------------------------------------------------------------------------------------
// the two cycle classes, evaluated on descriptors (the generator's side of the hypotheses)
// ---------------------------------------------------------------------------------------------

// c04InlineCycle: is there a node from which the inline-shorthand walk (single-property object ->
// its property type; reference -> its object; scope -> its root) never ends?
func c04InlineCycle(s *sx.Node, ext *sx.Node) bool {
	extTabs := map[string]scopeCtx{}
	if ext != nil {
		for _, e := range ext.List {
			t := scopeCtx{}
			for _, o := range e.List[1].List {
				t[o.List[0].Str] = o.List[1]
			}
			extTabs[e.List[0].Str] = t
		}
	}
	found := false
	var walkFrom func(n *sx.Node, self scopeCtx, seen map[*sx.Node]bool) bool
	walkFrom = func(n *sx.Node, self scopeCtx, seen map[*sx.Node]bool) bool { // true = diverges
		if !n.IsList() {
			return false
		}
		if seen[n] {
			return true
		}
		seen[n] = true
		switch n.Head() {
		case "object":
			if len(n.List[3].List) == 1 {
				return walkFrom(n.List[3].List[0].List[1].List[1], self, seen)
			}
		case "ref":
			if n.List[2].Str == "" {
				if o, ok := self[n.List[1].Str]; ok {
					return walkFrom(o, self, seen)
				}
			} else if t, ok := extTabs[n.List[2].Str]; ok {
				if o, ok := t[n.List[1].Str]; ok {
					return walkFrom(o, t, seen)
				}
			}
		case "scope":
			inner := scopeTable(n)
			if o, ok := inner[n.List[2].Str]; ok {
				return walkFrom(o, inner, seen)
			}
		}
		return false
	}
	var all func(n *sx.Node, self scopeCtx)
	all = func(n *sx.Node, self scopeCtx) {
		if !n.IsList() || found {
			return
		}
		if walkFrom(n, self, map[*sx.Node]bool{}) {
			found = true
			return
		}
		switch n.Head() {
		case "list":
			all(n.List[1], self)
		case "map":
			all(n.List[1], self)
			all(n.List[2], self)
		case "object":
			for _, p := range n.List[3].List {
				all(p.List[1].List[1], self)
			}
		case "oneof":
			for _, m := range n.List[2].List {
				all(m.List[1], self)
			}
		case "scope":
			inner := scopeTable(n)
			for _, o := range n.List[1].List {
				all(o.List[1], inner)
			}
		}
	}
	all(s, scopeCtx{})
	for _, t := range extTabs {
		for _, o := range t {
			all(o, t)
		}
	}
	return found
}

// ---------------------------------------------------------------------------------------------
// schemas
// ---------------------------------------------------------------------------------------------

type c04Schema struct {
	s          *sx.Node
	ext        *sx.Node // external namespaces or nil
	defaultCyc bool     // a declared default diverges (hand-written schemas only)
	note       string
}

func pr(name string, t *sx.Node) propD   { return propD{name: name, t: t} }
func prReq(name string, t *sx.Node) propD { return propD{name: name, t: t, required: true} }
func prDef(name string, t *sx.Node, d string) propD {
	return propD{name: name, t: t, dflt: &d}
}

// c04FixedSchemas: every kind on its own, every container over every kind, objects, one-ofs,
// references (recursive, mutually recursive, through lists and maps, into an external namespace),
// nested scopes, single-property chains (harmless and cyclic), defaults (harmless and diverging).
func c04FixedSchemas() []c04Schema {
	secs := unitsFromSDK(schema.UnitDurationSeconds)
	leafs := []*sx.Node{
		dInt(nil, nil, nil), dInt(ip(0), ip(10), nil), dInt(nil, nil, &secs), dFloat(nil, nil, nil), dFloat(fp(0), fp(1), &secs),
		dString(nil, nil, nil), dString(ip(1), ip(3), patternPool[0]), dBool(), dPattern(), dAny(),
		dEnumInt([]int64{1, 2, 3}, nil), dEnumStr(nil, []string{"A", "B", "x"}), dEnumStr(sp("MyStr"), []string{"A", "B", "x"}),
	}
	var out []c04Schema
	add := func(note string, s *sx.Node) { out = append(out, c04Schema{s: s, note: note}) }
	for _, l := range leafs {
		add("leaf", l)
		add("list-of-leaf", dList(l, nil, ip(3)))
		add("map-of-leaf", dMap(dString(nil, nil, nil), l, nil, nil))
		add("object-one-prop", dObject("one", false, pr("x", l)))
		add("object-two-props", dObject("two", false, prReq("x", l), pr("y", dInt(nil, nil, nil))))
	}
	add("map-int-keys", dMap(dInt(nil, nil, nil), dAny(), nil, ip(3)))
	add("map-enum-keys", dMap(dEnumStr(nil, []string{"A", "B"}), dList(dAny(), nil, nil), nil, nil))
	add("map-intenum-keys", dMap(dEnumInt([]int64{1, 2}, nil), dBool(), ip(1), nil))
	add("list-of-list", dList(dList(dAny(), nil, nil), nil, nil))

	memA := dObject("MA", false, pr("p", dInt(nil, nil, nil)), pr("q", dAny()))
	memB := dObject("MB", false, prReq("w", dString(nil, nil, nil)))
	add("oneof-str", dOneOf(false, "kind", false, memberD{skey: "A", t: memA}, memberD{skey: "B", t: memB}))
	add("oneof-int", dOneOf(true, "kind", false, memberD{ikey: 1, t: memA}, memberD{ikey: 2, t: memB}))
	memAi := dObject("MA", false, pr("p", dInt(nil, nil, nil)), prReq("kind", dString(nil, nil, nil)))
	memBi := dObject("MB", false, pr("w", dAny()), pr("kind", dString(nil, nil, nil)))
	add("oneof-str-inlined", dOneOf(false, "kind", true, memberD{skey: "A", t: memAi}, memberD{skey: "B", t: memBi}))
	memAii := dObject("MA", false, pr("p", dAny()), prReq("kind", dInt(nil, nil, nil)))
	add("oneof-int-inlined", dOneOf(true, "kind", true, memberD{ikey: 1, t: memAii}))
	add("oneof-single-prop-member", dOneOf(false, "kind", false, memberD{skey: "A", t: dObject("S1", false, pr("only", dAny()))}))
	add("list-of-oneof", dList(dOneOf(false, "kind", false, memberD{skey: "A", t: memA}), nil, nil))
	add("object-with-oneof", dObject("holder", false, pr("o", dOneOf(true, "kind", false, memberD{ikey: 1, t: memA})), pr("n", dInt(nil, nil, nil))))

	// references
	add("scope-plain", dScope("R", dObject("R", false, pr("a", dInt(nil, nil, nil)), pr("b", dAny()))))
	add("scope-recursive", dScope("R", dObject("R", false, pr("next", dRef("R", "")), pr("n", dInt(nil, nil, nil)))))
	add("scope-recursive-list", dScope("R", dObject("R", false, pr("kids", dList(dRef("R", ""), nil, nil)), prReq("n", dAny()))))
	add("scope-recursive-map", dScope("R", dObject("R", false, pr("kids", dMap(dString(nil, nil, nil), dRef("R", ""), nil, nil)), pr("n", dAny()))))
	add("scope-mutual", dScope("A", dObject("A", false, pr("b", dRef("B", "")), pr("n", dInt(nil, nil, nil))), dObject("B", false, pr("a", dRef("A", "")), pr("s", dString(nil, nil, nil)))))
	add("scope-oneof-refs", dScope("R", dObject("R", false, pr("o", dOneOf(false, "kind", false, memberD{skey: "A", t: dRef("MA", "")}, memberD{skey: "R", t: dRef("R", "")})), pr("n", dAny())), memA))
	add("scope-oneof-inlined-refs", dScope("R", dObject("R", false, pr("o", dOneOf(false, "kind", true, memberD{skey: "A", t: dRef("MA", "")})), pr("n", dAny())), memAi))
	add("scope-nested", dScope("R", dObject("R", false, pr("inner", dScope("I", dObject("I", false, pr("me", dRef("I", "")), pr("v", dAny())))), pr("self", dRef("R", "")))))
	add("scope-root-oneprop-harmless", dScope("R", dObject("R", false, pr("b", dRef("B", ""))), dObject("B", false, pr("n", dInt(nil, nil, nil)))))
	add("scope-oneprop-chain-harmless", dScope("R", dObject("R", false, pr("b", dRef("B", ""))), dObject("B", false, pr("c", dRef("C", ""))), dObject("C", false, pr("n", dAny()), pr("m", dAny()))))
	add("scope-oneprop-to-list-of-self", dScope("R", dObject("R", false, pr("kids", dList(dRef("R", ""), nil, nil)))))
	add("scope-oneprop-to-oneof-of-self", dScope("R", dObject("R", false, pr("o", dOneOf(false, "kind", false, memberD{skey: "R", t: dRef("R", "")})))))
	add("scope-defaults", dScope("R", dObject("R", false, prDef("n", dInt(nil, nil, nil), "5"), prDef("s", dString(nil, nil, nil), "abc"), prDef("l", dList(dRef("R", ""), nil, nil), "[]"),
		prDef("bad", dInt(nil, nil, nil), "\"zz\""), prDef("a", dAny(), "{\"k\":[1,2,{\"z\":null}]}"))))
	add("scope-default-object", dScope("R", dObject("R", false, prDef("b", dRef("B", ""), "{}"), pr("n", dAny())), dObject("B", false, prDef("n", dInt(nil, nil, nil), "1"), pr("m", dAny()))))
	add("scope-default-wrong-shape", dScope("R", dObject("R", false, prDef("b", dRef("B", ""), "5"), pr("n", dAny())), dObject("B", false, pr("n", dInt(nil, nil, nil)), pr("m", dAny()))))

	// external namespace
	extTab := sx.L(sx.L(sx.S("ns1"), sx.L(sx.L(sx.S("X"), dObject("X", false, pr("n", dInt(nil, nil, nil)), pr("me", dRef("X", "")))))))
	out = append(out, c04Schema{s: dScope("R", dObject("R", false, pr("x", dRef("X", "ns1")), pr("r", dRef("R", "")))), ext: extTab, note: "scope-external-namespace"})

	// D11: the inline shorthand through a self reference (known finding)
	add("inline-cycle-self", dScope("A", dObject("A", false, pr("x", dRef("A", "")))))
	add("inline-cycle-two", dScope("A", dObject("A", false, pr("b", dRef("B", ""))), dObject("B", false, pr("a", dRef("A", "")))))
	add("inline-cycle-below-list", dScope("R", dObject("R", false, pr("l", dList(dRef("A", ""), nil, nil)), pr("n", dAny())), dObject("A", false, pr("x", dRef("A", "")))))
	add("inline-cycle-nested-scope", dObject("holder", false, pr("s", dScope("A", dObject("A", false, pr("x", dRef("A", ""))))), pr("n", dAny())))
	// a declared default that never finishes unserializing (found by this family)
	out = append(out, c04Schema{s: dScope("A", dObject("A", false, prDef("x", dRef("A", ""), "{}"), pr("n", dAny()))), defaultCyc: true, note: "default-cycle-self"})
	out = append(out, c04Schema{s: dScope("A", dObject("A", false, prDef("b", dRef("B", ""), "{}"), pr("n", dAny())), dObject("B", false, prDef("a", dRef("A", ""), "{\"n\":1}"), pr("m", dAny()))), defaultCyc: true, note: "default-cycle-two"})
	return out
}

// c04NotWf: descriptors the constructors refuse (they panic while building): the model's wf_schema
// must say 0 for them.
func c04NotWf() []c04Schema {
	memA := dObject("MA", false, pr("p", dInt(nil, nil, nil)), pr("kind", dString(nil, nil, nil)))
	memB := dObject("MB", false, pr("p", dInt(nil, nil, nil)))
	return []c04Schema{
		{s: dScope("R", dObject("R", false, pr("x", dRef("Missing", "")))), note: "dangling-ref"},
		{s: dMap(dBool(), dAny(), nil, nil), note: "map-bool-keys"},
		{s: dMap(dList(dAny(), nil, nil), dAny(), nil, nil), note: "map-list-keys"},
		{s: dScope("R", dObject("R", false, pr("o", dOneOf(false, "kind", false, memberD{skey: "A", t: memA})))), note: "oneof-noninlined-member-has-field"},
		{s: dScope("R", dObject("R", false, pr("o", dOneOf(false, "kind", true, memberD{skey: "B", t: memB})))), note: "oneof-inlined-member-lacks-field"},
		{s: dObject("O", false, prDef("n", dInt(nil, nil, nil), "{not json")), note: "default-not-json"},
	}
}

// ---------------------------------------------------------------------------------------------
// generator
// ---------------------------------------------------------------------------------------------

func c04Case(sc c04Schema, nic bool, ops []*sx.Node) *sx.Node {
	l := sx.L(sx.A("ops"))
	l.Append(ops...)
	return sx.L(sx.A("c04"), mkEnv(sc.ext, sc.s, ops), sc.s, sx.L(sx.A("hyp"), sx.B(nic), sx.B(!sc.defaultCyc)), l)
}

// nativeOf runs the real Unserialize on a raw value (generator side) to obtain a valid native tree.
func c04NativeOf(sc c04Schema, raw *sx.Node) (res *sx.Node) {
	defer func() {
		if recover() != nil {
			res = nil
		}
	}()
	env := mkEnv(sc.ext, sc.s, nil)
	s := buildWithEnv(env, sc.s)
	n, err := s.Unserialize(valFromSx(raw))
	if err != nil {
		return nil
	}
	return valSx(n)
}

func c04EmitFor(r *Rng, emit func(*sx.Node), sc c04Schema, perPos int, nBase int) {
	nic := !c04InlineCycle(sc.s, sc.ext)
	pool := c04Pool()
	tab := scopeCtx{}
	if sc.s.Head() == "scope" {
		tab = scopeTable(sc.s)
	}
	safe := nic && !sc.defaultCyc // only then may the generator itself call the SDK on this schema
	var ops []*sx.Node
	flush := func() {
		if len(ops) == 0 {
			return
		}
		if safe {
			for i := 0; i < len(ops); i += 40 {
				j := i + 40
				if j > len(ops) {
					j = len(ops)
				}
				emit(c04Case(sc, nic, ops[i:j]))
			}
		} else {
			for _, o := range ops { // a crash takes the whole case with it: one call per case
				emit(c04Case(sc, nic, []*sx.Node{o}))
			}
		}
		ops = nil
	}
	inject := func(tree *sx.Node, kinds []string) {
		for _, pos := range c04Positions(tree) {
			chosen := pool
			if perPos > 0 && perPos < len(pool) {
				chosen = nil
				for i := 0; i < perPos; i++ {
					chosen = append(chosen, pick(r, pool))
				}
			}
			for _, pv := range chosen {
				if pos.isKey && (!pv.hashable || c04KeyClash(tree, pos.path, pv.v)) {
					continue
				}
				m := c04Replace(tree, pos.path, pv.v)
				for _, k := range kinds {
					ops = append(ops, op(k, m))
				}
			}
		}
	}
	for b := 0; b < nBase; b++ {
		raw := rawFor(r, sc.s, tab, 3)
		ops = append(ops, op("u", raw), op("c", raw))
		inject(raw, []string{"u", "c"})
		var native *sx.Node
		if safe {
			native = c04NativeOf(sc, raw)
		}
		if native == nil {
			native = raw
		}
		ops = append(ops, op("v", native), op("s", native), op("c", native))
		inject(native, []string{"v", "s"})
	}
	flush()
}

// randVal: an arbitrary composition over the two pools (the malformed stream).
func c04RandVal(r *Rng, pool []c04Val, depth int) *sx.Node {
	if depth <= 0 || r.Chance(40) {
		return pick(r, pool).v
	}
	switch r.Intn(5) {
	case 0:
		n := vSl(tAnySlice)
		for i := 0; i < r.Intn(4); i++ {
			n.Append(c04RandVal(r, pool, depth-1))
		}
		return n
	case 1, 2:
		mt := pick(r, []*sx.Node{tAnyMap, tStrMap, tAnyMap})
		n := sx.L(sx.A("m"), mt, sx.A("0"))
		seen := map[string]bool{}
		for i := 0; i < r.Intn(4); i++ {
			var k *sx.Node
			if mt == tAnyMap && r.Chance(30) {
				pv := pick(r, pool)
				if !pv.hashable {
					continue
				}
				k = pv.v
			} else {
				k = vS(pick(r, []string{"a", "b", "kind", "x", "n", "p", "next", "kids", "o"}))
			}
			if seen[k.String()] {
				continue
			}
			seen[k.String()] = true
			n.Append(sx.L(k, c04RandVal(r, pool, depth-1)))
		}
		return n
	case 3:
		return vPtr(tPtr(sx.A("any")), c04RandVal(r, pool, depth-1))
	}
	return pick(r, pool).v
}

func init() {
	families["c04total"] = &Family{
		Label: "c04",
		Gen: withProfile(genProfile{edgeInts: true, utf8Strings: true, unitEdges: true, anyDeep: true, anyDirty: true, oneofRich: true}, func(r *Rng, tier string, emit func(*sx.Node)) {
			thorough := tier == "thorough"
			pool := c04Pool()
			fixed := c04FixedSchemas()
			// (1) exhaustive small scope: every fixed schema x the whole pool at the root x four operations
			for _, sc := range fixed {
				nic := !c04InlineCycle(sc.s, sc.ext)
				var ops []*sx.Node
				for _, pv := range pool {
					for _, k := range []string{"u", "v", "s", "c"} {
						ops = append(ops, op(k, pv.v))
					}
				}
				// a schema with units: every edge string of its own unit definition (zero counts in every position, totals at
				// the int64 edge, counts beyond int64), alone and as list item / map value / object property
				for _, u := range schemaUnits(sc.s) {
					for _, txt := range unitEdgeStrings(u) {
						for _, v := range []*sx.Node{vS(txt), vSl(tAnySlice, vS(txt)), vM(tStrMap, vS("x"), vS(txt)), vM(tAnyMap, vS("k"), vS(txt))} {
							ops = append(ops, op("u", v), op("c", v))
						}
					}
				}
				if nic && !sc.defaultCyc {
					for i := 0; i < len(ops); i += 80 {
						j := i + 80
						if j > len(ops) {
							j = len(ops)
						}
						emit(c04Case(sc, nic, ops[i:j]))
					}
				} else {
					// every operation that can reach the cycle on its own line; validate / serialize cannot
					for i, o := range ops {
						if thorough || i%16 < 4 || o.Head() == "u" && i%3 == 0 {
							emit(c04Case(sc, nic, []*sx.Node{o}))
						}
					}
				}
			}
			// (2) injection at every position of valid trees: fixed schemas, then generated ones
			perPos, nBase := 3, 1
			if thorough {
				perPos, nBase = 0, 2
			}
			for _, sc := range fixed {
				c04EmitFor(r, emit, sc, perPos, nBase)
			}
			nGen := 60
			if thorough {
				nGen = 500
				perPos = 12
			}
			for i := 0; i < nGen; i++ {
				g := &sgen{r: r}
				depth := 1 + r.Intn(3)
				var s *sx.Node
				if r.Chance(75) {
					s = g.scope(depth)
				} else {
					s = g.typ(depth)
				}
				c04EmitFor(r, emit, c04Schema{s: s, note: "generated"}, perPos, nBase)
			}
			// (3) malformed stream: arbitrary compositions at the root
			nMal := 40
			if thorough {
				nMal = 400
			}
			for _, sc := range fixed {
				if c04InlineCycle(sc.s, sc.ext) || sc.defaultCyc {
					continue
				}
				var ops []*sx.Node
				for i := 0; i < nMal/4; i++ {
					v := c04RandVal(r, pool, 3)
					for _, k := range []string{"u", "v", "s", "c"} {
						ops = append(ops, op(k, v))
					}
				}
				emit(c04Case(sc, true, ops))
			}
			// (4) descriptors the constructors refuse
			for _, sc := range c04NotWf() {
				emit(c04Case(sc, true, []*sx.Node{op("u", vNil())}))
			}
		}),
		Run: runC04Case,
	}
}

// ---------------------------------------------------------------------------------------------
// runner
// ---------------------------------------------------------------------------------------------

func c04Class(f func() error) (res *sx.Node) {
	defer func() {
		if r := recover(); r != nil {
			res = sx.A("panic")
		}
	}()
	if err := f(); err != nil {
		return sx.A("err")
	}
	return sx.A("ok")
}

func c04RunOps(s schema.Type, ops []*sx.Node, res *sx.Node) {
	for _, o := range ops {
		v := valFromSx(o.List[1])
		switch o.Head() {
		case "u":
			res.Append(c04Class(func() error { _, err := s.Unserialize(v); return err }))
		case "v":
			res.Append(c04Class(func() error { return s.Validate(v) }))
		case "s":
			res.Append(c04Class(func() error { _, err := s.Serialize(v); return err }))
		case "c":
			res.Append(c04Class(func() error { return s.ValidateCompatibility(v) }))
		default:
			res.Append(sx.L(sx.A("bad"), sx.S("op")))
		}
	}
}

// runC04Case: (c04 ENV SCHEMA (hyp NIC NDC) (ops OP...)) -> (r (wf B) (hyp NIC NDC) CLS...)
func runC04Case(p *sx.Node) *sx.Node {
	var s schema.Type
	func() {
		defer func() {
			if recover() != nil {
				s = nil
			}
		}()
		s = buildWithEnv(p.List[1], p.List[2])
	}()
	if s == nil {
		return sx.L(sx.A("r"), sx.L(sx.A("wf"), sx.A("0")))
	}
	res := sx.L(sx.A("r"), sx.L(sx.A("wf"), sx.A("1")), p.List[3])
	c04RunOps(s, p.List[4].List[1:], res)
	return res
}

var _ = fmt.Sprintf
