package main

import (
	"verif/harness/sx"
)

// c13race, `schema` trials on DEFAULT-RICH scopes: the shared schema generator in its richDefaults mode (more than half
// of the properties have a default; `any`-typed properties with JSON LIST / MAP defaults, nested; non-empty list and map
// defaults) and inputs that LEAVE PROPERTIES OUT - the empty map first (every property of the root omitted), then
// generated inputs (optional properties omitted with probability 0.45 at every level) and the same inputs with the
// properties that have a default removed at the top level.  The decoded defaults are one shared value per object
// (ObjectSchema.defaultValues): every call that omits a property reads them and hands a result built from them to its
// caller, so a conversion that writes into what it was given, or a result that IS the cached container, is a write to
// shared schema state under concurrent Unserialize - the race detector's subject.  The runner is the one of the
// `schema` kind (fresh / rebuilt instance, results compared with isolated repetitions).

// c13DropDefaulted: a copy of a raw object input (a map value) without the entries of root properties that have a default.
func c13DropDefaulted(root *sx.Node, v *sx.Node) *sx.Node {
	if root == nil || root.Head() != "object" || !v.IsList() || v.Head() != "m" {
		return nil
	}
	has := map[string]bool{}
	for _, p := range root.List[3].List {
		if pn := p.List[1]; len(pn.List) > 7 && !isNone(pn.List[7]) { // (prop T disp req if ifnot confl DFLT ...)
			has[p.List[0].Str] = true
		}
	}
	out := sx.L(v.List[:3]...)
	dropped := false
	for _, e := range v.List[3:] {
		k := e.List[0]
		if k.IsList() && k.Head() == "s" && has[k.List[2].Str] {
			dropped = true
			continue
		}
		out.Append(e)
	}
	if !dropped {
		return nil
	}
	return out
}

func c13GenDefaults(r *Rng, id *sx.Node, ng int) *sx.Node {
	depth := 1 + r.Intn(2)
	gen := func() *sx.Node { return (&sgen{r: r, richDefaults: true}).scope(depth) }
	s := gen()
	kind := "fresh"
	if r.Bool() {
		kind = "rebuilt"
		for try := 0; try < 10 && !c13Rebuildable(s); try++ {
			s = gen()
		}
		if !c13Rebuildable(s) {
			kind = "fresh"
		}
	}
	sc := scopeTable(s)
	root := sc[s.List[2].Str]
	ops := sx.L(sx.A("ops"))
	ops.Append(op("u", vM(tAnyMap)))
	for j := 0; j < 2+r.Intn(3); j++ {
		v := rawFor(r, s, sc, depth+1)
		if nv := c11Norm(v); nv != nil {
			v = nv
		}
		ops.Append(op("u", v))
		if d := c13DropDefaulted(root, v); d != nil {
			ops.Append(op("u", d))
		}
	}
	ops.Append(op("u", vM(tStrMap)))
	return sx.L(sx.A("race"), id, sx.A("schema"), sx.A(kind), sx.I(int64(ng)), s, ops)
}
