package main

import (
	"fmt"
	"math"
	"math/big"
	"reflect"
	"regexp"
	"sort"

	"verif/harness/sx"
)

// ---- named types available to cases (Go cannot create named types at run time) ----

type MyStr string
type MyInt int64
type MyInt32 int32
type MyUint8 uint8
type MyBool bool
type MyF64 float64
type MyF32 float32
type MySlice []any
type MyMap map[string]any
type MyStruct struct {
	A int64  `json:"a"`
	B string `json:"b"`
}

var namedTypes = map[string]reflect.Type{
	"MyStr": reflect.TypeOf(MyStr("")), "MyInt": reflect.TypeOf(MyInt(0)), "MyInt32": reflect.TypeOf(MyInt32(0)),
	"MyUint8": reflect.TypeOf(MyUint8(0)), "MyBool": reflect.TypeOf(MyBool(false)), "MyF64": reflect.TypeOf(MyF64(0)),
	"MyF32": reflect.TypeOf(MyF32(0)), "MySlice": reflect.TypeOf(MySlice(nil)), "MyMap": reflect.TypeOf(MyMap(nil)),
}
var structTypes = map[string]reflect.Type{}

func init() {
	registerStruct(reflect.TypeOf(MyStruct{}))
}
func registerStruct(t reflect.Type) { structTypes[t.Name()] = t }

var anyType = reflect.TypeOf((*any)(nil)).Elem()
var regexpType = reflect.TypeOf(&regexp.Regexp{})

var basicTypes = map[string]reflect.Type{
	"bool": reflect.TypeOf(false), "i0": reflect.TypeOf(int(0)), "i8": reflect.TypeOf(int8(0)), "i16": reflect.TypeOf(int16(0)),
	"i32": reflect.TypeOf(int32(0)), "i64": reflect.TypeOf(int64(0)), "u0": reflect.TypeOf(uint(0)), "u8": reflect.TypeOf(uint8(0)),
	"u16": reflect.TypeOf(uint16(0)), "u32": reflect.TypeOf(uint32(0)), "u64": reflect.TypeOf(uint64(0)),
	"f32": reflect.TypeOf(float32(0)), "f64": reflect.TypeOf(float64(0)), "str": reflect.TypeOf(""), "any": anyType,
	"regexp": regexpType,
}
var kindAtoms = map[reflect.Kind]string{
	reflect.Bool: "bool", reflect.Int: "i0", reflect.Int8: "i8", reflect.Int16: "i16", reflect.Int32: "i32", reflect.Int64: "i64",
	reflect.Uint: "u0", reflect.Uint8: "u8", reflect.Uint16: "u16", reflect.Uint32: "u32", reflect.Uint64: "u64",
	reflect.Float32: "f32", reflect.Float64: "f64", reflect.String: "str",
}

// typeSx prints a reflect.Type in the interchange syntax.
func typeSx(t reflect.Type) *sx.Node {
	if t == regexpType {
		return sx.A("regexp")
	}
	if t == anyType {
		return sx.A("any")
	}
	if t.Name() != "" && t.PkgPath() != "" {
		if t.Kind() == reflect.Struct {
			return sx.L(sx.A("struct"), sx.S(t.Name()))
		}
		if _, ok := namedTypes[t.Name()]; ok {
			return sx.L(sx.A("named"), sx.S(t.Name()), underlyingSx(t))
		}
		if a, ok := kindAtoms[t.Kind()]; ok { // foreign named scalar (e.g. time.Duration)
			return sx.L(sx.A("named"), sx.S(t.String()), sx.A(a))
		}
		return sx.L(sx.A("opaque"), sx.S(t.String()))
	}
	return underlyingSx(t)
}

func underlyingSx(t reflect.Type) *sx.Node {
	if a, ok := kindAtoms[t.Kind()]; ok {
		return sx.A(a)
	}
	switch t.Kind() {
	case reflect.Slice:
		return sx.L(sx.A("slice"), typeSx(t.Elem()))
	case reflect.Map:
		return sx.L(sx.A("map"), typeSx(t.Key()), typeSx(t.Elem()))
	case reflect.Pointer:
		return sx.L(sx.A("ptr"), typeSx(t.Elem()))
	case reflect.Interface:
		if t.NumMethod() == 0 {
			return sx.A("any")
		}
	case reflect.Struct:
		return sx.L(sx.A("struct"), sx.S(t.String()))
	}
	return sx.L(sx.A("opaque"), sx.S(t.String()))
}

func typeFromSx(n *sx.Node) reflect.Type {
	if !n.IsList() {
		if t, ok := basicTypes[n.Atom]; ok {
			return t
		}
		panic("unknown type atom " + n.Atom)
	}
	switch n.Head() {
	case "named":
		if t, ok := namedTypes[n.List[1].Str]; ok {
			return t
		}
		panic("unknown named type " + n.List[1].Str)
	case "slice":
		return reflect.SliceOf(typeFromSx(n.List[1]))
	case "map":
		return reflect.MapOf(typeFromSx(n.List[1]), typeFromSx(n.List[2]))
	case "ptr":
		return reflect.PointerTo(typeFromSx(n.List[1]))
	case "struct":
		if t, ok := structTypes[n.List[1].Str]; ok {
			return t
		}
		panic("unknown struct type " + n.List[1].Str)
	}
	panic("unknown type " + n.String())
}

// ---- floats ----

func flSx(f float64) *sx.Node {
	switch {
	case math.IsNaN(f):
		return sx.A("nan")
	case math.IsInf(f, 1):
		return sx.A("+inf")
	case math.IsInf(f, -1):
		return sx.A("-inf")
	case f == 0:
		if math.Signbit(f) {
			return sx.A("-0")
		}
		return sx.A("+0")
	}
	sign := "+"
	if f < 0 {
		sign = "-"
		f = -f
	}
	frac, exp := math.Frexp(f) // f = frac * 2^exp, frac in [0.5,1)
	m := uint64(frac * (1 << 53))
	e := exp - 53
	for m&1 == 0 {
		m >>= 1
		e++
	}
	return sx.L(sx.A(sign), sx.U(m), sx.I(int64(e)))
}

func flFromSx(n *sx.Node) float64 {
	if !n.IsList() {
		switch n.Atom {
		case "nan":
			return math.NaN()
		case "+inf":
			return math.Inf(1)
		case "-inf":
			return math.Inf(-1)
		case "+0":
			return 0
		case "-0":
			return math.Copysign(0, -1)
		}
		panic("bad float " + n.Atom)
	}
	m, _ := new(big.Int).SetString(n.List[1].Atom, 10)
	f := new(big.Float).SetInt(m)
	f.SetMantExp(f, int(n.List[2].Int()))
	v, _ := f.Float64()
	if n.List[0].Atom == "-" {
		v = -v
	}
	return v
}

// ---- values ----

// valSx prints any Go value canonically, with the dynamic type of every node.
func valSx(v any) *sx.Node {
	if v == nil {
		return sx.A("nil")
	}
	return rvalSx(reflect.ValueOf(v))
}

func keyRank(k reflect.Kind) int {
	switch k {
	case reflect.Int, reflect.Int8, reflect.Int16, reflect.Int32, reflect.Int64, reflect.Uint, reflect.Uint8, reflect.Uint16, reflect.Uint32, reflect.Uint64:
		return 0
	case reflect.String:
		return 1
	case reflect.Bool:
		return 2
	case reflect.Float32, reflect.Float64:
		return 3
	}
	return 4
}

func keyLess(a, b reflect.Value) bool {
	for a.Kind() == reflect.Interface && !a.IsNil() {
		a = a.Elem()
	}
	for b.Kind() == reflect.Interface && !b.IsNil() {
		b = b.Elem()
	}
	ra, rb := keyRank(a.Kind()), keyRank(b.Kind())
	if ra != rb {
		return ra < rb
	}
	switch ra {
	case 0:
		ba, bb := new(big.Int), new(big.Int)
		if a.CanInt() {
			ba.SetInt64(a.Int())
		} else {
			ba.SetUint64(a.Uint())
		}
		if b.CanInt() {
			bb.SetInt64(b.Int())
		} else {
			bb.SetUint64(b.Uint())
		}
		return ba.Cmp(bb) < 0
	case 1:
		return a.String() < b.String()
	case 2:
		return !a.Bool() && b.Bool()
	case 3:
		return a.Float() < b.Float()
	}
	return false
}

func rvalSx(v reflect.Value) *sx.Node {
	if !v.IsValid() {
		return sx.A("nil")
	}
	t := v.Type()
	if t == regexpType {
		if v.IsNil() {
			return sx.L(sx.A("p"), sx.A("regexp"), sx.A("nil"))
		}
		return sx.L(sx.A("re"), sx.S(v.Interface().(*regexp.Regexp).String()))
	}
	switch v.Kind() {
	case reflect.Interface:
		if v.IsNil() {
			return sx.A("nil")
		}
		return rvalSx(v.Elem())
	case reflect.Bool:
		return sx.L(sx.A("b"), typeSx(t), sx.B(v.Bool()))
	case reflect.Int, reflect.Int8, reflect.Int16, reflect.Int32, reflect.Int64:
		return sx.L(sx.A("i"), typeSx(t), sx.I(v.Int()))
	case reflect.Uint, reflect.Uint8, reflect.Uint16, reflect.Uint32, reflect.Uint64:
		return sx.L(sx.A("i"), typeSx(t), sx.U(v.Uint()))
	case reflect.Float32, reflect.Float64:
		return sx.L(sx.A("f"), typeSx(t), flSx(v.Float()))
	case reflect.String:
		return sx.L(sx.A("s"), typeSx(t), sx.S(v.String()))
	case reflect.Slice:
		n := sx.L(sx.A("sl"), typeSx(t), sx.B(v.IsNil()))
		for i := 0; i < v.Len(); i++ {
			n.Append(rvalSx(v.Index(i)))
		}
		return n
	case reflect.Map:
		n := sx.L(sx.A("m"), typeSx(t), sx.B(v.IsNil()))
		// MapRange, not MapKeys + MapIndex: the value under a NaN key cannot be looked up
		type kv struct{ k, v reflect.Value }
		var ents []kv
		for it := v.MapRange(); it.Next(); {
			ents = append(ents, kv{it.Key(), it.Value()})
		}
		sort.SliceStable(ents, func(i, j int) bool { return keyLess(ents[i].k, ents[j].k) })
		for _, e := range ents {
			n.Append(sx.L(rvalSx(e.k), rvalSx(e.v)))
		}
		return n
	case reflect.Pointer:
		if t.Elem().Kind() == reflect.Struct {
			if _, known := structTypes[t.Elem().Name()]; !known {
				return sx.L(sx.A("op"), sx.A("ptr"), sx.S(t.String()))
			}
		}
		if v.IsNil() {
			return sx.L(sx.A("p"), typeSx(t), sx.A("nil"))
		}
		return sx.L(sx.A("p"), typeSx(t), rvalSx(v.Elem()))
	case reflect.Struct:
		if _, known := structTypes[t.Name()]; !known {
			return sx.L(sx.A("op"), sx.A("struct"), sx.S(t.String()))
		}
		n := sx.L(sx.A("st"), typeSx(t))
		for i := 0; i < v.NumField(); i++ {
			if t.Field(i).IsExported() {
				n.Append(sx.L(sx.S(t.Field(i).Name), rvalSx(v.Field(i))))
			}
		}
		return n
	case reflect.Chan:
		return sx.L(sx.A("op"), sx.A("chan"), sx.S(t.String()))
	case reflect.Func:
		return sx.L(sx.A("op"), sx.A("func"), sx.S(t.String()))
	case reflect.Array:
		return sx.L(sx.A("op"), sx.A("array"), sx.S(t.String()))
	case reflect.Complex64, reflect.Complex128:
		return sx.L(sx.A("op"), sx.A("complex"), sx.S(t.String()))
	case reflect.Uintptr:
		return sx.L(sx.A("op"), sx.A("uintptr"), sx.S(t.String()))
	case reflect.UnsafePointer:
		return sx.L(sx.A("op"), sx.A("unsafeptr"), sx.S(t.String()))
	}
	return sx.L(sx.A("op"), sx.A("struct"), sx.S(t.String()))
}

// opaque values by description
var opaqueValues = map[string]func() any{}

// valFromSx builds the Go value a case describes, with exactly the dynamic types it names.
func valFromSx(n *sx.Node) any {
	v := rvalFromSx(n)
	if !v.IsValid() {
		return nil
	}
	return v.Interface()
}

func rvalFromSx(n *sx.Node) reflect.Value {
	if !n.IsList() {
		if n.Atom == "nil" {
			return reflect.Value{}
		}
		panic("bad value atom " + n.Atom)
	}
	switch n.Head() {
	case "b":
		v := reflect.New(typeFromSx(n.List[1])).Elem()
		v.SetBool(n.List[2].Atom == "1")
		return v
	case "i":
		v := reflect.New(typeFromSx(n.List[1])).Elem()
		z, _ := new(big.Int).SetString(n.List[2].Atom, 10)
		if v.CanInt() {
			v.SetInt(z.Int64())
		} else {
			v.SetUint(z.Uint64())
		}
		return v
	case "f":
		v := reflect.New(typeFromSx(n.List[1])).Elem()
		v.SetFloat(flFromSx(n.List[2]))
		return v
	case "s":
		v := reflect.New(typeFromSx(n.List[1])).Elem()
		v.SetString(n.List[2].Str)
		return v
	case "sl":
		t := typeFromSx(n.List[1])
		if n.List[2].Atom == "1" {
			return reflect.Zero(t)
		}
		items := n.List[3:]
		v := reflect.MakeSlice(t, len(items), len(items))
		for i, it := range items {
			x := rvalFromSx(it)
			if x.IsValid() {
				v.Index(i).Set(x)
			}
		}
		return v
	case "m":
		t := typeFromSx(n.List[1])
		if n.List[2].Atom == "1" {
			return reflect.Zero(t)
		}
		v := reflect.MakeMap(t)
		for _, it := range n.List[3:] {
			k := rvalFromSx(it.List[0])
			x := rvalFromSx(it.List[1])
			if !k.IsValid() {
				k = reflect.Zero(t.Key())
			}
			if !x.IsValid() {
				x = reflect.Zero(t.Elem())
			}
			v.SetMapIndex(k, x)
		}
		return v
	case "p":
		t := typeFromSx(n.List[1])
		if !n.List[2].IsList() && n.List[2].Atom == "nil" {
			return reflect.Zero(t)
		}
		x := rvalFromSx(n.List[2])
		p := reflect.New(t.Elem())
		p.Elem().Set(x)
		return p
	case "st":
		t := typeFromSx(n.List[1])
		v := reflect.New(t).Elem()
		for _, f := range n.List[2:] {
			x := rvalFromSx(f.List[1])
			if x.IsValid() {
				v.FieldByName(f.List[0].Str).Set(x)
			}
		}
		return v
	case "re":
		return reflect.ValueOf(regexp.MustCompile(n.List[1].Str))
	case "op":
		if mk, ok := opaqueValues[n.List[2].Str]; ok {
			return reflect.ValueOf(mk())
		}
		panic("unknown opaque value " + n.List[2].Str)
	}
	panic(fmt.Sprintf("bad value %s", n.String()))
}
