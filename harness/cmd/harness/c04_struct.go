package main

import (
	"reflect"

	"go.flow.arcalot.io/pluginsdk/schema"
	"verif/harness/sx"
)

// C04 on struct-mapped objects (family `c04struct`, label c04s): a small fixed family of Go structs
// and schemas over them — scalar, pointer, slice, map, nested-struct, pointer-to-struct, `any` and
// named-string fields; treat-empty-as-default on every field type (comparable or not); defaults on
// the parent and on the struct-typed member.  Not modelled: the observable is t (returned a result
// or an error) / panic, and the model's prediction is the statement of C04.

type C04Inner struct {
	A int64  `json:"a"`
	S string `json:"s"`
}
type C04Outer struct {
	N    int64            `json:"n"`
	Name string           `json:"name"`
	Opt  *string          `json:"opt"`
	Tags []string         `json:"tags"`
	M    map[string]int64 `json:"m"`
	In   C04Inner         `json:"in"`
	InP  *C04Inner        `json:"inp"`
	Any  any              `json:"any"`
	E    MyStr            `json:"e"`
	F    float64          `json:"f"`
	B    bool             `json:"b"`
}

// C04Holder holds a map-based (not struct-mapped) member: the member's object may be recursive.
type C04Holder struct {
	X map[string]any `json:"x"`
	N int64          `json:"n"`
}

// C04Node: a struct-mapped object that refers to ITSELF (linked list / tree): through an optional reference on a
// pointer field, and through a list of references.  The schema is mapped to *C04Node, so an absent `next` stays nil.
type C04Node struct {
	Value string     `json:"value"`
	Next  *C04Node   `json:"next"`
	Kids  []*C04Node `json:"kids"`
	Other *C04Node   `json:"other"`
}

// C04Emb / C04EmbPtr: properties on PROMOTED fields, through an embedded struct and through an embedded struct pointer
// (nil until a promoted field is written; a nil one means "every promoted property absent").
type C04Emb struct {
	C04Inner
	C int64 `json:"c"`
}
type C04EmbPtr struct {
	*C04Inner
	C int64 `json:"c"`
}

func c04EmbProps(empty bool) map[string]*schema.PropertySchema {
	return map[string]*schema.PropertySchema{
		"a": c04Prop(schema.NewIntSchema(nil, nil, nil), false, nil, empty),
		"s": c04Prop(schema.NewStringSchema(nil, nil, nil), false, nil, empty),
		"c": c04Prop(schema.NewIntSchema(nil, nil, nil), false, nil, false),
	}
}

// c04NodeSchema: scope(Node{value, next: ref Node, kids: list of ref Node [, other: ref Node with a declared default]})
func c04NodeSchema(withDefault bool) schema.Type {
	props := map[string]*schema.PropertySchema{
		"value": c04Prop(schema.NewStringSchema(nil, nil, nil), false, sp("\"v\""), false),
		"next":  c04Prop(schema.NewRefSchema("Node", nil), false, nil, false),
		"kids":  c04Prop(schema.NewListSchema(schema.NewRefSchema("Node", nil), nil, nil), false, nil, false),
	}
	if withDefault {
		props["other"] = c04Prop(schema.NewRefSchema("Leaf", nil), false, sp("{\"value\":\"d\"}"), false)
		return schema.NewScopeSchema(schema.NewStructMappedObjectSchema[*C04Node]("Node", props), c04LeafSchema())
	}
	return schema.NewScopeSchema(schema.NewStructMappedObjectSchema[*C04Node]("Node", props))
}

func c04LeafSchema() *schema.ObjectSchema {
	return schema.NewStructMappedObjectSchema[*C04Node]("Leaf", map[string]*schema.PropertySchema{
		"value": c04Prop(schema.NewStringSchema(nil, nil, nil), false, nil, false),
	})
}

// c04NodeRaw: a finite list / tree; the recursive properties are absent at the leaves
func c04NodeRaw(r *Rng, depth int) *sx.Node {
	mt := pick(r, []*sx.Node{tAnyMap, tStrMap})
	n := sx.L(sx.A("m"), mt, sx.A("0"))
	if r.Chance(70) {
		n.Append(sx.L(vS("value"), vS(pick(r, []string{"leaf", "", "x"}))))
	}
	if depth > 0 && r.Chance(60) {
		n.Append(sx.L(vS("next"), c04NodeRaw(r, depth-1)))
	}
	if depth > 0 && r.Chance(40) {
		kids := vSl(tAnySlice)
		for i := 0; i < r.Intn(3); i++ {
			kids.Append(c04NodeRaw(r, depth-1))
		}
		n.Append(sx.L(vS("kids"), kids))
	}
	return n
}

func init() {
	registerStruct(reflect.TypeOf(C04Node{}))
	registerStruct(reflect.TypeOf(C04Emb{}))
	registerStruct(reflect.TypeOf(C04EmbPtr{}))
	registerStruct(reflect.TypeOf(C04Holder{}))
	registerStruct(reflect.TypeOf(C04Inner{}))
	registerStruct(reflect.TypeOf(C04Outer{}))
}

func c04Prop(t schema.Type, required bool, dflt *string, empty bool) *schema.PropertySchema {
	p := schema.NewPropertySchema(t, nil, required, nil, nil, nil, dflt, nil)
	if empty {
		p.TreatEmptyAsDefaultValue()
	}
	return p
}

func c04InnerSchema(withDefaults bool) *schema.ObjectSchema {
	var da, ds *string
	if withDefaults {
		da, ds = sp("1"), sp("\"dflt\"")
	}
	return schema.NewStructMappedObjectSchema[C04Inner]("C04Inner", map[string]*schema.PropertySchema{
		"a": c04Prop(schema.NewIntSchema(nil, nil, nil), false, da, false),
		"s": c04Prop(schema.NewStringSchema(nil, nil, nil), false, ds, false),
	})
}

// c04StructSchemas: name -> builder (built afresh for every case)
var c04StructSchemas = map[string]func() schema.Type{
	// plain: optional fields on pointer / slice / map / struct fields
	"outer-plain": func() schema.Type { return c04Outer(false, false, nil, false) },
	// treat-empty-as-default on every property, comparable or not (D10)
	"outer-empty-is-default": func() schema.Type { return c04Outer(true, false, nil, false) },
	// the struct-typed member has defaults of its own (D42 / D43 live here)
	"outer-member-defaults": func() schema.Type { return c04Outer(false, true, nil, false) },
	// ... and the parent declares a default for the member, of the right and of the wrong shape
	"outer-member-default-declared": func() schema.Type { return c04Outer(false, true, sp("{\"a\":5}"), false) },
	"outer-member-default-wrong-shape": func() schema.Type { return c04Outer(false, true, sp("5"), false) },
	"outer-member-default-list": func() schema.Type { return c04Outer(true, true, sp("[1]"), false) },
	// the member through a reference inside a scope
	"outer-scope-ref": func() schema.Type { return c04Outer(false, true, nil, true) },
	"inner": func() schema.Type { return c04InnerSchema(true) },
	// a struct-mapped parent whose member is a map-based object: plain, and referring to itself
	"holder-plain-member": func() schema.Type { return c04HolderSchema(false) },
	"holder-recursive-member": func() schema.Type { return c04HolderSchema(true) },
	// a struct-mapped object (mapped to a pointer type) that refers to itself through an optional reference and through a list
	// treat-empty-as-default properties whose reflected type cannot / can be converted to the Go type of the field (D64)
	"inner-loose-empty-is-default": func() schema.Type {
		return schema.NewStructMappedObjectSchema[C04Inner]("C04Inner", map[string]*schema.PropertySchema{
			"a": c04Prop(schema.NewStringSchema(nil, nil, nil), false, nil, true), // string property on an int64 field
			"s": c04Prop(schema.NewIntSchema(nil, nil, nil), false, nil, true),    // int property on a string field
		})
	},
	// properties on promoted fields of an embedded struct / embedded struct pointer, plain and treat-empty-as-default
	"emb-struct": func() schema.Type { return schema.NewStructMappedObjectSchema[C04Emb]("C04Emb", c04EmbProps(false)) },
	"emb-pointer": func() schema.Type {
		return schema.NewStructMappedObjectSchema[C04EmbPtr]("C04EmbPtr", c04EmbProps(false))
	},
	"emb-pointer-empty-is-default": func() schema.Type {
		return schema.NewStructMappedObjectSchema[*C04EmbPtr]("C04EmbPtr", c04EmbProps(true))
	},
	"node-self-reference":         func() schema.Type { return c04NodeSchema(false) },
	"node-self-reference-default": func() schema.Type { return c04NodeSchema(true) },
}

func c04HolderSchema(recursive bool) schema.Type {
	aProps := map[string]*schema.PropertySchema{
		"n": c04Prop(schema.NewIntSchema(nil, nil, nil), false, sp("1"), false),
	}
	if recursive {
		aProps["next"] = c04Prop(schema.NewRefSchema("A", nil), false, nil, false)
	}
	a := schema.NewObjectSchema("A", aProps)
	holder := schema.NewStructMappedObjectSchema[C04Holder]("C04Holder", map[string]*schema.PropertySchema{
		"x": c04Prop(schema.NewRefSchema("A", nil), false, nil, false),
		"n": c04Prop(schema.NewIntSchema(nil, nil, nil), false, nil, false),
	})
	return schema.NewScopeSchema(holder, a)
}

func c04Outer(empty, memberDefaults bool, memberDflt *string, viaRef bool) schema.Type {
	inner := c04InnerSchema(memberDefaults)
	var inT, inPT schema.Type = inner, c04InnerSchema(memberDefaults)
	if viaRef {
		inT = schema.NewRefSchema("C04Inner", nil)
	}
	props := map[string]*schema.PropertySchema{
		"n":    c04Prop(schema.NewIntSchema(nil, nil, nil), false, sp("5"), empty),
		"name": c04Prop(schema.NewStringSchema(nil, nil, nil), false, nil, empty),
		"opt":  c04Prop(schema.NewStringSchema(nil, nil, nil), false, nil, false),
		"tags": c04Prop(schema.NewListSchema(schema.NewStringSchema(nil, nil, nil), nil, nil), false, nil, empty),
		"m":    c04Prop(schema.NewMapSchema(schema.NewStringSchema(nil, nil, nil), schema.NewIntSchema(nil, nil, nil), nil, nil), false, nil, empty),
		"in":   c04Prop(inT, false, memberDflt, empty),
		"inp":  c04Prop(inPT, false, nil, false),
		"any":  c04Prop(schema.NewAnySchema(), false, nil, empty),
		"e":    c04Prop(schema.NewTypedStringEnumSchema[MyStr](map[MyStr]*schema.DisplayValue{"x": nil, "y": nil}), false, nil, empty),
		"f":    c04Prop(schema.NewFloatSchema(nil, nil, nil), false, nil, empty),
		"b":    c04Prop(schema.NewBoolSchema(), false, nil, empty),
	}
	outer := schema.NewStructMappedObjectSchema[C04Outer]("C04Outer", props)
	if viaRef {
		return schema.NewScopeSchema(outer, inner)
	}
	return outer
}

func c04InnerVal(a int64, s string) *sx.Node {
	return vSt("C04Inner", sx.S("A"), vI("i64", a), sx.S("S"), vS(s))
}

func c04OuterVal(fields ...*sx.Node) *sx.Node { return vSt("C04Outer", fields...) }

func c04StructNatives() []*sx.Node {
	tInner := tStruct("C04Inner")
	full := c04OuterVal(
		sx.S("N"), vI("i64", 3), sx.S("Name"), vS("nm"), sx.S("Opt"), vPtr(tPtr(sx.A("str")), vS("o")),
		sx.S("Tags"), vSl(tSlice(sx.A("str")), vS("a"), vS("b")), sx.S("M"), vM(tMap(sx.A("str"), sx.A("i64")), vS("k"), vI("i64", 1)),
		sx.S("In"), c04InnerVal(2, "s"), sx.S("InP"), vPtr(tPtr(tInner), c04InnerVal(4, "t")),
		sx.S("Any"), vM(tAnyMap, vS("k"), vSl(tAnySlice, vI("i64", 1))), sx.S("E"), vNamed("s", "MyStr", "str", sx.S("x")),
		sx.S("F"), vF("f64", 1.5), sx.S("B"), vB(true))
	zero := c04OuterVal()
	emptyC := c04OuterVal(sx.S("Tags"), vSl(tSlice(sx.A("str"))), sx.S("M"), vM(tMap(sx.A("str"), sx.A("i64"))), sx.S("E"), vNamed("s", "MyStr", "str", sx.S("x")))
	tOuter := tStruct("C04Outer")
	return []*sx.Node{full, zero, emptyC, vPtr(tPtr(tOuter), full), vPtr(tPtr(tOuter), nil), vPtr(tPtr(tOuter), zero),
		c04InnerVal(1, "x"), vPtr(tPtr(tInner), nil), vPtr(tPtr(tInner), c04InnerVal(1, "x")),
		vSt("MyStruct", sx.S("A"), vI("i64", 1), sx.S("B"), vS("x")), vPtr(tPtr(tPtr(tOuter)), vPtr(tPtr(tOuter), full))}
}

func c04StructRaw(r *Rng) *sx.Node {
	mt := pick(r, []*sx.Node{tAnyMap, tStrMap})
	n := sx.L(sx.A("m"), mt, sx.A("0"))
	add := func(k string, v *sx.Node) {
		if r.Chance(60) {
			n.Append(sx.L(vS(k), v))
		}
	}
	add("n", pickRepr(r, int64(r.Intn(9))))
	add("name", vS("nm"))
	add("opt", vS("o"))
	add("tags", vSl(tAnySlice, vS("a"), vS("b")))
	add("m", vM(tAnyMap, vS("k"), vI("i64", 1)))
	add("in", vM(mt, vS("a"), vI("i64", 2)))
	add("inp", vM(tAnyMap, vS("s"), vS("t")))
	add("any", vM(tAnyMap, vS("k"), vSl(tAnySlice, vI("i64", 1))))
	add("e", vS("x"))
	add("f", vF("f64", 1.5))
	add("b", vB(true))
	return n
}

func init() {
	families["c04struct"] = &Family{
		Label: "c04s",
		Gen: func(r *Rng, tier string, emit func(*sx.Node)) {
			pool := c04Pool()
			perPos, nRaw := 4, 3
			if tier == "thorough" {
				perPos, nRaw = 0, 12
			}
			for _, name := range sortedKeys(func() map[string]bool {
				m := map[string]bool{}
				for k := range c04StructSchemas {
					m[k] = true
				}
				return m
			}()) {
				var ops []*sx.Node
				// the whole pool at the root, four operations
				for _, pv := range pool {
					for _, k := range []string{"u", "v", "s", "c"} {
						ops = append(ops, op(k, pv.v))
					}
				}
				// native structs (and wrong ones) for Validate / Serialize / compatibility
				for _, nv := range c04StructNatives() {
					ops = append(ops, op("v", nv), op("s", nv), op("c", nv), op("u", nv))
					// an arbitrary value in the `any` field
					if nv.Head() == "st" && nv.List[1].List[1].Str == "C04Outer" {
						for i := 0; i < 6; i++ {
							pv := pick(r, pool)
							m := sx.L(nv.List...)
							replaced := false
							for j, f := range m.List[2:] {
								if f.List[0].Str == "Any" {
									m.List[2+j] = sx.L(sx.S("Any"), pv.v)
									replaced = true
								}
							}
							if !replaced {
								m.Append(sx.L(sx.S("Any"), pv.v))
							}
							ops = append(ops, op("v", m), op("s", m))
						}
					}
				}
				// raw maps: valid, and with a pool value at every position
				isNode := len(name) >= 4 && name[:4] == "node"
				if isNode {
					tNode := tStruct("C04Node")
					leaf := vSt("C04Node", sx.S("Value"), vS("leaf"))
					chain := vSt("C04Node", sx.S("Value"), vS("a"), sx.S("Next"), vPtr(tPtr(tNode), leaf), sx.S("Kids"), vSl(tSlice(tPtr(tNode)), vPtr(tPtr(tNode), leaf), vPtr(tPtr(tNode), nil)))
					for _, nv := range []*sx.Node{vPtr(tPtr(tNode), leaf), vPtr(tPtr(tNode), chain), vPtr(tPtr(tNode), nil), leaf, chain, vPtr(tPtr(tNode), vSt("C04Node"))} {
						ops = append(ops, op("v", nv), op("s", nv), op("c", nv), op("u", nv))
					}
				}
				isEmb := len(name) >= 3 && name[:3] == "emb"
				if isEmb {
					tIn, tE, tEP := tStruct("C04Inner"), tStruct("C04Emb"), tStruct("C04EmbPtr")
					in := c04InnerVal(1, "x")
					nilIn := vPtr(tPtr(tIn), nil)
					for _, nv := range []*sx.Node{
						vSt("C04Emb", sx.S("C04Inner"), in, sx.S("C"), vI("i64", 2)), vSt("C04Emb"), vPtr(tPtr(tE), vSt("C04Emb", sx.S("C"), vI("i64", 2))),
						vSt("C04EmbPtr", sx.S("C04Inner"), vPtr(tPtr(tIn), in), sx.S("C"), vI("i64", 2)), vSt("C04EmbPtr", sx.S("C04Inner"), nilIn, sx.S("C"), vI("i64", 2)),
						vSt("C04EmbPtr"), vPtr(tPtr(tEP), vSt("C04EmbPtr", sx.S("C"), vI("i64", 2))), vPtr(tPtr(tEP), vSt("C04EmbPtr", sx.S("C04Inner"), vPtr(tPtr(tIn), c04InnerVal(0, "")))),
						vPtr(tPtr(tEP), nil)} {
						ops = append(ops, op("v", nv), op("s", nv), op("c", nv), op("u", nv))
					}
					for _, raw := range []*sx.Node{vM(tStrMap, vS("c"), vI("i64", 2)), vM(tAnyMap, vS("a"), vI("i64", 1)), vM(tStrMap, vS("s"), vS("")),
						vM(tAnyMap, vS("a"), vU("u64", 1), vS("s"), vS("x"), vS("c"), vI("i64", 3))} {
						ops = append(ops, op("u", raw), op("c", raw))
					}
				}
				for b := 0; b < nRaw; b++ {
					raw := c04StructRaw(r)
					if isNode {
						raw = c04NodeRaw(r, 3)
					}
					if isEmb {
						mt := pick(r, []*sx.Node{tAnyMap, tStrMap})
						raw = sx.L(sx.A("m"), mt, sx.A("0"))
						for _, kv := range [][2]*sx.Node{{vS("a"), pickRepr(r, int64(r.Intn(5)))}, {vS("s"), vS(pick(r, []string{"", "x"}))}, {vS("c"), pickRepr(r, int64(r.Intn(5)))}} {
							if r.Chance(50) {
								raw.Append(sx.L(kv[0], kv[1]))
							}
						}
					}
					ops = append(ops, op("u", raw), op("c", raw))
					for _, pos := range c04Positions(raw) {
						chosen := pool
						if perPos > 0 {
							chosen = nil
							for i := 0; i < perPos; i++ {
								chosen = append(chosen, pick(r, pool))
							}
						}
						for _, pv := range chosen {
							if pos.isKey && (!pv.hashable || c04KeyClash(raw, pos.path, pv.v)) {
								continue
							}
							m := c04Replace(raw, pos.path, pv.v)
							ops = append(ops, op("u", m), op("c", m))
						}
					}
				}
				if name == "holder-recursive-member" {
					// D52 (known finding): every Unserialize that leaves the member out overflows the stack and
					// takes the worker with it, so each call is its own case (a sample in the quick tier)
					for i, o := range ops {
						if tier == "thorough" || i%9 == 0 {
							emit(sx.L(sx.A("c04s"), sx.S(name), sx.L(sx.A("ops"), o)))
						}
					}
					continue
				}
				for i := 0; i < len(ops); i += 60 {
					j := i + 60
					if j > len(ops) {
						j = len(ops)
					}
					l := sx.L(sx.A("ops"))
					l.Append(ops[i:j]...)
					emit(sx.L(sx.A("c04s"), sx.S(name), l))
				}
			}
		},
		Run: runC04StructCase,
	}
}

func runC04StructCase(p *sx.Node) *sx.Node {
	mk, ok := c04StructSchemas[p.List[1].Str]
	if !ok {
		return sx.L(sx.A("bad"), sx.S("unknown struct schema"))
	}
	s := mk()
	tmp := sx.L(sx.A("r"))
	c04RunOps(s, p.List[2].List[1:], tmp)
	res := sx.L(sx.A("r"))
	for _, c := range tmp.List[1:] {
		if c.IsAtom("ok") || c.IsAtom("err") {
			res.Append(sx.A("t"))
		} else {
			res.Append(c)
		}
	}
	return res
}
