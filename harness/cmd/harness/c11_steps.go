package main

// C11 — step calls.  Family c11steps: generated plugins (steps with input / output / signal scopes
// built from the schema descriptors) x valid and invalid raw inputs x recording handlers that
// return declared / undeclared output ids with conforming / non-conforming data; unknown step and
// signal ids; and the ORDER sub-family: a step call and signal calls for the same and different
// run ids in every arrival order, sequentially and from goroutines released together (in that mode
// every initialiser takes a moment, so that a non-atomic setupStepData shows); steps whose step data
// is a pointer type or an interface type (`stepd-any`), with and without an initialiser (D65); and
// `dcall`: CallableStep.Call on the step object itself with a native input, valid or constraint-violating;
// signals REGISTERED UNDER A KEY THAT DIFFERS FROM THE SIGNAL'S OWN ID (a reusable signal definition registered as
// "cancel"; two definitions registered under each other's ids): every lookup — CallableSchema.CallSignal, the
// published SignalHandlers() / ToStepSchema() maps, the step's own CallSignal — goes by the registration key;
// and `dsignal`: CallableStep.CallSignal on the step object itself with native data.
// Case and observation syntax: coq/Interp/RunStep.v.

import (
	"context"
	"errors"
	"fmt"
	"sync"
	"sync/atomic"
	"time"

	"go.flow.arcalot.io/pluginsdk/schema"
	"verif/harness/sx"
)

// c11Box is the per-run step data: all a handler can tell is which initialiser run made it.
type c11Box struct{ id int64 }

type c11Entry struct {
	signal    bool
	step, sig string
	box       *c11Box
	arg       any
}

// c11Rec travels in the context of ONE CallStep / CallSignal: the behaviour the step handler
// shall show for this call and the record of every handler invocation made on its behalf.
type c11Rec struct {
	mu      sync.Mutex
	outID   string
	outData any
	entries []c11Entry
}
type c11Key struct{}

func c11RecOf(ctx context.Context) *c11Rec {
	r, _ := ctx.Value(c11Key{}).(*c11Rec)
	return r
}

type c11Plugin struct {
	callable *schema.CallableSchema
	steps    map[string]schema.CallableStep // the step objects themselves, for direct Call
	order    []string
	inits    map[string]*int64
	// a second, separately built copy of every scope: the data operations in isolation
	isoIn   map[string]*schema.ScopeSchema
	isoOut  map[string]map[string]*schema.ScopeSchema
	isoSig  map[string]map[string]*schema.ScopeSchema
	hasInit map[string]bool
	// slowInit != 0: every initialiser takes a moment (a plugin allocating resources), which keeps the
	// window between "run id looked up" and "step data stored" open long enough for the calls released
	// together in `conc` mode to meet in it if setupStepData is not atomic.
	slowInit int32
}

const c11InitDelay = 400 * time.Microsecond

// c11MkStep builds one callable step whose step data has the Go type D: *c11Box (a pointer type: the
// zero value is a typed nil) or any (an interface type: the zero value is the NIL INTERFACE, which is
// what a step without an initialiser hands to its signal handlers — D65).
func c11MkStep[D any](p *c11Plugin, st *sx.Node, mk func(*c11Box) D, unbox func(D) *c11Box) schema.CallableStep {
	id := st.List[1].Str
	hasInit := st.List[2].Atom == "1"
	cnt := new(int64)
	p.inits[id] = cnt
	p.order = append(p.order, id)
	p.hasInit[id] = hasInit
	p.isoIn[id] = buildScope(st.List[3])
	p.isoOut[id] = map[string]*schema.ScopeSchema{}
	p.isoSig[id] = map[string]*schema.ScopeSchema{}
	outputs := map[string]*schema.StepOutputSchema{}
	for _, o := range st.List[4].List {
		outputs[o.List[0].Str] = schema.NewStepOutputSchema(buildScope(o.List[1]), nil, false)
		p.isoOut[id][o.List[0].Str] = buildScope(o.List[1])
	}
	sigs := map[string]schema.CallableSignal{}
	for _, s := range st.List[5].List {
		sig := s.List[0].Str // the registration key: what callers name and what the log records
		own := sig           // the signal's own IDValue
		if len(s.List) > 2 {
			own = s.List[2].Str
		}
		p.isoSig[id][sig] = buildScope(s.List[1])
		sigs[sig] = schema.NewCallableSignal[D, any](own, buildScope(s.List[1]), nil,
			func(ctx context.Context, d D, in any) {
				if r := c11RecOf(ctx); r != nil {
					r.mu.Lock()
					r.entries = append(r.entries, c11Entry{signal: true, step: id, sig: sig, box: unbox(d), arg: in})
					r.mu.Unlock()
				}
			})
	}
	var initializer func() D
	if hasInit {
		initializer = func() D {
			b := &c11Box{id: atomic.AddInt64(cnt, 1) - 1}
			if atomic.LoadInt32(&p.slowInit) != 0 {
				time.Sleep(c11InitDelay)
			}
			return mk(b)
		}
	}
	return schema.NewCallableStepWithSignals[D, any](id, buildScope(st.List[3]), outputs, sigs, nil, nil,
		initializer,
		func(ctx context.Context, d D, in any) (string, any) {
			r := c11RecOf(ctx)
			if r == nil {
				return "", nil
			}
			r.mu.Lock()
			defer r.mu.Unlock()
			r.entries = append(r.entries, c11Entry{step: id, box: unbox(d), arg: in})
			return r.outID, r.outData
		})
}

func c11Build(n *sx.Node) *c11Plugin {
	p := &c11Plugin{inits: map[string]*int64{}, isoIn: map[string]*schema.ScopeSchema{},
		isoOut: map[string]map[string]*schema.ScopeSchema{}, isoSig: map[string]map[string]*schema.ScopeSchema{},
		hasInit: map[string]bool{}, steps: map[string]schema.CallableStep{}}
	var steps []schema.CallableStep
	for _, st := range n.List[1:] {
		var cs schema.CallableStep
		if st.Head() == "stepd-any" {
			cs = c11MkStep[any](p, st, func(b *c11Box) any { return b }, func(d any) *c11Box { b, _ := d.(*c11Box); return b })
		} else {
			cs = c11MkStep[*c11Box](p, st, func(b *c11Box) *c11Box { return b }, func(d *c11Box) *c11Box { return d })
		}
		p.steps[st.List[1].Str] = cs
		steps = append(steps, cs)
	}
	p.callable = schema.NewCallableSchema(steps...)
	return p
}

// c11Class maps an error to its class by its Go TYPE (never by its text): the dynamic type of the
// returned error first, then — for a wrapped error — errors.As, the rejection classes first.
func c11Class(err error) string {
	switch err.(type) {
	case schema.InvalidInputError, *schema.InvalidInputError:
		return "input"
	case schema.InvalidOutputError, *schema.InvalidOutputError:
		return "output"
	case schema.BadArgumentError, *schema.BadArgumentError:
		return "badarg"
	case schema.NoSuchStepError, *schema.NoSuchStepError:
		return "nosuchstep"
	}
	var ii schema.InvalidInputError
	var io schema.InvalidOutputError
	var ns schema.NoSuchStepError
	var ba schema.BadArgumentError
	switch {
	case errors.As(err, &ii):
		return "input"
	case errors.As(err, &io):
		return "output"
	case errors.As(err, &ns):
		return "nosuchstep"
	case errors.As(err, &ba):
		return "badarg"
	}
	return "plain"
}

func c11Iso(f func() (*sx.Node, error)) (res *sx.Node) {
	defer func() {
		if r := recover(); r != nil {
			res = sx.A("panic")
		}
	}()
	v, err := f()
	if err != nil {
		return sx.A("err")
	}
	return sx.L(sx.A("ok"), v)
}

func runStepsCase(p *sx.Node) *sx.Node {
	var plug *c11Plugin
	built := outcomeSx(func() (*sx.Node, error) {
		plug = c11Build(p.List[2])
		return unit(), nil
	})
	if plug == nil {
		return sx.L(sx.A("build-failed"), built)
	}
	mode := p.List[3].Atom
	calls := p.List[4].List[1:]
	recs := make([]*c11Rec, len(calls))
	results := make([]*sx.Node, len(calls))
	do := func(i int) {
		c := calls[i]
		rec := &c11Rec{}
		recs[i] = rec
		ctx := context.WithValue(context.Background(), c11Key{}, rec)
		defer func() {
			if r := recover(); r != nil {
				results[i] = sx.A("panic")
			}
		}()
		if c.Head() == "call" {
			if !c11Representable(c.List[3]) || !c11Representable(c.List[5]) {
				results[i] = sx.L(sx.A("bad"), sx.S("the case names a value Go cannot represent"))
				return
			}
			rec.outID, rec.outData = c.List[4].Str, valFromSx(c.List[5])
			oid, data, err := plug.callable.CallStep(ctx, c.List[1].Str, c.List[2].Str, valFromSx(c.List[3]))
			if err != nil {
				results[i] = sx.L(sx.A("err"), sx.A(c11Class(err)))
			} else {
				results[i] = sx.L(sx.A("ok"), sx.S(oid), valSx(data))
			}
			return
		}
		if c.Head() == "dcall" {
			// CallableStep.Call on the step object itself, with a NATIVE value: nothing but the step's own
			// re-validation stands between this value and the handler
			step, ok := plug.steps[c.List[2].Str]
			if !ok || !c11Representable(c.List[3]) || !c11Representable(c.List[5]) {
				results[i] = sx.L(sx.A("bad"), sx.S("dcall: unknown step or a value Go cannot represent"))
				return
			}
			rec.outID, rec.outData = c.List[4].Str, valFromSx(c.List[5])
			oid, data, err := step.Call(ctx, c.List[1].Str, valFromSx(c.List[3]))
			if err != nil {
				results[i] = sx.L(sx.A("err"), sx.A(c11Class(err)))
			} else {
				results[i] = sx.L(sx.A("ok"), sx.S(oid), valSx(data))
			}
			return
		}
		if c.Head() == "dsignal" {
			// CallableStep.CallSignal on the step object itself, with NATIVE data
			step, ok := plug.steps[c.List[2].Str]
			if !ok || !c11Representable(c.List[4]) {
				results[i] = sx.L(sx.A("bad"), sx.S("dsignal: unknown step or a value Go cannot represent"))
				return
			}
			if err := step.CallSignal(ctx, c.List[1].Str, c.List[3].Str, valFromSx(c.List[4])); err != nil {
				results[i] = sx.L(sx.A("err"), sx.A(c11Class(err)))
			} else {
				results[i] = sx.A("ok")
			}
			return
		}
		err := plug.callable.CallSignal(ctx, c.List[1].Str, c.List[2].Str, c.List[3].Str, valFromSx(c.List[4]))
		if err != nil {
			results[i] = sx.L(sx.A("err"), sx.A(c11Class(err)))
		} else {
			results[i] = sx.A("ok")
		}
	}
	if mode == "conc" {
		atomic.StoreInt32(&plug.slowInit, 1)
		start := make(chan struct{})
		var wg sync.WaitGroup
		for i := range calls {
			wg.Add(1)
			go func(i int) {
				defer wg.Done()
				<-start
				do(i)
			}(i)
		}
		close(start)
		wg.Wait()
	} else {
		for i := range calls {
			do(i)
		}
	}

	// projection of the step data: run index, and index among the values seen for (step, run)
	var runs []string
	runIdx := map[string]int{}
	for _, c := range calls {
		if _, ok := runIdx[c.List[1].Str]; !ok {
			runIdx[c.List[1].Str] = len(runs)
			runs = append(runs, c.List[1].Str)
		}
	}
	seen := map[string][]*c11Box{}
	for i, c := range calls {
		for _, en := range recs[i].entries {
			if en.box == nil {
				continue
			}
			k := en.step + "\x00" + c.List[1].Str
			found := false
			for _, b := range seen[k] {
				if b == en.box {
					found = true
				}
			}
			if !found {
				seen[k] = append(seen[k], en.box)
			}
		}
	}
	kOf := func(run string, en c11Entry) *sx.Node {
		if en.box == nil {
			return sx.A("-")
		}
		for j, b := range seen[en.step+"\x00"+run] {
			if b == en.box {
				return sx.L(sx.A("d"), sx.I(int64(runIdx[run])), sx.I(int64(j)))
			}
		}
		return sx.A("?")
	}

	rows := sx.L()
	for i, c := range calls {
		h := sx.L(sx.A("h"))
		for _, en := range recs[i].entries {
			if en.signal {
				h.Append(sx.L(sx.A("sg"), sx.S(en.step), sx.S(en.sig), kOf(c.List[1].Str, en), valSx(en.arg)))
			} else {
				h.Append(sx.L(sx.A("st"), sx.S(en.step), kOf(c.List[1].Str, en), valSx(en.arg)))
			}
		}
		rows.Append(sx.L(sx.A("c"), h, results[i], c11IsoOf(plug, c)))
	}
	inits := sx.L(sx.A("inits"))
	for _, id := range plug.order {
		inits.Append(sx.L(sx.S(id), sx.I(atomic.LoadInt64(plug.inits[id]))))
	}
	return sx.L(sx.A("r"), rows, inits)
}

// c11IsoOf: the data operations of the call alone, on separately built schemas.
func c11IsoOf(plug *c11Plugin, c *sx.Node) *sx.Node {
	sid := c.List[2].Str
	in, ok := plug.isoIn[sid]
	if !ok {
		return sx.L(sx.A("iso"), sx.A("nostep"))
	}
	if c.Head() == "call" {
		u := c11Iso(func() (*sx.Node, error) {
			r, err := in.Unserialize(valFromSx(c.List[3]))
			if err != nil {
				return nil, err
			}
			return valSx(r), nil
		})
		os, ok := plug.isoOut[sid][c.List[4].Str]
		if !ok {
			return sx.L(sx.A("iso"), u, sx.A("undeclared"), sx.A("undeclared"))
		}
		v := c11Iso(func() (*sx.Node, error) { return unit(), os.Validate(valFromSx(c.List[5])) })
		s := c11Iso(func() (*sx.Node, error) {
			r, err := os.Serialize(valFromSx(c.List[5]))
			if err != nil {
				return nil, err
			}
			return valSx(r), nil
		})
		return sx.L(sx.A("iso"), u, v, s)
	}
	if c.Head() == "dcall" {
		v := c11Iso(func() (*sx.Node, error) { return unit(), in.Validate(valFromSx(c.List[3])) })
		os, ok := plug.isoOut[sid][c.List[4].Str]
		if !ok {
			return sx.L(sx.A("iso"), v, sx.A("undeclared"))
		}
		return sx.L(sx.A("iso"), v, c11Iso(func() (*sx.Node, error) { return unit(), os.Validate(valFromSx(c.List[5])) }))
	}
	ss, ok := plug.isoSig[sid][c.List[3].Str]
	if !ok {
		return sx.L(sx.A("iso"), sx.A("nosig"))
	}
	if c.Head() == "dsignal" {
		return sx.L(sx.A("iso"), c11Iso(func() (*sx.Node, error) { return unit(), ss.Validate(valFromSx(c.List[4])) }))
	}
	return sx.L(sx.A("iso"), c11Iso(func() (*sx.Node, error) {
		r, err := ss.Unserialize(valFromSx(c.List[4]))
		if err != nil {
			return nil, err
		}
		return valSx(r), nil
	}))
}

// ---------------------------------------------------------------------------------------------
// generation
// ---------------------------------------------------------------------------------------------

type c11StepD struct {
	id      string
	hasInit bool
	input   *sx.Node
	outs    [][2]*sx.Node // (id string node, scope)
	sigs    [][2]*sx.Node
	sigOwn  []string // the signals' own ids, parallel to sigs ("=" or missing: the registration key itself)
	anyData bool     // StepData = any instead of *c11Box
}

func (s c11StepD) sx() *sx.Node {
	outs, sigs := sx.L(), sx.L()
	for _, o := range s.outs {
		outs.Append(sx.L(o[0], o[1]))
	}
	for i, g := range s.sigs {
		if i < len(s.sigOwn) && s.sigOwn[i] != "=" && s.sigOwn[i] != g[0].Str {
			sigs.Append(sx.L(g[0], g[1], sx.S(s.sigOwn[i])))
		} else {
			sigs.Append(sx.L(g[0], g[1]))
		}
	}
	head := "stepd"
	if s.anyData {
		head = "stepd-any"
	}
	return sx.L(sx.A(head), sx.S(s.id), sx.B(s.hasInit), s.input, outs, sigs)
}

func c11Case(steps []c11StepD, mode string, calls []*sx.Node) *sx.Node {
	plugin := sx.L(sx.A("plugin"))
	all := sx.L() // every scope of the plugin, for the oracle tables
	for _, s := range steps {
		plugin.Append(s.sx())
		all.Append(s.input)
		for _, o := range s.outs {
			all.Append(o[1])
		}
		for _, g := range s.sigs {
			all.Append(g[1])
		}
	}
	var ops []*sx.Node
	for _, c := range calls {
		for _, x := range c.List[1:] {
			if x.IsList() || (!x.IsStr && x.Atom == "nil") {
				ops = append(ops, op("x", x))
			}
		}
	}
	cl := sx.L(sx.A("calls"))
	cl.Append(calls...)
	return sx.L(sx.A("steps"), mkEnv(nil, all, ops), plugin, sx.A(mode), cl)
}

func c11Call(run, step string, raw *sx.Node, outID string, outData *sx.Node) *sx.Node {
	return sx.L(sx.A("call"), sx.S(run), sx.S(step), raw, sx.S(outID), outData)
}
func c11Signal(run, step, sig string, raw *sx.Node) *sx.Node {
	return sx.L(sx.A("signal"), sx.S(run), sx.S(step), sx.S(sig), raw)
}
func c11DSignal(run, step, sig string, native *sx.Node) *sx.Node {
	return sx.L(sx.A("dsignal"), sx.S(run), sx.S(step), sx.S(sig), native)
}
func c11Direct(run, step string, native *sx.Node, outID string, outData *sx.Node) *sx.Node {
	return sx.L(sx.A("dcall"), sx.S(run), sx.S(step), native, sx.S(outID), outData)
}

// c11Violate: a native value of the SAME Go types in which one scalar leaf breaks a constraint its schema
// may carry (a shorter / longer string, an integer far outside any generated range, a float likewise) —
// what the type system cannot catch and only the step's re-validation can.  nil if there is no such leaf.
func c11Violate(r *Rng, v *sx.Node) *sx.Node {
	var leaves []*sx.Node
	var walk func(n *sx.Node)
	walk = func(n *sx.Node) {
		if !n.IsList() {
			return
		}
		switch n.Head() {
		case "s", "i", "f":
			if len(n.List) == 3 {
				leaves = append(leaves, n)
			}
			return
		}
		for _, c := range n.List[1:] {
			walk(c)
		}
	}
	walk(v)
	if len(leaves) == 0 {
		return nil
	}
	target := pick(r, leaves)
	var rebuild func(n *sx.Node) *sx.Node
	rebuild = func(n *sx.Node) *sx.Node {
		if n == target {
			switch n.Head() {
			case "s":
				return sx.L(n.List[0], n.List[1], sx.S(pick(r, []string{"", "x", "this string is longer than every maximum the generator uses", "ÄÖ#"})))
			case "i":
				return sx.L(n.List[0], n.List[1], sx.I(pick(r, []int64{-100, 100, 127, -128})))
			default:
				return sx.L(n.List[0], n.List[1], flSx(pick(r, []float64{-1e6, 1e6})))
			}
		}
		if !n.IsList() {
			return n
		}
		out := sx.L()
		for _, c := range n.List {
			out.Append(rebuild(c))
		}
		return out
	}
	return c11Norm(rebuild(v))
}

// c11Native asks the SDK for a native value of the scope (generation only: both sides of the
// comparison receive the same printed value).
func c11Native(r *Rng, scopeN *sx.Node, depth int) *sx.Node {
	raw := rawFor(r, scopeN, scopeTable(scopeN), depth)
	var out *sx.Node
	func() {
		defer func() { _ = recover() }()
		v, err := buildScope(scopeN).Unserialize(valFromSx(raw))
		if err == nil {
			out = valSx(v)
		}
	}()
	if out == nil {
		return raw
	}
	return out
}

// c11ConcRich: also release the calls of the generated (rich-schema) plugins concurrently.  Sound
// only while first uses of a fresh schema do not race (D33, C13): with the lazy unit caches
// unsynchronised a concurrent first parse can read a half-built cache and return a wrong value.
// Concurrent use of rich schemas is C13's race engine; C11 keeps to the order sub-family.
const c11ConcRich = false

// c11Representable: a mutation of a NATIVE value (typed slices and maps) must still be a Go value.
func c11Representable(v *sx.Node) (ok bool) {
	defer func() {
		if recover() != nil {
			ok = false
		}
	}()
	_ = valFromSx(v)
	return true
}

// c11Norm re-prints the Go value a descriptor builds, so that the text both sides read IS the value
// the SDK receives (a nil element of a []string, say, is the empty string in Go).
func c11Norm(v *sx.Node) (out *sx.Node) {
	defer func() {
		if recover() != nil {
			out = nil
		}
	}()
	return valSx(valFromSx(v))
}

func c11MutateNative(r *Rng, v *sx.Node) *sx.Node {
	for i := 0; i < 8; i++ {
		if m := c11Norm(mutate(r, v)); m != nil {
			return m
		}
	}
	return pick(r, wrongValues)
}

var c11OutIDs = []string{"success", "error", "partial"}
var c11SigIDs = []string{"cancel", "pause"}
var c11Runs = []string{"r1", "r2", "r3"}

func c11GenPlugin(r *Rng) ([]c11StepD, int) {
	depth := 1 + r.Intn(2)
	n := 1 + r.Intn(3)
	var steps []c11StepD
	for i := 0; i < n; i++ {
		st := c11StepD{id: fmt.Sprintf("step%d", i+1), hasInit: r.Chance(75), anyData: r.Chance(30)}
		st.input = (&sgen{r: r}).scope(depth)
		for j := 0; j < 1+r.Intn(3); j++ {
			st.outs = append(st.outs, [2]*sx.Node{sx.S(c11OutIDs[j]), (&sgen{r: r}).scope(depth)})
		}
		for j := 0; j < r.Intn(3); j++ {
			st.sigs = append(st.sigs, [2]*sx.Node{sx.S(c11SigIDs[j]), (&sgen{r: r}).scope(1)})
		}
		// the signals' own ids: the registration key (55%), one reusable definition's id for all (20%), ids that are
		// the OTHER signal's key — with two signals a swap — (15%), the empty id (10%)
		switch k := r.Intn(100); {
		case k < 55:
		case k < 75:
			for range st.sigs {
				st.sigOwn = append(st.sigOwn, "generic-signal")
			}
		case k < 90:
			for j := range st.sigs {
				st.sigOwn = append(st.sigOwn, c11SigIDs[(j+1)%len(c11SigIDs)])
			}
		default:
			for range st.sigs {
				st.sigOwn = append(st.sigOwn, "")
			}
		}
		steps = append(steps, st)
	}
	return steps, depth
}

func c11GenCalls(r *Rng, steps []c11StepD, depth, n int) []*sx.Node {
	var calls []*sx.Node
	for len(calls) < n {
		st := pick(r, steps)
		run := pick(r, c11Runs)
		if len(st.sigs) > 0 && r.Chance(30) || r.Chance(5) {
			// a signal: known / unknown id, valid / invalid data, sometimes an unknown step
			sid := st.id
			if r.Chance(8) {
				sid = "nostep"
			}
			var raw *sx.Node
			sig := "nosuchsignal"
			if len(st.sigs) > 0 && r.Chance(80) {
				g := pick(r, st.sigs)
				sig = g[0].Str
				raw = rawFor(r, g[1], scopeTable(g[1]), 2)
			} else {
				raw = vM(tAnyMap)
			}
			if r.Chance(30) {
				raw = mutate(r, raw)
			}
			if n := c11Norm(raw); n != nil {
				raw = n
			}
			if len(st.sigOwn) > 0 && st.sigOwn[0] != "=" && r.Chance(12) {
				// the name a caller must NOT use: the signal's own id (known only if it happens to be a key too)
				sig = st.sigOwn[0]
			}
			if sid == st.id && r.Chance(25) {
				// the step object's own CallSignal, with native data: as Unserialize made it / constraint-violating / mutated
				nat := raw
				if g := c11SigOf(st, sig); g != nil {
					nat = c11Native(r, g, 2)
					switch k := r.Intn(100); {
					case k < 30:
						if v := c11Violate(r, nat); v != nil {
							nat = v
						}
					case k < 45:
						nat = c11MutateNative(r, nat)
					}
				}
				if n := c11Norm(nat); n != nil {
					nat = n
				}
				calls = append(calls, c11DSignal(run, sid, sig, nat))
				continue
			}
			calls = append(calls, c11Signal(run, sid, sig, raw))
			continue
		}
		raw := rawFor(r, st.input, scopeTable(st.input), depth+1)
		if r.Chance(35) {
			raw = mutate(r, raw)
		}
		sid := st.id
		if r.Chance(7) {
			sid = pick(r, []string{"nostep", "", "STEP1"})
		}
		o := pick(r, st.outs)
		outID, data := o[0].Str, c11Native(r, o[1], depth+1)
		switch k := r.Intn(100); {
		case k < 15: // an undeclared output id (with data that would fit a declared one)
			outID = pick(r, []string{"nosuchoutput", "", "Success"})
		case k < 35: // declared id, non-conforming data
			data = c11MutateNative(r, data)
		case k < 45: // declared id, data in raw (serialized) form or nil
			data = pick(r, []*sx.Node{rawFor(r, o[1], scopeTable(o[1]), depth+1), vNil()})
		case k < 52 && len(st.outs) > 1: // data of another output under this id
			o2 := pick(r, st.outs)
			data = c11Native(r, o2[1], depth+1)
		}
		if n := c11Norm(raw); n != nil {
			raw = n
		}
		if n := c11Norm(data); n != nil {
			data = n
		}
		if sid == st.id && r.Chance(22) {
			// the step object called directly with a NATIVE input: as Unserialize made it (45%), with one
			// scalar leaf of the right Go type breaking a constraint (30%), or mutated at random (25%)
			nat := c11Native(r, st.input, depth+1)
			switch k := r.Intn(100); {
			case k < 30:
				if v := c11Violate(r, nat); v != nil {
					nat = v
				}
			case k < 55:
				nat = c11MutateNative(r, nat)
			}
			if n := c11Norm(nat); n != nil {
				nat = n
			}
			calls = append(calls, c11Direct(run, sid, nat, outID, data))
			continue
		}
		calls = append(calls, c11Call(run, sid, raw, outID, data))
	}
	return calls
}

// c11SigOf: the data scope registered under the key, nil if the step has no such key.
func c11SigOf(st c11StepD, key string) *sx.Node {
	for _, g := range st.sigs {
		if g[0].Str == key {
			return g[1]
		}
	}
	return nil
}

// ---- the order sub-family: fixed small scopes, every arrival order ----

// c11OrderStepsOwn: the order plugin with the two signals' own ids set (registration keys stay "cancel" / "pause").
func c11OrderStepsOwn(hasInit, anyData bool, own ...string) []c11StepD {
	steps := c11OrderSteps(hasInit, anyData)
	for i := range steps {
		steps[i].sigOwn = own
	}
	return steps
}

func c11OrderSteps(hasInit bool, anyData ...bool) []c11StepD {
	in := dScope("In", dObject("In", false, propD{name: "a", t: dInt(ip(0), nil, nil), required: true},
		propD{name: "s", t: dString(ip(2), ip(5), nil)}))
	out := dScope("Out", dObject("Out", false, propD{name: "m", t: dString(nil, nil, nil), required: true}))
	sg := dScope("Sig", dObject("Sig", false, propD{name: "x", t: dString(nil, ip(3), nil)}))
	mk := func(id string) c11StepD {
		return c11StepD{id: id, hasInit: hasInit, input: in, anyData: len(anyData) > 0 && anyData[0],
			outs: [][2]*sx.Node{{sx.S("success"), out}},
			sigs: [][2]*sx.Node{{sx.S("cancel"), sg}, {sx.S("pause"), sg}}}
	}
	return []c11StepD{mk("step1"), mk("step2")}
}

var c11OkOut = vM(tStrMap, vS("m"), vS("done"))

func c11OrderOp(kind string, run, step string) *sx.Node {
	switch kind {
	case "call":
		return c11Call(run, step, vM(tAnyMap, vS("a"), vI("i64", 1)), "success", c11OkOut)
	case "badcall": // rejected input: must not create step data
		return c11Call(run, step, vM(tAnyMap, vS("a"), vI("i64", -1)), "success", c11OkOut)
	case "cancel", "pause":
		return c11Signal(run, step, kind, vM(tAnyMap, vS("x"), vS("s")))
	case "badsig": // rejected signal data
		return c11Signal(run, step, "cancel", vM(tAnyMap, vS("x"), vS("too long")))
	case "nosig":
		return c11Signal(run, step, "nosuchsignal", vM(tAnyMap))
	case "dcancel": // the step object's own CallSignal with valid native data
		return c11DSignal(run, step, "cancel", vM(tStrMap, vS("x"), vS("s")))
	case "baddcancel": // ... with native data of the right Go type whose string is too long
		return c11DSignal(run, step, "cancel", vM(tStrMap, vS("x"), vS("too long")))
	case "dnosig":
		return c11DSignal(run, step, "generic-signal", vM(tStrMap))
	case "dcall": // the step object called directly with a valid native input
		return c11Direct(run, step, vM(tStrMap, vS("a"), vI("i64", 1), vS("s"), vS("abc")), "success", c11OkOut)
	case "baddcall": // ... with a correctly TYPED native input whose integer is out of range
		return c11Direct(run, step, vM(tStrMap, vS("a"), vI("i64", -1)), "success", c11OkOut)
	case "shortdcall": // ... whose string is too short
		return c11Direct(run, step, vM(tStrMap, vS("a"), vI("i64", 1), vS("s"), vS("x")), "success", c11OkOut)
	}
	panic(kind)
}

func permutations(n int, f func([]int)) {
	idx := make([]int, n)
	for i := range idx {
		idx[i] = i
	}
	var rec func(k int)
	rec = func(k int) {
		if k == n {
			f(idx)
			return
		}
		for i := k; i < n; i++ {
			idx[k], idx[i] = idx[i], idx[k]
			rec(k + 1)
			idx[k], idx[i] = idx[i], idx[k]
		}
	}
	rec(0)
}

func c11GenOrder(r *Rng, tier string, emit func(*sx.Node)) {
	type o3 struct{ kind, run, step string }
	sets := [][]o3{
		{{"call", "r1", "step1"}, {"cancel", "r1", "step1"}, {"pause", "r1", "step1"}, {"call", "r2", "step1"}, {"cancel", "r2", "step1"}},
		{{"call", "r1", "step1"}, {"cancel", "r1", "step1"}, {"call", "r1", "step2"}, {"cancel", "r1", "step2"}},
		{{"badcall", "r1", "step1"}, {"cancel", "r1", "step1"}, {"call", "r1", "step1"}, {"nosig", "r1", "step1"}},
		{{"badsig", "r1", "step1"}, {"call", "r1", "step1"}, {"cancel", "r2", "step1"}, {"badcall", "r2", "step1"}},
		{{"call", "r1", "step1"}, {"call", "r1", "step1"}, {"cancel", "r1", "step1"}},
		{{"dcall", "r1", "step1"}, {"cancel", "r1", "step1"}, {"baddcall", "r1", "step1"}, {"shortdcall", "r2", "step1"}},
		{{"dcancel", "r1", "step1"}, {"call", "r1", "step1"}, {"baddcancel", "r2", "step1"}, {"pause", "r1", "step1"}, {"dnosig", "r1", "step1"}},
	}
	// (initialiser?, StepData = any?) per set: a pointer-typed and an interface-typed step data, with and
	// without an initialiser (interface-typed without initialiser: the nil interface reaches the handlers, D65)
	type variant struct{ hasInit, anyData bool }
	variants := [][]variant{
		{{true, false}, {false, false}, {false, true}},
		{{true, false}, {true, true}},
		{{true, false}, {false, true}},
		{{true, false}},
		{{true, false}, {true, true}, {false, true}},
		{{true, false}, {false, true}},
		{{true, false}, {false, true}},
	}
	// the signals' own ids per set (nil / "=": the registration keys): a reusable definition's id, swapped ids, no id
	owns := [][]string{nil, {"generic-signal", "generic-signal"}, {"pause", "cancel"}, nil, {"generic-signal", "="}, {"", ""}, {"pause", "cancel"}}
	for si, set := range sets {
		for _, vr := range variants[si] {
			steps := c11OrderStepsOwn(vr.hasInit, vr.anyData, owns[si]...)
			permutations(len(set), func(idx []int) {
				var calls []*sx.Node
				for _, i := range idx {
					calls = append(calls, c11OrderOp(set[i].kind, set[i].run, set[i].step))
				}
				emit(c11Case(steps, "seq", calls))
				emit(c11Case(steps, "conc", calls))
			})
		}
	}
	// random multisets, 4-16 operations, concurrently and sequentially
	n := 60
	if tier == "thorough" {
		n = 1500
	}
	kinds := []string{"call", "call", "cancel", "pause", "cancel", "badcall", "badsig", "nosig", "dcall", "baddcall", "dcancel", "baddcancel"}
	for i := 0; i < n; i++ {
		steps := c11OrderStepsOwn(r.Chance(85), r.Chance(30), pick(r, [][]string{nil, nil, {"generic-signal", "generic-signal"}, {"pause", "cancel"}})...)
		var calls []*sx.Node
		for j := 0; j < 4+r.Intn(13); j++ {
			calls = append(calls, c11OrderOp(pick(r, kinds), pick(r, c11Runs), pick(r, []string{"step1", "step1", "step2"})))
		}
		emit(c11Case(steps, pick(r, []string{"seq", "conc", "conc"}), calls))
	}
}

func init() {
	families["c11steps"] = &Family{
		Gen: func(r *Rng, tier string, emit func(*sx.Node)) {
			// the defect classes first: unknown signal / step ids on a minimal plugin
			steps := c11OrderSteps(true)
			emit(c11Case(steps, "seq", []*sx.Node{c11OrderOp("nosig", "r1", "step1")}))
			emit(c11Case(steps, "seq", []*sx.Node{c11Signal("r1", "nostep", "cancel", vM(tAnyMap)),
				c11Call("r1", "nostep", vM(tAnyMap), "success", c11OkOut)}))
			// D65: a VALID signal to a step whose step data is an interface type and has no initialiser
			emit(c11Case(c11OrderSteps(false, true), "seq", []*sx.Node{c11OrderOp("cancel", "r1", "step1"),
				c11OrderOp("call", "r1", "step1"), c11OrderOp("pause", "r1", "step1")}))
			// the step's own re-validation: a typed native input that breaks a constraint, called directly
			emit(c11Case(steps, "seq", []*sx.Node{c11OrderOp("baddcall", "r1", "step1"), c11OrderOp("shortdcall", "r1", "step1"),
				c11OrderOp("dcall", "r1", "step1")}))
			// signals registered under keys that are not their own ids: by key through the plugin and on the step object;
			// the own id is NOT a name ("generic-signal"), or names the other handler (swapped)
			for _, own := range [][]string{{"generic-signal", "generic-signal"}, {"pause", "cancel"}} {
				emit(c11Case(c11OrderStepsOwn(true, false, own...), "seq", []*sx.Node{c11OrderOp("cancel", "r1", "step1"),
					c11OrderOp("dcancel", "r1", "step1"), c11OrderOp("pause", "r2", "step1"),
					c11Signal("r1", "step1", "generic-signal", vM(tAnyMap)), c11OrderOp("dnosig", "r1", "step1")}))
			}
			c11GenOrder(r, tier, emit)
			n := 220
			if tier == "thorough" {
				n = 4000
			}
			for i := 0; i < n; i++ {
				steps, depth := c11GenPlugin(r)
				calls := c11GenCalls(r, steps, depth, 6+r.Intn(6))
				mode := "seq"
				if r.Chance(20) && c11ConcRich {
					mode = "conc"
				}
				emit(c11Case(steps, mode, calls))
			}
		},
		Run: runStepsCase,
	}
}
