package main

import (
	"math"

	"go.flow.arcalot.io/pluginsdk/schema"
	"verif/harness/sx"
)

// The exhaustive boundary matrix of C02: every bound configuration x every boundary value x
// every Go representation x {Unserialize, Validate, Serialize, data-mode compatibility}.

type boundCfg struct{ mn, mx *int64 }

func intBoundCfgs() []boundCfg {
	return []boundCfg{
		{nil, nil}, {ip(-5), nil}, {nil, ip(10)}, {ip(-5), ip(10)}, {ip(3), ip(3)}, {ip(10), ip(-5)},
		{ip(0), ip(255)}, {ip(math.MinInt64), ip(math.MaxInt64)}, {ip(math.MaxInt64), nil}, {nil, ip(math.MinInt64)},
		{ip(1 << 53), ip(1<<53 + 2)},
	}
}

func boundaryInts(c boundCfg) []int64 {
	set := map[int64]bool{}
	add := func(v int64) { set[v] = true }
	for _, b := range []*int64{c.mn, c.mx} {
		if b != nil {
			add(*b)
			if *b > math.MinInt64 {
				add(*b - 1)
			}
			if *b < math.MaxInt64 {
				add(*b + 1)
			}
		}
	}
	for _, v := range []int64{0, 1, -1, 2, -2, 127, 128, 255, 256, 1 << 31, -(1 << 31), 1<<31 - 1, 1 << 53, 1<<53 + 1, -(1 << 53), math.MaxInt64, math.MinInt64, math.MaxInt64 - 1} {
		add(v)
	}
	var out []int64
	for v := range set {
		out = append(out, v)
	}
	for i := 1; i < len(out); i++ {
		for j := i; j > 0 && out[j] < out[j-1]; j-- {
			out[j], out[j-1] = out[j-1], out[j]
		}
	}
	return out
}

// oddValues: representations that are not integers at all, or edge encodings.
func oddNumberValues() []*sx.Node {
	return []*sx.Node{
		vNil(), vB(true), vB(false),
		vU("u64", 1<<63), vU("u64", math.MaxUint64), vU("u0", 1<<63), vU("u64", 1<<63-1),
		vF("f64", math.NaN()), vF("f64", math.Inf(1)), vF("f64", math.Inf(-1)), vF("f64", math.Copysign(0, -1)),
		vF("f64", 5e-324), vF("f64", 0.5), vF("f64", -0.5), vF("f64", 2.5), vF("f64", 9223372036854775808.0),
		vF("f64", -9223372036854775808.0), vF("f64", 9223372036854774784.0), vF("f64", 1e300), vF("f64", 1.7976931348623157e308),
		vF("f32", float64(float32(0.1))), vF("f32", float64(float32(math.Inf(1)))), vF("f32", 16777216), vF("f32", 9223372036854775808.0),
		vF("f32", float64(float32(3.4e38))),
		vS(""), vS(" "), vS("5"), vS("+5"), vS("-5"), vS(" 5"), vS("5 "), vS("05"), vS("5.0"), vS("1e3"), vS("0x10"),
		vS("9223372036854775807"), vS("9223372036854775808"), vS("-9223372036854775808"), vS("-9223372036854775809"),
		vS("NaN"), vS("nan"), vS("Inf"), vS("-inf"), vS("+Infinity"), vS("1e400"), vS("-1e400"), vS("1e-400"), vS("4.9e-324"), vS("2.4e-324"),
		vS("0.1"), vS(".5"), vS("5."), vS("."), vS("1e"), vS("1e+"), vS("1E5"), vS("-0"), vS("0.30000000000000004"), vS("1.7976931348623157e308"),
		vS("1.7976931348623159e308"), vS("123456789012345678901234567890"), vS("0.000001"), vS("abc"), vS("--5"), vS("5-"),
		vNamed("i", "MyInt", "i64", sx.I(5)), vNamed("i", "MyInt32", "i32", sx.I(5)), vNamed("i", "MyUint8", "u8", sx.I(5)),
		vNamed("s", "MyStr", "str", sx.S("5")), vNamed("b", "MyBool", "bool", sx.B(true)),
		vNamed("f", "MyF64", "f64", flSx(5)), vNamed("f", "MyF32", "f32", flSx(5)),
		vSl(tAnySlice), vSl(tAnySlice, vI("i64", 5)), vM(tAnyMap), vM(tStrMap, vS("a"), vI("i64", 1)),
		vSl(sx.L(sx.A("slice"), sx.A("u8")), vI("u8", 53)), vSl(sx.L(sx.A("slice"), sx.A("i32")), vI("i32", 53), vI("i32", 0x20ac)),
		sx.L(sx.A("p"), sx.A("regexp"), sx.A("nil")), sx.L(sx.A("re"), sx.S("a+")),
		sx.L(sx.A("p"), sx.L(sx.A("ptr"), sx.A("i64")), vI("i64", 5)), sx.L(sx.A("p"), sx.L(sx.A("ptr"), sx.A("i64")), sx.A("nil")),
		sx.L(sx.A("st"), sx.L(sx.A("struct"), sx.S("MyStruct")), sx.L(sx.S("A"), vI("i64", 1)), sx.L(sx.S("B"), vS("x"))),
		sx.L(sx.A("op"), sx.A("chan"), sx.S("chan int")), sx.L(sx.A("op"), sx.A("func"), sx.S("func()")), sx.L(sx.A("op"), sx.A("array"), sx.S("[2]int")),
		sx.L(sx.A("op"), sx.A("complex"), sx.S("complex128")), sx.L(sx.A("op"), sx.A("struct"), sx.S("cbor.Tag")), sx.L(sx.A("op"), sx.A("struct"), sx.S("big.Int")),
	}
}

func allOps(vals []*sx.Node, kinds ...string) []*sx.Node {
	var out []*sx.Node
	for _, v := range vals {
		for _, k := range kinds {
			out = append(out, op(k, v))
		}
	}
	return out
}

func init() {
	opaqueValues["chan int"] = func() any { return make(chan int) }
	opaqueValues["func()"] = func() any { return func() {} }
	opaqueValues["[2]int"] = func() any { return [2]int{1, 2} }
	opaqueValues["complex128"] = func() any { return complex(1, 2) }
	opaqueValues["cbor.Tag"] = func() any { return cborTag() }
	opaqueValues["big.Int"] = func() any { return bigInt() }

	secs := unitsFromSDK(schema.UnitDurationSeconds)
	byt := unitsFromSDK(schema.UnitBytes)
	families["scalars"] = &Family{
		Label: "schema",
		Gen: func(r *Rng, tier string, emit func(*sx.Node)) {
			ops4 := []string{"u", "v", "s", "c"}
			odd := oddNumberValues()
			// ---- integers ----
			for _, c := range intBoundCfgs() {
				var vals []*sx.Node
				for _, z := range boundaryInts(c) {
					vals = append(vals, intReprs(z)...)
				}
				vals = append(vals, odd...)
				emitBatched(emit, nil, dInt(c.mn, c.mx, nil), allOps(vals, ops4...), 60)
			}
			unitStrs := []*sx.Node{vS("5m30s"), vS("1d"), vS("1 day 2 hours"), vS("90"), vS("1.5m"), vS("2m1H"), vS("153722867280912931m"), vS("x"), vS(""), vS("10 s"), vI("i64", 61), vF("f64", 61)}
			emitBatched(emit, nil, dInt(ip(60), ip(100000), &secs), allOps(unitStrs, ops4...), 60)
			emitBatched(emit, nil, dInt(nil, nil, &byt), allOps([]*sx.Node{vS("1kB"), vS("1 kilobyte 1 byte"), vS("8192PB"), vS("1B1kB")}, ops4...), 60)
			// every edge string of a unit definition (gen_rich.go: zero counts in every position, each unit alone, the largest
			// representable total written with several components, totals beyond it by the SUM and by one component, counts
			// beyond int64) against no bound, a max bound (a wrapped total would slip under it) and the float reading
			for _, ud := range []unitsD{secs, byt} {
				u := ud
				var uvals []*sx.Node
				for _, txt := range unitEdgeStrings(u) {
					uvals = append(uvals, vS(txt))
				}
				emitBatched(emit, nil, dInt(nil, nil, &u), allOps(uvals, ops4...), 60)
				emitBatched(emit, nil, dInt(nil, ip(1000), &u), allOps(uvals, "u", "c"), 60)
				emitBatched(emit, nil, dFloat(nil, nil, &u), allOps(uvals, "u", "c"), 60)
				emitBatched(emit, nil, dEnumInt([]int64{0, 60, math.MinInt64, math.MaxInt64}, &u), allOps(uvals, "u", "c"), 60)
				// blank texts (white space only) and padded texts: against the int, float and int-enum reading with this
				// definition (0 admitted, so that "blank read as zero" is an acceptance), as a leaf, as a list item, as a map
				// value and as a map KEY of each of the three
				var bvals, lvals, mvals, kvals []*sx.Node
				for _, txt := range unitBlankAndPadded(u) {
					bvals = append(bvals, vS(txt))
					lvals = append(lvals, vSl(tAnySlice, vS(txt)))
					mvals = append(mvals, vM(tStrMap, vS("k"), vS(txt)))
					kvals = append(kvals, vM(tAnyMap, vS(txt), vS("v")))
				}
				for _, leaf := range []*sx.Node{dInt(nil, nil, &u), dInt(ip(0), ip(100000), &u), dFloat(nil, nil, &u), dEnumInt([]int64{0, 3, 7, 60}, &u)} {
					emitBatched(emit, nil, leaf, allOps(bvals, ops4...), 60)
					emitBatched(emit, nil, dList(leaf, nil, nil), allOps(lvals, "u", "c"), 60)
					emitBatched(emit, nil, dMap(dString(nil, nil, nil), leaf, nil, nil), allOps(mvals, "u", "c"), 60)
					if leaf.Head() != "float" { // map keys: string, int, enums only
						emitBatched(emit, nil, dMap(leaf, dString(nil, nil, nil), nil, nil), allOps(kvals, "u", "c"), 60)
					}
				}
			}
			// the same blank and padded texts for the readings WITHOUT units (strconv.ParseInt / ParseFloat do not trim) and for
			// booleans (the word table is looked up untrimmed): leaves and map keys
			{
				var bvals, kvals []*sx.Node
				for _, txt := range append(append([]string{}, blankStrings...), append(paddedForms("0"), paddedForms("7")...)...) {
					bvals = append(bvals, vS(txt))
					kvals = append(kvals, vM(tAnyMap, vS(txt), vS("v")))
				}
				for _, leaf := range []*sx.Node{dInt(nil, nil, nil), dFloat(nil, nil, nil), dEnumInt([]int64{0, 7}, nil), dBool()} {
					emitBatched(emit, nil, leaf, allOps(bvals, ops4...), 60)
					if leaf.IsList() && leaf.Head() != "float" {
						emitBatched(emit, nil, dMap(leaf, dString(nil, nil, nil), nil, nil), allOps(kvals, "u", "c"), 60)
					}
				}
			}
			// ---- floats ----
			fcfgs := [][2]*float64{{nil, nil}, {fp(-5.5), nil}, {nil, fp(10.25)}, {fp(-5.5), fp(10.25)}, {fp(1), fp(2)}, {fp(2), fp(1)},
				{fp(0), fp(0)}, {fp(math.Inf(-1)), fp(math.Inf(1))}, {fp(math.NaN()), nil}, {fp(-math.MaxFloat64), fp(math.MaxFloat64)}}
			for _, c := range fcfgs {
				var vals []*sx.Node
				for _, b := range c {
					if b != nil && !math.IsNaN(*b) && !math.IsInf(*b, 0) {
						for _, x := range []float64{*b, math.Nextafter(*b, math.Inf(1)), math.Nextafter(*b, math.Inf(-1))} {
							vals = append(vals, vF("f64", x))
							vals = append(vals, vS(fmtG(x)))
						}
					}
				}
				for _, z := range []int64{0, 1, -5, -6, 10, 11, 2, 3, 1 << 53, 1<<53 + 1, math.MaxInt64, math.MinInt64} {
					vals = append(vals, intReprs(z)...)
				}
				vals = append(vals, odd...)
				emitBatched(emit, nil, dFloat(c[0], c[1], nil), allOps(vals, ops4...), 60)
			}
			emitBatched(emit, nil, dFloat(fp(0), nil, &secs), allOps(append(unitStrs, vS("1m1.5s"), vS("0.5"), vS("2H0.25")), ops4...), 60)
			// ---- strings ----
			strs := []*sx.Node{vS(""), vS("a"), vS("ab"), vS("abc"), vS("abcd"), vS("abcde"), vS("ABC"), vS("a1_"), vS("foo!"), vS("bar"), vS("xab"), vS("x"), vS("12"),
				vS("aababc"), vS("abab"), vS("é"), vS("日本"), vS("a\nb")}
			scfgs := []boundCfg{{nil, nil}, {ip(2), nil}, {nil, ip(4)}, {ip(2), ip(4)}, {ip(3), ip(3)}, {ip(4), ip(2)}, {ip(0), ip(0)}, {ip(-1), nil}}
			for _, c := range scfgs {
				vals := append(append([]*sx.Node{}, strs...), odd...)
				for _, z := range []int64{0, 7, -7, 12345, 100000} {
					vals = append(vals, intReprs(z)...)
				}
				emitBatched(emit, nil, dString(c.mn, c.mx, nil), allOps(vals, ops4...), 60)
			}
			for _, p := range patternPool {
				vals := append(append([]*sx.Node{}, strs...), vI("i64", 12), vF("f64", 1.5), vNamed("s", "MyStr", "str", sx.S("abc")), vS("c"), vS("abc"), vS("aabc"), vS("fooz"), vS("baz\n"))
				emitBatched(emit, nil, dString(nil, ip(5), p), allOps(vals, ops4...), 60)
			}
			// ---- bool ----
			var bvals []*sx.Node
			for w := range schema.VerifBoolStringValues() {
				bvals = append(bvals, vS(w), vS(upper(w)), vS(" "+w))
			}
			bvals = append(bvals, vS("maybe"), vS("2"), vS("tRuE"), vS("YES"))
			for _, z := range []int64{0, 1, 2, -1} {
				bvals = append(bvals, intReprs(z)...)
			}
			bvals = append(bvals, odd...)
			emitBatched(emit, nil, dBool(), allOps(bvals, ops4...), 60)
			// ---- enums ----
			var evals []*sx.Node
			for _, z := range []int64{1, 2, 3, 60, 0, -1, 1024} {
				evals = append(evals, intReprs(z)...)
			}
			evals = append(evals, odd...)
			evals = append(evals, vS("1m"), vS("1kB"))
			emitBatched(emit, nil, dEnumInt([]int64{1, 2, 60, 1024}, nil), allOps(evals, ops4...), 60)
			emitBatched(emit, nil, dEnumInt([]int64{60, 120}, &secs), allOps(evals, ops4...), 60)
			emitBatched(emit, nil, dEnumInt(nil, nil), allOps(evals[:8], ops4...), 60)
			sevals := append(append([]*sx.Node{}, strs...), odd...)
			sevals = append(sevals, vI("i64", 5), vI("i64", 97), vF("f64", 1.5), vS("5"), vS("1.500000"), vNamed("s", "MyStr", "str", sx.S("a")))
			emitBatched(emit, nil, dEnumStr(nil, []string{"a", "abc", "5", "1.500000", ""}), allOps(sevals, ops4...), 60)
			emitBatched(emit, nil, dEnumStr(sp("MyStr"), []string{"a", "abc", "5"}), allOps(sevals, ops4...), 60)
			// ---- pattern ----
			pvals := append(append([]*sx.Node{}, strs...), vS("("), vS("[a"), vS("*"), vS("a{2,1}"), vS("\\"), vS("(?P<n>a)"), vS("a|b"), vI("i64", 5), vF("f64", 1.5), vF("f64", math.Inf(1)), vF("f64", math.NaN()))
			pvals = append(pvals, odd...)
			emitBatched(emit, nil, dPattern(), allOps(pvals, ops4...), 60)
			// ---- any ----
			avals := append([]*sx.Node{}, odd...)
			avals = append(avals, strs[:4]...)
			for _, z := range []int64{0, -1, 255, 1 << 40} {
				avals = append(avals, intReprs(z)...)
			}
			avals = append(avals,
				vSl(tAnySlice, vI("i64", 1), vS("a")), vSl(tAnySlice, vI("i64", 1), vI("i32", 2)), vSl(tAnySlice, vNil()),
				vSl(tAnySlice, vSl(tAnySlice, vU("u64", 1<<63))),
				vM(tAnyMap, vI("i64", 1), vS("a"), vS("1"), vS("b")), vM(tAnyMap, vI("i64", 1), vS("a"), vI("u64", 2), vS("b")),
				vM(tAnyMap, vS("k"), vNil()), vM(tAnyMap, vNil(), vS("v")), vM(tAnyMap, vF("f64", 1.5), vS("v")), vM(tAnyMap, vB(true), vS("v")),
				vM(tStrMap, vS("a"), vSl(tAnySlice, vI("i8", 1), vI("i8", 2))), vM(sx.L(sx.A("map"), sx.A("i64"), sx.A("any")), vI("i64", 3), vS("x")),
				vM(sx.L(sx.A("map"), sx.A("str"), sx.A("i64")), vS("a"), vI("i64", 3)), vSl(sx.L(sx.A("slice"), sx.A("str")), vS("a"), vS("b")),
				vM(tAnyMap, vS("a"), vM(tAnyMap, vS("b"), vSl(tAnySlice, vF("f32", 1.5)))),
			)
			emitBatched(emit, nil, dAny(), allOps(avals, ops4...), 60)
			// ---- lists and maps: every size around the bounds, typed and untyped containers ----
			for _, c := range []boundCfg{{nil, nil}, {ip(1), nil}, {nil, ip(2)}, {ip(1), ip(2)}, {ip(2), ip(2)}, {ip(3), ip(1)}, {ip(0), ip(0)}} {
				var lvals, mvals []*sx.Node
				for n := 0; n <= 4; n++ {
					var items, ints, kv, kvs []*sx.Node
					for i := 0; i < n; i++ {
						items = append(items, vU("u64", uint64(i)))
						ints = append(ints, vI("i64", int64(i)))
						kv = append(kv, vS(string(rune('a'+i))), vI("i64", int64(i)))
						kvs = append(kvs, vS(string(rune('a'+i))), vI("i64", int64(i)))
					}
					lvals = append(lvals, vSl(tAnySlice, items...), vSl(sx.L(sx.A("slice"), sx.A("i64")), ints...))
					mvals = append(mvals, vM(tAnyMap, kv...), vM(tStrMap, kvs...), vM(sx.L(sx.A("map"), sx.A("str"), sx.A("i64")), kvs...))
				}
				lvals = append(lvals, vSl(tAnySlice, vI("i64", 1), vS("x")), vSl(tAnySlice, vI("i64", 1), vI("i64", 100)), sx.L(sx.A("sl"), tAnySlice, sx.A("1")),
					vSl(sx.L(sx.A("slice"), sx.A("u8")), vI("u8", 1), vI("u8", 2)), vSl(sx.L(sx.A("slice"), sx.A("str")), vS("1"), vS("2")),
					sx.L(sx.A("p"), sx.L(sx.A("ptr"), tAnySlice), vSl(tAnySlice, vI("i64", 1))))
				lvals = append(lvals, odd[:12]...)
				mvals = append(mvals, vM(tAnyMap, vI("i64", 1), vI("i64", 1)), vM(tAnyMap, vS("a"), vS("x")), vM(tAnyMap, vS("a"), vI("i64", 100)),
					sx.L(sx.A("m"), tAnyMap, sx.A("1")), vM(sx.L(sx.A("map"), sx.A("i64"), sx.A("any")), vI("i64", 3), vI("i64", 3)))
				mvals = append(mvals, odd[:12]...)
				emitBatched(emit, nil, dList(dInt(ip(0), ip(50), nil), c.mn, c.mx), allOps(lvals, ops4...), 60)
				emitBatched(emit, nil, dMap(dString(ip(1), ip(1), nil), dInt(ip(0), ip(50), nil), c.mn, c.mx), allOps(mvals, ops4...), 60)
			}
			emitBatched(emit, nil, dMap(dInt(nil, nil, nil), dAny(), nil, nil), allOps([]*sx.Node{
				vM(tAnyMap, vI("i64", 1), vS("a"), vI("u8", 2), vS("b")), vM(tAnyMap, vS("7"), vS("a")), vM(tStrMap, vS("7"), vS("a")),
				vM(sx.L(sx.A("map"), sx.A("i64"), sx.A("str")), vI("i64", 7), vS("a")), vM(tAnyMap, vF("f64", 2), vS("a")), vM(tAnyMap, vS("x"), vS("a")),
			}, ops4...), 60)
			emitBatched(emit, nil, dMap(dEnumStr(nil, []string{"a", "b"}), dList(dBool(), nil, ip(2)), nil, nil), allOps([]*sx.Node{
				vM(tAnyMap, vS("a"), vSl(tAnySlice, vS("yes"), vI("i64", 0))), vM(tAnyMap, vS("c"), vSl(tAnySlice)), vM(tAnyMap, vS("a"), vSl(tAnySlice, vS("perhaps"))),
				vM(tAnyMap, vS("b"), vSl(tAnySlice, vB(true), vB(true), vB(true))),
			}, ops4...), 60)
		},
		Run: runSchemaCase,
	}
}

func uint64ToI(i int) uint64 { return uint64(i) }

func upper(s string) string {
	b := []byte(s)
	for i, c := range b {
		if c >= 'a' && c <= 'z' {
			b[i] = c - 32
		}
	}
	return string(b)
}
