package main

import (
	"fmt"
	"reflect"
	"sort"
	"strings"

	"go.flow.arcalot.io/pluginsdk/schema"
	"verif/harness/sx"
)

// C12, history freedom of the UNIT caches.  A units definition holds two lazily filled caches (the multipliers sorted
// largest first; the compiled parser expression with its group index).  They are schema state exactly like the decoded
// defaults: every call may fill an empty cell, no call - a rejected one included - may change what a filled cell holds,
// and what it holds is what a first use on a fresh instance computes (C12_history_free: "the cache stays coherent and
// nothing filled is overwritten").  The view is PASSIVE (read by reflection, nothing is filled by looking), taken after
// every call of a history; the expected content of every cell comes from a separate fresh instance whose caches are
// filled through the public API.  The public face of the same state - Format{Short,Long}{Int,Float} of fixed probe
// numbers - is compared between the used and a fresh instance at the end (`after`).

type c12HasUnits interface{ Units() *schema.UnitsDefinition }

// c12UnitDefs: every units definition reachable from t (objects, scopes, resolved references, lists, maps, one-ofs).
func c12UnitDefs(t schema.Type) (out []*schema.UnitsDefinition) {
	defer func() { _ = recover() }()
	seenO := map[*schema.ObjectSchema]bool{}
	seenU := map[*schema.UnitsDefinition]bool{}
	var walk func(t schema.Type, depth int)
	walk = func(t schema.Type, depth int) {
		if t == nil || depth > 60 {
			return
		}
		if h, ok := t.(c12HasUnits); ok {
			if u := h.Units(); u != nil && !seenU[u] {
				seenU[u] = true
				out = append(out, u)
			}
		}
		switch x := t.(type) {
		case *schema.ObjectSchema:
			if seenO[x] {
				return
			}
			seenO[x] = true
			names := make([]string, 0, len(x.PropertiesValue))
			for n := range x.PropertiesValue {
				names = append(names, n)
			}
			sort.Strings(names)
			for _, n := range names {
				walk(x.PropertiesValue[n].Type(), depth+1)
			}
			return
		case *schema.ScopeSchema:
			ids := make([]string, 0, len(x.ObjectsValue))
			for n := range x.ObjectsValue {
				ids = append(ids, n)
			}
			sort.Strings(ids)
			for _, n := range ids {
				walk(x.ObjectsValue[n], depth+1)
			}
			return
		case *schema.RefSchema:
			if x.ObjectReady() {
				walk(x.GetObject(), depth+1)
			}
			return
		}
		if l, ok := t.(c12HasItems); ok {
			walk(l.Items(), depth+1)
		}
		if m, ok := t.(c12HasKV); ok {
			walk(m.Keys(), depth+1)
			walk(m.Values(), depth+1)
		}
		if o, ok := t.(c12TypesS); ok {
			for _, m := range o.Types() {
				walk(m, depth+1)
			}
		}
		if o, ok := t.(c12TypesI); ok {
			for _, m := range o.Types() {
				walk(m, depth+1)
			}
		}
	}
	walk(t, 0)
	return out
}

// c12UnitsCells: the two cache cells of a definition as texts, "-" for a cell that is still empty ("?" when the field
// is not there: the view then says nothing).  Read-only: reflection reads the unexported fields, nothing is called.
func c12UnitsCells(u *schema.UnitsDefinition) (sorted string, re string) {
	sorted, re = "?", "?"
	defer func() { _ = recover() }()
	v := reflect.ValueOf(u).Elem()
	if f := v.FieldByName("sortedMultipliersCache"); f.IsValid() && f.Kind() == reflect.Slice {
		if f.IsNil() {
			sorted = "-"
		} else {
			parts := make([]string, f.Len())
			for i := range parts {
				parts[i] = fmt.Sprint(f.Index(i).Int())
			}
			sorted = "[" + strings.Join(parts, " ") + "]"
		}
	}
	f, g := v.FieldByName("reCache"), v.FieldByName("reSubExpNames")
	if f.IsValid() && f.Kind() == reflect.Ptr && g.IsValid() && g.Kind() == reflect.Map {
		if f.IsNil() || g.IsNil() {
			re = "-"
		} else {
			var names []string
			it := g.MapRange()
			for it.Next() {
				names = append(names, fmt.Sprintf("%s=%d", it.Key().String(), it.Value().Int()))
			}
			sort.Strings(names)
			re = f.Elem().FieldByName("expr").String() + " " + strings.Join(names, ",")
		}
	}
	return sorted, re
}

func c12UnitsKey(u *schema.UnitsDefinition) string { return unitsFromSDK(u).sx().String() }

// c12UnitsExpected: what each cell of each definition of the schema holds after a FIRST fill on a fresh instance
// (filled through the public API: a Format call sorts the multipliers, a Parse call compiles the expression).
func c12UnitsExpected(t schema.Type) map[string][2]string {
	exp := map[string][2]string{}
	for _, u := range c12UnitDefs(t) {
		func() {
			defer func() { _ = recover() }()
			_ = u.FormatShortInt(1)
			_, _ = u.ParseFloat("0")
		}()
		a, b := c12UnitsCells(u)
		exp[c12UnitsKey(u)] = [2]string{a, b}
	}
	return exp
}

// c12UnitsCoherent: every FILLED cell of every definition of the instance holds the expected content.
func c12UnitsCoherent(t schema.Type, exp map[string][2]string) bool {
	for _, u := range c12UnitDefs(t) {
		e, ok := exp[c12UnitsKey(u)]
		if !ok {
			continue
		}
		a, b := c12UnitsCells(u)
		if (a != "-" && a != "?" && e[0] != "?" && a != e[0]) || (b != "-" && b != "?" && e[1] != "?" && b != e[1]) {
			return false
		}
	}
	return true
}

var c12FormatProbesInt = []int64{1, 59, 90061001, 1<<40 + 12345, 8640000000001003520}
var c12FormatProbesFloat = []float64{0.5, 90061001.25, 8640000000001003520}

// c12UnitsFormat: the public face of the unit caches: the four Format functions on fixed numbers, per definition.
func c12UnitsFormat(t schema.Type) string {
	var lines []string
	for _, u := range c12UnitDefs(t) {
		line := c12UnitsKey(u) + "=>"
		func() {
			defer func() {
				if r := recover(); r != nil {
					line += "panic"
				}
			}()
			for _, n := range c12FormatProbesInt {
				line += u.FormatShortInt(n) + "|" + u.FormatLongInt(n) + "|"
			}
			for _, x := range c12FormatProbesFloat {
				line += u.FormatShortFloat(x) + "|" + u.FormatLongFloat(x) + "|"
			}
		}()
		lines = append(lines, line)
	}
	sort.Strings(lines)
	return strings.Join(lines, "\n")
}

// ---- generator: unit-bearing numbers ----

// c12BigUnitText: a multi-term text, largest unit first, whose total lies between 2^53 and 2^62 and whose terms are
// not multiples of the float64 spacing up there, with a FRACTIONAL base count (the float accumulator is what a float
// schema returns): the exact sum is not a float64, so the result depends on the order in which the products are added.
func c12BigUnitText(r *Rng, u unitsD) string {
	ks := u.sortedMults()
	frac := pick(r, []string{"5", "25", "75", "125"})
	var b strings.Builder
	sep := pick(r, []string{"", " "})
	if len(ks) == 0 {
		return fmt.Sprintf("%d.%s%s", (int64(1)<<53)+int64(r.Intn(1<<20))*2+1, frac, u.base.ss)
	}
	top := ks[len(ks)-1]
	if top <= 0 || top >= 1<<60 {
		return fmt.Sprintf("%d.%s%s", 1+r.Intn(1000), frac, u.base.ss)
	}
	c := (int64(1)<<53)/top + 1
	c *= int64(1 + r.Intn(400))
	for c > (int64(1)<<62)/top {
		c /= 2
	}
	if c < 1 {
		c = 1
	}
	fmt.Fprintf(&b, "%d%s%s%s", c, sep, pick(r, []string{u.mults[top].ss, u.mults[top].ls}), sep)
	for i := len(ks) - 2; i >= 0; i-- {
		if r.Chance(25) || ks[i] > (int64(1)<<57)/1000 {
			continue
		}
		ud := u.mults[ks[i]]
		fmt.Fprintf(&b, "%d%s%s%s", 1+2*r.Intn(500), sep, pick(r, []string{ud.ss, ud.sp}), sep)
	}
	fmt.Fprintf(&b, "%d.%s%s%s", r.Intn(1000), frac, sep, u.base.ss)
	return b.String()
}

// c12RejectedUnitText: a text the unit grammar of u refuses (the error path lists the valid units).
func c12RejectedUnitText(r *Rng, u unitsD) string {
	s := genWellFormed(r, u)
	return pick(r, []string{"5 parsecs", s + " parsecs", "-" + s + "1" + u.base.ss, s + "~", "1.5.5" + u.base.ss, "one " + u.base.lp})
}

// c12UnitCases: float (2 of 3) and integer schemas over the built-in unit definitions and generated ones - bare, as a
// property of an object (beside a second unit-bearing property with a default), as the items of a list - with
// histories that interleave rejected texts, big multi-term texts, ordinary well-formed float texts and the
// generator's usual unit strings; every text of the history occurs both before and after a rejected call.
func c12UnitCases(r *Rng, n int, emit func(*sx.Node)) {
	for i := 0; i < n; i++ {
		var u unitsD
		if i%4 == 3 {
			u = genUnits(r)
		} else {
			u = unitsFromSDK(builtinUnits[(i/4+i)%len(builtinUnits)])
		}
		isFloat := i%3 != 2
		var leaf *sx.Node
		if isFloat {
			leaf = dFloat(nil, nil, &u)
		} else {
			leaf = dInt(nil, nil, &u)
		}
		shape := r.Intn(3)
		s := leaf
		wrap := func(text string) *sx.Node { return vS(text) }
		switch shape {
		case 1:
			secs := unitsFromSDK(schema.UnitDurationSeconds)
			s = dObject("timed", false, prReq("d", leaf), prDef("t", dInt(nil, nil, &secs), "\"1m\""))
			wrap = func(text string) *sx.Node { return vM(tAnyMap, vS("d"), vS(text)) }
		case 2:
			s = dList(leaf, nil, nil)
			wrap = func(text string) *sx.Node { return vSl(tAnySlice, vS(text)) }
		}
		var texts []string
		for j := 0; j < 1+r.Intn(2); j++ {
			texts = append(texts, c12BigUnitText(r, u))
		}
		if r.Bool() {
			texts = append(texts, genWellFormedFloat(r, u))
		}
		var calls []*sx.Node
		add := func(opn, text string) { calls = append(calls, op(opn, wrap(text))) }
		if r.Bool() { // the first use of the instance is the rejected call
			add("u", c12RejectedUnitText(r, u))
		}
		for _, t := range texts {
			add("u", t)
		}
		add(pick(r, []string{"u", "u", "c"}), c12RejectedUnitText(r, u))
		for _, t := range texts {
			add("u", t)
		}
		if r.Bool() {
			add("u", unitString(r, u))
		}
		emit(c12Case(c04Schema{s: s}, calls))
	}
}
