package main

import (
	"fmt"
	"sort"
	"strings"

	"go.flow.arcalot.io/pluginsdk/schema"
	"verif/harness/sx"
)

// ---- units descriptors ----

type unitD struct{ ss, sp, ls, lp string }
type unitsD struct {
	base  unitD
	mults map[int64]unitD
}

func unitsFromSDK(u *schema.UnitsDefinition) unitsD {
	d := unitsD{base: unitFromSDK(u.BaseUnit()), mults: map[int64]unitD{}}
	for m, x := range u.Multipliers() {
		d.mults[m] = unitFromSDK(x)
	}
	return d
}
func unitFromSDK(u *schema.UnitDefinition) unitD {
	return unitD{u.NameShortSingular(), u.NameShortPlural(), u.NameLongSingular(), u.NameLongPlural()}
}
func (d unitD) sx() *sx.Node {
	return sx.L(sx.A("unit"), sx.S(d.ss), sx.S(d.sp), sx.S(d.ls), sx.S(d.lp))
}
func (d unitsD) sortedMults() []int64 {
	var ks []int64
	for k := range d.mults {
		ks = append(ks, k)
	}
	sort.Slice(ks, func(i, j int) bool { return ks[i] < ks[j] })
	return ks
}
func (d unitsD) sx() *sx.Node {
	ms := sx.L()
	for _, k := range d.sortedMults() {
		ms.Append(sx.L(sx.I(k), d.mults[k].sx()))
	}
	return sx.L(sx.A("units"), d.base.sx(), ms)
}
func unitFromSx(n *sx.Node) unitD {
	return unitD{n.List[1].Str, n.List[2].Str, n.List[3].Str, n.List[4].Str}
}
func unitsFromSx(n *sx.Node) unitsD {
	d := unitsD{base: unitFromSx(n.List[1]), mults: map[int64]unitD{}}
	for _, m := range n.List[2].List {
		d.mults[m.List[0].Int()] = unitFromSx(m.List[1])
	}
	return d
}
func (d unitsD) build() *schema.UnitsDefinition {
	var ms map[int64]*schema.UnitDefinition
	if len(d.mults) > 0 {
		ms = map[int64]*schema.UnitDefinition{}
		for k, u := range d.mults {
			ms[k] = schema.NewUnit(u.ss, u.sp, u.ls, u.lp)
		}
	}
	return schema.NewUnits(schema.NewUnit(d.base.ss, d.base.sp, d.base.ls, d.base.lp), ms)
}

var builtinUnits = []*schema.UnitsDefinition{
	schema.UnitBytes, schema.UnitDurationNanoseconds, schema.UnitDurationSeconds,
	schema.UnitCharacters, schema.UnitPercentage,
}

// name pools: prefixes of each other, regexp metacharacters, digits excluded (a name
// starting with a digit is ambiguous with a count by construction and is outside wf).
var unitNamePool = []string{"a", "ab", "abc", "b", "m", "ms", "s", "k", "kk", "x.y", "u+", "(p)", "q*", "[z]", "w|v", "%", "$", "^t", "µ"}

func genUnits(r *Rng) unitsD {
	// two units sharing a name make the definition inherently ambiguous ("1a" cannot denote
	// two different amounts), so every name is used by at most one unit
	used := map[string]bool{}
	names := func() unitD {
		for {
			a := pick(r, unitNamePool)
			d := unitD{a, a + pick(r, []string{"", "s", "z"}), a + "long", a + "longs"}
			if used[d.ss] || used[d.sp] || used[d.ls] || used[d.lp] {
				continue
			}
			used[d.ss], used[d.sp], used[d.ls], used[d.lp] = true, true, true, true
			return d
		}
	}
	d := unitsD{base: names(), mults: map[int64]unitD{}}
	n := r.Intn(5)
	mpool := []int64{2, 3, 10, 60, 100, 1000, 1024, 3600, 86400, 1 << 20, 1 << 40, 1000000007, 1 << 62}
	for i := 0; i < n; i++ {
		d.mults[pick(r, mpool)] = names()
	}
	return d
}

// unitsWf mirrors the model's wf_units plus "names unambiguous" is NOT required.
func fmtIntCase(u unitsD, n int64) *sx.Node { return sx.L(sx.A("fmtint"), u.sx(), sx.I(n)) }
func parseCase(u unitsD, s string) *sx.Node  { return sx.L(sx.A("parse"), u.sx(), sx.S(s)) }

func genWellFormed(r *Rng, u unitsD) string {
	// counts followed by declared unit names, largest first, optional spaces
	ks := u.sortedMults()
	var b strings.Builder
	sp := func() {
		if r.Chance(30) {
			b.WriteString(strings.Repeat(" ", 1+r.Intn(2)))
		}
	}
	sp()
	for i := len(ks) - 1; i >= 0; i-- {
		if r.Chance(50) {
			continue
		}
		ud := u.mults[ks[i]]
		fmt.Fprintf(&b, "%d", genCount(r))
		sp()
		b.WriteString(pick(r, []string{ud.ss, ud.sp, ud.ls, ud.lp}))
		sp()
	}
	if r.Chance(60) {
		fmt.Fprintf(&b, "%d", genCount(r))
		sp()
		b.WriteString(pick(r, []string{"", u.base.ss, u.base.sp, u.base.ls, u.base.lp}))
		sp()
	}
	return b.String()
}

func genCount(r *Rng) int64 {
	switch r.Intn(10) {
	case 0:
		return 0
	case 1:
		return 1
	case 2:
		return int64(r.Next() >> 1) // 63-bit: overflow candidates
	case 3:
		return int64(r.Next() >> 20)
	default:
		return int64(r.Intn(2000))
	}
}

func genNearMiss(r *Rng, u unitsD) string {
	s := genWellFormed(r, u)
	switch r.Intn(9) {
	case 0:
		return s + "x"
	case 1:
		return "-" + s
	case 2:
		return s + s // repeated units / wrong order
	case 3:
		return strings.ReplaceAll(s, " ", "\t")
	case 4:
		return ""
	case 5:
		return "   "
	case 6:
		return s + ".5"
	case 7:
		if len(s) > 1 {
			i := r.Intn(len(s))
			return s[:i] + s[i+1:]
		}
		return "1.5"
	default:
		return "9223372036854775808" + u.base.ss
	}
}

func init() {
	families["units"] = &Family{
		Gen: func(r *Rng, tier string, emit func(*sx.Node)) {
			var defs []unitsD
			for _, b := range builtinUnits {
				defs = append(defs, unitsFromSDK(b))
			}
			sweep, nGen, nStr := int64(1500), 12, 40
			if tier == "thorough" {
				sweep, nGen, nStr = 200000, 60, 300
			}
			// corpus of earlier defects (D15-D18, D45) first
			secs := unitsFromSDK(schema.UnitDurationSeconds)
			byt := unitsFromSDK(schema.UnitBytes)
			for _, s := range []string{"5m30s", "1m4s", "1H1m1s", "153722867280912931m", "1d", "1 day 2 hours", "2m1H", "5 m 30", "1.5s", "1.5m"} {
				emit(parseCase(secs, s))
			}
			for _, n := range []int64{0, 1, 10, 600, 6000, 86400, 9223372036854775807, 9007199254740993, 1125899906842623999} {
				emit(fmtIntCase(secs, n))
				emit(fmtIntCase(byt, n))
			}
			for _, d := range defs {
				for n := int64(0); n <= sweep; n++ {
					emit(fmtIntCase(d, n))
				}
			}
			for i := 0; i < nGen; i++ {
				defs = append(defs, genUnits(r))
			}
			for _, d := range defs {
				// powers of ten, multiplier boundaries +-1, random 63-bit values
				p := int64(1)
				for i := 0; i < 18; i++ {
					emit(fmtIntCase(d, p))
					p *= 10
				}
				for m := range d.mults {
					for _, k := range []int64{1, 2, 7} {
						if m <= (1<<62)/k {
							emit(fmtIntCase(d, m*k-1))
							emit(fmtIntCase(d, m*k))
							emit(fmtIntCase(d, m*k+1))
						}
					}
				}
				for i := 0; i < 20; i++ {
					emit(fmtIntCase(d, int64(r.Next()>>1)))
					emit(fmtIntCase(d, int64(r.Next()>>uint(1+r.Intn(62)))))
				}
				for i := 0; i < nStr; i++ {
					emit(parseCase(d, genWellFormed(r, d)))
					emit(parseCase(d, genNearMiss(r, d)))
				}
			}
		},
		Run: func(p *sx.Node) *sx.Node {
			u := unitsFromSx(p.List[1])
			def := u.build()
			obsParse := func(s string) *sx.Node {
				v, err := def.ParseInt(s)
				if err != nil {
					return sx.A("err")
				}
				return sx.L(sx.A("ok"), sx.I(v))
			}
			switch p.Head() {
			case "fmtint":
				n := p.List[2].Int()
				s, l := def.FormatShortInt(n), def.FormatLongInt(n)
				return sx.L(sx.A("r"), sx.S(s), sx.S(l), obsParse(s), obsParse(l))
			case "parse":
				return sx.L(sx.A("r"), obsParse(p.List[2].Str))
			}
			return sx.L(sx.A("bad"), sx.S("units case"))
		},
	}
}
