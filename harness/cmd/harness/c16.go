package main

import (
	"fmt"
	"sort"
	"strings"

	"go.flow.arcalot.io/pluginsdk/schema"
	"verif/harness/sx"
)

// ---- units descriptors ----

type unitD struct{ ss, sp, ls, lp string }
type unitsD struct {
	base  unitD
	mults map[int64]unitD
}

func unitsFromSDK(u *schema.UnitsDefinition) unitsD {
	d := unitsD{base: unitFromSDK(u.BaseUnit()), mults: map[int64]unitD{}}
	for m, x := range u.Multipliers() {
		d.mults[m] = unitFromSDK(x)
	}
	return d
}
func unitFromSDK(u *schema.UnitDefinition) unitD {
	return unitD{u.NameShortSingular(), u.NameShortPlural(), u.NameLongSingular(), u.NameLongPlural()}
}
func (d unitD) sx() *sx.Node {
	return sx.L(sx.A("unit"), sx.S(d.ss), sx.S(d.sp), sx.S(d.ls), sx.S(d.lp))
}
func (d unitsD) sortedMults() []int64 {
	var ks []int64
	for k := range d.mults {
		ks = append(ks, k)
	}
	sort.Slice(ks, func(i, j int) bool { return ks[i] < ks[j] })
	return ks
}
func (d unitsD) sx() *sx.Node {
	ms := sx.L()
	for _, k := range d.sortedMults() {
		ms.Append(sx.L(sx.I(k), d.mults[k].sx()))
	}
	return sx.L(sx.A("units"), d.base.sx(), ms)
}
func unitFromSx(n *sx.Node) unitD {
	return unitD{n.List[1].Str, n.List[2].Str, n.List[3].Str, n.List[4].Str}
}
func unitsFromSx(n *sx.Node) unitsD {
	d := unitsD{base: unitFromSx(n.List[1]), mults: map[int64]unitD{}}
	for _, m := range n.List[2].List {
		d.mults[m.List[0].Int()] = unitFromSx(m.List[1])
	}
	return d
}
func (d unitsD) build() *schema.UnitsDefinition {
	var ms map[int64]*schema.UnitDefinition
	if len(d.mults) > 0 {
		ms = map[int64]*schema.UnitDefinition{}
		for k, u := range d.mults {
			ms[k] = schema.NewUnit(u.ss, u.sp, u.ls, u.lp)
		}
	}
	return schema.NewUnits(schema.NewUnit(d.base.ss, d.base.sp, d.base.ls, d.base.lp), ms)
}

var builtinUnits = []*schema.UnitsDefinition{
	schema.UnitBytes, schema.UnitDurationNanoseconds, schema.UnitDurationSeconds,
	schema.UnitCharacters, schema.UnitPercentage,
}

// name pools: prefixes of each other, regexp metacharacters, digits excluded (a name
// starting with a digit is ambiguous with a count by construction and is outside wf).
var unitNamePool = []string{"a", "ab", "abc", "b", "m", "ms", "s", "k", "kk", "x.y", "u+", "(p)", "q*", "[z]", "w|v", "%", "$", "^t", "µ"}

// unicodeNameDefs: names that start with / contain Unicode white space (NBSP, NEL, U+3000, U+2003, U+2028, U+1680,
// U+202F) but do not END in it: unambiguous in the sense of the model's names_unambiguous, so they must round-trip.
var unicodeNameDefs = []unitsD{
	{base: unitD{"\u00a0x", "x\u00a0y", "ex\u3000long", "ex\u2003longs"},
		mults: map[int64]unitD{60: {"m\u0085n", "m\u0085ns", "\u2028min", "\u2028mins"}, 3600: {"h", "hs", "hour\u00a0s", "\u1680hours"}}},
	{base: unitD{"\u3000b", "\u3000bs", "b\u00a0\u00a0b", "b\u202fbs"},
		mults: map[int64]unitD{1000: {"k\u00a0\u00a0k", "kk", "\u0085kilo", "\u0085kilos"}}},
}

// d73TrailWitnesses: names ENDING in white space - ASCII (Coq w_trail), NBSP (Coq w_trail_nbsp), U+3000 / U+2028 / NEL
var d73TrailWitnesses = []unitsD{
	{base: unitD{"x\u00a0", "x\u00a0", "ex", "exes"}, mults: map[int64]unitD{}},
	{base: unitD{"s ", "s ", "second", "seconds"}, mults: map[int64]unitD{}},
	{base: unitD{"b", "bs", "bee\u3000", "bees\u2028"}, mults: map[int64]unitD{60: {"m\u0085", "m\u0085", "min", "mins"}}},
}

// unicodeTrimCorpus: the texts run by hand against UnitsDefinition.ParseInt of the seconds set (work package s8u):
// outer Unicode white space is trimmed, inner is refused, \v is trimmed outside and refused inside (\f is in \s),
// invalid UTF-8 (a lone 0xA0 / 0x85 / 0xC2, a truncated E2 80) and non-White_Space look-alikes are never trimmed
var unicodeTrimCorpus = []string{
	"\u00a05\u00a0", "\u00855s", "\u30005m\u3000", "\u20035m\u2003", "\u20285\u2028", "\u16805", "\u202f5\u205f",
	"5\u00a0s", "5\u0085s", "5\u3000m", "5\u2003m", "5\u2028s", "5m\u00a030s",
	"\v5s\v", "5\vs", "5m\v30s", "\f5s", "5\fs",
	"\xa05", "5\xa0", "\x855", "5\x85", "5\xc2", "\xc25", "\xe2\x805", "5\xe2\x80",
	"\u00a0", "\u3000\u2003", " \t\u0085", "\xa0", "\u200b5", "\ufeff5", "\u180e5",
}

func genUnits(r *Rng) unitsD {
	// two units sharing a name make the definition inherently ambiguous ("1a" cannot denote
	// two different amounts), so every name is used by at most one unit
	used := map[string]bool{}
	names := func() unitD {
		for {
			a := pick(r, unitNamePool)
			d := unitD{a, a + pick(r, []string{"", "s", "z"}), a + "long", a + "longs"}
			if used[d.ss] || used[d.sp] || used[d.ls] || used[d.lp] {
				continue
			}
			used[d.ss], used[d.sp], used[d.ls], used[d.lp] = true, true, true, true
			return d
		}
	}
	d := unitsD{base: names(), mults: map[int64]unitD{}}
	n := r.Intn(5)
	mpool := []int64{2, 3, 10, 60, 100, 1000, 1024, 3600, 86400, 1 << 20, 1 << 40, 1000000007, 1 << 62}
	for i := 0; i < n; i++ {
		d.mults[pick(r, mpool)] = names()
	}
	return d
}

// unitsWf mirrors the model's wf_units plus "names unambiguous" is NOT required.
func fmtIntCase(u unitsD, n int64) *sx.Node { return sx.L(sx.A("fmtint"), u.sx(), sx.I(n)) }
func parseCase(u unitsD, s string) *sx.Node  { return sx.L(sx.A("parse"), u.sx(), sx.S(s)) }

func genWellFormed(r *Rng, u unitsD) string {
	// counts followed by declared unit names, largest first, optional spaces
	ks := u.sortedMults()
	var b strings.Builder
	sp := func() {
		if r.Chance(30) {
			b.WriteString(strings.Repeat(" ", 1+r.Intn(2)))
		}
	}
	sp()
	for i := len(ks) - 1; i >= 0; i-- {
		if r.Chance(50) {
			continue
		}
		ud := u.mults[ks[i]]
		fmt.Fprintf(&b, "%d", genCount(r))
		sp()
		b.WriteString(pick(r, []string{ud.ss, ud.sp, ud.ls, ud.lp}))
		sp()
	}
	if r.Chance(60) {
		fmt.Fprintf(&b, "%d", genCount(r))
		sp()
		b.WriteString(pick(r, []string{"", u.base.ss, u.base.sp, u.base.ls, u.base.lp}))
		sp()
	}
	return b.String()
}

func genCount(r *Rng) int64 {
	switch r.Intn(10) {
	case 0:
		return 0
	case 1:
		return 1
	case 2:
		return int64(r.Next() >> 1) // 63-bit: overflow candidates
	case 3:
		return int64(r.Next() >> 20)
	default:
		return int64(r.Intn(2000))
	}
}

func genNearMiss(r *Rng, u unitsD) string {
	s := genWellFormed(r, u)
	switch r.Intn(9) {
	case 0:
		return s + "x"
	case 1:
		return "-" + s
	case 2:
		return s + s // repeated units / wrong order
	case 3:
		return strings.ReplaceAll(s, " ", "\t")
	case 4:
		return ""
	case 5:
		return "   "
	case 6:
		return s + ".5"
	case 7:
		if len(s) > 1 {
			i := r.Intn(len(s))
			return s[:i] + s[i+1:]
		}
		return "1.5"
	default:
		return "9223372036854775808" + u.base.ss
	}
}

func fmtFloatCase(u unitsD, x float64) *sx.Node { return sx.L(sx.A("fmtfloat"), u.sx(), flSx(x)) }
func parseFloatCase(u unitsD, s string) *sx.Node {
	return sx.L(sx.A("parsefloat"), u.sx(), sx.S(s))
}
func unserCase(u unitsD, s string) *sx.Node { return sx.L(sx.A("unser"), u.sx(), sx.S(s)) }

func obsParseFloat(def *schema.UnitsDefinition, s string) *sx.Node {
	v, err := def.ParseFloat(s)
	if err != nil {
		return sx.A("err")
	}
	return sx.L(sx.A("ok"), flSx(v))
}

// obsUnserNum: Unserialize of a string by an int / float schema; the value or that it is an error
func obsUnserNum(t schema.Type, s string) *sx.Node {
	v, err := t.Unserialize(s)
	if err != nil {
		return sx.A("err")
	}
	switch x := v.(type) {
	case int64:
		return sx.L(sx.A("ok"), sx.I(x))
	case float64:
		return sx.L(sx.A("ok"), flSx(x))
	}
	return sx.A("other")
}

// strings that are NOT counts followed by declared unit names but that some number parser of the
// standard library accepts (strconv.ParseFloat / ParseInt with base 0 / big literals): a schema
// with units must reject each of them exactly as the units parser does
var numberLookalikes = []string{
	"1e3", "1E3", "1e+3", "1e-3", "2.5e2", "1e400", "1E400", "1e-400", "0x10", "0X1F", "0x1p-2", "0x1.8p1", "0x_10", "1_000", "0b101", "0o17",
	"Inf", "inf", "+Inf", "-Inf", "infinity", "Infinity", "+infinity", "NaN", "nan", ".5", "5.", ".", "-3", "+3", "-0", "+0", "-1.5", "+1.5",
	"- 3", "1,5", "1 000", "٣", "1e", "e3", "--3", "0x", "1.2.3", "1..2", " 1e3 ", "\t.5\n",
}

// genFloat: non-negative floats of every flavour the formatter distinguishes: whole numbers (also
// ending in zeros), multiples of the multipliers, fractions with few and with many digits
func genFloat(r *Rng, u unitsD) float64 {
	ks := u.sortedMults()
	switch r.Intn(8) {
	case 0:
		return float64(r.Intn(100000)) // whole
	case 1:
		return float64(r.Intn(1000)) * float64(pick(r, []int64{10, 100, 1000, 10000})) // whole, trailing zeros
	case 2:
		if len(ks) > 0 { // whole multiples of a multiplier plus a round remainder
			m := ks[r.Intn(len(ks))]
			if m < 1<<40 {
				return float64(m)*float64(r.Intn(200)) + float64(10*r.Intn(12))
			}
		}
		return float64(10 * r.Intn(1000))
	case 3:
		return float64(r.Intn(1000000)) / float64(pick(r, []int64{2, 4, 8, 10, 100, 1000})) // short fractions
	case 4:
		return float64(r.Intn(100000)) + float64(r.Intn(1000000))/1e6 // six fraction digits
	case 5:
		return float64(r.Next()>>11) / float64(uint64(1)<<53) * float64(pick(r, []int64{1, 100, 100000, 1 << 40})) // any mantissa
	case 6:
		return float64(r.Next() >> uint(12+r.Intn(50))) // large whole numbers up to 2^52
	default:
		return float64(r.Intn(5000))/10 + float64(r.Intn(3))*0.05
	}
}

// genWellFormedFloat: like genWellFormed but some counts carry a decimal fraction
func genWellFormedFloat(r *Rng, u unitsD) string {
	ks := u.sortedMults()
	var b strings.Builder
	count := func() {
		if r.Chance(40) {
			fmt.Fprintf(&b, "%d.%s", r.Intn(500), pick(r, []string{"0", "5", "25", "125", "10", "000001", "999999", "50"}))
		} else {
			fmt.Fprintf(&b, "%d", r.Intn(3000))
		}
	}
	sp := func() {
		if r.Chance(25) {
			b.WriteString(" ")
		}
	}
	for i := len(ks) - 1; i >= 0; i-- {
		if r.Chance(55) {
			continue
		}
		ud := u.mults[ks[i]]
		count()
		sp()
		b.WriteString(pick(r, []string{ud.ss, ud.sp, ud.ls, ud.lp}))
		sp()
	}
	if r.Chance(70) {
		count()
		sp()
		b.WriteString(pick(r, []string{"", u.base.ss, u.base.sp, u.base.ls, u.base.lp}))
	}
	return b.String()
}

func init() {
	families["units"] = &Family{
		Gen: func(r *Rng, tier string, emit func(*sx.Node)) {
			var defs []unitsD
			for _, b := range builtinUnits {
				defs = append(defs, unitsFromSDK(b))
			}
			sweep, nGen, nStr := int64(1500), 12, 40
			if tier == "thorough" {
				sweep, nGen, nStr = 200000, 60, 300
			}
			// corpus of earlier defects (D15-D18, D45) first
			secs := unitsFromSDK(schema.UnitDurationSeconds)
			byt := unitsFromSDK(schema.UnitBytes)
			for _, s := range []string{"5m30s", "1m4s", "1H1m1s", "153722867280912931m", "1d", "1 day 2 hours", "2m1H", "5 m 30", "1.5s", "1.5m"} {
				emit(parseCase(secs, s))
			}
			for _, n := range []int64{0, 1, 10, 600, 6000, 86400, 9223372036854775807, 9007199254740993, 1125899906842623999} {
				emit(fmtIntCase(secs, n))
				emit(fmtIntCase(byt, n))
			}
			// the float side: whole numbers ending in zeros, 0.0, round components, fractions
			pct := unitsFromSDK(schema.UnitPercentage)
			for _, x := range []float64{0, 1, 5.1, 7, 10, 70, 100, 130, 600, 1000, 4200, 6000, 86400, 100000, 0.5, 10.5, 1536, 1e-7, 0.000001, 59.9999999, 1.05, 100.01} {
				emit(fmtFloatCase(secs, x))
				emit(fmtFloatCase(byt, x))
				emit(fmtFloatCase(pct, x))
			}
			for _, s := range []string{"1.5s", "1.5m", "1m1.5s", "0.5", "2H0.25", "10", "010", "5.25", "1.5m30s", "1.5 m 30.5 s", "1.m", ".5m", "1e3", "Inf", "NaN"} {
				emit(parseFloatCase(secs, s))
			}
			for _, s := range []string{"1e3", "Inf", "NaN", "0x1p-2", ".5", "5.", "-3", "+3", "5", "5.25", "010", "5m30s", "1.5m"} {
				emit(unserCase(secs, s))
			}
			fsweep, nFlt := int64(250), 50
			if tier == "thorough" {
				fsweep, nFlt = 20000, 2000
			}
			for _, d := range defs {
				for n := int64(0); n <= sweep; n++ {
					emit(fmtIntCase(d, n))
				}
				for n := int64(0); n <= fsweep; n++ {
					emit(fmtFloatCase(d, float64(n)))
				}
				for n := int64(0); n <= fsweep; n += 7 {
					emit(fmtFloatCase(d, float64(n*10)))
					emit(fmtFloatCase(d, float64(n)/4))
				}
			}
			for i := 0; i < nGen; i++ {
				defs = append(defs, genUnits(r))
			}
			// definitions whose names START WITH or CONTAIN Unicode white space (matched literally, they round-trip);
			// appended last so that the cases of the definitions above stay what they were
			defs = append(defs, unicodeNameDefs...)
			for _, d := range defs {
				// powers of ten, multiplier boundaries +-1, random 63-bit values
				p := int64(1)
				for i := 0; i < 18; i++ {
					emit(fmtIntCase(d, p))
					p *= 10
				}
				for m := range d.mults {
					for _, k := range []int64{1, 2, 7} {
						if m <= (1<<62)/k {
							emit(fmtIntCase(d, m*k-1))
							emit(fmtIntCase(d, m*k))
							emit(fmtIntCase(d, m*k+1))
						}
					}
				}
				for i := 0; i < 20; i++ {
					emit(fmtIntCase(d, int64(r.Next()>>1)))
					emit(fmtIntCase(d, int64(r.Next()>>uint(1+r.Intn(62)))))
				}
				for i := 0; i < nStr; i++ {
					emit(parseCase(d, genWellFormed(r, d)))
					emit(parseCase(d, genNearMiss(r, d)))
				}
				// floats: format short+long then ParseFloat; float strings; the schema entry points
				for i := 0; i < nFlt; i++ {
					emit(fmtFloatCase(d, genFloat(r, d)))
				}
				for _, m := range d.sortedMults() {
					if m < 1<<40 {
						for _, k := range []int64{1, 10, 30} {
							emit(fmtFloatCase(d, float64(m*k)))
							emit(fmtFloatCase(d, float64(m*k)+10))
							emit(fmtFloatCase(d, float64(m*k)-0.5))
						}
					}
				}
				for i := 0; i < nStr/2; i++ {
					emit(parseFloatCase(d, genWellFormedFloat(r, d)))
					emit(parseFloatCase(d, genNearMiss(r, d)))
					emit(unserCase(d, genWellFormedFloat(r, d)))
					emit(unserCase(d, genNearMiss(r, d)))
				}
				for _, s := range numberLookalikes {
					emit(unserCase(d, s))
				}
				for i := 0; i < 6; i++ {
					// a look-alike glued to a well-formed string, and one followed by a declared name
					emit(unserCase(d, pick(r, numberLookalikes)+pick(r, []string{d.base.ss, d.base.lp, " " + d.base.sp})))
					emit(unserCase(d, genWellFormed(r, d)+pick(r, numberLookalikes)))
				}
			}
			// ---- strings.TrimSpace trims UNICODE white space, the grammar's \s is ASCII-only ----
			// the cases confirmed against the SDK by hand (work package s8u), then for every definition the blank texts,
			// the padded forms (ASCII / Unicode / not-trimmed look-alikes) and white space between count and unit
			for _, s := range unicodeTrimCorpus {
				emit(unserCase(secs, s))
				emit(parseCase(secs, s))
			}
			for _, d := range defs {
				for _, s := range unitBlankAndPadded(d) {
					emit(unserCase(d, s))
				}
			}
			// D73 witnesses: names that END in white space (ASCII: the model's w_trail; Unicode: w_trail_nbsp).  The
			// formatted text loses its end to TrimSpace and is refused - in the model (C16_roundtrip_unicode_trail_refuted)
			// and in the SDK alike; known finding D73 (caller-supplied ambiguous names), class predicate c16_ambiguous_names
			for _, d := range d73TrailWitnesses {
				for _, n := range []int64{0, 1, 5, 59, 60, 61, 65, 3600} {
					emit(fmtIntCase(d, n))
				}
				for _, s := range []string{"5" + d.base.ss, "5" + d.base.sp + " ", " 5" + d.base.sp, "5 " + d.base.lp, "5" + d.base.lp + "\u00a0"} {
					emit(parseCase(d, s))
				}
			}
		},
		Run: func(p *sx.Node) *sx.Node {
			u := unitsFromSx(p.List[1])
			def := u.build()
			obsParse := func(s string) *sx.Node {
				v, err := def.ParseInt(s)
				if err != nil {
					return sx.A("err")
				}
				return sx.L(sx.A("ok"), sx.I(v))
			}
			switch p.Head() {
			case "fmtint":
				n := p.List[2].Int()
				s, l := def.FormatShortInt(n), def.FormatLongInt(n)
				return sx.L(sx.A("r"), sx.S(s), sx.S(l), obsParse(s), obsParse(l))
			case "parse":
				return sx.L(sx.A("r"), obsParse(p.List[2].Str))
			case "fmtfloat":
				x := flFromSx(p.List[2])
				s, l := def.FormatShortFloat(x), def.FormatLongFloat(x)
				return sx.L(sx.A("r"), sx.S(s), sx.S(l), obsParseFloat(def, s), obsParseFloat(def, l))
			case "parsefloat":
				return sx.L(sx.A("r"), obsParseFloat(def, p.List[2].Str))
			case "unser":
				// the schema entry points of a schema WITH units, next to the units parser itself
				s := p.List[2].Str
				return sx.L(sx.A("r"),
					obsUnserNum(schema.NewIntSchema(nil, nil, def), s),
					obsUnserNum(schema.NewFloatSchema(nil, nil, def), s),
					obsParse(s), obsParseFloat(def, s))
			}
			return sx.L(sx.A("bad"), sx.S("units case"))
		},
	}
}
