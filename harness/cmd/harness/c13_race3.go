package main

// C13 race engine, third part: the FIRST use of NEVER-LINKED rebuilt object trees.
//
//   (race ID lazy unlinked NG OBJECT (ops (gd fwd|rev) | (u V) | (v V) | (s V) | (c V) ...))
//
// An object description unserialized through the meta-schema's "Object" object and used directly (nobody called
// ApplyNamespace / ApplySelf on it: that is what UnserializeScope / UnserializeSchema do since the D32 fixes, and it
// decodes every object's defaults eagerly) still has defaultValues == nil in EVERY ObjectSchema of the tree: each
// decodes its defaults inside the first GetDefaults, i.e. on the first Unserialize of a map in which one of its
// properties is absent.  c13FootBuild("lazy", ...) builds exactly such instances for the sequential footprint family;
// here 2..16 goroutines are released together on one of them, fresh per trial:
//   (gd fwd|rev)  GetDefaults of every object of the tree, in preorder / reverse preorder, printed canonically
//   (u V)         Unserialize; the first inputs of every trial leave defaulted properties out (the empty map, and a
//                 valid input with properties omitted at every level)
//   (v V) (s V) (c V)  as in the `schema` kind
// and every result is compared with the result on separately built (equally unused) instances.

import (
	"sort"
	"strings"

	"go.flow.arcalot.io/pluginsdk/schema"
	"verif/harness/sx"
)

type c13LazyInst struct {
	s    schema.Type
	objs []*schema.ObjectSchema // preorder
	lazy bool                   // no object of the tree had its defaults decoded when it was built
}

func c13LazyBuild(desc *sx.Node) *c13LazyInst {
	s, cells, ok := c13FootBuild("lazy", mkEnvEmpty(), desc)
	if !ok {
		return nil
	}
	var ns []int64
	for n := range cells.objs {
		ns = append(ns, n)
	}
	sort.Slice(ns, func(i, j int) bool { return ns[i] < ns[j] })
	inst := &c13LazyInst{s: s, lazy: true}
	for _, n := range ns {
		inst.objs = append(inst.objs, cells.objs[n])
		if schema.VerifObjectDefaultsDecoded(cells.objs[n]) {
			inst.lazy = false
		}
	}
	return inst
}

func c13LazyOp(inst *c13LazyInst, op *sx.Node) string {
	if op.Head() == "gd" {
		return c13Out(func() (*sx.Node, error) {
			var parts []string
			n := len(inst.objs)
			for i := 0; i < n; i++ {
				o := inst.objs[i]
				if op.List[1].Atom == "rev" {
					o = inst.objs[n-1-i]
				}
				parts = append(parts, o.ID()+"="+c12Canon(o.GetDefaults()))
			}
			return sx.S(strings.Join(parts, ";")), nil
		})
	}
	return c13SchemaOp(inst.s, nil, op)
}

// runRaceTrial3 handles the kinds of this file; nil = not one of them.
func runRaceTrial3(id string, p *sx.Node) *sx.Node {
	if p.List[2].Atom != "lazy" {
		return nil
	}
	ng, desc := int(p.List[4].Int()), p.List[5]
	ops := p.List[6].List[1:]
	want := make([][]string, len(ops))
	for rep := 0; rep < c13IsoReps; rep++ {
		iso := c13LazyBuild(desc)
		if iso == nil || !iso.lazy {
			return sx.L(sx.A("t"), sx.A(id), sx.A("not-lazy"))
		}
		// every isolated repetition starts at another operation, as the goroutines do: the isolated result of an
		// operation must not depend on what the instance was used for before (C12), so the repetitions must agree
		for k := range ops {
			i := (rep + k) % len(ops)
			want[i] = append(want[i], c13LazyOp(iso, ops[i]))
		}
	}
	shared := c13LazyBuild(desc)
	if shared == nil || !shared.lazy {
		return sx.L(sx.A("t"), sx.A(id), sx.A("not-lazy"))
	}
	return c13Race(id, ng, len(ops), want, func(i int) string { return c13LazyOp(shared, ops[i]) })
}

// ---- generation ----

// c13LazyDesc: an object tree without references or scopes whose rebuilt, never linked form has every defaults cell
// empty: mostly the footprint family's objects (units, defaults, lists, maps, inline objects, one-ofs of inline
// objects), sometimes a generated object of the shared schema generator.
func c13LazyDesc(r *Rng) *sx.Node {
	for try := 0; try < 20; try++ {
		var s *sx.Node
		if r.Chance(75) {
			inl := 0
			s = c13FootObject(r, "Top", 2, nil, &inl)
		} else {
			s = (&sgen{r: r}).object("Top", 1+r.Intn(2))
		}
		if c13HasRefOrScope(s) || !c13FootSupported(s) || c04InlineCycle(s, nil) {
			continue
		}
		if inst := c13LazyBuild(s); inst != nil && inst.lazy {
			return s
		}
	}
	secs := unitsFromSDK(schema.UnitDurationSeconds)
	return dObject("Top", false, propD{name: "n", t: dInt(nil, nil, &secs), dflt: sp(`"1m"`)},
		propD{name: "sub", t: dObject("In1", false, propD{name: "s", t: dString(nil, nil, nil), dflt: sp(`"dflt"`)})})
}

func c13GenLazy(r *Rng, id *sx.Node, ng int) *sx.Node {
	s := c13LazyDesc(r)
	ops := sx.L(sx.A("ops"))
	// first uses that reach the lazy fill: defaults lookups themselves, the empty map, a valid input with omissions
	ops.Append(op("u", vM(tAnyMap)), sx.L(sx.A("gd"), sx.A("fwd")), op("u", rawFor(r, s, scopeCtx{}, 3)), sx.L(sx.A("gd"), sx.A("rev")))
	for _, o := range c12History(r, c04Schema{s: s}, 2+r.Intn(5)) {
		if o.Head() == "cs" || c12Collides(o.List[1]) { // schema arguments / D19: not this trial's subject
			continue
		}
		ops.Append(o)
	}
	return sx.L(sx.A("race"), id, sx.A("lazy"), sx.A("unlinked"), sx.I(int64(ng)), s, ops)
}
