package main

import (
	"reflect"

	"go.flow.arcalot.io/pluginsdk/schema"
	"verif/harness/sx"
)

// C14, struct-mapped part — family `c14xinline` (label c14x): "replacing references by the objects they denote
// never changes which inputs are accepted or what they unserialize to" for scopes whose objects are STRUCT-MAPPED
// (NewStructMappedObjectSchema[T]): there a parent fills in the defaults of an absent non-pointer member itself
// (schema/object.go applySubObjectDefaultValues), and it has to do so whether the member is held by reference or
// by value.
//
//	(c14x ENV STRUCTS XSCHEMA XINLINED (ops OP...))      OP = (u RAW) | (rt RAW) | (v NATIVE) | (s NATIVE) | (sr NATIVE)
//	    XSCHEMA: a scope from the shared struct-mapped generator (xstruct_gen.go): a struct-mapped root over the struct
//	    family of xstruct_types.go, its sub-objects held through references to the scope objects XI (struct-mapped,
//	    member defaults) and A (map-based, a default), by value, behind pointers, two and three levels deep (a plain
//	    object in the middle), with declared full / partial / empty object defaults on the member properties.
//	    XINLINED: XSCHEMA with every self-namespace reference replaced by its target (c14Inline).
//	    The inputs omit the members, supply them empty, supply them partly.
//	observation: (r (ops O...) (inl O...))     O as in family structobj (coq/Interp/RunXSchema.v)

func c14xOps(s schema.Type, ops *sx.Node, head string) *sx.Node {
	res := sx.L(sx.A(head))
	for _, op := range ops.List[1:] {
		v := valFromSx(op.List[1])
		switch op.Head() {
		case "u":
			o, _, _ := obsUnser(s, v)
			res.Append(o)
		case "rt":
			res.Append(runRT(s, v))
		case "v":
			res.Append(obsValidate(s, v))
		case "s":
			o, _, _ := obsSerialize(s, v)
			res.Append(o)
		case "sr":
			o, w, ok := obsSerialize(s, v)
			out := sx.L(sx.A("sr"), o)
			if ok {
				u, _, _ := obsUnser(s, w)
				out.Append(u)
			}
			res.Append(out)
		default:
			res.Append(sx.L(sx.A("bad"), sx.S("op")))
		}
	}
	return res
}

func runC14X(p *sx.Node) *sx.Node {
	build := func(n *sx.Node) (s schema.Type) {
		defer func() {
			if r := recover(); r != nil {
				s = nil
			}
		}()
		return buildWithEnv(p.List[1], n)
	}
	s, si := build(p.List[3]), build(p.List[4])
	if s == nil || si == nil {
		return sx.L(sx.A("r"), sx.A("build-panic"))
	}
	return sx.L(sx.A("r"), c14xOps(s, p.List[5], "ops"), c14xOps(si, p.List[5], "inl"))
}

// c14xMemberInputs: the inputs that matter for the default propagation: every object-typed member of the root (and of
// that member) omitted, given as the empty map, given with one of its own members as the empty map.
func c14xMemberInputs(root *sx.Node, sc scopeCtx) []*sx.Node {
	res := func(t *sx.Node) *sx.Node {
		for t != nil && t.IsList() && t.Head() == "ref" {
			t = sc[t.List[1].Str]
		}
		return t
	}
	out := []*sx.Node{vM(tAnyMap), vM(tStrMap)}
	for _, p := range root.List[3].List {
		t := res(p.List[1].List[1])
		if t == nil || t.Head() != "object" {
			continue
		}
		out = append(out, vM(tAnyMap, vS(p.List[0].Str), vM(tAnyMap)))
		for _, q := range t.List[3].List {
			if qt := res(q.List[1].List[1]); qt != nil && qt.Head() == "object" {
				out = append(out, vM(tAnyMap, vS(p.List[0].Str), vM(tAnyMap, vS(q.List[0].Str), vM(tAnyMap))))
			}
		}
	}
	return out
}

func genC14X(r *Rng, tier string, emit func(*sx.Node)) {
	n := 120
	if tier == "thorough" {
		n = 2000
	}
	names := []string{"XNested", "XNested", "XDeep", "XMid", "XMid", "XLoose", "XRec", "XColl", "XHold"}
	for i := 0; i < n; i++ {
		g := &xgen{r: r, scope: true, rich: i%2 == 0}
		name := names[i%len(names)]
		ptr := r.Chance(25)
		root := g.object("Root", ptr, name)
		sub := &xgen{r: r, rich: g.rich}
		xi := sub.innerObj(false)
		xi.List[1] = sx.S("XI")
		// A: map-based, with a default, and (half of the time) a member of its own held by reference
		aps := []propD{{name: "x", t: dInt(nil, nil, nil)}, {name: "v", t: dInt(nil, nil, nil), dflt: pick(r, []*string{nil, sp("4"), sp("4")})}}
		if r.Bool() {
			aps = append(aps, propD{name: "in", t: dRef("XI", "")})
		}
		s := dScope("Root", root, xi, dObject("A", false, aps...))
		annotateX(s)
		inl := c14Inline(s, map[string]*sx.Node{}, map[string]bool{})
		er := eraseX(s)
		sc := scopeTable(er)
		var ops []*sx.Node
		for _, v := range c14xMemberInputs(sc["Root"], sc) {
			ops = append(ops, op("rt", v))
		}
		for j := 0; j < 4; j++ {
			v := rawFor(r, er, sc, 3)
			ops = append(ops, op("rt", v))
			if r.Chance(40) {
				ops = append(ops, op("u", mutate(r, v)))
			}
		}
		xn := &xnat{r: r, sc: scopeTable(s)}
		rootN := xn.resolve(s)
		t := structTypes[name]
		for j := 0; j < 2; j++ {
			v := xn.valFor(t, rootN, 2)
			var a any = v.Interface()
			if ptr {
				pv := reflect.New(t)
				pv.Elem().Set(v)
				a = pv.Interface()
			}
			ops = append(ops, op("v", valSx(a)), op("sr", valSx(a)))
		}
		l := sx.L(sx.A("ops"))
		l.Append(ops...)
		emit(sx.L(sx.A("c14x"), mkEnv(nil, s, ops), structTable(s, l), s, inl, l))
	}
}

func init() {
	families["c14xinline"] = &Family{Label: "c14x", Gen: withProfile(genProfile{edgeInts: true, utf8Strings: true, anyDeep: true}, genC14X), Run: runC14X}
}
