package main

// Literal (written, not reflect.MakeFunc) handlers for a sample of the C18 signatures,
// keyed by the printed SIG descriptor.  runFunction runs a case whose signature is listed here
// a second time with the literal handler and requires the same observation.  Each body
// implements (beh k e) exactly like makeHandler: record what was received, return the value
// made from k at the result type, and a nil / tokErr{k} error.

import (
	"strconv"

	"verif/harness/fakeerr"
)

var literalHandlers = map[string]func(k int64, e errKind, rec *recorder) any{
	`(sig () () 0)`: func(k int64, e errKind, rec *recorder) any {
		return func() { rec.record() }
	},
	`(sig () (err) 0)`: func(k int64, e errKind, rec *recorder) any {
		return func() error { rec.record(); return rec.ret(behErr(k, e)) }
	},
	`(sig () (i64) 0)`: func(k int64, e errKind, rec *recorder) any {
		return func() int64 { rec.record(); return k }
	},
	`(sig () (str err) 0)`: func(k int64, e errKind, rec *recorder) any {
		return func() (string, error) { rec.record(); return strconv.FormatInt(k, 10), rec.ret(behErr(k, e)) }
	},
	`(sig (i64) (i64) 0)`: func(k int64, e errKind, rec *recorder) any {
		return func(a int64) int64 { rec.record(a); return k }
	},
	`(sig (any) (any err) 0)`: func(k int64, e errKind, rec *recorder) any {
		return func(a any) (any, error) { rec.record(a); return k, rec.ret(behErr(k, e)) }
	},
	`(sig ((sl i64)) (str err) 0)`: func(k int64, e errKind, rec *recorder) any {
		return func(a []int64) (string, error) { rec.record(a); return strconv.FormatInt(k, 10), rec.ret(behErr(k, e)) }
	},
	`(sig ((m str any) bool) (i64) 0)`: func(k int64, e errKind, rec *recorder) any {
		return func(a map[string]any, b bool) int64 { rec.record(a, b); return k }
	},
	`(sig (str f64 any) ((m str any) err) 0)`: func(k int64, e errKind, rec *recorder) any {
		return func(a string, b float64, c any) (map[string]any, error) {
			rec.record(a, b, c)
			return map[string]any{strconv.FormatInt(k, 10): k}, rec.ret(behErr(k, e))
		}
	},
	// variadic (D38)
	`(sig ((sl i64)) (i64) 1)`: func(k int64, e errKind, rec *recorder) any {
		return func(xs ...int64) int64 { rec.record(xs); return k }
	},
	`(sig ((sl any)) (i64) 1)`: func(k int64, e errKind, rec *recorder) any {
		return func(xs ...any) int64 { rec.record(xs); return k }
	},
	`(sig (i64 (sl i64)) () 1)`: func(k int64, e errKind, rec *recorder) any {
		return func(a int64, xs ...int64) { rec.record(a, xs) }
	},
	// a struct type named error as the last result (D35)
	`(sig () (i64 (st "error" 0)) 0)`: func(k int64, e errKind, rec *recorder) any {
		return fakeerr.Int64AndFake(k, func() { rec.record() })
	},
	`(sig () (i64 (st "MyErr" 1)) 0)`: func(k int64, e errKind, rec *recorder) any {
		return func() (int64, fakeerr.MyErr) { rec.record(); return k, fakeerr.MyErr{} }
	},
	// interface kinds other than any as the dynamic value result
	`(sig () (err err) 0)`: func(k int64, e errKind, rec *recorder) any {
		return func() (error, error) { rec.record(); return tokErr{k}, rec.ret(behErr(k, e)) }
	},
}
