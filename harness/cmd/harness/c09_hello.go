package main

// C09 — "the same holds for a whole plugin schema as carried in the ATP hello message" through the REAL
// transport (family c09hello).
//
// case payload (the plugin payload of c09describe):
//   (desc plugin ENV PLUGIN (inputs V...))
//
// The plugin is built twice from the descriptor: once as a SchemaSchema (the original: described, probed),
// once as a CallableSchema (schema.NewCallableSchema, steps with handlers) that is SERVED by
// atp.RunATPServer over in-process pipes and READ by atp.NewClient(...).ReadSchema().
//
// observation:
//   (h D1)                                   when SelfSerialize of the original fails: D1 = err | panic
//   (h (ok VAL) NEST RES SHUT)               RES = err | panic | hang: ReadSchema did not return a schema
//   (h (ok VAL) NEST ok SHUT LINK D2 (behs (WHERE (O1 O2)...) ...))
//     NEST = CBOR nesting of the hello message (maps and arrays on the longest path, the hello map included)
//     SHUT = clean | close-hang | close-panic | server-hang | server-panic   (after Close / pipes closed)
//     LINK = ok | err | panic     first use of every data schema of the schema the client returned
//     D2   = same | (diff VAL) | err | panic    its SelfSerialize compared with the original's
//     O1/O2 = Unserialize of the input on the original / on the schema the client returned
//
// The generator produces DEEP plugin schemas: a spine of containers (a scope as a property type, as a list
// item, a map value, a one-of member; lists, maps, inline objects, one-ofs over objects) with units / enums
// with display data / defaults at the leaf, filled up to a budget of CBOR nesting levels chosen around the
// limit of the transport (c09HelloMaxNest), plus the usual side properties at every level.

import (
	"context"
	"fmt"
	"io"
	"os"
	"reflect"
	"time"

	"go.flow.arcalot.io/pluginsdk/atp"
	"go.flow.arcalot.io/pluginsdk/schema"
	"verif/harness/sx"
)

// c09HelloMaxNest: fxamacker/cbor's default MaxNestedLevels, which is what the decoder of the ATP client uses
// (the encoder has no limit; the server only decodes the client's messages). A hello message nested deeper is
// rejected by ReadSchema with an error and is outside the property.
const c09HelloMaxNest = 32

const c09HelloWatchdog = 5 * time.Second

// ---- the callable plugin ----

func buildCallableSignals(n *sx.Node) map[string]schema.CallableSignal {
	if len(n.List) == 0 {
		return nil
	}
	out := map[string]schema.CallableSignal{}
	for _, s := range n.List {
		var disp schema.Display
		if d := optDisplay(s.List[3]); d != nil {
			disp = d
		}
		out[s.List[0].Str] = schema.NewCallableSignal[any, any](s.List[1].Str, buildScope(s.List[2]), disp,
			func(context.Context, any, any) {})
	}
	return out
}

func buildCallableStep(n *sx.Node) schema.CallableStep {
	outputs := map[string]*schema.StepOutputSchema{}
	first := ""
	for _, o := range n.List[3].List {
		if first == "" {
			first = o.List[0].Str
		}
		outputs[o.List[0].Str] = schema.NewStepOutputSchema(buildScope(o.List[1]), optDisplay(o.List[2]), o.List[3].Atom == "1")
	}
	var disp schema.Display
	if d := optDisplay(n.List[6]); d != nil {
		disp = d
	}
	return schema.NewCallableStepWithSignals[any, any](n.List[1].Str, buildScope(n.List[2]), outputs,
		buildCallableSignals(n.List[4]), buildSignals(n.List[5]), disp, nil,
		func(context.Context, any, any) (string, any) { return first, map[string]any{} })
}

func buildCallablePlugin(n *sx.Node) *schema.CallableSchema {
	var steps []schema.CallableStep
	for _, s := range n.List[1].List {
		steps = append(steps, buildCallableStep(s))
	}
	return schema.NewCallableSchema(steps...)
}

// ---- the transport ----

type c09HelloChan struct {
	io.Reader
	io.Writer
}

func (c c09HelloChan) Close() error {
	_ = c.Writer.(io.Closer).Close()
	return c.Reader.(io.Closer).Close()
}

// valNest: the number of nested CBOR containers (maps, arrays) on the longest path of a value.
func valNest(v any) int {
	if v == nil {
		return 0
	}
	rv := reflect.ValueOf(v)
	switch rv.Kind() {
	case reflect.Map:
		m := 0
		it := rv.MapRange()
		for it.Next() {
			if d := valNest(it.Key().Interface()); d > m {
				m = d
			}
			if d := valNest(it.Value().Interface()); d > m {
				m = d
			}
		}
		return 1 + m
	case reflect.Slice, reflect.Array:
		if rv.Type().Elem().Kind() == reflect.Uint8 {
			return 0
		}
		m := 0
		for i := 0; i < rv.Len(); i++ {
			if d := valNest(rv.Index(i).Interface()); d > m {
				m = d
			}
		}
		return 1 + m
	case reflect.Ptr, reflect.Interface:
		if rv.IsNil() {
			return 0
		}
		return valNest(rv.Elem().Interface())
	}
	return 0
}

// helloReadSchema serves the plugin with the real ATP server and reads its schema with the real ATP client.
// Every goroutine started here has ended when it returns "clean"; nothing waits longer than the watchdog.
func helloReadSchema(plugin *schema.CallableSchema) (res string, p2 *schema.SchemaSchema, shut string) {
	c2sR, c2sW := io.Pipe()
	s2cR, s2cW := io.Pipe()
	ctx, cancel := context.WithCancel(context.Background())
	srvCh := make(chan int, 1)
	go func() {
		defer func() {
			if r := recover(); r != nil {
				srvCh <- -1
			}
		}()
		srvCh <- len(atp.RunATPServer(ctx, c2sR, s2cW, plugin))
	}()
	cli := atp.NewClient(c09HelloChan{s2cR, c2sW})
	type rr struct {
		class string
		s     *schema.SchemaSchema
	}
	resCh := make(chan rr, 1)
	go func() {
		defer func() {
			if r := recover(); r != nil {
				resCh <- rr{class: "panic"}
			}
		}()
		s, err := cli.ReadSchema()
		if err != nil {
			if os.Getenv("VERIF_DEBUG") != "" {
				fmt.Fprintf(os.Stderr, "ReadSchema: %v\n", err)
			}
			resCh <- rr{class: "err"}
			return
		}
		resCh <- rr{class: "ok", s: s}
	}()
	var r rr
	select {
	case r = <-resCh:
	case <-time.After(c09HelloWatchdog):
		r = rr{class: "hang"}
	}
	shut = "clean"
	if r.class == "ok" {
		// the session ends the regular way: Close sends the client-done message, the server returns
		closeCh := make(chan string, 1)
		go func() {
			defer func() {
				if rec := recover(); rec != nil {
					closeCh <- "close-panic"
				}
			}()
			_ = cli.Close()
			closeCh <- "clean"
		}()
		select {
		case shut = <-closeCh:
		case <-time.After(c09HelloWatchdog):
			shut = "close-hang"
		}
	}
	cancel()
	_ = c2sW.Close()
	_ = s2cR.Close()
	_ = c2sR.Close()
	_ = s2cW.Close()
	select {
	case n := <-srvCh:
		if n < 0 && shut == "clean" {
			shut = "server-panic"
		}
	case <-time.After(c09HelloWatchdog):
		if shut == "clean" {
			shut = "server-hang"
		}
	}
	if r.class == "hang" {
		// the pipes are closed: ReadSchema has to come back now; do not leave it behind
		select {
		case <-resCh:
		case <-time.After(c09HelloWatchdog):
		}
	}
	return r.class, r.s, shut
}

// ---- running ----

func helloBehs(orig, reb []labelledScope, inputs []*sx.Node) *sx.Node {
	behs := sx.L(sx.A("behs"))
	if len(orig) != len(reb) {
		behs.Append(sx.A("shape-differs"))
		return behs
	}
	for i, ls := range orig {
		if ls.label != reb[i].label {
			behs.Append(sx.A("shape-differs"))
			break
		}
		var mine []*sx.Node
		for j, in := range inputs {
			if j%len(orig) == i {
				mine = append(mine, in)
			}
		}
		b := sx.L(sx.S(ls.label))
		b.Append(func() (out []*sx.Node) {
			defer func() {
				if r := recover(); r != nil {
					out = []*sx.Node{sx.A("panic")}
				}
			}()
			return behSx(ls.scope, reb[i].scope, mine).List[1:]
		}()...)
		behs.Append(b)
	}
	return behs
}

func runHelloCase(p *sx.Node) *sx.Node {
	if p.Head() != "desc" || len(p.List) < 5 || p.List[1].Atom != "plugin" {
		return sx.L(sx.A("bad"), sx.S("kind"))
	}
	buildNilProps = true
	defer func() { buildNilProps = false }()
	envN, inputs := p.List[2], p.List[4].List[1:]
	var pl *schema.SchemaSchema
	var callable *schema.CallableSchema
	built := classSx(func() error {
		pl = buildPlugin(p.List[3])
		for _, ls := range pluginScopes(pl) {
			applyExt(envN, ls.scope.ApplyNamespace)
		}
		callable = buildCallablePlugin(p.List[3]) // (plugin cases have no external namespaces)
		return nil
	})
	if pl == nil || callable == nil || built.Atom != "ok" {
		return sx.L(sx.A("build-failed"), built)
	}
	d1sx, d1, ok := describeSx(pl)
	if !ok {
		return sx.L(sx.A("h"), d1sx)
	}
	nest := 1 + valNest(d1) // the hello message is one map around the description
	class, p2, shut := helloReadSchema(callable)
	res := sx.L(sx.A("h"), d1sx, sx.I(int64(nest)), sx.A(class), sx.A(shut))
	if p2 == nil {
		return res
	}
	link := classSx(func() error {
		for _, ls := range pluginScopes(p2) {
			applyExt(envN, ls.scope.ApplyNamespace)
			ls.scope.GetDefaults()
		}
		return nil
	})
	res.Append(link)
	if link.Atom != "ok" {
		return res
	}
	res.Append(againSx(p2, d1))
	res.Append(helloBehs(pluginScopes(pl), pluginScopes(p2), inputs))
	return res
}

// ---- generation ----

// hNest: the CBOR nesting of the description of a type descriptor (the type's own map included): an estimate
// used to steer the generator (units are counted with multipliers); the runner reports the real number.
func hNest(t *sx.Node) int {
	if !t.IsList() {
		return 1
	}
	mx := func(l []*sx.Node, f func(*sx.Node) int) int {
		m := 0
		for _, x := range l {
			if d := f(x); d > m {
				m = d
			}
		}
		return m
	}
	switch t.Head() {
	case "int", "float":
		if !isNone(t.List[3]) {
			return 4 // type > units > multipliers > unit
		}
		return 1
	case "enum_int":
		n := 2
		if len(t.List[1].List) > 0 {
			n = 3 // type > values > display
		}
		if !isNone(t.List[2]) && n < 4 {
			n = 4
		}
		return n
	case "enum_str":
		if len(t.List[2].List) > 0 {
			return 3
		}
		return 2
	case "list":
		return 1 + hNest(t.List[1])
	case "map":
		k, v := hNest(t.List[1]), hNest(t.List[2])
		if k > v {
			v = k
		}
		return 1 + v
	case "object":
		if len(t.List[3].List) == 0 {
			return 2
		}
		// object > properties > property > (type | display | conflicts ...)
		return 3 + mx(t.List[3].List, func(p *sx.Node) int { return hNest(p.List[1].List[1]) })
	case "oneof":
		return 2 + mx(t.List[2].List, func(m *sx.Node) int { return hNest(m.List[1]) })
	case "ref":
		if !isNone(t.List[3]) {
			return 2
		}
		return 1
	case "scope":
		return 2 + mx(t.List[1].List, func(o *sx.Node) int { return hNest(o.List[1]) })
	}
	return 1
}

// hPluginNest: the nesting of the hello message of a plugin descriptor.
func hPluginNest(pl *sx.Node) int {
	n := 4 // hello > schema > steps > step
	for _, st := range pl.List[1].List {
		if d := 4 + hNest(st.List[2]); d > n {
			n = d
		}
		for _, o := range st.List[3].List { // step > outputs > output > schema
			if d := 6 + hNest(o.List[1]); d > n {
				n = d
			}
		}
		for _, l := range []*sx.Node{st.List[4], st.List[5]} { // step > signal_* > signal > data_schema
			for _, s := range l.List {
				if d := 6 + hNest(s.List[2]); d > n {
					n = d
				}
			}
		}
	}
	return n
}

type hgen struct {
	*dgen
	levels int // container levels of the spine generated so far
}

// leaf: a type whose description nests at most b levels, as deep as it can.
func (g *hgen) leaf(b int) *sx.Node {
	r := g.r
	if b >= 4 && r.Chance(70) {
		u := g.units()
		switch r.Intn(3) {
		case 0:
			return dInt(ip(int64(r.Intn(5))), nil, u)
		case 1:
			return dFloat(nil, fp(float64(100+r.Intn(50))+0.5), u)
		}
		return c09EnumIntD([]int64{1, 2, 60}, []*sx.Node{g.display(100), g.display(100), dDisp(nil, nil, nil)}, u)
	}
	if b >= 3 && r.Chance(70) {
		if r.Bool() {
			return c09EnumStrD(nil, []string{"x", "y", "zed"}, []*sx.Node{g.display(100), g.display(100), g.display(100)})
		}
		return c09EnumIntD([]int64{-2, 1, 4}, []*sx.Node{g.display(100), dDisp(nil, nil, nil), g.display(100)}, nil)
	}
	for i := 0; i < 20; i++ {
		if t := g.scalar(); hNest(t) <= b {
			return t
		}
	}
	return dBool()
}

// sides: 0-2 ordinary properties next to the spine property, each fitting in b levels.
func (g *hgen) sides(b int, ids []string) []dprop {
	save := g.objIDs
	g.objIDs = ids
	defer func() { g.objIDs = save }()
	n := g.r.Intn(3)
	if n == 0 {
		return nil
	}
	ps := g.props(g.r.Intn(2), n, dPropNames)
	for i := range ps {
		if hNest(ps[i].t) > b {
			ps[i].t = g.leaf(b)
			ps[i].dflt = nil
		}
	}
	return ps
}

// spineProps: the properties of an object on the spine: the spine property plus side properties.
func (g *hgen) spineProps(b int, ids []string) []dprop {
	t := g.spine(b)
	p := dprop{name: pick(g.r, []string{"deep", "z", "inner"}), t: t, disp: g.display(30), required: g.r.Chance(75)}
	if g.r.Chance(30) {
		p.dflt = defaultFor(g.r, t)
	}
	ps := g.sides(b, ids)
	if g.r.Bool() {
		return append(ps, p)
	}
	return append([]dprop{p}, ps...)
}

// spineScope: a scope whose description nests (about) b levels: 5 for the scope itself, the rest for the spine.
func (g *hgen) spineScope(b int, rootID string) *sx.Node {
	ids := []string{rootID}
	objs := []*sx.Node{nil}
	if g.r.Chance(30) { // a second object the side properties can refer to
		g.nscope++
		id := fmt.Sprintf("X%d", g.nscope)
		ids = append(ids, id)
		save := g.objIDs
		g.objIDs = ids
		objs = append(objs, dObjectD(id, false, g.props(0, 1+g.r.Intn(2), dPropNames)...))
		g.objIDs = save
	}
	save := g.objIDs
	g.objIDs = ids // lexical scoping: what is generated below refers to the objects of THIS scope
	objs[0] = dObjectD(rootID, g.r.Chance(10), g.spineProps(b-5, ids)...)
	g.objIDs = save
	return dScope(rootID, objs...)
}

// spine: a type whose description nests (about) b levels.
func (g *hgen) spine(b int) *sx.Node {
	r := g.r
	if b <= 1 || (b <= 4 && r.Chance(60)) || r.Chance(4) {
		return g.leaf(b)
	}
	g.levels++
	type alt struct {
		need, w int
		mk      func() *sx.Node
	}
	nestedScope := func(bb int) *sx.Node {
		g.nscope++
		id := fmt.Sprintf("N%d", g.nscope)
		if r.Chance(15) {
			id = "I0" // shadows the id of the outermost root object
		}
		return g.spineScope(bb, id)
	}
	alts := []alt{
		{6, 6, func() *sx.Node { return nestedScope(b) }},                                                     // a scope as the property type
		{7, 3, func() *sx.Node { return dList(nestedScope(b-1), nil, ip(2)) }},                                 // ... as a list item
		{7, 2, func() *sx.Node { return dMap(g.keyType(), nestedScope(b-1), nil, ip(4)) }},                     // ... as a map value
		{8, 3, func() *sx.Node { // ... as a one-of member, next to an object member
			intKeys := r.Bool()
			l := sx.L()
			g.nscope++
			other := dObjectD(fmt.Sprintf("mem%d", g.nscope), false, g.sides(b-5, g.objIDs)...)
			ms := []*sx.Node{nestedScope(b - 2), other}
			if r.Bool() {
				ms[0], ms[1] = ms[1], ms[0]
			}
			for i, m := range ms {
				if intKeys {
					l.Append(sx.L(sx.I(int64(i*5-1)), m))
				} else {
					l.Append(sx.L(sx.S(string(rune('A'+i))), m))
				}
			}
			return sx.L(sx.A("oneof"), sx.B(intKeys), l, sx.S(pick(r, []string{"kind", "_type", "t"})), sx.B(false))
		}},
		{2, 3, func() *sx.Node { return dList(g.spine(b-1), ip(int64(r.Intn(2))), ip(int64(1+r.Intn(2)))) }},
		{2, 2, func() *sx.Node { return dMap(g.keyType(), g.spine(b-1), nil, ip(4)) }},
		{4, 2, func() *sx.Node { // an inline object
			g.nscope++
			return dObjectD(fmt.Sprintf("inl%d", g.nscope), false, g.spineProps(b-3, g.objIDs)...)
		}},
		{6, 2, func() *sx.Node { // a one-of over objects
			intKeys := r.Bool()
			l := sx.L()
			n := 1 + r.Intn(2)
			for i := 0; i < n; i++ {
				g.nscope++
				var props []dprop
				if i == 0 {
					props = g.spineProps(b-5, g.objIDs)
				} else {
					props = g.sides(b-5, g.objIDs)
				}
				m := dObjectD(fmt.Sprintf("mem%d", g.nscope), false, props...)
				if intKeys {
					l.Append(sx.L(sx.I(int64(i*5-1)), m))
				} else {
					l.Append(sx.L(sx.S(string(rune('A'+i))), m))
				}
			}
			return sx.L(sx.A("oneof"), sx.B(intKeys), l, sx.S(pick(r, []string{"kind", "_type", "t"})), sx.B(false))
		}},
	}
	total := 0
	for _, a := range alts {
		if b >= a.need {
			total += a.w
		}
	}
	k := r.Intn(total)
	for _, a := range alts {
		if b < a.need {
			continue
		}
		if k < a.w {
			return a.mk()
		}
		k -= a.w
	}
	return g.leaf(b)
}

// helloRaw: a raw input for a (deep) data schema that reaches the leaves but stays small: lists of lists multiply.
func helloRaw(r *Rng, s *sx.Node, depth int) *sx.Node {
	for i := 0; i < 8; i++ {
		if v := rawFor(r, s, scopeTable(s), depth); len(v.String()) <= 4000 {
			return v
		}
		if i >= 4 {
			depth = depth * 2 / 3
		}
	}
	return rawFor(r, s, scopeTable(s), 2)
}

// shallow: an ordinary generated scope that fits in b levels.
func (g *hgen) shallow(b int, prefix string) *sx.Node {
	for i := 0; i < 10; i++ {
		if s := g.scope(1, prefix); hNest(s) <= b {
			return s
		}
	}
	return dScope(prefix+"0", dObjectD(prefix+"0", false))
}

// genHelloPlugin: one step; exactly one of its data schemas (input, an output, a handled or an emitted signal)
// is deep, filled up to `nest` levels of the hello message.
func genHelloPlugin(r *Rng, nest int) *sx.Node {
	rawBoundPct = 20
	defer func() { rawBoundPct = 0 }()
	g := &hgen{dgen: &dgen{r: r}}
	where := r.Intn(4) // 0 input, 1 output, 2 handler, 3 emitter
	deep := func(slot int, over int, prefix string) *sx.Node {
		if slot == where {
			g.objIDs = []string{prefix + "0"}
			return g.spineScope(nest-over, prefix+"0")
		}
		return g.shallow(c09HelloMaxNest-over, prefix)
	}
	in := deep(0, 4, "I")
	outs := sx.L()
	nouts := 1 + r.Intn(2)
	for j, oid := range []string{"success", "error"}[:nouts] {
		slot := -1
		if j == 0 {
			slot = 1
		}
		outs.Append(sx.L(sx.S(oid), deep(slot, 6, "R"), g.display(40), sx.B(j == 1)))
	}
	signals := func(slot int, key string) *sx.Node {
		l := sx.L()
		if slot != where && r.Chance(60) {
			return l
		}
		id := key
		if r.Chance(30) {
			id = key + "-id"
		}
		l.Append(sx.L(sx.S(key), sx.S(id), deep(slot, 6, "S"), g.display(40)))
		return l
	}
	sh := signals(2, "h0")
	se := signals(3, "e0")
	steps := sx.L(sx.L(sx.A("step"), sx.S("step0"), in, outs, sh, se, g.display(50)))
	pl := sx.L(sx.A("plugin"), steps)
	ordered := orderedPluginScopes(pl)
	var ops []*sx.Node
	for j := 0; j < 3*len(ordered); j++ {
		s := ordered[j%len(ordered)]
		v := helloRaw(r, s, 26)
		if r.Chance(35) {
			v = mutate(r, v)
		}
		ops = append(ops, op("u", v))
	}
	inputs := sx.L(sx.A("inputs"))
	for _, o := range ops {
		inputs.Append(o.List[1])
	}
	return sx.L(sx.A("desc"), sx.A("plugin"), mkEnv(nil, pl, ops), pl, inputs)
}

// c09HelloLadder: for every container kind a chain of k levels over an integer with units, as the input and as
// the output of a step, for every k around the limit of the transport: the deepest schema that is carried, and
// the first ones that must be rejected with an error.
func c09HelloLadder() []*sx.Node {
	u := unitsFromSDK(schema.UnitBytes)
	leaf := func() *sx.Node { return dInt(ip(0), nil, &u) }
	wrap := map[string]func(t *sx.Node, k int) *sx.Node{
		"scope": func(t *sx.Node, k int) *sx.Node {
			id := fmt.Sprintf("L%d", k)
			return dScope(id, dObjectD(id, false, dprop{name: "deep", t: t, disp: none(), required: true}))
		},
		"list": func(t *sx.Node, k int) *sx.Node { return dList(t, ip(1), ip(2)) },
		"map":  func(t *sx.Node, k int) *sx.Node { return dMap(dString(ip(1), nil, nil), t, nil, nil) },
		"oneof": func(t *sx.Node, k int) *sx.Node {
			m := dObjectD(fmt.Sprintf("M%d", k), false, dprop{name: "deep", t: t, disp: none(), required: true})
			return sx.L(sx.A("oneof"), sx.B(false), sx.L(sx.L(sx.S("A"), m)), sx.S("kind"), sx.B(false))
		},
	}
	var out []*sx.Node
	for _, kind := range []string{"scope", "list", "map", "oneof"} {
		for _, asOutput := range []bool{false, true} {
			seen := map[int]bool{}
			for k := 1; k < 30; k++ {
				t := leaf()
				for i := 0; i < k; i++ {
					t = wrap[kind](t, i)
				}
				root := dScope("Root", dObjectD("Root", false, dprop{name: "deep", t: t, disp: none(), required: true}))
				other := dScope("Other", dObjectD("Other", false))
				in, o := root, other
				if asOutput {
					in, o = other, root
				}
				pl := sx.L(sx.A("plugin"), sx.L(sx.L(sx.A("step"), sx.S("s"), in,
					sx.L(sx.L(sx.S("success"), o, none(), sx.B(false))), sx.L(), sx.L(), none())))
				n := hPluginNest(pl)
				if n < c09HelloMaxNest-4 || n > c09HelloMaxNest+3 || seen[n] {
					continue
				}
				seen[n] = true
				r := &Rng{s: uint64(1000 + k)}
				var ops []*sx.Node
				for j := 0; j < 4; j++ {
					s := []*sx.Node{in, o}[j%2]
					ops = append(ops, op("u", helloRaw(r, s, 70)))
				}
				inputs := sx.L(sx.A("inputs"))
				for _, x := range ops {
					inputs.Append(x.List[1])
				}
				out = append(out, sx.L(sx.A("desc"), sx.A("plugin"), mkEnv(nil, pl, ops), pl, inputs))
			}
		}
	}
	return out
}

func init() {
	families["c09hello"] = &Family{
		Gen: func(r *Rng, tier string, emit func(*sx.Node)) {
			n := 120
			if tier == "thorough" {
				n = 2500
			}
			for _, c := range c09HelloLadder() {
				emit(c)
			}
			for i := 0; i < n; i++ {
				// the budget: mostly at or just below the limit, a tenth beyond it (must be rejected with an
				// error), the rest anywhere from the ten levels of a flat schema on
				nest := c09HelloMaxNest - r.Intn(3)
				switch {
				case r.Chance(10):
					nest = c09HelloMaxNest + 1 + r.Intn(4)
				case r.Chance(30):
					nest = 12 + r.Intn(c09HelloMaxNest-12)
				}
				emit(genHelloPlugin(r, nest))
			}
		},
		Run: runHelloCase,
	}
}
