package main

import (
	"reflect"
	"regexp"
	"sort"

	"go.flow.arcalot.io/pluginsdk/schema"
	"verif/harness/sx"
)

// The fixed family of Go struct types behind the `structobj` cases (Go cannot create named
// struct types at run time).  Every field is exported, so the field lists the canonical
// printer shows (exported fields only) and reflect's index paths agree.

type XInner struct {
	A int64  `json:"a"`
	B string `json:"b"`
}
type XTwo struct {
	A int64 `json:"a"`
	B int64 `json:"b"`
}
type XScalars struct {
	I int64   `json:"i"`
	F float64 `json:"f"`
	S string  `json:"s"`
	B bool    `json:"b"`
	N MyStr   `json:"n"`
	E int64   `json:"e"`
}
type XPtrs struct {
	I *int64   `json:"i"`
	F *float64 `json:"f"`
	S *string  `json:"s"`
	B *bool    `json:"b"`
	N *MyStr   `json:"n"`
}
type XNested struct {
	In XInner  `json:"in"`
	P  *XInner `json:"p"`
	X  int64   `json:"x"`
}
type XDeep struct {
	N  XNested  `json:"n"`
	PN *XNested `json:"pn"`
	Y  *int64   `json:"y"`
}
type XColl struct {
	L  []string          `json:"l"`
	LI []int64           `json:"li"`
	M  map[string]int64  `json:"m"`
	LS []XInner          `json:"ls"`
	MS map[string]XInner `json:"ms"`
	A  any               `json:"a"`
	O  map[string]any    `json:"o"`
	LP []*XInner         `json:"lp"`
}
type XEmbedded struct {
	XInner
	C int64 `json:"c"`
}
type XEmbPtr struct {
	*XInner
	C int64 `json:"c"`
}

// XLoose: field types that differ from the reflected type of the property mapped onto them
// (reflect.Value.Convert decides), a field found by its Go name, a regexp field.
type XLoose struct {
	I32    int32          `json:"i32"`
	U8     uint8          `json:"u8"`
	F32    float32        `json:"f32"`
	Str    string         `json:"str"`
	Flag   bool           `json:"flag"`
	Any    any            `json:"any"`
	ByName int64          // property "ByName"
	Re     *regexp.Regexp `json:"re"`
	PI32   *int32         `json:"pi32"`
	In     XInner         `json:"in"`
}

// XRec: a struct parent whose member is a (possibly recursive) map-based object.
type XRec struct {
	M map[string]any `json:"m"`
	K int64          `json:"k"`
}

// XKindP / XKindV / XKindI: members of INLINED one-ofs: the discriminator is a property of the member,
// mapped to an optional field (nil pointer = unset) or to a plain field (unset only under
// treat-empty-as-default).  XKindI: integer keys.
type XKindP struct {
	Kind *string `json:"kind"`
	X    string  `json:"x"`
}
type XKindV struct {
	Kind string `json:"kind"`
	Y    int64  `json:"y"`
}
type XKindI struct {
	Kind *int64 `json:"kind"`
	Z    int64  `json:"z"`
}

// XHold: a struct parent whose member is a one-of (reflected type: any).
type XHold struct {
	O any   `json:"o"`
	K int64 `json:"k"`
}

// XMid: three levels with a PLAIN (map-based) object in the middle: the parent's field is the map the
// middle object unserializes to; that object has an object-typed property of its own.
type XMid struct {
	M map[string]any `json:"m"`
	In XInner        `json:"in"`
	K  *int64        `json:"k"`
}

type xtyped struct {
	unser     func(any) (any, error)
	validate  func(any) (error, bool)
	serialize func(any) (any, error, bool)
}

func mkXTyped[T any](o schema.TypedType[T]) xtyped {
	return xtyped{
		unser: func(d any) (any, error) {
			r, err := o.UnserializeType(d)
			if err != nil {
				return nil, err
			}
			return r, nil
		},
		validate: func(d any) (error, bool) {
			t, ok := d.(T)
			if !ok {
				return nil, false
			}
			return o.ValidateType(t), true
		},
		serialize: func(d any) (any, error, bool) {
			t, ok := d.(T)
			if !ok {
				return nil, nil, false
			}
			r, err := o.SerializeType(t)
			return r, err, true
		},
	}
}

type xstructEntry struct {
	name       string
	t          reflect.Type
	mk         func(ptr bool, id string, props map[string]*schema.PropertySchema) *schema.ObjectSchema
	typed      func(ptr bool, id string, props map[string]*schema.PropertySchema) xtyped
	typedScope func(ptr bool, root *schema.ObjectSchema, objs []*schema.ObjectSchema) xtyped
}

var xstructs = map[string]*xstructEntry{}

func xreg[T any]() {
	var z T
	t := reflect.TypeOf(z)
	registerStruct(t)
	xstructs[t.Name()] = &xstructEntry{
		name: t.Name(),
		t:    t,
		mk: func(ptr bool, id string, props map[string]*schema.PropertySchema) *schema.ObjectSchema {
			if ptr {
				return schema.NewStructMappedObjectSchema[*T](id, props)
			}
			return schema.NewStructMappedObjectSchema[T](id, props)
		},
		typed: func(ptr bool, id string, props map[string]*schema.PropertySchema) xtyped {
			if ptr {
				return mkXTyped[*T](schema.NewTypedObject[*T](id, props))
			}
			return mkXTyped[T](schema.NewTypedObject[T](id, props))
		},
		typedScope: func(ptr bool, root *schema.ObjectSchema, objs []*schema.ObjectSchema) xtyped {
			if ptr {
				return mkXTyped[*T](schema.NewTypedScopeSchema[*T](root, objs...))
			}
			return mkXTyped[T](schema.NewTypedScopeSchema[T](root, objs...))
		},
	}
}

func init() {
	xreg[XInner]()
	xreg[XTwo]()
	xreg[XScalars]()
	xreg[XPtrs]()
	xreg[XNested]()
	xreg[XDeep]()
	xreg[XColl]()
	xreg[XEmbedded]()
	xreg[XEmbPtr]()
	xreg[XLoose]()
	xreg[XRec]()
	xreg[XKindP]()
	xreg[XKindV]()
	xreg[XKindI]()
	xreg[XHold]()
	xreg[XMid]()
	extraSchemaBuilders["xobject"] = func(n *sx.Node) schema.Type { return buildXObject(n) }
}

// ---- descriptors ----
//   (xobject ID UNENF ((NAME PROP)...) (si STRUCT PTR ((PROPID FIELD (IDX...) (NIDX...) FTYPE)...)))
// The (si ...) field table is filled in by annotateX from the live schema's field cache.

func dXObject(id string, unenforced bool, structName string, ptr bool, props ...propD) *sx.Node {
	n := dObject(id, unenforced, props...)
	n.List[0] = sx.A("xobject")
	return n.Append(sx.L(sx.A("si"), sx.S(structName), sx.B(ptr), sx.L()))
}

func xobjProps(n *sx.Node) map[string]*schema.PropertySchema {
	props := map[string]*schema.PropertySchema{}
	for _, p := range n.List[3].List {
		props[p.List[0].Str] = buildProperty(p.List[1])
	}
	return props
}

func buildXObject(n *sx.Node) *schema.ObjectSchema {
	si := n.List[4]
	e, ok := xstructs[si.List[1].Str]
	if !ok {
		panic("unknown struct " + si.List[1].Str)
	}
	// (the unenforced-id flag has no struct-mapped constructor; the descriptor always carries 0)
	return e.mk(si.List[2].Atom == "1", n.List[1].Str, xobjProps(n))
}

func idxSx(idx []int) *sx.Node {
	l := sx.L()
	for _, i := range idx {
		l.Append(sx.I(int64(i)))
	}
	return l
}

// annotateX fills the field table of every xobject node from the field cache of the real
// schema (schema.VerifFieldCache), plus the index path FieldByName(cache.Name) resolves to,
// which is what the Serialize/Validate side uses.
func annotateX(n *sx.Node) {
	if !n.IsList() {
		return
	}
	for _, c := range n.List {
		annotateX(c)
	}
	if n.Head() != "xobject" {
		return
	}
	o := buildXObject(n)
	si := n.List[4]
	st := xstructs[si.List[1].Str].t
	cache := o.VerifFieldCache()
	var ids []string
	for id := range cache {
		ids = append(ids, id)
	}
	sort.Strings(ids)
	tab := sx.L()
	for _, id := range ids {
		f := cache[id]
		byName, _ := st.FieldByName(f.Name)
		tab.Append(sx.L(sx.S(id), sx.S(f.Name), idxSx(f.Index), idxSx(byName.Index), typeSx(f.Type)))
	}
	si.List[3] = tab
}

// eraseX is the same schema rebuilt map-based: every xobject becomes an object.
func eraseX(n *sx.Node) *sx.Node {
	if !n.IsList() {
		return n
	}
	out := sx.L()
	for _, c := range n.List {
		out.Append(eraseX(c))
	}
	if n.Head() == "xobject" {
		out.List[0] = sx.A("object")
		out.List = out.List[:4]
	}
	return out
}

// structTable: (structs (NAME ((FIELD TYPE)...))...) for every struct type named in the nodes,
// closed under field types.
func structTable(nodes ...*sx.Node) *sx.Node {
	seen := map[string]bool{}
	var visitT func(t reflect.Type)
	visitT = func(t reflect.Type) {
		switch t.Kind() {
		case reflect.Pointer, reflect.Slice:
			if t != regexpType {
				visitT(t.Elem())
			}
		case reflect.Map:
			visitT(t.Key())
			visitT(t.Elem())
		case reflect.Struct:
			if _, ok := structTypes[t.Name()]; ok && !seen[t.Name()] {
				seen[t.Name()] = true
				for i := 0; i < t.NumField(); i++ {
					visitT(t.Field(i).Type)
				}
			}
		}
	}
	var visit func(n *sx.Node)
	visit = func(n *sx.Node) {
		if !n.IsList() {
			return
		}
		if n.Head() == "struct" && len(n.List) == 2 && n.List[1].IsStr {
			if t, ok := structTypes[n.List[1].Str]; ok {
				visitT(t)
			}
		}
		if n.Head() == "si" && len(n.List) >= 3 && n.List[1].IsStr {
			if t, ok := structTypes[n.List[1].Str]; ok {
				visitT(t)
			}
		}
		for _, c := range n.List {
			visit(c)
		}
	}
	for _, n := range nodes {
		visit(n)
	}
	var names []string
	for k := range seen {
		names = append(names, k)
	}
	sort.Strings(names)
	out := sx.L(sx.A("structs"))
	for _, name := range names {
		t := structTypes[name]
		fs := sx.L()
		for i := 0; i < t.NumField(); i++ {
			if t.Field(i).IsExported() {
				fs.Append(sx.L(sx.S(t.Field(i).Name), typeSx(t.Field(i).Type)))
			}
		}
		out.Append(sx.L(sx.S(name), fs))
	}
	return out
}
