package main

import (
	"fmt"
	"hash/fnv"

	"go.flow.arcalot.io/pluginsdk/schema"
	"verif/harness/sx"
)

// Family c03rebuilt (property C03; label "c03rebuilt", interpreted by the model exactly as an ordinary
// schema case: Proofs C09_behaviour_all_paths - the rebuilt scope behaves as the original on every path).
//
// The object schemas of family c03objects are built by the constructors, which fill the decoded-default
// cache at construction.  A client never holds such an instance: it holds what UnserializeScope made of
// the plugin's self-description, where defaults are JSON texts decoded lazily on first use.  Here every
// schema goes   constructors -> SelfSerialize -> (real CBOR encode/decode) -> UnserializeScope, or - for scopes
// without references - DescribeScope().Unserialize alone (UnserializeScope's link step decodes the defaults of
// every object it reaches, so only the unlinked scope is completely fresh); the operations run on THAT instance,
// the very first one being an Unserialize that needs a default - nothing (no GetDefaults, no Validate) touches
// the instance before.
//
//   payload ::= (sch ENV SCOPE (ops OP...))         as for label "schema"; SCOPE is always a scope
//   obs     ::= (r O...) | (build-failed CLASS)

// c03Rebuild: viaCbor - the description crosses a real CBOR encode/decode (as over ATP); unlinked - the scope is taken
// straight from DescribeScope().Unserialize, without the link step of UnserializeScope (legitimate for a scope without
// references; the link step happens to decode every object's defaults, so only this path meets a completely fresh object).
func c03Rebuild(envN, scopeN *sx.Node, viaCbor, unlinked bool) (s2 *schema.ScopeSchema, class *sx.Node) {
	class = classSx(func() error {
		s := buildScope(scopeN)
		applyExt(envN, s.ApplyNamespace)
		d, err := s.SelfSerialize()
		if err != nil {
			return err
		}
		if viaCbor {
			if d, err = cborRoundTrip(d); err != nil {
				return err
			}
		}
		if unlinked {
			u, err := schema.DescribeScope().Unserialize(d)
			if err != nil {
				return err
			}
			s2 = u.(*schema.ScopeSchema)
			return nil
		}
		s2, err = schema.UnserializeScope(d)
		if err != nil {
			return err
		}
		applyExt(envN, s2.ApplyNamespace)
		return nil
	})
	if class.Atom != "ok" {
		s2 = nil
	}
	return
}

func hasRefNode(n *sx.Node) bool {
	if !n.IsList() {
		return false
	}
	if n.Head() == "ref" {
		return true
	}
	for _, c := range n.List {
		if hasRefNode(c) {
			return true
		}
	}
	return false
}

func runRebuiltCase(p *sx.Node) *sx.Node {
	// two bits of a hash of the case text choose the transport (CBOR or in memory) and the loader (linked or not)
	h := fnv.New32a()
	_, _ = h.Write([]byte(p.List[2].String()))
	bits := h.Sum32()
	s, class := c03Rebuild(p.List[1], p.List[2], bits&1 == 1, bits&2 == 2 && !hasRefNode(p.List[2]) && len(p.List[1].List[1].List[1].List) == 0)
	if s == nil {
		return sx.L(sx.A("build-failed"), class)
	}
	res := sx.L(sx.A("r"))
	for _, op := range p.List[3].List[1:] {
		v := valFromSx(op.List[1])
		switch op.Head() {
		case "u":
			o, _, _ := obsUnser(s, v)
			res.Append(o)
		case "v":
			res.Append(obsValidate(s, v))
		case "s":
			o, _, _ := obsSerialize(s, v)
			res.Append(o)
		case "c":
			res.Append(obsCompat(s, v))
		case "rt":
			res.Append(runRT(s, v))
		default:
			res.Append(sx.L(sx.A("bad"), sx.S("op")))
		}
	}
	return res
}

// c03RebuiltOps: the operations of family c03objects; the first one is Unserialize of the EMPTY map, which needs every
// declared default of the fresh instance.
func c03RebuiltOps(n int, anyToo bool) []*sx.Node {
	return objectOps(n, anyToo, false)
}

func init() {
	families["c03rebuilt"] = &Family{
		Label: "c03rebuilt",
		Gen: func(r *Rng, tier string, emit func(*sx.Node)) {
			thorough := tier == "thorough"
			wrap := func(id string, ps []c03prop) *sx.Node { return dScope(id, c03object(id, ps)) }
			// one property: every configuration
			allConfigs(1, 3, func(a c03prop) {
				emit(schCase(nil, wrap("O1", []c03prop{a}), c03RebuiltOps(1, true)...))
			})
			// two properties: a in every configuration with a default-carrying / plain partner (sampled in the quick tier)
			cnt := 0
			off := r.Intn(11)
			allConfigs(2, 3, func(a c03prop) {
				for _, b := range c03modes {
					cnt++
					if thorough || (cnt+off)%11 == 0 {
						emit(schCase(nil, wrap("O2", []c03prop{a, b}), c03RebuiltOps(2, cnt%2 == 0)...))
					}
				}
			})
			nBig := 150
			if thorough {
				nBig = 3000
			}
			for i := 0; i < nBig; i++ {
				n := 3 + r.Intn(4)
				var ps []c03prop
				for j := 0; j < n; j++ {
					ps = append(ps, randProp(r, n))
				}
				o := &c03ops{}
				for j := 0; j < 8; j++ {
					mask := uint(r.Intn(1 << uint(n)))
					if j == 0 {
						mask = 0
					}
					mt := tStrMap
					if r.Bool() {
						mt = tAnyMap
					}
					o.ops = append(o.ops, op("u", o.raw(mt, mask, n, -1)))
					nv := native(tStrMap, mask, n, -1)
					o.ops = append(o.ops, op("v", nv), op("s", nv))
				}
				emit(schCase(nil, wrap("B", ps), o.ops...))
			}
			// defaults below the root: a referenced object and an inline object, each with its own defaults; a one-of member with one
			inner := c03object("In", []c03prop{{dflt: 1}, {}})
			for _, outerDflt := range []*string{nil, sp(`{}`), sp(`{"b":5}`)} {
				root := dObject("R", false,
					propD{name: "in", t: dRef("In", ""), dflt: outerDflt},
					propD{name: "il", t: c03object("Il", []c03prop{{dflt: 1}, {req: true, dflt: 1}}), dflt: outerDflt},
					propD{name: "n", t: dInt(nil, nil, nil), dflt: sp("3"), requiredIf: []string{"in"}},
					propD{name: "m", t: dInt(nil, nil, nil), conflicts: []string{"n"}})
				s := dScope("R", root, inner)
				m := func(kv ...*sx.Node) *sx.Node { return vM(tStrMap, kv...) }
				emit(schCase(nil, s,
					op("u", m()), op("u", m(vS("in"), m())), op("u", m(vS("il"), m(vS("b"), vI("i64", 1)))), op("u", m(vS("m"), vI("i64", 1))),
					op("rt", m(vS("in"), m(vS("b"), vI("i64", 2)))), op("u", m(vS("n"), vI("i64", 9), vS("in"), m()))))
			}
			for _, inlined := range []bool{false, true} {
				props := []propD{{name: "p", t: dInt(nil, nil, nil), dflt: sp("7")}, {name: "q", t: dInt(nil, nil, nil), requiredIf: []string{"p"}}}
				if inlined {
					props = append(props, propD{name: "kind", t: dString(nil, nil, nil)})
				}
				mem := dObject("M", false, props...)
				s := dScope("R", dObject("R", false, propD{name: "o", t: dOneOf(false, "kind", inlined, memberD{skey: "A", t: dRef("M", "")})}), mem)
				m := func(kv ...*sx.Node) *sx.Node { return vM(tStrMap, kv...) }
				emit(schCase(nil, s,
					op("u", m(vS("o"), m(vS("kind"), vS("A")))), op("u", m(vS("o"), m(vS("kind"), vS("A"), vS("q"), vI("i64", 1)))),
					op("rt", m(vS("o"), m(vS("kind"), vS("A"), vS("q"), vI("i64", 1))))))
			}
			_ = fmt.Sprint
		},
		Run: runRebuiltCase,
	}
}
