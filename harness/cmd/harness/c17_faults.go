package main

import (
	"fmt"
	"math"
	"strings"

	"go.flow.arcalot.io/pluginsdk/schema"
	"verif/harness/sx"
)

// C17 — "a rejection names the offending element".
//
// Family c17: a generated nested schema (objects in lists in maps in one-ofs, through scopes and
// references) with a VALID input built from it, then every leaf / map key / container / presence
// rule of that input corrupted ONE AT A TIME with every applicable corruption.  The case carries,
// per operation, what the property demands: `ok` for the untouched input, and for a corrupted one
// the path (property names, "[i]" list indices, "{k}" / "[k]" map key segments) leading from the
// root to the corrupted element.
//
//   payload ::= (c17 ENV SCHEMA (ops OP...) (expect E...))
//   OP      ::= (u RAW) | (v NATIVE) | (s NATIVE) Unserialize / Validate / Serialize
//   E       ::= ok | (path KIND POSITION "seg"...)
//
// The observation has the shape of the schema family's: (r O...), O ::= (ok V) | (err C (SEG...)) | panic.

// ---------------------------------------------------------------------------------------
// schemas
// ---------------------------------------------------------------------------------------

type c17pat struct {
	re  *sx.Node
	ok  []string
	bad []string
}

var c17Pats = []c17pat{
	{patternPool[0], []string{"abc", "z", "hello"}, []string{"ABC1", "ab c", ""}},
	{patternPool[1], []string{"123", "0", "4711"}, []string{"12a", "x", ""}},
	{patternPool[4], []string{"foobar", "ba", "bazooka"}, []string{"xfoo", "fo", "oba"}},
	{patternPool[2], []string{"Abc_1", "x", "Zz9"}, []string{"1abc", "_a", "a-b"}},
}

type c17g struct {
	r        *Rng
	objIDs   []string
	cur      int // index of the scope object being generated (references point forward, or to itself)
	allowRef bool
	nInl     int
	frag     bool // only the schema kinds of C02 (no objects, one-ofs, references)
	dispPct  int  // percentage of properties that carry display data (a name, sometimes a description)
	disabledPct int // percentage of properties that are disabled
}

func c17PropDisabled(p *sx.Node) bool { return p.List[1].List[10].Atom == "1" }

func (g *c17g) optBounds(lo, hi int64) (mn, mx *int64) {
	switch g.r.Intn(5) {
	case 0:
		return nil, nil
	case 1:
		return &lo, nil
	case 2:
		return nil, &hi
	case 3:
		return &lo, &lo // min = max
	}
	return &lo, &hi
}

func (g *c17g) leaf() *sx.Node {
	r := g.r
	if g.frag && r.Chance(18) {
		if r.Bool() {
			return dPattern()
		}
		return dAny()
	}
	if !g.frag && r.Chance(12) {
		return dAny()
	}
	switch r.Intn(8) {
	case 0:
		mn, mx := g.optBounds(int64(r.Intn(20)-10), int64(11+r.Intn(40)))
		return dInt(mn, mx, nil)
	case 1:
		lo, hi := float64(r.Intn(20)-10)+0.5, float64(11+r.Intn(40))+0.25
		switch r.Intn(4) {
		case 0:
			return dFloat(nil, nil, nil)
		case 1:
			return dFloat(&lo, nil, nil)
		case 2:
			return dFloat(nil, &hi, nil)
		}
		return dFloat(&lo, &hi, nil)
	case 2:
		if r.Chance(40) {
			return dString(nil, nil, c17Pats[r.Intn(len(c17Pats))].re)
		}
		mn, mx := g.optBounds(int64(1+r.Intn(3)), int64(4+r.Intn(5)))
		return dString(mn, mx, nil)
	case 3:
		return dBool()
	case 4:
		return dEnumInt([]int64{1, 2, int64(3 + r.Intn(5))}, nil)
	case 5:
		return dEnumStr(nil, []string{"x", "y", "zed"})
	case 6:
		secs := unitsFromSDK(schema.UnitDurationSeconds)
		return dInt(ip(0), ip(100000), &secs)
	}
	return dInt(ip(0), ip(50), nil)
}

func (g *c17g) keyType() *sx.Node {
	switch g.r.Intn(7) {
	case 0:
		return dInt(ip(0), ip(100), nil)
	case 1:
		return dEnumStr(nil, []string{"x", "y", "zed"})
	case 2:
		return dEnumInt([]int64{1, 2, 3}, nil)
	case 3:
		return dString(nil, nil, c17Pats[0].re)
	case 4: // integer keys WITH units: a key may be written as a unit text ("1kB"), which is not the text of its value
		u := unitsFromSDK(pick(g.r, []*schema.UnitsDefinition{schema.UnitBytes, schema.UnitDurationSeconds}))
		return dInt(ip(0), ip(100000), &u)
	case 5:
		if g.r.Bool() {
			u := unitsFromSDK(schema.UnitBytes)
			return dEnumInt([]int64{0, 1, 1024, 2048, 1048576}, &u)
		}
		u := unitsFromSDK(schema.UnitDurationSeconds)
		return dEnumInt([]int64{0, 1, 60, 90, 3600}, &u)
	}
	return dString(ip(1), ip(8), nil)
}

// c17IntKeyRaw: a raw form of the integer key z: the integer itself, or a TEXT the key schema reads as z and that differs
// from z's own decimal text - "01", "+1" (strconv.ParseInt), and with units " 1", "1B", "1kB", "1 kilobyte" ... - or the
// plain decimal text.  The segment of an error below that key names the key AS WRITTEN.
func c17IntKeyRaw(r *Rng, z int64, units *sx.Node) *sx.Node {
	if r.Chance(40) {
		if r.Chance(30) && z >= 0 && z < 128 {
			return vI(pick(r, []string{"i0", "u8", "i32", "u64"}), z)
		}
		return vI("i64", z)
	}
	texts := []string{fmt.Sprintf("%d", z)}
	if z >= 0 {
		texts = append(texts, fmt.Sprintf("0%d", z), fmt.Sprintf("+%d", z), fmt.Sprintf("00%d", z))
	}
	if !isNone(units) && z >= 0 {
		u := unitsFromSx(units)
		texts = []string{fmt.Sprintf("%d", z), fmt.Sprintf("0%d", z), fmt.Sprintf(" %d", z), fmt.Sprintf("%d ", z), fmt.Sprintf("%d%s", z, u.base.ss),
			fmt.Sprintf("%d %s", z, u.base.lp), unitDecompose(u, uint64(z), 0)}
		ks := u.sortedMults()
		for i := len(ks) - 1; i >= 0; i-- { // the largest unit that divides z: "1kB", "2m"
			if m := ks[i]; m >= 2 && z >= m && z%m == 0 {
				texts = append(texts, fmt.Sprintf("%d%s", z/m, u.mults[m].ss), fmt.Sprintf("%d %s", z/m, u.mults[m].lp), fmt.Sprintf(" %d%s ", z/m, u.mults[m].ss))
				break
			}
		}
	}
	return vS(pick(r, texts))
}

func (g *c17g) typ(depth int) *sx.Node {
	r := g.r
	if depth <= 0 {
		return g.leaf()
	}
	if g.frag { // C02's fragment: scalars, enums, lists, maps
		switch r.Intn(5) {
		case 0, 1:
			mn, mx := g.optBounds(int64(1+r.Intn(2)), int64(3+r.Intn(2)))
			return dList(g.typ(depth-1), mn, mx)
		case 2, 3:
			mn, mx := g.optBounds(1, int64(2+r.Intn(2)))
			return dMap(g.keyType(), g.typ(depth-1), mn, mx)
		}
		return g.leaf()
	}
	switch r.Intn(10) {
	case 0, 1:
		mn, mx := g.optBounds(int64(1+r.Intn(2)), int64(3+r.Intn(2)))
		return dList(g.typ(depth-1), mn, mx)
	case 2, 3:
		mn, mx := g.optBounds(1, int64(2+r.Intn(2)))
		return dMap(g.keyType(), g.typ(depth-1), mn, mx)
	case 4, 5:
		g.nInl++
		return g.object(fmt.Sprintf("inl%d", g.nInl), depth-1)
	case 6:
		if g.allowRef {
			if id, ok := g.refTarget(); ok {
				return dRef(id, "")
			}
		}
		return g.leaf()
	case 7, 8:
		return g.oneof(depth - 1)
	}
	return g.leaf()
}

// refTarget: a later object of the scope (acyclic), so that every valid value is finite.
func (g *c17g) refTarget() (string, bool) {
	if g.cur+1 >= len(g.objIDs) {
		return "", false
	}
	return g.objIDs[g.cur+1+g.r.Intn(len(g.objIDs)-g.cur-1)], true
}

var c17PropNames = []string{"a", "b", "c", "d", "e", "name", "n", "xs", "m", "opt"}

func (g *c17g) props(depth, n int, names []string) []propD {
	r := g.r
	var ps []propD
	used := map[string]bool{}
	for len(ps) < n {
		nm := pick(r, names)
		if used[nm] {
			continue
		}
		used[nm] = true
		ps = append(ps, propD{name: nm, t: g.typ(depth)})
	}
	for i := range ps {
		p := &ps[i]
		var others []string
		for j := range ps {
			if j != i {
				others = append(others, ps[j].name)
			}
		}
		// display data: errors of a NAMED property are re-wrapped on a path of their own (property.go)
		if !g.frag && r.Chance(g.dispPct) {
			var desc *string
			if r.Bool() {
				desc = sp("Some description.")
			}
			p.disp = dDisp(sp(pick(r, []string{"Name", "A title", "x"})), desc, nil)
		}
		// a DISABLED property (half of them without a stated reason: Disabled = true, DisabledReason = nil - what a schema
		// description with only `disabled: true` is rebuilt to): absent from every valid input; using it is a rejection that
		// names it.  It carries no presence rule of its own.
		if !g.frag && g.disabledPct > 0 && r.Chance(g.disabledPct) {
			p.disabled, p.noReason = true, r.Bool()
			continue
		}
		switch r.Intn(9) {
		case 0, 1, 2:
			p.required = true
		case 3:
			if len(others) > 0 {
				p.requiredIf = []string{pick(r, others)}
			}
		case 4:
			if len(others) > 0 {
				p.requiredIfNot = []string{pick(r, others)}
			}
		case 5:
			if len(others) > 0 {
				p.conflicts = []string{pick(r, others)}
			}
		}
	}
	return ps
}

func (g *c17g) object(id string, depth int) *sx.Node {
	n := 1 + g.r.Intn(4)
	ps := g.props(depth, n, c17PropNames)
	// an optional self reference exercises recursion through the scope
	if g.allowRef && g.cur < len(g.objIDs) && id == g.objIDs[g.cur] && g.r.Chance(30) {
		ps = append(ps, propD{name: "next", t: dRef(id, "")})
	}
	return dObject(id, false, ps...)
}

func (g *c17g) oneof(depth int) *sx.Node {
	r := g.r
	intKeys := r.Bool()
	inlined := r.Chance(30)
	field := "kind"
	n := 1 + r.Intn(3)
	var ms []memberD
	for i := 0; i < n; i++ {
		var t *sx.Node
		if !inlined && g.allowRef && r.Chance(35) {
			if id, ok := g.refTarget(); ok {
				t = dRef(id, "")
			}
		}
		if t == nil {
			// the member's properties are reached through the one-of's compatibility pre-check as well: named more often
			save := g.dispPct
			if g.dispPct > 0 {
				g.dispPct = 60
			}
			props := g.props(depth, 1+r.Intn(2), []string{"p", "q", "w"})
			g.dispPct = save
			if inlined {
				dt := dString(nil, nil, nil)
				if intKeys {
					dt = dInt(nil, nil, nil)
				}
				props = append(props, propD{name: field, t: dt, required: true})
			}
			g.nInl++
			t = dObject(fmt.Sprintf("mem%d_%d", g.nInl, i), false, props...)
		}
		ms = append(ms, memberD{ikey: int64(i + 1), skey: string(rune('A' + i)), t: t})
	}
	return dOneOf(intKeys, field, inlined, ms...)
}

func (g *c17g) scope(depth int) *sx.Node {
	n := 1 + g.r.Intn(3)
	g.objIDs = nil
	for i := 0; i < n; i++ {
		g.objIDs = append(g.objIDs, fmt.Sprintf("O%d", i))
	}
	g.allowRef = true
	var objs []*sx.Node
	for i, id := range g.objIDs {
		g.cur = i
		objs = append(objs, g.object(id, depth))
	}
	return dScope("O0", objs...)
}

// ---------------------------------------------------------------------------------------
// valid values
// ---------------------------------------------------------------------------------------

type c17V struct {
	t          *sx.Node // the schema node this value belongs to (references and scopes resolved)
	sc         scopeCtx
	kind       string
	raw        *sx.Node // leaves: the raw representation handed to Unserialize
	nat        *sx.Node // leaves: the native representation handed to Validate
	items      []*c17V
	keys, vals []*c17V
	names      []string
	fields     []*c17V
	member     *c17V    // one-of: the member object's value
	disc       *sx.Node // one-of: the raw discriminator; discNat: its typed form
	discNat    *sx.Node
	field      string
	inlined    bool
	discField  string // member of an inlined one-of: the property that is the discriminator (owned by the one-of)
	strMap     bool   // raw rendering: map[string]any rather than map[any]any when every key is a string
	exact      bool   // native rendering: exactly typed containers ([]int64, map[string]float64, ...)
	short      bool   // raw rendering of a one-property object: the property's value instead of a map (shorthand)
}

func c17Resolve(t *sx.Node, sc scopeCtx) (*sx.Node, scopeCtx) {
	for t.IsList() {
		switch t.Head() {
		case "ref":
			t = sc[t.List[1].Str]
		case "scope":
			sc = scopeTable(t)
			t = sc[t.List[2].Str]
		default:
			return t, sc
		}
	}
	return t, sc
}

func c17Range(t *sx.Node, dlo, span int64) (int64, int64) {
	mn, mx := t.List[1], t.List[2]
	switch {
	case isNone(mn) && isNone(mx):
		return dlo, dlo + span
	case isNone(mx):
		return mn.Int(), mn.Int() + span
	case isNone(mn):
		return mx.Int() - span, mx.Int()
	}
	return mn.Int(), mx.Int()
}

func randLetters(r *Rng, n int64) string {
	b := make([]byte, n)
	for i := range b {
		b[i] = byte('a' + r.Intn(26))
	}
	return string(b)
}

func c17PatFor(t *sx.Node) *c17pat {
	src := t.List[3].List[1].Str
	for i := range c17Pats {
		if reSrc(c17Pats[i].re) == src {
			return &c17Pats[i]
		}
	}
	panic("c17: unknown pattern " + src)
}

func c17IntRaw(r *Rng, z int64, key bool) *sx.Node {
	if key || r.Chance(50) {
		if key && r.Chance(30) && z >= 0 && z < 128 {
			return vI(pick(r, []string{"i0", "u8", "i32", "u64"}), z)
		}
		return vI("i64", z)
	}
	return pick(r, intReprs(z))
}

// c17Valid builds a value the schema accepts; key: the value is used as a map key (only
// representations whose %v text the model renders: strings and integers).
func c17Valid(r *Rng, t *sx.Node, sc scopeCtx, depth int, key bool) *c17V {
	t, sc = c17Resolve(t, sc)
	v := &c17V{t: t, sc: sc, strMap: r.Bool(), exact: r.Bool()}
	if !t.IsList() && t.Atom == "pattern" {
		v.kind = "pattern"
		src := pick(r, []string{"a+", "^x[0-9]*$", "(foo|ba)r", ""})
		v.raw, v.nat = vS(src), sx.L(sx.A("re"), sx.S(src))
		return v
	}
	if !t.IsList() && t.Atom == "any" {
		if c17AnyAsTree {
			w := c17AnyTree(r, 2, r.Intn(6))
			w.t, w.sc = t, sc
			return w
		}
		v.kind = "any"
		x := c02AnyValue(r, 2)
		v.raw, v.nat = x, x
		return v
	}
	if !t.IsList() { // bool
		v.kind = "bool"
		b := r.Bool()
		v.nat = vB(b)
		if b {
			v.raw = pick(r, []*sx.Node{vB(true), vS("yes"), vS("On"), vI("i64", 1), vU("u8", 1), vS("true")})
		} else {
			v.raw = pick(r, []*sx.Node{vB(false), vS("no"), vS("OFF"), vI("i64", 0), vU("u64", 0), vS("0")})
		}
		return v
	}
	v.kind = t.Head()
	switch v.kind {
	case "int":
		lo, hi := c17Range(t, -20, 60)
		z := lo + int64(r.Intn(int(hi-lo+1)))
		if key && !isNone(t.List[3]) && r.Chance(60) { // a whole number of some larger unit: "2kB", "1m"
			u := unitsFromSx(t.List[3])
			if ks := u.sortedMults(); len(ks) > 0 {
				if w := ks[r.Intn(len(ks))] * int64(1+r.Intn(3)); w >= lo && w <= hi {
					z = w
				}
			}
		}
		v.nat = vI("i64", z)
		if key {
			v.raw = c17IntKeyRaw(r, z, t.List[3])
		} else if !isNone(t.List[3]) && r.Chance(50) { // seconds
			v.raw = vS(pick(r, []string{fmt.Sprintf("%d", z), fmt.Sprintf("%ds", z), fmt.Sprintf("%dm%ds", z/60, z%60), fmt.Sprintf(" %d s", z)}))
			if z%60 == 0 && z >= 60 && r.Bool() {
				v.raw = vS(fmt.Sprintf("%dm", z/60))
			}
		} else {
			v.raw = c17IntRaw(r, z, key)
		}
	case "float":
		lo, hi := -10.0, 40.0
		if !isNone(t.List[1]) {
			lo = flFromSx(t.List[1])
			hi = lo + 50
		}
		if !isNone(t.List[2]) {
			hi = flFromSx(t.List[2])
			if isNone(t.List[1]) {
				lo = hi - 50
			}
		}
		x := lo + 0.25*float64(r.Intn(int((hi-lo)*4)+1))
		v.nat = vF("f64", x)
		switch r.Intn(4) {
		case 0:
			v.raw = vS(fmtG(x))
		case 1:
			if float64(float32(x)) == x {
				v.raw = vF("f32", x)
			} else {
				v.raw = vF("f64", x)
			}
		case 2:
			if x == math.Trunc(x) {
				v.raw = vI("i64", int64(x))
			} else {
				v.raw = vF("f64", x)
			}
		default:
			v.raw = vF("f64", x)
		}
	case "string":
		var s string
		if !isNone(t.List[3]) {
			s = pick(r, c17PatFor(t).ok)
		} else {
			lo, hi := int64(0), int64(6)
			if !isNone(t.List[1]) {
				lo = t.List[1].Int()
				hi = lo + 3
			}
			if !isNone(t.List[2]) {
				hi = t.List[2].Int()
				if isNone(t.List[1]) && hi > 3 {
					lo = hi - 3
				}
			}
			if key && lo == 0 {
				lo = 1
			}
			s = randLetters(r, lo+int64(r.Intn(int(hi-lo+1))))
		}
		v.raw, v.nat = vS(s), vS(s)
	case "enum_int":
		z := pick(r, t.List[1].List).List[0].Int()
		v.nat = vI("i64", z)
		if key {
			v.raw = c17IntKeyRaw(r, z, t.List[2])
		} else {
			v.raw = c17IntRaw(r, z, key)
		}
	case "enum_str":
		s := pick(r, t.List[2].List).List[0].Str
		v.raw, v.nat = vS(s), vS(s)
	case "list":
		lo, hi := int64(1), int64(3)
		if !isNone(t.List[2]) {
			lo = t.List[2].Int()
			hi = lo + 2
		}
		if !isNone(t.List[3]) {
			hi = t.List[3].Int()
			if isNone(t.List[2]) && lo > hi {
				lo = hi
			}
		}
		n := lo + int64(r.Intn(int(hi-lo+1)))
		for i := int64(0); i < n; i++ {
			v.items = append(v.items, c17Valid(r, t.List[1], sc, depth-1, false))
		}
	case "map":
		lo, hi := int64(1), int64(2)
		if !isNone(t.List[3]) {
			lo = t.List[3].Int()
			hi = lo + 1
		}
		if !isNone(t.List[4]) {
			hi = t.List[4].Int()
			if isNone(t.List[3]) && lo > hi {
				lo = hi
			}
		}
		n := lo + int64(r.Intn(int(hi-lo+1)))
		seen := map[string]bool{}
		for tries := 0; int64(len(v.keys)) < n && tries < 60; tries++ {
			k := c17Valid(r, t.List[1], sc, 0, true)
			id := c17KeyText(k.nat) // by the VALUE of the key: "01" and 1 are the same key after conversion
			if seen[id] {
				continue
			}
			seen[id] = true
			v.keys = append(v.keys, k)
			v.vals = append(v.vals, c17Valid(r, t.List[2], sc, depth-1, false))
		}
		if int64(len(v.keys)) < lo {
			return nil // the key type has too few values for the minimum size (enum keys)
		}
	case "object":
		props := t.List[3].List
		present := c17Presence(r, props, depth)
		if present == nil {
			return nil
		}
		for i, p := range props {
			if !present[i] {
				continue
			}
			f := c17Valid(r, p.List[1].List[1], sc, depth-1, false)
			if f == nil {
				return nil
			}
			v.names = append(v.names, p.List[0].Str)
			v.fields = append(v.fields, f)
		}
		// an object with exactly one property may be written as the value of that property (the single-property
		// shorthand of ObjectSchema.Unserialize): half of them are, in the raw form
		v.short = len(props) == 1 && len(v.names) == 1 && r.Chance(50)
	case "oneof":
		m := pick(r, t.List[2].List)
		v.field = t.List[3].Str
		v.inlined = t.List[4].Atom == "1"
		if t.List[1].Atom == "1" {
			z := m.List[0].Int()
			v.disc, v.discNat = pick(r, intReprs(z)), vI("i64", z)
		} else {
			v.disc, v.discNat = vS(m.List[0].Str), vS(m.List[0].Str)
		}
		v.member = c17Valid(r, m.List[1], sc, depth-1, false)
		if v.member == nil {
			return nil
		}
		v.member.short = false // a one-of reads its value as a map (discriminator + the member's properties)
		if v.inlined { // the member declares the discriminator: its value is the key
			v.member.discField = v.field
			for i, nm := range v.member.names {
				if nm == v.field {
					v.member.fields[i].raw, v.member.fields[i].nat = v.disc, v.discNat
				}
			}
		}
	default:
		panic("c17: kind " + v.kind)
	}
	for _, c := range v.items {
		if c == nil {
			return nil
		}
	}
	for _, c := range v.vals {
		if c == nil {
			return nil
		}
	}
	return v
}

// ---- presence rules (the reference reading of required / required_if / required_if_not / conflicts) ----

type c17rule struct {
	name                             string
	required                         bool
	requiredIf, requiredIfNot, confl []string
}

func c17Rules(props []*sx.Node) []c17rule {
	var out []c17rule
	for _, p := range props {
		pn := p.List[1]
		out = append(out, c17rule{p.List[0].Str, pn.List[3].Atom == "1", strList(pn.List[4]), strList(pn.List[5]), strList(pn.List[6])})
	}
	return out
}

// c17Violated: the properties whose presence rule fails for the given set, with the rule that fails.
func c17Violated(rules []c17rule, set map[string]bool) (names, kinds []string) {
	anySet := func(l []string) bool {
		for _, x := range l {
			if set[x] {
				return true
			}
		}
		return false
	}
	for _, ru := range rules {
		if set[ru.name] {
			if anySet(ru.confl) {
				names, kinds = append(names, ru.name), append(kinds, "conflicts")
			}
			continue
		}
		switch {
		case ru.required:
			names, kinds = append(names, ru.name), append(kinds, "missing_required")
		case anySet(ru.requiredIf):
			names, kinds = append(names, ru.name), append(kinds, "required_if")
		case len(ru.requiredIfNot) > 0 && !anySet(ru.requiredIfNot):
			names, kinds = append(names, ru.name), append(kinds, "required_if_not")
		}
	}
	return
}

func c17Presence(r *Rng, props []*sx.Node, depth int) []bool {
	rules := c17Rules(props)
	n := len(props)
	var good [][]bool
	for mask := 0; mask < 1<<n; mask++ {
		set := map[string]bool{}
		pres := make([]bool, n)
		ok := true
		for i := 0; i < n; i++ {
			if mask>>i&1 == 1 {
				pres[i] = true
				set[rules[i].name] = true
				// at the depth limit, optional recursive references are left out
				if depth <= 0 && !rules[i].required && props[i].List[1].List[1].Head() == "ref" {
					ok = false
				}
				if c17PropDisabled(props[i]) { // a valid input does not use a disabled property
					ok = false
				}
			}
		}
		if !ok {
			continue
		}
		if nm, _ := c17Violated(rules, set); len(nm) == 0 {
			good = append(good, pres)
		}
	}
	if len(good) == 0 {
		return nil
	}
	// prefer fuller objects: pick the best of three draws
	best := pick(r, good)
	for i := 0; i < 2; i++ {
		c := pick(r, good)
		if c17Count(c) > c17Count(best) {
			best = c
		}
	}
	return best
}

func c17Count(b []bool) int {
	n := 0
	for _, x := range b {
		if x {
			n++
		}
	}
	return n
}

// ---------------------------------------------------------------------------------------
// faults and rendering
// ---------------------------------------------------------------------------------------

type c17fault struct {
	node     *c17V    // the value node the fault is applied at
	kind     string   // wrong_type below_min above_max not_in_enum pattern_miss extra_key nonstring_key missing_required ...
	pos      string   // leaf key list map object oneof rule
	mode     string   // "u" | "v"
	repl     *sx.Node // leaf / key / container: the replacement value
	resize   int      // list / map: new number of entries (-1: unchanged)
	drop     string   // object: property to leave out
	addName  string   // object: property to add ...
	addVal   *c17V    // ... with this (valid) value
	extraKey *sx.Node // object: an undeclared key to add (with value 1)
	disc     string   // one-of: "missing" | "unknown" | "badtype"
	path     []string
}

func c17KeyText(k *sx.Node) string {
	switch k.Head() {
	case "s":
		return k.List[2].Str
	case "i":
		return k.List[2].Atom
	case "b":
		if k.List[2].Atom == "1" {
			return "true"
		}
		return "false"
	}
	return "?"
}

func c17Contains(v *c17V, target *c17V) bool {
	if v == nil || target == nil {
		return false
	}
	if v == target {
		return true
	}
	for _, c := range v.items {
		if c17Contains(c, target) {
			return true
		}
	}
	for i := range v.keys {
		if c17Contains(v.keys[i], target) || c17Contains(v.vals[i], target) {
			return true
		}
	}
	for _, c := range v.fields {
		if c17Contains(c, target) {
			return true
		}
	}
	return c17Contains(v.member, target)
}

// c17RType: the type Unserialize returns for a schema (exactly typed native containers).
func c17RType(t *sx.Node, sc scopeCtx) *sx.Node {
	t, sc = c17Resolve(t, sc)
	if !t.IsList() {
		switch t.Atom {
		case "pattern":
			return sx.A("regexp")
		case "any":
			return sx.A("any")
		}
		return sx.A("bool")
	}
	switch t.Head() {
	case "int", "enum_int":
		return sx.A("i64")
	case "float":
		return sx.A("f64")
	case "string", "enum_str":
		return sx.A("str")
	case "list":
		return sx.L(sx.A("slice"), c17RType(t.List[1], sc))
	case "map":
		return sx.L(sx.A("map"), c17RType(t.List[1], sc), c17RType(t.List[2], sc))
	case "object":
		return tStrMap
	}
	return sx.A("any")
}

// c17Render prints the value with the fault applied; native: the form Validate is given.
// exactUp: the enclosing container is exactly typed, so this one must be as well.
func c17Render(v *c17V, native bool, f *c17fault, exactUp bool) *sx.Node {
	if f != nil && f.node == v && f.repl != nil {
		return f.repl
	}
	here := f != nil && f.node == v
	exact := native && (exactUp || (v.exact && !c17Contains(v, nodeOf(f))))
	switch v.kind {
	case "list":
		t := tAnySlice
		if exact {
			t = c17RType(v.t, v.sc)
		}
		out := sx.L(sx.A("sl"), t, sx.A("0"))
		items := v.items
		if here && f.resize >= 0 {
			for len(items) < f.resize { // repeat the last (or a fresh) valid item
				items = append(items, items[len(items)-1])
			}
			items = items[:f.resize]
		}
		for _, it := range items {
			out.Append(c17Render(it, native, f, exact))
		}
		return out
	case "map":
		var ks, vs []*sx.Node
		allStr := true
		n := len(v.keys)
		if here && f.resize >= 0 && f.resize < n {
			n = f.resize
		}
		for i := 0; i < n; i++ {
			k := c17Render(v.keys[i], native, f, exact)
			if k.Head() != "s" {
				allStr = false
			}
			ks = append(ks, k)
			vs = append(vs, c17Render(v.vals[i], native, f, exact))
		}
		if here && f.resize > len(v.keys) { // extra entries: fresh keys of the key type, the first value again
			for i := len(v.keys); i < f.resize; i++ {
				k := f.addVal.keys[i-len(v.keys)]
				kn := c17Render(k, native, nil, exact)
				if kn.Head() != "s" {
					allStr = false
				}
				ks = append(ks, kn)
				vs = append(vs, c17Render(v.vals[0], native, nil, exact))
			}
		}
		t := tAnyMap
		if exact {
			t = c17RType(v.t, v.sc)
		} else if !native && v.strMap && allStr {
			t = tStrMap
		}
		out := sx.L(sx.A("m"), t, sx.A("0"))
		for i := range ks {
			out.Append(sx.L(ks[i], vs[i]))
		}
		return out
	case "anylist":
		out := sx.L(sx.A("sl"), tAnySlice, sx.A("0"))
		for _, it := range v.items {
			out.Append(c17Render(it, native, f, false))
		}
		return out
	case "anymap":
		out := sx.L(sx.A("m"), tAnyMap, sx.A("0"))
		for i := range v.keys {
			out.Append(sx.L(c17Render(v.keys[i], native, f, false), c17Render(v.vals[i], native, f, false)))
		}
		return out
	case "object":
		if !native && v.short && !here && len(v.names) == 1 {
			// shorthand: anything that is not a map stands for the only property (a map would be read as the object)
			if x := c17Render(v.fields[0], native, f, false); !(x.IsList() && x.Head() == "m") {
				return x
			}
		}
		t := tStrMap
		if !native && (!v.strMap || (here && f.extraKey != nil && f.extraKey.Head() != "s")) {
			t = tAnyMap
		}
		out := sx.L(sx.A("m"), t, sx.A("0"))
		for i, nm := range v.names {
			if here && f.drop == nm {
				continue
			}
			out.Append(sx.L(vS(nm), c17Render(v.fields[i], native, f, false)))
		}
		if here && f.addName != "" {
			out.Append(sx.L(vS(f.addName), c17Render(f.addVal, native, nil, false)))
		}
		if here && f.extraKey != nil {
			out.Append(sx.L(f.extraKey, vI("i64", 1)))
		}
		return out
	case "oneof":
		if f != nil && f.node == v.member && f.repl != nil { // the member object itself is replaced: the value is the one-of's
			return f.repl
		}
		body := c17Render(v.member, native, f, false)
		out := sx.L(body.List[0], body.List[1], body.List[2])
		if native {
			out.List[1] = tStrMap
		}
		for _, e := range body.List[3:] {
			if e.List[0].Head() == "s" && e.List[0].List[2].Str == v.field && !v.inlined {
				continue
			}
			if here && f.disc != "" && e.List[0].Head() == "s" && e.List[0].List[2].Str == v.field {
				continue // inlined: the member's own field is the discriminator
			}
			out.Append(e)
		}
		d := v.disc
		if native {
			d = v.discNat
		}
		if here {
			switch f.disc {
			case "missing":
				d = nil
			case "unknown":
				if d.Head() == "s" {
					d = vS("no-such-member")
				} else {
					d = vI("i64", 99)
				}
			case "badtype":
				d = vSl(tAnySlice, vI("i64", 1))
			}
		}
		if d != nil && (!v.inlined || (here && f.disc != "")) {
			out.Append(sx.L(vS(v.field), d))
		}
		return out
	}
	if native {
		return v.nat
	}
	return v.raw
}

func nodeOf(f *c17fault) *c17V {
	if f == nil {
		return nil
	}
	return f.node
}

func seg(path []string, s string) []string {
	out := make([]string, 0, len(path)+1)
	out = append(out, path...)
	return append(out, s)
}

// c17LeafFaults: every applicable corruption of a leaf (or map key) value.
func c17LeafFaults(r *Rng, v *c17V, key bool) (out []c17fault) {
	t := v.t
	add := func(kind, mode string, repl *sx.Node) {
		out = append(out, c17fault{node: v, kind: kind, mode: mode, repl: repl, resize: -1})
	}
	both := func(kind string, u, n *sx.Node) { add(kind, "u", u); add(kind, "v", n) }
	intRaw := func(z int64) *sx.Node {
		if key {
			return vI("i64", z)
		}
		return pick(r, intReprs(z))
	}
	switch v.kind {
	case "pattern":
		add("pattern_miss", "u", vS("(unclosed"))
		add("pattern_miss", "u", vS("[a"))
		add("wrong_type", "u", vB(true))
		add("wrong_type", "v", vS("a+")) // a string is not a *regexp.Regexp
		add("wrong_type", "v", sx.L(sx.A("p"), sx.A("regexp"), sx.A("nil")))
		both("wrong_type", vNil(), vNil())
	case "any":
		both("wrong_type", vNil(), vNil())
		both("wrong_type", vSl(tAnySlice, vI("i64", 1), vNil()), vSl(tAnySlice, vI("i64", 1), vNil()))
		both("wrong_type", vM(tAnyMap, vS("k"), sx.L(sx.A("op"), sx.A("chan"), sx.S("chan int"))), vM(tAnyMap, vS("k"), sx.L(sx.A("op"), sx.A("func"), sx.S("func()"))))
		both("wrong_type", sx.L(sx.A("p"), sx.L(sx.A("ptr"), sx.A("i64")), vI("i64", 5)), vU("u64", 1<<63))
	case "bool":
		add("wrong_type", "u", vS("maybe"))
		add("wrong_type", "u", vS(pick(r, blankStrings)))
		add("wrong_type", "u", vI("i64", 2))
		add("wrong_type", "u", vF("f64", 1))
		add("wrong_type", "v", vS("true"))
		add("wrong_type", "v", vI("i64", 1))
		if !key {
			both("wrong_type", vNil(), vNil())
		}
	case "int", "enum_int":
		add("wrong_type", "u", vS("x!"))
		add("wrong_type", "u", vS(pick(r, blankStrings))) // white space only: not a number, with or without units
		add("wrong_type", "v", vS("12"))
		add("wrong_type", "v", vB(true))
		if !key {
			add("wrong_type", "u", vF("f64", 0.5))
			add("wrong_type", "u", vU("u64", 1<<63))
			add("wrong_type", "u", vSl(tAnySlice, vI("i64", 1)))
			both("wrong_type", vNil(), vNil())
		}
		if v.kind == "enum_int" {
			both("not_in_enum", intRaw(77), vI("i64", 77))
			break
		}
		if !isNone(t.List[1]) {
			z := t.List[1].Int() - 1
			both("below_min", intRaw(z), vI("i64", z))
		}
		if !isNone(t.List[2]) {
			z := t.List[2].Int() + 1
			both("above_max", intRaw(z), vI("i64", z))
			if !isNone(t.List[3]) && !key {
				add("above_max", "u", vS("2d"))
				add("wrong_type", "u", vS("5 parsecs"))
			}
		}
	case "float":
		add("wrong_type", "u", vS("x!"))
		add("wrong_type", "u", vS(pick(r, blankStrings)))
		add("wrong_type", "u", vSl(tAnySlice))
		add("wrong_type", "v", vS("1.5"))
		add("wrong_type", "v", vB(true))
		both("wrong_type", vNil(), vNil())
		if !isNone(t.List[1]) {
			x := flFromSx(t.List[1]) - 0.5
			both("below_min", pick(r, []*sx.Node{vF("f64", x), vS(fmtG(x))}), vF("f64", x))
			both("below_min", pick(r, []*sx.Node{vF("f64", math.NaN()), vS("NaN")}), vF("f64", math.NaN()))
		}
		if !isNone(t.List[2]) {
			x := flFromSx(t.List[2]) + 0.5
			both("above_max", pick(r, []*sx.Node{vF("f64", x), vS(fmtG(x))}), vF("f64", x))
			both("above_max", vF("f64", math.Inf(1)), vF("f64", math.Inf(1)))
		}
	case "string", "enum_str":
		add("wrong_type", "u", vB(true))
		add("wrong_type", "v", vB(true))
		if !key {
			add("wrong_type", "u", vSl(tAnySlice, vS("a")))
			add("wrong_type", "u", vM(tAnyMap))
			add("wrong_type", "v", vF("f64", 1.5))
			both("wrong_type", vNil(), vNil())
		}
		if v.kind == "enum_str" {
			both("not_in_enum", vS("nope"), vS("nope"))
			break
		}
		if !isNone(t.List[3]) {
			for _, s := range c17PatFor(t).bad {
				if s == "" && key {
					continue
				}
				both("pattern_miss", vS(s), vS(s))
			}
			break
		}
		if !isNone(t.List[1]) && t.List[1].Int() >= 1 {
			s := randLetters(r, t.List[1].Int()-1)
			both("below_min", vS(s), vS(s))
		}
		if !isNone(t.List[2]) {
			s := randLetters(r, t.List[2].Int()+1)
			both("above_max", vS(s), vS(s))
		}
	}
	return out
}

// c17Faults enumerates every single fault of the value below path.
// underOneOf: a one-of lies on the way; its Validate first runs the member's data-mode compatibility check,
// which reads values with Unserialize's conventions (a non-map for a one-property object is the shorthand for
// that property, any map kind is an object), so those two corruptions are not "wrong type" there.
//
// A path segment that differs between the raw form (Unserialize) and the native form (Validate / Serialize) - a map
// key written "1kB" that is 1024 after conversion - is carried as "raw\x00native"; emit resolves it by the fault's mode.
func c17Faults(r *Rng, v *c17V, path []string, underOneOf bool, out *[]c17fault) {
	emit := func(f c17fault, pos string, p []string) {
		f.pos, f.path = pos, c17PathFor(p, f.mode)
		*out = append(*out, f)
	}
	cont := func(kind, mode string, repl *sx.Node, pos string) {
		emit(c17fault{node: v, kind: kind, mode: mode, repl: repl, resize: -1}, pos, path)
	}
	switch v.kind {
	case "anyleaf", "anylist", "anymap":
		// below a one-of the compatibility pre-check reads `any` values by rules of its own
		// (any.go ValidateCompatibility: homogeneous lists, key kinds, errors re-wrapped) - not enumerated there
		if !underOneOf {
			c17AnyFaults(v, path, emit)
		}
	case "list":
		for i, it := range v.items {
			c17Faults(r, it, seg(path, fmt.Sprintf("[%d]", i)), underOneOf, out)
		}
		for _, w := range []*sx.Node{vS("x!"), vM(tAnyMap), vNil(), vI("i64", 3)} {
			cont("wrong_type", "u", w, "list")
			cont("wrong_type", "v", w, "list")
		}
		if !isNone(v.t.List[2]) && v.t.List[2].Int() >= 1 && len(v.items) > 0 {
			for _, m := range []string{"u", "v"} {
				emit(c17fault{node: v, kind: "below_min", mode: m, resize: int(v.t.List[2].Int()) - 1}, "list", path)
			}
		}
		if !isNone(v.t.List[3]) && len(v.items) > 0 {
			for _, m := range []string{"u", "v"} {
				emit(c17fault{node: v, kind: "above_max", mode: m, resize: int(v.t.List[3].Int()) + 1}, "list", path)
			}
		}
	case "map":
		for i := range v.keys {
			for _, f := range c17LeafFaults(r, v.keys[i], true) {
				// the corrupted key must not collide with another key of the map
				txt := c17KeyText(f.repl)
				clash := false
				for j := range v.keys {
					if j != i && (c17KeyText(v.keys[j].raw) == txt || c17KeyText(v.keys[j].nat) == txt) {
						clash = true
					}
				}
				if !clash {
					emit(f, "key", seg(path, "{"+txt+"}"))
				}
			}
			// the segment names the key AS WRITTEN in the value at hand: the raw text for Unserialize ("1kB", "01"), the
			// converted key for Validate / Serialize of the native form (1024, 1)
			ks := "[" + c17KeyText(v.keys[i].raw) + "]"
			if kn := "[" + c17KeyText(v.keys[i].nat) + "]"; kn != ks {
				ks = ks + "\x00" + kn
			}
			c17Faults(r, v.vals[i], seg(path, ks), underOneOf, out)
		}
		for _, w := range []*sx.Node{vS("x!"), vSl(tAnySlice), vNil()} {
			cont("wrong_type", "u", w, "map")
			cont("wrong_type", "v", w, "map")
		}
		if !isNone(v.t.List[3]) && v.t.List[3].Int() >= 1 {
			for _, m := range []string{"u", "v"} {
				emit(c17fault{node: v, kind: "below_min", mode: m, resize: int(v.t.List[3].Int()) - 1}, "map", path)
			}
		}
		if !isNone(v.t.List[4]) && len(v.keys) > 0 {
			want := int(v.t.List[4].Int()) + 1
			// fresh keys, distinct from the present ones
			extra := &c17V{}
			seen := map[string]bool{}
			for _, k := range v.keys {
				seen[c17KeyText(k.nat)] = true
			}
			for tries := 0; len(v.keys)+len(extra.keys) < want && tries < 80; tries++ {
				k := c17Valid(r, v.t.List[1], v.sc, 0, true)
				if id := c17KeyText(k.nat); !seen[id] {
					seen[id] = true
					extra.keys = append(extra.keys, k)
				}
			}
			if len(v.keys)+len(extra.keys) == want {
				for _, m := range []string{"u", "v"} {
					emit(c17fault{node: v, kind: "above_max", mode: m, resize: want, addVal: extra}, "map", path)
				}
			}
		}
	case "object":
		for i, nm := range v.names {
			if nm != v.discField {
				c17Faults(r, v.fields[i], seg(path, nm), underOneOf, out)
			}
		}
		props := v.t.List[3].List
		if len(props) > 1 {
			for _, w := range []*sx.Node{vS("x!"), vSl(tAnySlice), vNil()} {
				cont("wrong_type", "u", w, "object")
			}
		}
		for _, w := range []*sx.Node{vS("x!"), vNil(), vM(tAnyMap)} {
			if underOneOf && (len(props) == 1 || w.Head() == "m") {
				continue
			}
			cont("wrong_type", "v", w, "object")
		}
		for _, m := range []string{"u", "v"} {
			emit(c17fault{node: v, kind: "extra_key", mode: m, resize: -1, extraKey: vS("zz_extra")}, "object", path)
		}
		emit(c17fault{node: v, kind: "nonstring_key", mode: "u", resize: -1, extraKey: vI("i64", 7)}, "object", path)
		// presence rules: toggle one property; exactly one rule must break
		rules := c17Rules(props)
		set := map[string]bool{}
		for _, nm := range v.names {
			set[nm] = true
		}
		// a disabled property that is used: Unserialize rejects it at that property, whatever its value (Validate and
		// Serialize of the native form do not look at the flag)
		for _, p := range props {
			name := p.List[0].Str
			pt := p.List[1].List[1]
			if !c17PropDisabled(p) || set[name] || pt.Head() == "ref" {
				continue
			}
			av := c17Valid(r, pt, v.sc, 1, false)
			if av == nil {
				continue
			}
			set[name] = true
			broken, _ := c17Violated(rules, set)
			set[name] = false
			if len(broken) == 0 { // otherwise valid: no presence rule of a sibling is disturbed by the extra property
				emit(c17fault{node: v, kind: "disabled", mode: "u", resize: -1, addName: name, addVal: av}, "rule", seg(path, name))
			}
		}
		for i, ru := range rules {
			if ru.name == v.discField || c17PropDisabled(props[i]) {
				continue
			}
			f := c17fault{node: v, resize: -1}
			if set[ru.name] {
				set[ru.name] = false
				f.drop = ru.name
			} else {
				pt := props[i].List[1].List[1]
				if pt.Head() == "ref" { // keep recursion bounded
					continue
				}
				av := c17Valid(r, pt, v.sc, 1, false)
				if av == nil {
					continue
				}
				set[ru.name] = true
				f.addName, f.addVal = ru.name, av
			}
			names, kinds := c17Violated(rules, set)
			set[ru.name] = !set[ru.name]
			if len(names) != 1 {
				continue
			}
			for _, m := range []string{"u", "v"} {
				g := f
				g.kind, g.mode = kinds[0], m
				emit(g, "rule", seg(path, names[0]))
			}
		}
	case "oneof":
		c17Faults(r, v.member, path, true, out)
		// the faults the member enumerated AT ITSELF (wrong type of the whole object) were attributed to
		// the member node; for a one-of the whole value is the one-of's.
		for _, d := range []string{"missing", "unknown", "badtype"} {
			for _, m := range []string{"u", "v"} {
				emit(c17fault{node: v, kind: "discriminator_" + d, mode: m, resize: -1, disc: d}, "oneof", path)
			}
		}
	default:
		for _, f := range c17LeafFaults(r, v, false) {
			emit(f, "leaf", path)
		}
	}
}

// c17PathFor: the path as it reads in the value handed to the operation (mode "u": the raw form, otherwise the native form).
func c17PathFor(p []string, mode string) []string {
	out := make([]string, len(p))
	for i, s := range p {
		if j := strings.IndexByte(s, 0); j >= 0 {
			if mode == "u" {
				s = s[:j]
			} else {
				s = s[j+1:]
			}
		}
		out[i] = s
	}
	return out
}

func pathSx(kind, pos string, p []string) *sx.Node {
	n := sx.L(sx.A("path"), sx.A(kind), sx.A(pos))
	for _, s := range p {
		n.Append(sx.S(s))
	}
	return n
}

// c17AnyAsTree: c17Valid builds the value of an `any` schema as a tree whose elements can be corrupted
// one at a time (the c17 family); otherwise as one opaque leaf (C02's families).
var c17AnyAsTree bool

// c17AnyTree: a value the any schema accepts on every path. Lists are homogeneous and the keys of a map are
// all strings or all int64, so that the value also passes any.go's ValidateCompatibility below a one-of.
// shape: 0..3 scalar kinds, 4 list, 5 map.
func c17AnyTree(r *Rng, depth, shape int) *c17V {
	if depth <= 0 && shape >= 4 {
		shape = r.Intn(4)
	}
	v := &c17V{kind: "anyleaf"}
	leaf := func(x *sx.Node) *c17V {
		v.raw, v.nat = x, x
		return v
	}
	switch shape {
	case 0:
		return leaf(vI("i64", int64(r.Intn(100))-50))
	case 1:
		return leaf(vS(randLetters(r, int64(1+r.Intn(4)))))
	case 2:
		return leaf(vF("f64", float64(r.Intn(40))/4))
	case 3:
		return leaf(vB(r.Bool()))
	}
	sub := r.Intn(6)
	if depth-1 <= 0 && sub >= 4 {
		sub = r.Intn(4)
	}
	n := 1 + r.Intn(3)
	if shape == 4 {
		v.kind = "anylist"
		for i := 0; i < n; i++ {
			v.items = append(v.items, c17AnyTree(r, depth-1, sub))
		}
		return v
	}
	v.kind = "anymap"
	strKeys := r.Bool()
	for i := 0; i < n; i++ {
		k := vI("i64", int64(10+i))
		if strKeys {
			k = vS(string(rune('a' + i)))
		}
		v.keys = append(v.keys, &c17V{kind: "anyleaf", raw: k, nat: k})
		v.vals = append(v.vals, c17AnyTree(r, depth-1, sub))
	}
	return v
}

// c17AnyFaults: every element of an `any` value replaced, one at a time, by something `any` does not accept
// (nil, an unsigned integer above MaxInt64, a channel); expected path: "[i]" per list level, "[key]" per map
// value, "{key}" for a map key (any.go checkAndConvert).
func c17AnyFaults(v *c17V, path []string, emit func(c17fault, string, []string)) {
	switch v.kind {
	case "anylist":
		for i, it := range v.items {
			c17AnyFaults(it, seg(path, fmt.Sprintf("[%d]", i)), emit)
		}
	case "anymap":
		for i := range v.keys {
			for _, m := range []string{"u", "v"} {
				emit(c17fault{node: v.keys[i], kind: "wrong_type", mode: m, repl: vU("u64", 1<<63), resize: -1}, "anykey",
					seg(path, "{9223372036854775808}"))
			}
			c17AnyFaults(v.vals[i], seg(path, "["+c17KeyText(v.keys[i].raw)+"]"), emit)
		}
	}
	for _, w := range []*sx.Node{vNil(), vU("u64", 1<<63), sx.L(sx.A("op"), sx.A("chan"), sx.S("chan int"))} {
		for _, m := range []string{"u", "v"} {
			emit(c17fault{node: v, kind: "wrong_type", mode: m, repl: w, resize: -1}, "any", path)
		}
	}
}

func c17Case(r *Rng, g *c17g, depth, maxFaults int) *sx.Node {
	c17AnyAsTree = true
	defer func() { c17AnyAsTree = false }()
	var s *sx.Node
	sc := scopeCtx{}
	if r.Chance(70) {
		s = g.scope(depth)
	} else {
		g.allowRef = false
		s = g.typ(depth)
	}
	v := c17Valid(r, s, sc, depth+2, false)
	if v == nil {
		return nil
	}
	var faults []c17fault
	c17Faults(r, v, nil, false, &faults)
	if len(faults) > maxFaults { // a seeded sample of the positions x corruptions of this input
		for i := range faults {
			j := i + r.Intn(len(faults)-i)
			faults[i], faults[j] = faults[j], faults[i]
		}
		faults = faults[:maxFaults]
	}
	ops := []*sx.Node{op("u", c17Render(v, false, nil, false)), op("v", c17Render(v, true, nil, false)),
		op("s", c17Render(v, true, nil, false))}
	expect := sx.L(sx.A("expect"), sx.A("ok"), sx.A("ok"), sx.A("ok"))
	for i := range faults {
		f := &faults[i]
		ops = append(ops, op(f.mode, c17Render(v, f.mode == "v", f, false)))
		expect.Append(pathSx(f.kind, f.pos, f.path))
		if f.mode == "v" { // Serialize of the same native value must name the same element
			ops = append(ops, op("s", c17Render(v, true, f, false)))
			expect.Append(pathSx(f.kind, f.pos, f.path))
		}
	}
	l := sx.L(sx.A("ops"))
	l.Append(ops...)
	return sx.L(sx.A("c17"), mkEnv(nil, s, ops), s, l, expect)
}

func init() {
	families["c17"] = &Family{
		Gen: func(r *Rng, tier string, emit func(*sx.Node)) {
			n, maxFaults := 150, 40
			if tier == "thorough" {
				n, maxFaults = 1200, 120
			}
			for i := 0; i < n; i++ {
				g := &c17g{r: r, dispPct: 35, disabledPct: 12}
				depth := 1 + r.Intn(3)
				if c := c17Case(r, g, depth, maxFaults); c != nil {
					emit(c)
				}
			}
		},
		Run: runC17Twice(2, 3), // payload positions 1..3 are ENV SCHEMA (ops ...) as in the schema family
	}
}

// ---------------------------------------------------------------------------------------
// runner: every operation of a case is evaluated TWICE on the same schema instance, in the same process - the whole
// list, then the whole list again, so that between the two evaluations of a call lie all the other calls (and
// rejections) of the case.  The error of a call must not depend on what was rejected before (an error value that is
// shared between calls and extended in place accumulates path segments).  Where the two evaluations agree the
// observation is the ordinary one; where an error is involved and they differ it is (again FIRST SECOND), which no
// prediction of the model equals and which the direct check reports with both paths.
// ---------------------------------------------------------------------------------------

func c17RunOps(s schema.Type, ops []*sx.Node) []*sx.Node {
	var res []*sx.Node
	for _, op := range ops {
		v := valFromSx(op.List[1])
		switch op.Head() {
		case "u":
			o, _, _ := obsUnser(s, v)
			res = append(res, o)
		case "v":
			res = append(res, obsValidate(s, v))
		case "s":
			o, _, _ := obsSerialize(s, v)
			res = append(res, o)
		default:
			res = append(res, sx.L(sx.A("bad"), sx.S("op")))
		}
	}
	return res
}

func runC17Twice(schemaPos, opsPos int) func(p *sx.Node) *sx.Node {
	return func(p *sx.Node) *sx.Node {
		var s schema.Type
		built := outcomeSx(func() (*sx.Node, error) {
			s = buildWithEnv(p.List[1], p.List[schemaPos])
			return unit(), nil
		})
		if s == nil {
			return sx.L(sx.A("build-failed"), built)
		}
		ops := p.List[opsPos].List[1:]
		first := c17RunOps(s, ops)
		second := c17RunOps(s, ops)
		res := sx.L(sx.A("r"))
		for i := range first {
			a, b := first[i], second[i]
			if (a.Head() == "err" || b.Head() == "err") && a.String() != b.String() {
				res.Append(sx.L(sx.A("again"), a, b))
			} else {
				res.Append(a)
			}
		}
		return res
	}
}

// ---------------------------------------------------------------------------------------
// C02: random nesting of the scalar / list / map kinds, valid inputs and single corruptions,
// on all three paths.  Cases are ordinary schema cases: (sch ENV SCHEMA (ops ...)).
// ---------------------------------------------------------------------------------------

func c02NestCase(r *Rng, depth, maxFaults int) *sx.Node {
	g := &c17g{r: r, frag: true}
	s := g.typ(depth)
	v := c17Valid(r, s, scopeCtx{}, depth+2, false)
	if v == nil {
		return nil
	}
	var faults []c17fault
	c17Faults(r, v, nil, false, &faults)
	if len(faults) > maxFaults {
		for i := range faults {
			j := i + r.Intn(len(faults)-i)
			faults[i], faults[j] = faults[j], faults[i]
		}
		faults = faults[:maxFaults]
	}
	raw, nat := c17Render(v, false, nil, false), c17Render(v, true, nil, false)
	ops := []*sx.Node{op("u", raw), op("rt", raw), op("v", nat), op("s", nat)}
	for i := range faults {
		f := &faults[i]
		x := c17Render(v, f.mode == "v", f, false)
		if f.mode == "u" {
			ops = append(ops, op("u", x))
		} else {
			ops = append(ops, op("v", x), op("s", x))
		}
	}
	return schCase(nil, s, ops...)
}

func init() {
	families["c02nest"] = &Family{
		Label: "schema",
		Gen: func(r *Rng, tier string, emit func(*sx.Node)) {
			n, maxFaults := 250, 30
			if tier == "thorough" {
				n, maxFaults = 3000, 100
			}
			for i := 0; i < n; i++ {
				if c := c02NestCase(r, 1+r.Intn(3), maxFaults); c != nil {
					emit(c)
				}
			}
		},
		Run: runSchemaCase,
	}
}

// c02AnyValue: a value of the basic kinds (what the any schema accepts), nested up to depth.
func c02AnyValue(r *Rng, depth int) *sx.Node {
	if depth > 0 && r.Chance(35) {
		n := r.Intn(3)
		if r.Bool() {
			var items []*sx.Node
			for i := 0; i < n; i++ {
				items = append(items, c02AnyValue(r, depth-1))
			}
			return vSl(tAnySlice, items...)
		}
		var kv []*sx.Node
		for i := 0; i < n; i++ {
			kv = append(kv, vS(string(rune('a'+i))), c02AnyValue(r, depth-1))
		}
		return vM(pick(r, []*sx.Node{tAnyMap, tStrMap}), kv...)
	}
	return pick(r, []*sx.Node{vI("i64", int64(r.Intn(100))-50), vU("u8", uint64(r.Intn(200))), vU("u64", 1<<63-1), vF("f64", 1.5), vF("f32", 0.25),
		vS("s"), vS(""), vB(true), vNamed("s", "MyStr", "str", sx.S("named")), vNamed("i", "MyInt", "i64", sx.I(7)), vI("i32", -3)})
}
