package main

import (
	"reflect"
	"strings"

	"verif/harness/sx"
)

// C17, family c17struct (label c17x): the single-fault inputs of the c17 family for STRUCT-MAPPED objects
// (NewStructMappedObjectSchema[T] / [*T]): Validate and Serialize read the offending element out of a Go
// struct through the field cache (object.go validateStruct / extractPropertyValue), Unserialize writes it
// into one.  The property ids are the json tags, which differ from the Go field names for every struct of
// the family, so a path segment taken from the wrong table shows.
//
//   payload ::= (c17x ENV STRUCTS XSCHEMA (ops OP...) (expect E...))      OP, E as in family c17
//
// The schema is generated "clean" (no defaults, no treat-empty-as-default, optional properties only on pointer
// fields: the classes of the struct known findings D41 / D44 are C01's and C03's business).  The valid input,
// the faults and the expected paths come from the c17 machinery applied to the map-based twin of the schema
// (eraseX); the native values for Validate / Serialize are then rebuilt as Go structs by reflection.  A fault
// that has no struct representation (a string in an int64 field, a dropped property on a non-pointer field)
// is applied to the raw form only.

type c17xProp struct {
	id string
	t  func() *sx.Node
}

type c17xg struct {
	r      *Rng
	useRef bool // XInner members may be references to the scope object XI
}

func (g *c17xg) intT() *sx.Node {
	r := g.r
	lo := int64(r.Intn(10) - 5)
	hi := lo + int64(1+r.Intn(30))
	switch r.Intn(5) {
	case 0:
		return dInt(&lo, nil, nil)
	case 1:
		return dInt(nil, &hi, nil)
	case 2:
		return dEnumInt([]int64{1, 2, int64(3 + r.Intn(5))}, nil)
	}
	return dInt(&lo, &hi, nil)
}

func (g *c17xg) floatT() *sx.Node {
	r := g.r
	lo, hi := float64(r.Intn(20)-10)+0.5, float64(11+r.Intn(40))+0.25
	switch r.Intn(3) {
	case 0:
		return dFloat(&lo, nil, nil)
	case 1:
		return dFloat(nil, &hi, nil)
	}
	return dFloat(&lo, &hi, nil)
}

func (g *c17xg) strT() *sx.Node {
	r := g.r
	switch r.Intn(4) {
	case 0:
		return dString(nil, nil, c17Pats[r.Intn(len(c17Pats))].re)
	case 1:
		return dEnumStr(nil, []string{"x", "y", "zed"})
	}
	return dString(ip(int64(1+r.Intn(3))), ip(int64(4+r.Intn(5))), nil)
}

func (g *c17xg) inner(ptr bool) *sx.Node {
	if g.useRef && !ptr && g.r.Chance(40) {
		return dRef("XI", "")
	}
	return g.object("XInner", ptr, "XInner")
}

func (g *c17xg) cands(structName string) []c17xProp {
	r := g.r
	one := func(n *sx.Node) func() *sx.Node { return func() *sx.Node { return n } }
	innerV := func() *sx.Node { return g.inner(false) }
	innerAny := func() *sx.Node { return g.inner(r.Bool()) }
	nested := func(ptr func() bool) func() *sx.Node {
		return func() *sx.Node { return g.object("XNested", ptr(), "XNested") }
	}
	no := func() bool { return false }
	switch structName {
	case "XInner":
		return []c17xProp{{"a", g.intT}, {"b", g.strT}}
	case "XTwo":
		return []c17xProp{{"a", g.intT}, {"b", g.intT}}
	case "XScalars":
		return []c17xProp{{"i", g.intT}, {"f", g.floatT}, {"s", g.strT}, {"b", one(dBool())}, {"e", one(dEnumInt([]int64{1, 2, 3}, nil))}}
	case "XPtrs":
		return []c17xProp{{"i", g.intT}, {"f", g.floatT}, {"s", g.strT}, {"b", one(dBool())}}
	case "XNested":
		return []c17xProp{{"in", innerV}, {"p", innerAny}, {"x", g.intT}}
	case "XDeep":
		return []c17xProp{{"n", nested(no)}, {"pn", nested(r.Bool)}, {"y", g.intT}}
	case "XColl":
		return []c17xProp{
			{"l", func() *sx.Node { return dList(g.strT(), pick(r, []*int64{nil, ip(1)}), pick(r, []*int64{nil, ip(3)})) }},
			{"li", func() *sx.Node { return dList(g.intT(), pick(r, []*int64{nil, ip(1)}), pick(r, []*int64{nil, ip(4)})) }},
			{"m", func() *sx.Node { return dMap(dString(ip(1), ip(8), nil), g.intT(), pick(r, []*int64{nil, ip(1)}), pick(r, []*int64{nil, ip(3)})) }},
			{"ls", func() *sx.Node { return dList(g.inner(false), nil, ip(3)) }},
			{"ms", func() *sx.Node { return dMap(dString(ip(1), ip(8), nil), g.inner(false), nil, nil) }},
			{"a", one(dAny())},
			{"o", func() *sx.Node {
				return dObject("MO", false, propD{name: "p", t: g.intT(), required: true}, propD{name: "q", t: g.strT()})
			}},
			{"lp", func() *sx.Node { return dList(g.object("XInner", true, "XInner"), nil, ip(3)) }},
		}
	case "XEmbedded":
		return []c17xProp{{"a", g.intT}, {"b", g.strT}, {"c", g.intT}}
	}
	panic("c17x: no candidates for " + structName)
}

// c17xFieldType: the Go type of the field a property id is mapped to (json tag, else the field name),
// promoted fields of embedded structs included.
func c17xFieldType(t reflect.Type, id string) (reflect.Type, bool) {
	for i := 0; i < t.NumField(); i++ {
		f := t.Field(i)
		if f.Anonymous {
			ft := f.Type
			if ft.Kind() == reflect.Pointer {
				ft = ft.Elem()
			}
			if ft.Kind() == reflect.Struct {
				if x, ok := c17xFieldType(ft, id); ok {
					return x, true
				}
			}
			continue
		}
		tag := strings.Split(f.Tag.Get("json"), ",")[0]
		if tag == id || (tag == "" && f.Name == id) {
			return f.Type, true
		}
	}
	return nil, false
}

func (g *c17xg) object(id string, ptr bool, structName string) *sx.Node {
	r := g.r
	st := structTypes[structName]
	var ps []propD
	var optional []bool
	for len(ps) == 0 {
		for _, c := range g.cands(structName) {
			if r.Chance(70) {
				ft, ok := c17xFieldType(st, c.id)
				if !ok {
					panic("c17x: no field for " + c.id)
				}
				ps = append(ps, propD{name: c.id, t: c.t()})
				// only a nil pointer / nil interface field is an ABSENT property on the way back
				optional = append(optional, ft.Kind() == reflect.Pointer || ft.Kind() == reflect.Interface)
			}
		}
	}
	for i := range ps {
		p := &ps[i]
		if r.Chance(35) {
			p.disp = dDisp(sp(pick(r, []string{"Name", "A title", "x"})), nil, nil)
		}
		if !optional[i] {
			p.required = true
			continue
		}
		var others []string
		for j := range ps {
			if j != i {
				others = append(others, ps[j].name)
			}
		}
		switch r.Intn(8) {
		case 0, 1:
			p.required = true
		case 2:
			if len(others) > 0 {
				p.requiredIf = []string{pick(r, others)}
			}
		case 3:
			if len(others) > 0 {
				p.requiredIfNot = []string{pick(r, others)}
			}
		case 4:
			if len(others) > 0 {
				p.conflicts = []string{pick(r, others)}
			}
		}
	}
	return dXObject(id, false, structName, ptr, ps...)
}

var c17xTop = []string{"XInner", "XTwo", "XScalars", "XPtrs", "XNested", "XDeep", "XColl", "XEmbedded", "XPtrs", "XNested", "XColl", "XColl"}

func (g *c17xg) schema() *sx.Node {
	r := g.r
	g.useRef = r.Chance(40)
	root := g.object("Root", r.Chance(40), pick(r, c17xTop))
	if !g.useRef {
		return root
	}
	sub := &c17xg{r: r}
	xi := sub.object("XI", false, "XInner")
	return dScope("Root", root, xi)
}

// ---- map-based native value -> Go struct value ----

func c17xFieldAlloc(v reflect.Value, index []int) reflect.Value {
	for i, x := range index {
		if i > 0 && v.Kind() == reflect.Pointer {
			if v.IsNil() {
				v.Set(reflect.New(v.Type().Elem()))
			}
			v = v.Elem()
		}
		v = v.Field(x)
	}
	return v
}

func c17xClass(k reflect.Kind) int {
	switch k {
	case reflect.Int, reflect.Int8, reflect.Int16, reflect.Int32, reflect.Int64:
		return 1
	case reflect.Float32, reflect.Float64:
		return 2
	case reflect.String:
		return 3
	case reflect.Bool:
		return 4
	}
	return 0
}

// c17xAdapt stores res (of the schema's reflected type) in a field of type ft.
func c17xAdapt(res reflect.Value, ft reflect.Type) (reflect.Value, bool) {
	switch {
	case res.Type() == ft, ft.Kind() == reflect.Interface:
		return res, true
	case ft.Kind() == reflect.Pointer && ft.Elem() == res.Type():
		p := reflect.New(ft.Elem())
		p.Elem().Set(res)
		return p, true
	}
	return reflect.Value{}, false
}

// c17xConv rebuilds the value val (the native form of the map-based twin) as the native form of the
// struct-mapped schema xs, to be stored in a Go location of type ft.  ok = false: no such Go value.
func c17xConv(xs *sx.Node, sc scopeCtx, ft reflect.Type, val reflect.Value) (out reflect.Value, ok bool) {
	for val.IsValid() && val.Kind() == reflect.Interface {
		val = val.Elem()
	}
	for xs.IsList() && (xs.Head() == "ref" || xs.Head() == "scope") {
		if xs.Head() == "ref" {
			o, found := sc[xs.List[1].Str]
			if !found {
				return out, false
			}
			xs = o
		} else {
			sc = scopeTable(xs)
			xs = sc[xs.List[2].Str]
		}
	}
	if !val.IsValid() {
		return out, false // nil: an absent property, not a value
	}
	if !xs.IsList() { // bool, any, pattern
		if xs.Atom == "any" {
			return c17xAdapt(val, ft)
		}
		return c17xScalar(ft, val)
	}
	switch xs.Head() {
	case "xobject":
		si := xs.List[4]
		T := structTypes[si.List[1].Str]
		if val.Kind() != reflect.Map || val.Type().Key().Kind() != reflect.String {
			return out, false
		}
		props := map[string]*sx.Node{}
		for _, p := range xs.List[3].List {
			props[p.List[0].Str] = p.List[1].List[1]
		}
		index := map[string][]int{}
		for _, f := range si.List[3].List {
			var idx []int
			for _, i := range f.List[2].List {
				idx = append(idx, int(i.Int()))
			}
			index[f.List[0].Str] = idx
		}
		st := reflect.New(T).Elem()
		for _, k := range val.MapKeys() {
			id := k.String()
			pt, declared := props[id]
			idx, mapped := index[id]
			if !declared || !mapped {
				return out, false // an undeclared key has no field
			}
			f := c17xFieldAlloc(st, idx)
			c, ok := c17xConv(pt, sc, f.Type(), val.MapIndex(k))
			if !ok {
				return out, false
			}
			f.Set(c)
		}
		for id := range props {
			if val.MapIndex(reflect.ValueOf(id).Convert(val.Type().Key())).IsValid() {
				continue
			}
			ftp, _ := c17xFieldType(T, id)
			if ftp == nil || (ftp.Kind() != reflect.Pointer && ftp.Kind() != reflect.Interface) {
				return out, false // a non-pointer field cannot say "absent"
			}
		}
		res := st
		if si.List[2].Atom == "1" {
			p := reflect.New(T)
			p.Elem().Set(st)
			res = p
		}
		return c17xAdapt(res, ft)
	case "object":
		if _, isMap := val.Interface().(map[string]any); !isMap {
			return out, false
		}
		return c17xAdapt(val, ft)
	case "list":
		if val.Kind() != reflect.Slice || ft.Kind() != reflect.Slice {
			return out, false
		}
		res := reflect.MakeSlice(ft, val.Len(), val.Len())
		for i := 0; i < val.Len(); i++ {
			c, ok := c17xConv(xs.List[1], sc, ft.Elem(), val.Index(i))
			if !ok {
				return out, false
			}
			res.Index(i).Set(c)
		}
		return res, true
	case "map":
		if val.Kind() != reflect.Map || ft.Kind() != reflect.Map {
			return out, false
		}
		res := reflect.MakeMap(ft)
		for _, k := range val.MapKeys() {
			ck, ok := c17xConv(xs.List[1], sc, ft.Key(), k)
			if !ok {
				return out, false
			}
			cv, ok := c17xConv(xs.List[2], sc, ft.Elem(), val.MapIndex(k))
			if !ok {
				return out, false
			}
			res.SetMapIndex(ck, cv)
		}
		return res, true
	}
	return c17xScalar(ft, val)
}

func c17xScalar(ft reflect.Type, val reflect.Value) (reflect.Value, bool) {
	if ft.Kind() == reflect.Interface {
		return val, true
	}
	if ft.Kind() == reflect.Pointer {
		inner, ok := c17xScalar(ft.Elem(), val)
		if !ok {
			return inner, false
		}
		p := reflect.New(ft.Elem())
		p.Elem().Set(inner)
		return p, true
	}
	if c := c17xClass(val.Kind()); c == 0 || c != c17xClass(ft.Kind()) {
		return reflect.Value{}, false
	}
	return val.Convert(ft), true
}

// c17xNative: the struct form of a rendered native value, or nil.
func c17xNative(xs *sx.Node, nat *sx.Node) (res *sx.Node) {
	defer func() {
		if r := recover(); r != nil {
			res = nil
		}
	}()
	sc := scopeCtx{}
	root := xs
	if xs.Head() == "scope" {
		sc = scopeTable(xs)
		root = sc[xs.List[2].Str]
	}
	si := root.List[4]
	T := structTypes[si.List[1].Str]
	ft := T
	if si.List[2].Atom == "1" {
		ft = reflect.PointerTo(T)
	}
	v, ok := c17xConv(xs, sc, ft, rvalFromSx(nat))
	if !ok {
		return nil
	}
	return rvalSx(v)
}

func c17xCase(r *Rng, maxFaults int) *sx.Node {
	c17AnyAsTree = true
	defer func() { c17AnyAsTree = false }()
	g := &c17xg{r: r}
	s := g.schema()
	annotateX(s)
	er := eraseX(s)
	v := c17Valid(r, er, scopeCtx{}, 5, false)
	if v == nil {
		return nil
	}
	nat := c17xNative(s, c17Render(v, true, nil, false))
	if nat == nil {
		return nil
	}
	var faults []c17fault
	c17Faults(r, v, nil, false, &faults)
	for i := range faults {
		j := i + r.Intn(len(faults)-i)
		faults[i], faults[j] = faults[j], faults[i]
	}
	ops := []*sx.Node{op("u", c17Render(v, false, nil, false)), op("v", nat), op("s", nat)}
	expect := sx.L(sx.A("expect"), sx.A("ok"), sx.A("ok"), sx.A("ok"))
	n := 0
	for i := range faults {
		f := &faults[i]
		if n >= maxFaults {
			break
		}
		if f.mode == "u" {
			ops = append(ops, op("u", c17Render(v, false, f, false)))
			expect.Append(pathSx(f.kind, f.pos, f.path))
			n++
			continue
		}
		x := c17xNative(s, c17Render(v, true, f, false))
		if x == nil {
			continue
		}
		ops = append(ops, op("v", x), op("s", x))
		expect.Append(pathSx(f.kind, f.pos, f.path), pathSx(f.kind, f.pos, f.path))
		n++
	}
	l := sx.L(sx.A("ops"))
	l.Append(ops...)
	return sx.L(sx.A("c17x"), mkEnv(nil, s, ops), structTable(s, l), s, l, expect)
}

func init() {
	families["c17struct"] = &Family{
		Label: "c17x",
		Gen: func(r *Rng, tier string, emit func(*sx.Node)) {
			n, maxFaults := 120, 30
			if tier == "thorough" {
				n, maxFaults = 1500, 80
			}
			for i := 0; i < n; i++ {
				if c := c17xCase(r, maxFaults); c != nil {
					emit(c)
				}
			}
		},
		// payload positions 1..4 are ENV STRUCTS XSCHEMA (ops ...) as in family structobj; only u / v / s operations occur,
		// each evaluated twice on the same instance (c17_faults.go runC17Twice)
		Run: runC17Twice(3, 4),
	}
}
