package main

// C13 race engine, second part: trial kinds that need more than "generated scope x generated values".
//
//   (race ID errs fresh NG SCOPE (ops (u V)|(c V) ...))
//       ERROR results under concurrency.  Every input has AT MOST ONE fault, so the error a call returns
//       (constraint flag and PATH) is determined and is compared too; the isolated repetitions must agree
//       with each other as well (an error object shared between calls shows as a path that grows from
//       call to call, already sequentially).
//   (race ID structs VARIANT NG none (ops (u V)|(rt V) ...))
//       struct-mapped user objects nested three levels deep (root -> mid -> leaf, non-pointer fields,
//       defaults on the innermost), the sub-objects given, partly given or omitted.
//   (race ID xstruct fresh NG XSCHEMA (ops (u V)|(v V)|(s V)|(c V) ...))
//       GENERATED struct-mapped schemas from the shared generator of xstruct_gen.go in its `rich` mode: non-pointer
//       sub-objects by value and by reference, two and three levels deep (a plain object in the middle), member
//       properties with defaults, object-typed properties that declare a full / PARTIAL / empty object default of
//       their own; the first operations omit every member (the sub-object default propagation runs on first use).
//   (race ID schema fresh|rebuilt NG SCOPE (ops ... (cs) ...))
//       (cs): ANOTHER instance's ValidateCompatibility with the shared scope as its ARGUMENT — a read-only
//       use of the shared schema by a third party — while the other goroutines use that scope.

import (
	"fmt"
	"reflect"

	"go.flow.arcalot.io/pluginsdk/schema"
	"verif/harness/sx"
)

// ---- the struct family ----

type C13Leaf struct {
	Color string `json:"color"`
	Size  int64  `json:"size"`
}
type C13Mid struct {
	Leaf C13Leaf `json:"leaf"`
	Name string  `json:"name"`
}
type C13Root struct {
	Mid C13Mid `json:"mid"`
	Tag string `json:"tag"`
}

func init() {
	registerStruct(reflect.TypeOf(C13Leaf{}))
	registerStruct(reflect.TypeOf(C13Mid{}))
	registerStruct(reflect.TypeOf(C13Root{}))
}

var c13StructVariants = []string{"ref", "inline", "ref-nd", "inline-nd"}

// c13StructScope: VARIANT = ref | inline (sub-objects through references of the scope / as object-typed
// properties), suffix -nd: the middle object has no default of its own (its decoded-default map is empty).
// No property that holds a struct has a default itself: that is D43's class (open known finding).
func c13StructScope(variant string) *schema.ScopeSchema {
	opt := func(t schema.Type, dflt *string) *schema.PropertySchema {
		return schema.NewPropertySchema(t, nil, false, nil, nil, nil, dflt, nil)
	}
	inline := variant == "inline" || variant == "inline-nd"
	var nameDefault *string
	if variant == "ref" || variant == "inline" {
		nameDefault = sp(`"m"`)
	}
	leaf := schema.NewStructMappedObjectSchema[C13Leaf]("leaf", map[string]*schema.PropertySchema{
		"color": opt(schema.NewStringSchema(nil, ip(8), nil), sp(`"red"`)),
		"size":  opt(schema.NewIntSchema(ip(0), ip(100), nil), sp(`3`)),
	})
	var leafT, midT schema.Type = schema.NewRefSchema("leaf", nil), schema.NewRefSchema("mid", nil)
	if inline {
		leafT = leaf
	}
	mid := schema.NewStructMappedObjectSchema[C13Mid]("mid", map[string]*schema.PropertySchema{
		"leaf": opt(leafT, nil),
		"name": opt(schema.NewStringSchema(nil, nil, nil), nameDefault),
	})
	if inline {
		midT = mid
	}
	root := schema.NewStructMappedObjectSchema[C13Root]("root", map[string]*schema.PropertySchema{
		"mid": opt(midT, nil),
		"tag": opt(schema.NewStringSchema(nil, nil, nil), nil),
	})
	if inline {
		return schema.NewScopeSchema(root)
	}
	return schema.NewScopeSchema(root, mid, leaf)
}

func c13StructOp(s *schema.ScopeSchema, op *sx.Node) string {
	v := valFromSx(op.List[1])
	switch op.Head() {
	case "u":
		return c13Out(func() (*sx.Node, error) {
			r, err := s.Unserialize(v)
			if err != nil {
				return nil, err
			}
			return valSx(r), nil
		})
	case "rt": // unserialize, then validate and serialize what came out
		return c13Out(func() (*sx.Node, error) {
			r, err := s.Unserialize(v)
			if err != nil {
				return nil, err
			}
			if err := s.Validate(r); err != nil {
				return sx.L(sx.A("validate-rejects"), valSx(r)), nil
			}
			w, err := s.Serialize(r)
			if err != nil {
				return sx.L(sx.A("serialize-rejects"), valSx(r)), nil
			}
			return sx.L(valSx(r), valSx(w)), nil
		})
	}
	return "bad-op"
}

// c13ErrOut: like c13Out, but an error keeps its constraint flag and path (single-fault inputs only).
func c13ErrOut(f func() (*sx.Node, error)) (res string) {
	defer func() {
		if r := recover(); r != nil {
			res = "panic"
		}
	}()
	v, err := f()
	if err != nil {
		return errSx(err).String()
	}
	return "(ok " + v.String() + ")"
}

func c13ErrOp(s schema.Type, op *sx.Node) string {
	v := valFromSx(op.List[1])
	switch op.Head() {
	case "u":
		return c13ErrOut(func() (*sx.Node, error) {
			r, err := s.Unserialize(v)
			if err != nil {
				return nil, err
			}
			return valSx(r), nil
		})
	case "c":
		return c13ErrOut(func() (*sx.Node, error) { return unit(), s.ValidateCompatibility(v) })
	}
	return "bad-op"
}

// runRaceTrial2 handles the kinds of this file; nil = not one of them.
func runRaceTrial2(id string, p *sx.Node) *sx.Node {
	switch p.List[2].Atom {
	case "structs":
		variant, ng := p.List[3].Atom, int(p.List[4].Int())
		ops := p.List[6].List[1:]
		want := make([][]string, len(ops))
		for rep := 0; rep < c13IsoReps; rep++ {
			iso := c13StructScope(variant)
			for i, op := range ops {
				want[i] = append(want[i], c13StructOp(iso, op))
			}
		}
		shared := c13StructScope(variant)
		return c13Race(id, ng, len(ops), want, func(i int) string { return c13StructOp(shared, ops[i]) })
	case "xstruct":
		ng, desc := int(p.List[4].Int()), p.List[5]
		ops := p.List[6].List[1:]
		want := make([][]string, len(ops))
		for rep := 0; rep < c13IsoReps; rep++ {
			iso := buildSchema(desc)
			for i, op := range ops {
				want[i] = append(want[i], c13SchemaOp(iso, nil, op))
			}
		}
		shared := buildSchema(desc)
		return c13Race(id, ng, len(ops), want, func(i int) string { return c13SchemaOp(shared, nil, ops[i]) })
	case "errs":
		ng, desc := int(p.List[4].Int()), p.List[5]
		ops := p.List[6].List[1:]
		want := make([][]string, len(ops))
		for rep := 0; rep < c13IsoReps; rep++ {
			iso := buildScope(desc)
			for i, op := range ops {
				want[i] = append(want[i], c13ErrOp(iso, op))
			}
		}
		// single-fault inputs: the isolated result is determined, so the repetitions must agree
		for i := range ops {
			for _, w := range want[i][1:] {
				if w != want[i][0] {
					return sx.L(sx.A("t"), sx.A(id), sx.L(sx.A("diff"), sx.L(sx.I(-1), sx.I(int64(i)), sx.S(w), sx.S(want[i][0]))))
				}
			}
		}
		shared := buildScope(desc)
		return c13Race(id, ng, len(ops), want, func(i int) string { return c13ErrOp(shared, ops[i]) })
	}
	return nil
}

// ---- generation ----

var c13StructInputs = []*sx.Node{
	vM(tAnyMap),
	vM(tStrMap),
	vM(tAnyMap, vS("tag"), vS("t")),
	vM(tAnyMap, vS("mid"), vM(tStrMap)),
	vM(tStrMap, vS("mid"), vM(tStrMap, vS("name"), vS("x"))),
	vM(tAnyMap, vS("mid"), vM(tStrMap, vS("leaf"), vM(tStrMap))),
	vM(tAnyMap, vS("mid"), vM(tStrMap, vS("leaf"), vM(tStrMap, vS("color"), vS("blue")))),
	vM(tStrMap, vS("mid"), vM(tStrMap, vS("leaf"), vM(tStrMap, vS("size"), vI("i64", 7))), vS("tag"), vS("q")),
	vM(tAnyMap, vS("mid"), vM(tStrMap, vS("leaf"), vM(tStrMap, vS("size"), vS("bad")))),
	vM(tAnyMap, vS("mid"), vM(tStrMap, vS("leaf"), vM(tStrMap, vS("color"), vS("much too long")))),
	vM(tAnyMap, vS("zz"), vI("i64", 1)),
}

func c13GenStructs(r *Rng, id *sx.Node, ng int) *sx.Node {
	ops := sx.L(sx.A("ops"))
	// the sub-objects omitted: at least twice, first
	ops.Append(op("u", c13StructInputs[r.Intn(3)]), op("rt", c13StructInputs[r.Intn(3)]))
	for j := 0; j < 2+r.Intn(4); j++ {
		ops.Append(op(pick(r, []string{"u", "rt"}), pick(r, c13StructInputs)))
	}
	return sx.L(sx.A("race"), id, sx.A("structs"), sx.A(pick(r, c13StructVariants)), sx.I(int64(ng)), none(), ops)
}

// c13GenXStruct: a struct-mapped schema of the shared generator (rich mode), bare or as the root of a scope whose
// members are referenced; no recursive member (D52 is C04's).
func c13GenXStruct(r *Rng, id *sx.Node, ng int) *sx.Node {
	g := &xgen{r: r, rich: true, scope: r.Chance(40)}
	name := pick(r, []string{"XNested", "XNested", "XDeep", "XMid", "XMid", "XLoose", "XColl"})
	ptr := r.Chance(25)
	root := g.object("Root", ptr, name)
	s := root
	if g.scope {
		sub := &xgen{r: r, rich: true}
		xi := sub.innerObj(false)
		xi.List[1] = sx.S("XI")
		a := dObject("A", false, propD{name: "x", t: dInt(nil, nil, nil)}, propD{name: "v", t: dInt(nil, nil, nil), dflt: sp("4")})
		s = dScope("Root", root, xi, a)
	}
	annotateX(s)
	er := eraseX(s)
	sc := scopeCtx{}
	if er.Head() == "scope" {
		sc = scopeTable(er)
	}
	ops := sx.L(sx.A("ops"))
	// every member omitted: at least twice, first
	ops.Append(op("u", vM(tAnyMap)), op("u", vM(tStrMap)))
	for j := 0; j < 2+r.Intn(3); j++ {
		v := rawFor(r, er, sc, 3)
		ops.Append(op("u", v))
		if r.Chance(30) {
			ops.Append(op("c", v))
		}
	}
	xn := &xnat{r: r, sc: scopeCtx{}}
	if s.Head() == "scope" {
		xn.sc = scopeTable(s)
	}
	rootN := xn.resolve(s)
	t := structTypes[name]
	v := xn.valFor(t, rootN, 2)
	var nat any = v.Interface()
	if ptr {
		pv := reflect.New(t)
		pv.Elem().Set(v)
		nat = pv.Interface()
	}
	ops.Append(op("v", valSx(nat)), op("s", valSx(nat)))
	return sx.L(sx.A("race"), id, sx.A("xstruct"), sx.A("fresh"), sx.I(int64(ng)), s, ops)
}

// c13GenErrs: a scope with ONE fault site 1-3 objects deep (inline objects or references) and inputs that are
// valid everywhere else.
func c13GenErrs(r *Rng, id *sx.Node, ng int) *sx.Node {
	var fp propD
	var bad, good *sx.Node
	switch pick(r, []int{0, 0, 0, 1, 2, 3, 4}) {
	case 0: // disabled without a reason, the property is set
		fp, bad = propD{name: pick(r, []string{"legacy", "old"}), t: dString(nil, nil, nil), disabled: true, noReason: true}, vS("x")
	case 1: // disabled with a reason
		fp, bad = propD{name: "legacy", t: dInt(nil, nil, nil), disabled: true}, vI("i64", 1)
	case 2: // out of range
		fp, bad, good = propD{name: "n", t: dInt(ip(0), ip(10), nil)}, vI("i64", 99), vI("i64", 5)
	case 3: // required and missing
		fp, good = propD{name: "req", t: dString(nil, nil, nil), required: true}, vS("r")
	default: // too long
		fp, bad, good = propD{name: "s", t: dString(nil, ip(3), nil)}, vS("too long"), vS("ok")
	}
	depth := r.Intn(3)
	useRef := r.Bool()
	objs := []*sx.Node{dObject("L0", false, fp, propD{name: "name", t: dString(nil, nil, nil)})}
	for i := 1; i <= depth; i++ {
		var sub *sx.Node
		if useRef {
			sub = dRef(fmt.Sprintf("L%d", i-1), "")
		} else {
			sub = objs[i-1]
		}
		objs = append(objs, dObject(fmt.Sprintf("L%d", i), false, propD{name: "sub", t: sub}, propD{name: "k", t: dInt(nil, nil, nil)}))
	}
	var scope *sx.Node
	if useRef {
		all := []*sx.Node{}
		for i := depth; i >= 0; i-- {
			all = append(all, objs[i])
		}
		scope = dScope(fmt.Sprintf("L%d", depth), all...)
	} else {
		scope = dScope(fmt.Sprintf("L%d", depth), objs[depth])
	}
	value := func(leaf *sx.Node) *sx.Node {
		kv := []*sx.Node{vS("name"), vS("n")}
		if leaf != nil {
			kv = append(kv, vS(fp.name), leaf)
		}
		v := vM(tAnyMap, kv...)
		for i := 1; i <= depth; i++ {
			v = vM(tAnyMap, vS("k"), vI("i64", int64(i)), vS("sub"), v)
		}
		return v
	}
	ops := sx.L(sx.A("ops"))
	ops.Append(op("u", value(bad)), op("c", value(bad)), op("u", value(good)), op("u", value(bad)))
	if r.Bool() {
		ops.Append(op("c", value(good)), op("c", value(bad)))
	}
	return sx.L(sx.A("race"), id, sx.A("errs"), sx.A("fresh"), sx.I(int64(ng)), scope, ops)
}

// c13GenCompat: an acyclic scope tree with references (the C14 generator without external namespaces) used by
// Unserialize / Validate / Serialize while other instances run ValidateCompatibility AGAINST it.
func c13GenCompat(r *Rng, id *sx.Node, ng int) *sx.Node {
	g := &c14gen{r: r, extOK: false}
	depth := 1 + r.Intn(2)
	s := g.scope(depth, true)
	kind := "fresh"
	if r.Chance(40) && c13Rebuildable(s) {
		kind = "rebuilt"
	}
	ops := c13SchemaOps(r, s, depth, 2+r.Intn(3))
	out := sx.L(sx.A("ops"))
	for i, o := range ops.List[1:] {
		if i%2 == 0 {
			out.Append(sx.L(sx.A("cs")))
		}
		out.Append(o)
	}
	out.Append(sx.L(sx.A("cs")))
	return sx.L(sx.A("race"), id, sx.A("schema"), sx.A(kind), sx.I(int64(ng)), s, out)
}
