package main

import (
	"math/big"
	"strconv"

	"github.com/fxamacker/cbor/v2"
)

func fmtG(x float64) string { return strconv.FormatFloat(x, 'g', -1, 64) }
func cborTag() any          { return cbor.Tag{Number: 1, Content: uint64(5)} }
func bigInt() any           { return *big.NewInt(5) }
