package main

import (
	"math"
	"sort"
	"strconv"
	"strings"

	"go.flow.arcalot.io/pluginsdk/schema"
	"verif/harness/sx"
)

// C12 (purity): families `c12pure` (label c12, modelled) and `c12struct` (label c12s, direct only).
//
//   case  (c12 ENV SCHEMA (coll B) (calls OP...))        OP ::= (u V) | (v V) | (s V) | (c V)
//   obs   (r (coll B) (CLS same|differs kept|mutated)... (state same|changed) (after same|differs))
//
// Every call of the history is evaluated c12Reps times on ONE schema instance, each time on a FRESHLY
// BUILT argument (new Go maps: the runtime re-randomises their iteration order, and the schema's own
// maps are ranged over anew on every call): the projected results (outcome class; canonical value
// for ok) must all be equal -> same.  The argument is printed canonically before and after each
// evaluation -> kept.  After the history the observable state of the instance (the decoded defaults
// GetDefaults() of every object it contains) is compared with its state before the history and with a
// freshly built instance -> state; and every call of the history plus a probe input is evaluated on
// the used instance and on the fresh one -> after.
// `coll` is the generator's evaluation of the class of known finding D19 (two keys of one map that
// read the same after conversion); the model prints its own (C12.has_key_collision).

const c12Reps = 20

type c12HasItems interface{ Items() schema.Type }
type c12HasKV interface {
	Keys() schema.Type
	Values() schema.Type
}
type c12TypesS interface{ Types() map[string]schema.Object }
type c12TypesI interface{ Types() map[int64]schema.Object }

// c12Objects collects every object schema reachable from t (through references too).
func c12Objects(t schema.Type, seen map[*schema.ObjectSchema]bool, out *[]*schema.ObjectSchema) {
	switch x := t.(type) {
	case *schema.ObjectSchema:
		if seen[x] {
			return
		}
		seen[x] = true
		*out = append(*out, x)
		for _, p := range x.PropertiesValue {
			c12Objects(p.Type(), seen, out)
		}
		return
	case *schema.ScopeSchema:
		for _, o := range x.ObjectsValue {
			c12Objects(o, seen, out)
		}
		return
	case *schema.RefSchema:
		if x.ObjectReady() {
			c12Objects(x.GetObject(), seen, out)
		}
		return
	}
	if l, ok := t.(c12HasItems); ok {
		c12Objects(l.Items(), seen, out)
	}
	if m, ok := t.(c12HasKV); ok {
		c12Objects(m.Keys(), seen, out)
		c12Objects(m.Values(), seen, out)
	}
	if o, ok := t.(c12TypesS); ok {
		for _, m := range o.Types() {
			c12Objects(m, seen, out)
		}
	}
	if o, ok := t.(c12TypesI); ok {
		for _, m := range o.Types() {
			c12Objects(m, seen, out)
		}
	}
}

// c12State: the observable state of an instance: id and decoded defaults of every object, sorted.
func c12State(t schema.Type) string {
	var objs []*schema.ObjectSchema
	c12Objects(t, map[*schema.ObjectSchema]bool{}, &objs)
	var lines []string
	for _, o := range objs {
		lines = append(lines, o.ID()+"="+c12Canon(o.GetDefaults()))
	}
	sort.Strings(lines)
	return strings.Join(lines, ";")
}

// c12Canon prints a value canonically even when a map holds keys that compare equal in the shared
// printer's order (int64 1 and uint8 1): entries are sorted by their own canonical text.
func c12Canon(v any) string { return c12CanonSx(valSx(v)).String() }
func c12CanonSx(n *sx.Node) *sx.Node {
	if !n.IsList() {
		return n
	}
	out := sx.L()
	for _, c := range n.List {
		out.Append(c12CanonSx(c))
	}
	if n.Head() == "m" && len(out.List) > 3 {
		ent := out.List[3:]
		sort.SliceStable(ent, func(i, j int) bool { return ent[i].String() < ent[j].String() })
	}
	return out
}

// c12Eval runs one call and returns the projected result and whether the argument was left alone.
func c12Eval(s schema.Type, o *sx.Node) (res string, kept bool) {
	arg := valFromSx(o.List[1])
	before := c12Canon(arg)
	var val any
	var hasVal bool
	cls := c04Class(func() error {
		switch o.Head() {
		case "u":
			r, err := s.Unserialize(arg)
			val, hasVal = r, err == nil
			return err
		case "v":
			return s.Validate(arg)
		case "s":
			r, err := s.Serialize(arg)
			val, hasVal = r, err == nil
			return err
		default:
			return s.ValidateCompatibility(arg)
		}
	})
	res = cls.Atom
	if hasVal && cls.IsAtom("ok") {
		res += " " + c12Canon(val)
	}
	return res, c12Canon(arg) == before
}

func c12RunHistory(mk func() schema.Type, calls []*sx.Node, probes []*sx.Node, classOf func(string) *sx.Node) []*sx.Node {
	s := mk()
	state0 := c12State(s)
	var out []*sx.Node
	unstable := map[string]bool{} // calls whose own repetitions disagreed: nothing to compare later
	for _, o := range calls {
		first, keptAll := c12Eval(s, o)
		same := true
		for i := 1; i < c12Reps; i++ {
			r, kept := c12Eval(s, o)
			if r != first {
				same = false
			}
			keptAll = keptAll && kept
		}
		cls := first
		if i := strings.IndexByte(first, ' '); i >= 0 {
			cls = first[:i]
		}
		n := sx.L(classOf(cls))
		if same {
			n.Append(sx.A("same"))
		} else {
			n.Append(sx.A("differs"))
			unstable[o.String()] = true
		}
		if keptAll {
			n.Append(sx.A("kept"))
		} else {
			n.Append(sx.A("mutated"))
		}
		out = append(out, n)
	}
	fresh := mk()
	st := "same"
	if c12State(s) != state0 || c12State(s) != c12State(fresh) {
		st = "changed"
	}
	out = append(out, sx.L(sx.A("state"), sx.A(st)))
	after := "same"
	for _, o := range append(append([]*sx.Node{}, calls...), probes...) {
		if unstable[o.String()] {
			continue
		}
		// a call whose result depends on map order (D19) has several possible results on either instance:
		// history dependence is "no result in common"
		used, freshR := map[string]bool{}, map[string]bool{}
		for i := 0; i < c12Reps; i++ {
			a, _ := c12Eval(s, o)
			b, _ := c12Eval(fresh, o)
			used[a], freshR[b] = true, true
		}
		common := false
		for a := range used {
			if freshR[a] {
				common = true
			}
		}
		if !common {
			after = "differs"
		}
	}
	out = append(out, sx.L(sx.A("after"), sx.A(after)))
	return out
}


// ---- the class of D19: two keys of one map that read the same after conversion ----
func c12KeyText(k *sx.Node) (string, bool) {
	if !k.IsList() {
		return "", false
	}
	switch k.Head() {
	case "i":
		return k.List[2].Atom, true
	case "s":
		return k.List[2].Str, true
	case "b":
		return k.List[2].Atom, true // int mapper: true / false read as 1 / 0
	case "f":
		v := flFromSx(k.List[2])
		if v == math.Trunc(v) && math.Abs(v) < 9.2e18 {
			return strconv.FormatInt(int64(v), 10), true
		}
	}
	return "", false
}
func c12Collides(v *sx.Node) bool {
	if !v.IsList() {
		return false
	}
	if v.Head() == "m" {
		seen := map[string]bool{}
		for _, e := range v.List[3:] {
			if t, ok := c12KeyText(e.List[0]); ok {
				if seen[t] {
					return true
				}
				seen[t] = true
			}
		}
	}
	for _, c := range v.List {
		if c12Collides(c) {
			return true
		}
	}
	return false
}

func c12Case(sc c04Schema, calls []*sx.Node) *sx.Node {
	coll := false
	for _, o := range calls {
		coll = coll || c12Collides(o.List[1])
	}
	l := sx.L(sx.A("calls"))
	l.Append(calls...)
	return sx.L(sx.A("c12"), mkEnv(sc.ext, sc.s, calls), sc.s, sx.L(sx.A("coll"), sx.B(coll)), l)
}

func c12History(r *Rng, sc c04Schema, n int) []*sx.Node {
	tab := scopeCtx{}
	if sc.s.Head() == "scope" {
		tab = scopeTable(sc.s)
	}
	pool := c04Pool()
	var calls []*sx.Node
	for len(calls) < n {
		raw := rawFor(r, sc.s, tab, 3)
		switch r.Intn(10) {
		case 0, 1, 2:
			calls = append(calls, op("u", raw))
		case 3:
			calls = append(calls, op("c", raw))
		case 4: // a failing call
			calls = append(calls, op(pick(r, []string{"u", "c", "v", "s"}), mutate(r, raw)))
		case 5: // an arbitrary value somewhere in a valid tree
			pos := c04Positions(raw)
			p := pick(r, pos)
			pv := pick(r, pool)
			if p.isKey && (!pv.hashable || c04KeyClash(raw, p.path, pv.v)) {
				continue
			}
			calls = append(calls, op(pick(r, []string{"u", "c"}), c04Replace(raw, p.path, pv.v)))
		case 6: // the empty map: fills every default
			calls = append(calls, op("u", vM(tAnyMap)))
		default:
			if native := c04NativeOf(sc, raw); native != nil {
				calls = append(calls, op(pick(r, []string{"v", "s", "s"}), native))
			} else {
				calls = append(calls, op("u", raw))
			}
		}
	}
	return calls
}

func init() {
	families["c12pure"] = &Family{
		Label: "c12",
		Gen: func(r *Rng, tier string, emit func(*sx.Node)) {
			nPer, nGen := 5, 450
			if tier == "thorough" {
				nPer, nGen = 12, 4000
			}
			var safe []c04Schema
			for _, sc := range c04FixedSchemas() {
				if !c04InlineCycle(sc.s, sc.ext) && !sc.defaultCyc {
					safe = append(safe, sc)
				}
			}
			// D19 witnesses: colliding keys under an int-keyed map, an `any`, a string-keyed map
			i1 := dMap(dInt(nil, nil, nil), dAny(), nil, nil)
			emit(c12Case(c04Schema{s: i1}, []*sx.Node{op("u", vM(tAnyMap, vI("i64", 1), vS("a"), vS("1"), vS("b"))), op("c", vM(tAnyMap, vI("i64", 1), vS("a"), vS("1"), vS("b")))}))
			emit(c12Case(c04Schema{s: dAny()}, []*sx.Node{op("u", vM(tAnyMap, vI("i64", 1), vS("a"), vU("u8", 1), vS("b"))), op("s", vM(tAnyMap, vI("i64", 1), vS("a"), vU("u8", 1), vS("b")))}))
			emit(c12Case(c04Schema{s: dMap(dString(nil, nil, nil), dAny(), nil, nil)}, []*sx.Node{op("u", vM(tAnyMap, vI("i64", 1), vS("a"), vS("1"), vS("b")))}))
			for _, sc := range safe {
				for i := 0; i < nPer; i++ {
					emit(c12Case(sc, c12History(r, sc, 1+r.Intn(12))))
				}
			}
			for i := 0; i < nGen; i++ {
				g := &sgen{r: r}
				depth := 1 + r.Intn(3)
				var s *sx.Node
				if r.Chance(75) {
					s = g.scope(depth)
				} else {
					s = g.typ(depth)
				}
				sc := c04Schema{s: s}
				if c04InlineCycle(s, nil) {
					continue
				}
				emit(c12Case(sc, c12History(r, sc, 1+r.Intn(12))))
			}
		},
		Run: func(p *sx.Node) *sx.Node {
			mk := func() schema.Type { return buildWithEnv(p.List[1], p.List[2]) }
			calls := p.List[4].List[1:]
			probes := []*sx.Node{op("u", vM(tAnyMap)), op("u", vM(tStrMap)), op("u", vNil())}
			res := sx.L(sx.A("r"), p.List[3])
			res.Append(c12RunHistory(mk, calls, probes, func(c string) *sx.Node { return sx.A(c) })...)
			return res
		},
	}

	families["c12struct"] = &Family{
		Label: "c12s",
		Gen: func(r *Rng, tier string, emit func(*sx.Node)) {
			nPer := 12
			if tier == "thorough" {
				nPer = 150
			}
			pool := c04Pool()
			natives := c04StructNatives()
			for _, name := range sortedKeys(func() map[string]bool {
				m := map[string]bool{}
				for k := range c04StructSchemas {
					if k != "holder-recursive-member" { // D52 (C04): every such call kills the process
						m[k] = true
					}
				}
				return m
			}()) {
				for i := 0; i < nPer; i++ {
					n := 1 + r.Intn(12)
					l := sx.L(sx.A("calls"))
					for len(l.List)-1 < n {
						raw := c04StructRaw(r)
						switch r.Intn(8) {
						case 0:
							l.Append(op("u", vM(tAnyMap))) // fills every default
						case 1:
							l.Append(op("u", vM(tStrMap, vS("name"), vS("x"))))
						case 2:
							pos := pick(r, c04Positions(raw))
							pv := pick(r, pool)
							if pos.isKey && (!pv.hashable || c04KeyClash(raw, pos.path, pv.v)) {
								continue
							}
							l.Append(op(pick(r, []string{"u", "c"}), c04Replace(raw, pos.path, pv.v)))
						case 3:
							l.Append(op(pick(r, []string{"v", "s", "c"}), pick(r, natives)))
						case 4:
							l.Append(op("c", raw))
						default:
							l.Append(op("u", raw))
						}
					}
					emit(sx.L(sx.A("c12s"), sx.S(name), l))
				}
			}
		},
		Run: func(p *sx.Node) *sx.Node {
			mk, ok := c04StructSchemas[p.List[1].Str]
			if !ok {
				return sx.L(sx.A("bad"), sx.S("unknown struct schema"))
			}
			probes := []*sx.Node{op("u", vM(tAnyMap)), op("u", vM(tStrMap, vS("n"), vI("i64", 2))), op("u", vNil())}
			res := sx.L(sx.A("r"))
			res.Append(c12RunHistory(mk, p.List[2].List[1:], probes, func(c string) *sx.Node {
				if c == "ok" || c == "err" {
					return sx.A("t")
				}
				return sx.A(c)
			})...)
			return res
		},
	}
}
