package main

import (
	"fmt"
	"math"
	"reflect"
	"regexp"
	"sort"
	"strconv"
	"strings"

	"go.flow.arcalot.io/pluginsdk/schema"
	"verif/harness/sx"
)

// C12 (purity): families `c12pure` (label c12, modelled) and `c12struct` (label c12s, direct only).
//
//   case  (c12 ENV SCHEMA (coll B) (calls OP...))        OP ::= (u V) | (v V) | (s V) | (c V) | (cs SCHEMA2)
//         (cs SCHEMA2): ValidateCompatibility with a SCHEMA as argument, built afresh for every evaluation; its
//         outcome class is projected to `t` (the verdict itself is C15's business), the purity flags are not.
//   obs   (r (coll B) (CLS same|differs kept|mutated)... (state same|changed) (after same|differs) (desc same|changed))
//         desc: the self-description of the instance (every property's flags, default text and rule lists in the order the
//         schema holds them; SelfSerialize of a scope) after EVERY call of the history, failing ones included, and of a
//         fresh instance, compared with the one taken before the first call
//
// Every call of the history is evaluated c12Reps times on ONE schema instance, each time on a FRESHLY
// BUILT argument (new Go maps: the runtime re-randomises their iteration order, and the schema's own
// maps are ranged over anew on every call): the projected results (outcome class; canonical value
// for ok) must all be equal -> same.  The argument is printed canonically before and after each
// evaluation -> kept.  After the history the observable state of the instance (the decoded defaults
// GetDefaults() of every object it contains) is compared with its state before the history and with a
// freshly built instance -> state; and every call of the history plus a probe input is evaluated on
// the used instance and on the fresh one -> after.
// `coll` is the generator's evaluation of the class of known finding D19 (two keys of one map that
// read the same after conversion); the model prints its own (C12.has_key_collision).

const c12Reps = 20

type c12HasItems interface{ Items() schema.Type }
type c12HasKV interface {
	Keys() schema.Type
	Values() schema.Type
}
type c12TypesS interface{ Types() map[string]schema.Object }
type c12TypesI interface{ Types() map[int64]schema.Object }

// c12Objects collects every object schema reachable from t (through references too).
func c12Objects(t schema.Type, seen map[*schema.ObjectSchema]bool, out *[]*schema.ObjectSchema) {
	switch x := t.(type) {
	case *schema.ObjectSchema:
		if seen[x] {
			return
		}
		seen[x] = true
		*out = append(*out, x)
		for _, p := range x.PropertiesValue {
			c12Objects(p.Type(), seen, out)
		}
		return
	case *schema.ScopeSchema:
		for _, o := range x.ObjectsValue {
			c12Objects(o, seen, out)
		}
		return
	case *schema.RefSchema:
		if x.ObjectReady() {
			c12Objects(x.GetObject(), seen, out)
		}
		return
	}
	if l, ok := t.(c12HasItems); ok {
		c12Objects(l.Items(), seen, out)
	}
	if m, ok := t.(c12HasKV); ok {
		c12Objects(m.Keys(), seen, out)
		c12Objects(m.Values(), seen, out)
	}
	if o, ok := t.(c12TypesS); ok {
		for _, m := range o.Types() {
			c12Objects(m, seen, out)
		}
	}
	if o, ok := t.(c12TypesI); ok {
		for _, m := range o.Types() {
			c12Objects(m, seen, out)
		}
	}
}

// c12Desc: the self-description of an instance: of every object it contains, every property with its flags, its
// default text and its rule lists IN THE ORDER THE SCHEMA HOLDS THEM (what SelfSerialize prints); for a scope
// SelfSerialize itself as well.
func c12Desc(t schema.Type) (res string) {
	defer func() {
		if r := recover(); r != nil {
			res = "panic"
		}
	}()
	var objs []*schema.ObjectSchema
	c12Objects(t, map[*schema.ObjectSchema]bool{}, &objs)
	var lines []string
	for _, o := range objs {
		var ps []string
		for name, p := range o.PropertiesValue {
			d := "-"
			if p.Default() != nil {
				d = *p.Default()
			}
			ps = append(ps, fmt.Sprintf("%s:%s req=%v if=%q ifnot=%q confl=%q dflt=%s ex=%q dis=%v", name, p.TypeID(), p.Required(),
				p.RequiredIf(), p.RequiredIfNot(), p.Conflicts(), d, p.Examples(), p.Disabled))
		}
		sort.Strings(ps)
		lines = append(lines, o.ID()+"{"+strings.Join(ps, ";")+"}")
	}
	sort.Strings(lines)
	res = strings.Join(lines, "\n")
	if sc, ok := t.(*schema.ScopeSchema); ok {
		if d, err := sc.SelfSerialize(); err == nil {
			res += "\nself=" + c12Canon(d)
		} else {
			res += "\nself=err"
		}
	}
	return res
}

// c12State: the observable state of an instance: id and decoded defaults of every object, sorted.
func c12State(t schema.Type) string {
	var objs []*schema.ObjectSchema
	c12Objects(t, map[*schema.ObjectSchema]bool{}, &objs)
	var lines []string
	for _, o := range objs {
		lines = append(lines, o.ID()+"="+c12Canon(o.GetDefaults()))
	}
	sort.Strings(lines)
	return strings.Join(lines, ";")
}

// c12Canon prints a value canonically even when a map holds keys that compare equal in the shared
// printer's order (int64 1 and uint8 1): entries are sorted by their own canonical text.
func c12Canon(v any) string { return c12CanonSx(valSx(v)).String() }
func c12CanonSx(n *sx.Node) *sx.Node {
	if !n.IsList() {
		return n
	}
	out := sx.L()
	for _, c := range n.List {
		out.Append(c12CanonSx(c))
	}
	if n.Head() == "m" && len(out.List) > 3 {
		ent := out.List[3:]
		sort.SliceStable(ent, func(i, j int) bool { return ent[i].String() < ent[j].String() })
	}
	return out
}

// c12Eval runs one call and returns the projected result and whether the argument was left alone.
func c12Eval(s schema.Type, o *sx.Node) (res string, kept bool) {
	if o.Head() == "cs" {
		var arg schema.Type
		before := ""
		cls := c04Class(func() error {
			arg = buildSchema(o.List[1])
			before = c12State(arg)
			return s.ValidateCompatibility(arg)
		})
		kept = true
		if arg != nil && cls.Atom != "panic" {
			func() {
				defer func() { _ = recover() }()
				kept = c12State(arg) == before
			}()
		}
		return cls.Atom, kept
	}
	arg := valFromSx(o.List[1])
	before := c12Canon(arg)
	var val any
	var hasVal bool
	cls := c04Class(func() error {
		switch o.Head() {
		case "u":
			r, err := s.Unserialize(arg)
			val, hasVal = r, err == nil
			return err
		case "v":
			return s.Validate(arg)
		case "s":
			r, err := s.Serialize(arg)
			val, hasVal = r, err == nil
			return err
		default:
			return s.ValidateCompatibility(arg)
		}
	})
	res = cls.Atom
	if hasVal && cls.IsAtom("ok") {
		res += " " + c12Canon(val)
	}
	kept = c12Canon(arg) == before
	if hasVal {
		// the result belongs to the CALLER (a step handler works on its input): after it was printed the harness writes
		// into every list and map of it.  A result that shares memory with the schema's state (the decoded defaults) then
		// shows in GetDefaults (`state`) and in the next evaluation of the same call (`differs`, `after`)
		func() {
			defer func() { _ = recover() }()
			c12Scribble(val, 0)
		}()
	}
	return res, kept
}

const c12ScribbleMark = "verif: the caller wrote here"

// c12Scribble writes into every []any / map[string]any / map[any]any reachable from a result through such containers.
func c12Scribble(v any, depth int) {
	if depth > 40 {
		return
	}
	switch x := v.(type) {
	case []any:
		for _, e := range x {
			c12Scribble(e, depth+1)
		}
		if len(x) > 0 {
			x[0] = c12ScribbleMark
		}
	case map[string]any:
		for _, e := range x {
			c12Scribble(e, depth+1)
		}
		x[c12ScribbleMark] = true
	case map[any]any:
		for _, e := range x {
			c12Scribble(e, depth+1)
		}
		x[c12ScribbleMark] = true
	}
}

// mkLit (may be nil): the same schema with its objects NOT built by a constructor (struct literals: the decoded-
// default cache still empty).  Every call of the history and every probe is evaluated once on such an instance,
// before anything else has touched it, and must answer like the constructor-built fresh instance.
func c12RunHistory(mk func() schema.Type, calls []*sx.Node, probes []*sx.Node, classOf func(string) *sx.Node, mkLit func() schema.Type) []*sx.Node {
	s := mk()
	state0 := c12State(s)
	desc0, desc := c12Desc(s), "same"
	// the unit caches (c12_units.go): expected content of every cell from a separate fresh instance; the used
	// instance is looked at (passively) after every call, rejected ones included
	unitsExp := c12UnitsExpected(mk())
	unitsOK := c12UnitsCoherent(s, unitsExp)
	var out []*sx.Node
	unstable := map[string]bool{} // calls whose own repetitions disagreed: nothing to compare later
	for _, o := range calls {
		first, keptAll := c12Eval(s, o)
		same := true
		for i := 1; i < c12Reps; i++ {
			r, kept := c12Eval(s, o)
			if r != first {
				same = false
			}
			keptAll = keptAll && kept
		}
		cls := first
		if i := strings.IndexByte(first, ' '); i >= 0 {
			cls = first[:i]
		}
		n := sx.L(classOf(cls))
		if o.Head() == "cs" && (cls == "ok" || cls == "err") {
			n = sx.L(sx.A("t"))
		}
		if same {
			n.Append(sx.A("same"))
		} else {
			n.Append(sx.A("differs"))
			unstable[o.String()] = true
		}
		if keptAll {
			n.Append(sx.A("kept"))
		} else {
			n.Append(sx.A("mutated"))
		}
		out = append(out, n)
		// the self-description after EVERY call of the history (failing ones included)
		if desc == "same" && c12Desc(s) != desc0 {
			desc = "changed"
		}
		unitsOK = unitsOK && c12UnitsCoherent(s, unitsExp)
	}
	fresh := mk()
	if c12Desc(fresh) != desc0 {
		desc = "changed"
	}
	st := "same"
	if c12State(s) != state0 || c12State(s) != c12State(fresh) {
		st = "changed"
	}
	after := "same"
	for _, o := range append(append([]*sx.Node{}, calls...), probes...) {
		if unstable[o.String()] {
			continue
		}
		// a call whose result depends on map order (D19) has several possible results on either instance:
		// history dependence is "no result in common"
		used, freshR := map[string]bool{}, map[string]bool{}
		for i := 0; i < c12Reps; i++ {
			a, _ := c12Eval(s, o)
			b, _ := c12Eval(fresh, o)
			used[a], freshR[b] = true, true
		}
		common := false
		for a := range used {
			if freshR[a] {
				common = true
			}
		}
		if !common {
			after = "differs"
		}
		// ... and once on an instance that has seen NOTHING - not even the earlier calls of this loop (a rejected call
		// among them that spoils the instance spoils `fresh` in the same way, and the two then agree again)
		{
			a, _ := c12Eval(mk(), o)
			if !used[a] {
				again := false
				for i := 0; i < c12Reps && !again; i++ {
					b, _ := c12Eval(s, o)
					again = b == a
				}
				if !again {
					after = "differs"
				}
			}
		}
		if mkLit != nil {
			// first use of an instance whose caches are still empty (one instance per call: nothing came before)
			lit := mkLit()
			a, _ := c12Eval(lit, o)
			if !freshR[a] {
				again := false // a map-order dependent call (D19) has several results: look at more of them
				for i := 0; i < c12Reps && !again; i++ {
					b, _ := c12Eval(fresh, o)
					again = b == a
				}
				if !again {
					after = "differs"
				}
			}
		}
	}
	// the public face of the unit caches: the Format functions of every units definition, used vs untouched instance
	if c12UnitsFormat(s) != c12UnitsFormat(mk()) {
		after = "differs"
	}
	if !unitsOK || !c12UnitsCoherent(s, unitsExp) || !c12UnitsCoherent(fresh, unitsExp) {
		st = "changed"
	}
	out = append(out, sx.L(sx.A("state"), sx.A(st)))
	out = append(out, sx.L(sx.A("after"), sx.A(after)))
	// ... and after the probes (the empty map leaves every property unset: the rejections of the presence rules)
	if c12Desc(s) != desc0 || c12Desc(fresh) != desc0 {
		desc = "changed"
	}
	out = append(out, sx.L(sx.A("desc"), sx.A(desc)))
	return out
}


// ---- the class of D19: two keys of one map that read the same after conversion ----
func c12KeyText(k *sx.Node) (string, bool) {
	if !k.IsList() {
		return "", false
	}
	switch k.Head() {
	case "i":
		return k.List[2].Atom, true
	case "s":
		return k.List[2].Str, true
	case "b":
		return k.List[2].Atom, true // int mapper: true / false read as 1 / 0
	case "f":
		v := flFromSx(k.List[2])
		if v == math.Trunc(v) && math.Abs(v) < 9.2e18 {
			return strconv.FormatInt(int64(v), 10), true
		}
	}
	return "", false
}
func c12Collides(v *sx.Node) bool {
	if !v.IsList() {
		return false
	}
	if v.Head() == "m" {
		seen := map[string]bool{}
		for _, e := range v.List[3:] {
			if t, ok := c12KeyText(e.List[0]); ok {
				if seen[t] {
					return true
				}
				seen[t] = true
			}
		}
	}
	for _, c := range v.List {
		if c12Collides(c) {
			return true
		}
	}
	return false
}

// c12MemberProbes: for every object-typed property of the root object (inline objects; one more level below them),
// the input that SUPPLIES that member as the empty map - what it then receives are the member object's own defaults,
// which an earlier call that omitted the member must not have changed.
func c12MemberProbes(root *sx.Node) []*sx.Node {
	var out []*sx.Node
	if root.Head() != "object" {
		return nil
	}
	for _, p := range root.List[3].List {
		t := p.List[1].List[1]
		if t.Head() != "object" {
			continue
		}
		out = append(out, op("u", vM(tAnyMap, vS(p.List[0].Str), vM(tAnyMap))))
		for _, q := range t.List[3].List {
			if q.List[1].List[1].Head() == "object" {
				out = append(out, op("u", vM(tAnyMap, vS(p.List[0].Str), vM(tAnyMap, vS(q.List[0].Str), vM(tAnyMap)))))
			}
		}
	}
	return out
}

func c12Case(sc c04Schema, calls []*sx.Node) *sx.Node {
	coll := false
	for _, o := range calls {
		coll = coll || c12Collides(o.List[1])
	}
	l := sx.L(sx.A("calls"))
	l.Append(calls...)
	return sx.L(sx.A("c12"), mkEnv(sc.ext, sc.s, calls), sc.s, sx.L(sx.A("coll"), sx.B(coll)), l)
}

// ---- D72: keys whose texts differ but which convert to one key ("1" / "01" / "+1" under integer keys) ----

var c12Digits = regexp.MustCompile(`^[0-9]{1,17}$`)

// c12IntLike: the decimal text of a key that an integer key schema reads as a non-negative integer.
func c12IntLike(k *sx.Node) (string, bool) {
	if !k.IsList() || len(k.List) != 3 || k.List[1].IsList() {
		return "", false
	}
	switch k.Head() {
	case "i":
		if c12Digits.MatchString(k.List[2].Atom) {
			return k.List[2].Atom, true
		}
	case "s":
		if c12Digits.MatchString(k.List[2].Str) {
			return strconv.FormatUint(func() uint64 { z, _ := strconv.ParseUint(k.List[2].Str, 10, 64); return z }(), 10), true
		}
	}
	return "", false
}

func c12MapCandidates(v *sx.Node, pred func(*sx.Node) bool) int {
	if !v.IsList() {
		return 0
	}
	n := 0
	if v.Head() == "m" && pred(v) {
		n++
	}
	for _, c := range v.List {
		n += c12MapCandidates(c, pred)
	}
	return n
}

// c12RewriteMap returns a copy of v in which the k-th map satisfying pred is replaced by f(map).
func c12RewriteMap(v *sx.Node, pred func(*sx.Node) bool, k *int, f func(*sx.Node) *sx.Node) *sx.Node {
	if !v.IsList() {
		return v
	}
	if v.Head() == "m" && pred(v) {
		*k--
		if *k == -1 {
			return f(v)
		}
	}
	out := sx.L()
	for _, c := range v.List {
		out.Append(c12RewriteMap(c, pred, k, f))
	}
	return out
}

func c12OpenMap(m *sx.Node) bool {
	t := m.List[1].String()
	return m.List[2].Atom == "0" && (t == tAnyMap.String() || t == tStrMap.String())
}

// c12CollideByValue adds, to one map of the value that has an integer-like key, a second key that is written
// differently but converts to the same key under an integer key schema ("7" -> "07", "+7", int64 7; int64 7 -> "07" ...).
func c12CollideByValue(r *Rng, v *sx.Node) (*sx.Node, bool) {
	pred := func(m *sx.Node) bool {
		if !c12OpenMap(m) {
			return false
		}
		for _, e := range m.List[3:] {
			if _, ok := c12IntLike(e.List[0]); ok {
				return true
			}
		}
		return false
	}
	n := c12MapCandidates(v, pred)
	if n == 0 {
		return nil, false
	}
	k := r.Intn(n)
	done := false
	out := c12RewriteMap(v, pred, &k, func(m *sx.Node) *sx.Node {
		var cands []*sx.Node
		for _, e := range m.List[3:] {
			if _, ok := c12IntLike(e.List[0]); ok {
				cands = append(cands, e)
			}
		}
		e := pick(r, cands)
		txt, _ := c12IntLike(e.List[0])
		alts := []*sx.Node{vS("0" + txt), vS("+" + txt), vS("00" + txt)}
		if m.List[1].String() == tAnyMap.String() {
			z, _ := strconv.ParseInt(txt, 10, 64)
			alts = append(alts, vI("i64", z), vS(txt))
		}
		var fresh []*sx.Node
		for _, a := range alts {
			dup := false
			for _, x := range m.List[3:] {
				if x.List[0].String() == a.String() {
					dup = true
				}
			}
			if !dup {
				fresh = append(fresh, a)
			}
		}
		if len(fresh) == 0 {
			return m
		}
		// the value of another entry when there is one (the two readings of the key then differ visibly)
		val := pick(r, m.List[3:]).List[1]
		done = true
		cp := sx.L(m.List...)
		return cp.Append(sx.L(pick(r, fresh), val))
	})
	return out, done
}

// c12CorruptOneEntry: one entry of a map that has at least two gets an arbitrary wrong value (the verdict on such
// a map must not depend on which entry the runtime yields first).
func c12CorruptOneEntry(r *Rng, v *sx.Node) (*sx.Node, bool) {
	pred := func(m *sx.Node) bool { return c12OpenMap(m) && len(m.List) >= 5 }
	n := c12MapCandidates(v, pred)
	if n == 0 {
		return nil, false
	}
	k := r.Intn(n)
	out := c12RewriteMap(v, pred, &k, func(m *sx.Node) *sx.Node {
		i := 3 + r.Intn(len(m.List)-3)
		cp := sx.L(m.List...)
		cp.List[i] = sx.L(m.List[i].List[0], pick(r, wrongValues))
		return cp
	})
	return out, true
}

// ---- schemas as arguments of ValidateCompatibility ----

func c12HasHead(s *sx.Node, head string) bool {
	if !s.IsList() {
		return false
	}
	if s.Head() == head {
		return true
	}
	for _, c := range s.List {
		if c12HasHead(c, head) {
			return true
		}
	}
	return false
}

func c12HasRef(s *sx.Node) bool {
	if !s.IsList() {
		return false
	}
	if s.Head() == "ref" {
		return true
	}
	for _, c := range s.List {
		if c12HasRef(c) {
			return true
		}
	}
	return false
}

var c12PerturbKinds = map[string]bool{"enum_int": true, "enum_str": true, "int": true, "string": true, "list": true, "map": true, "object": true}

func c12CountKinds(s *sx.Node) int {
	if !s.IsList() {
		return 0
	}
	n := 0
	if c12PerturbKinds[s.Head()] {
		n++
	}
	for _, c := range s.List {
		n += c12CountKinds(c)
	}
	return n
}

// c12Perturb: a copy of the schema with one node changed (an enum value added / dropped / named, bounds moved,
// a property dropped): the argument of a schema-vs-schema compatibility call.
func c12Perturb(r *Rng, s *sx.Node, k *int) *sx.Node {
	if !s.IsList() {
		return s
	}
	hit := false
	if c12PerturbKinds[s.Head()] {
		*k--
		hit = *k == -1
	}
	out := sx.L()
	for _, c := range s.List {
		out.Append(c12Perturb(r, c, k))
	}
	if !hit {
		return out
	}
	switch s.Head() {
	case "enum_int", "enum_str":
		i := 1
		foreign := sx.L(sx.I(77), none())
		if s.Head() == "enum_str" {
			i = 2
			foreign = sx.L(sx.S("nope"), none())
		}
		vals := sx.L(out.List[i].List...)
		switch r.Intn(3) {
		case 0:
			vals.Append(foreign)
		case 1:
			if len(vals.List) > 1 {
				vals.List = vals.List[:len(vals.List)-1]
			}
		default:
			if len(vals.List) > 0 {
				j := r.Intn(len(vals.List))
				vals.List[j] = sx.L(vals.List[j].List[0], dDisp(sp("Other name"), nil, nil))
			}
		}
		out.List[i] = vals
	case "int":
		out.List[1], out.List[2] = sx.I(1000), sx.I(2000)
	case "string":
		out.List[1] = sx.I(50)
	case "list":
		out.List[2] = sx.I(100)
	case "map":
		out.List[3] = sx.I(100)
	case "object":
		if ps := out.List[3]; len(ps.List) > 0 {
			out.List[3] = sx.L(ps.List[:len(ps.List)-1]...)
		}
	}
	return out
}

func c12SchemaArg(r *Rng, s *sx.Node) *sx.Node {
	n := c12CountKinds(s)
	if n == 0 || r.Chance(35) {
		return s // the schema against (a fresh copy of) itself
	}
	k := r.Intn(n)
	p := c12Perturb(r, s, &k)
	if !c12Buildable(p) {
		return s // e.g. the inlined discriminator of a one-of member was the property dropped: the constructors refuse it
	}
	return p
}

// c12Buildable: the public constructors accept the descriptor (they panic on a mis-built schema, by contract).
func c12Buildable(s *sx.Node) (ok bool) {
	defer func() {
		if r := recover(); r != nil {
			ok = false
		}
	}()
	buildSchema(s)
	return true
}

// c12TypedAtAny walks a schema descriptor and a NATIVE value of it in parallel (map-based objects, lists, maps,
// references of the scope) and puts, with probability 1/2 each, a typed container (anyTypedValue) where the schema
// says `any`: the arguments of Validate / Serialize then hold values the any type converts element by element.
// Where the shapes do not correspond the value is left as it is.
func c12TypedAtAny(r *Rng, d *sx.Node, tab scopeCtx, v *sx.Node, fuel int) *sx.Node {
	if fuel <= 0 || d == nil {
		return v
	}
	if !d.IsList() {
		if !d.IsStr && d.Atom == "any" && r.Bool() {
			return anyTypedValue(r, 2)
		}
		return v
	}
	if !v.IsList() || len(v.List) < 3 {
		return v
	}
	switch d.Head() {
	case "list":
		if v.Head() != "sl" || v.List[1].String() != tAnySlice.String() {
			return v
		}
		out := sx.L(v.List[:3]...)
		for _, e := range v.List[3:] {
			out.Append(c12TypedAtAny(r, d.List[1], tab, e, fuel-1))
		}
		return out
	case "map":
		if v.Head() != "m" || !elemAny(v.List[1]) {
			return v
		}
		out := sx.L(v.List[:3]...)
		for _, e := range v.List[3:] {
			out.Append(sx.L(e.List[0], c12TypedAtAny(r, d.List[2], tab, e.List[1], fuel-1)))
		}
		return out
	case "object":
		if v.Head() != "m" || v.List[1].String() != tStrMap.String() {
			return v
		}
		out := sx.L(v.List[:3]...)
		for _, e := range v.List[3:] {
			ne := e
			for _, p := range d.List[3].List {
				if e.List[0].Head() == "s" && e.List[0].List[2].Str == p.List[0].Str {
					ne = sx.L(e.List[0], c12TypedAtAny(r, p.List[1].List[1], tab, e.List[1], fuel-1))
				}
			}
			out.Append(ne)
		}
		return out
	case "ref":
		if o, ok := tab[d.List[1].Str]; ok && isNoneOrEmptyNS(d) {
			return c12TypedAtAny(r, o, tab, v, fuel-1)
		}
	case "scope":
		inner := scopeTable(d)
		return c12TypedAtAny(r, inner[d.List[2].Str], inner, v, fuel-1)
	}
	return v
}

// isNoneOrEmptyNS: a reference into the scope's own namespace.
func isNoneOrEmptyNS(ref *sx.Node) bool {
	return len(ref.List) < 3 || (ref.List[2].IsStr && ref.List[2].Str == "")
}

func c12History(r *Rng, sc c04Schema, n int) []*sx.Node {
	tab := scopeCtx{}
	if sc.s.Head() == "scope" {
		tab = scopeTable(sc.s)
	}
	pool := c04Pool()
	schemaArgs := !c12HasRef(sc.s) && sc.ext == nil
	var calls []*sx.Node
	for len(calls) < n {
		raw := rawFor(r, sc.s, tab, 3)
		switch r.Intn(13) {
		case 10: // two spellings of one key
			if v, ok := c12CollideByValue(r, raw); ok {
				calls = append(calls, op(pick(r, []string{"u", "u", "c"}), v))
			}
			continue
		case 11: // one bad entry among several
			if v, ok := c12CorruptOneEntry(r, raw); ok {
				calls = append(calls, op(pick(r, []string{"c", "c", "u"}), v))
			}
			continue
		case 12: // a schema as the argument
			if schemaArgs {
				calls = append(calls, op("cs", c12SchemaArg(r, sc.s)))
			}
			continue
		case 0, 1, 2:
			calls = append(calls, op("u", raw))
		case 3:
			calls = append(calls, op("c", raw))
		case 4: // a failing call
			calls = append(calls, op(pick(r, []string{"u", "c", "v", "s"}), mutate(r, raw)))
		case 5: // an arbitrary value somewhere in a valid tree
			pos := c04Positions(raw)
			p := pick(r, pos)
			pv := pick(r, pool)
			if p.isKey && (!pv.hashable || c04KeyClash(raw, p.path, pv.v)) {
				continue
			}
			calls = append(calls, op(pick(r, []string{"u", "c"}), c04Replace(raw, p.path, pv.v)))
		case 6: // the empty map: fills every default
			calls = append(calls, op("u", vM(tAnyMap)))
		default:
			if native := c04NativeOf(sc, raw); native != nil {
				if gp.anyTyped {
					native = c12TypedAtAny(r, sc.s, tab, native, 8)
				}
				calls = append(calls, op(pick(r, []string{"v", "s", "s"}), native))
			} else {
				calls = append(calls, op("u", raw))
			}
		}
	}
	return calls
}

func init() {
	families["c12pure"] = &Family{
		Label: "c12",
		// anyTyped: the values at `any` positions are, in 40 % of the cases, containers the any type converts element by
		// element (typed slices and maps, []any / map[..]any of narrow integers, float32s, typed containers): a conversion
		// done IN PLACE shows in the before/after print of the argument (`mutated`)
		Gen: withProfile(genProfile{anyTyped: true}, func(r *Rng, tier string, emit func(*sx.Node)) {
			nPer, nGen := 5, 450
			if tier == "thorough" {
				nPer, nGen = 12, 4000
			}
			var safe []c04Schema
			for _, sc := range c04FixedSchemas() {
				if !c04InlineCycle(sc.s, sc.ext) && !sc.defaultCyc {
					safe = append(safe, sc)
				}
			}
			// D19 witnesses: colliding keys under an int-keyed map, an `any`, a string-keyed map
			i1 := dMap(dInt(nil, nil, nil), dAny(), nil, nil)
			emit(c12Case(c04Schema{s: i1}, []*sx.Node{op("u", vM(tAnyMap, vI("i64", 1), vS("a"), vS("1"), vS("b"))), op("c", vM(tAnyMap, vI("i64", 1), vS("a"), vS("1"), vS("b")))}))
			emit(c12Case(c04Schema{s: dAny()}, []*sx.Node{op("u", vM(tAnyMap, vI("i64", 1), vS("a"), vU("u8", 1), vS("b"))), op("s", vM(tAnyMap, vI("i64", 1), vS("a"), vU("u8", 1), vS("b")))}))
			emit(c12Case(c04Schema{s: dMap(dString(nil, nil, nil), dAny(), nil, nil)}, []*sx.Node{op("u", vM(tAnyMap, vI("i64", 1), vS("a"), vS("1"), vS("b")))}))
			// D72 witnesses: two spellings of one integer key
			i2 := dMap(dInt(nil, nil, nil), dString(nil, nil, nil), nil, nil)
			for _, alt := range []string{"01", "+1", "001"} {
				w := vM(tStrMap, vS("1"), vS("a"), vS(alt), vS("b"))
				emit(c12Case(c04Schema{s: i2}, []*sx.Node{op("u", w), op("c", w), op("u", vM(tAnyMap, vS("1"), vS("a")))}))
			}
			emit(c12Case(c04Schema{s: dList(i2, nil, nil)}, []*sx.Node{op("u", vSl(tAnySlice, vM(tAnyMap, vS("7"), vS("a"), vS("+7"), vS("b"))))}))
			// schema arguments: an enum against itself with one more / one fewer value, unnamed values
			e1 := dEnumInt([]int64{1, 2, 3, 4}, nil)
			emit(c12Case(c04Schema{s: e1}, []*sx.Node{op("cs", e1), op("cs", dEnumInt([]int64{1, 2, 3, 4, 77}, nil)), op("cs", dEnumInt([]int64{1, 2}, nil))}))
			for _, sc := range safe {
				for i := 0; i < nPer; i++ {
					emit(c12Case(sc, c12History(r, sc, 1+r.Intn(12))))
				}
			}
			for i := 0; i < nGen; i++ {
				g := &sgen{r: r}
				depth := 1 + r.Intn(3)
				var s *sx.Node
				if r.Chance(75) {
					s = g.scope(depth)
				} else {
					s = g.typ(depth)
				}
				sc := c04Schema{s: s}
				if c04InlineCycle(s, nil) {
					continue
				}
				emit(c12Case(sc, c12History(r, sc, 1+r.Intn(12))))
			}
			// scope-free objects WITH defaults (at the top, in an inline sub-object, on an any / a list / a number with
			// units): the schemas for which the runner also evaluates every call on an instance whose objects are struct
			// literals (decoded-default cache empty).  The fixed C04 schemas of that shape have no defaults and whether the
			// generated ones do is a matter of the seed; these always do.  (At the end: the streams above stay as they were.)
			secs := unitsFromSDK(schema.UnitDurationSeconds)
			inner := dObject("inner", false, prDef("a", dAny(), "{\"k\":[1,2]}"), prDef("t", dInt(nil, nil, &secs), "\"1m\""), pr("b", dInt(nil, nil, nil)))
			for _, s := range []*sx.Node{
				dObject("dflt", false, prDef("n", dInt(nil, nil, nil), "5"), prDef("s", dString(nil, nil, nil), "\"abc\""), pr("x", dAny())),
				dObject("outer", false, pr("in", inner), prDef("l", dList(dInt(nil, nil, nil), nil, nil), "[1,2]"), prReq("id", dString(nil, nil, nil))),
				dList(inner, nil, ip(3)),
			} {
				sc := c04Schema{s: s}
				for i := 0; i < nPer; i++ {
					emit(c12Case(sc, c12History(r, sc, 1+r.Intn(12))))
				}
			}
			// objects of 3..5 properties whose rule lists (required_if / required_if_not / conflicts) name up to three
			// properties in ANY order, with histories that contain the empty map (every property unset: the rejections
			// of the presence rules), bare and below a list
			nRules := 40
			if tier == "thorough" {
				nRules = 600
			}
			for i := 0; i < nRules; i++ {
				g := &sgen{r: r, multiRules: true}
				s := dObject("rules", false, g.props(1, 3+r.Intn(3), propNames)...)
				if r.Chance(25) {
					s = dObject("outer", false, pr("in", s), pr("k", dInt(nil, nil, nil)))
				}
				if c04InlineCycle(s, nil) {
					continue
				}
				sc := c04Schema{s: s}
				calls := c12History(r, sc, 1+r.Intn(6))
				calls = append(calls, op("u", vM(tAnyMap)), op("c", vM(tStrMap)))
				if s.List[1].Str == "outer" {
					calls = append(calls, op("u", vM(tAnyMap, vS("in"), vM(tAnyMap))))
				}
				emit(c12Case(sc, calls))
			}
			// unit-bearing FLOAT / integer schemas with histories "rejected text, then multi-term texts whose exact sum is
			// not a float64" (c12_units.go); at the end: the streams above stay as they were
			nUnits := 36
			if tier == "thorough" {
				nUnits = 600
			}
			c12UnitCases(r, nUnits, emit)
		}),
		Run: func(p *sx.Node) *sx.Node {
			mk := func() schema.Type { return buildWithEnv(p.List[1], p.List[2]) }
			calls := p.List[4].List[1:]
			probes := []*sx.Node{op("u", vM(tAnyMap)), op("u", vM(tStrMap)), op("u", vNil())}
			res := sx.L(sx.A("r"), p.List[3])
			var mkLit func() schema.Type
			if c12HasHead(p.List[2], "object") && !c12HasHead(p.List[2], "scope") && !c12HasHead(p.List[2], "ref") {
				mkLit = func() schema.Type {
					buildLiteralObjects = true
					defer func() { buildLiteralObjects = false }()
					return buildWithEnv(p.List[1], p.List[2])
				}
			}
			res.Append(c12RunHistory(mk, calls, probes, func(c string) *sx.Node { return sx.A(c) }, mkLit)...)
			return res
		},
	}

	families["c12struct"] = &Family{
		Label: "c12s",
		Gen: func(r *Rng, tier string, emit func(*sx.Node)) {
			nPer := 12
			if tier == "thorough" {
				nPer = 150
			}
			pool := c04Pool()
			natives := c04StructNatives()
			for _, name := range sortedKeys(func() map[string]bool {
				m := map[string]bool{}
				for k := range c04StructSchemas {
					if k != "holder-recursive-member" { // D52 (C04): every such call kills the process
						m[k] = true
					}
				}
				return m
			}()) {
				for i := 0; i < nPer; i++ {
					n := 1 + r.Intn(12)
					l := sx.L(sx.A("calls"))
					for len(l.List)-1 < n {
						raw := c04StructRaw(r)
						switch r.Intn(8) {
						case 0:
							l.Append(op("u", vM(tAnyMap))) // fills every default
						case 1:
							l.Append(op("u", vM(tStrMap, vS("name"), vS("x"))))
						case 2:
							pos := pick(r, c04Positions(raw))
							pv := pick(r, pool)
							if pos.isKey && (!pv.hashable || c04KeyClash(raw, pos.path, pv.v)) {
								continue
							}
							l.Append(op(pick(r, []string{"u", "c"}), c04Replace(raw, pos.path, pv.v)))
						case 3:
							l.Append(op(pick(r, []string{"v", "s", "c"}), pick(r, natives)))
						case 4:
							l.Append(op("c", raw))
						default:
							l.Append(op("u", raw))
						}
					}
					emit(sx.L(sx.A("c12s"), sx.S(name), l))
				}
			}
			// generated struct-mapped schemas over the struct family of xstruct_types.go (T and *T, embedded
			// structs and embedded POINTERS, pointer fields, slices and maps of structs): raw inputs from the
			// map-based twin, native values by Go type (nil pointers at every pointer position), arbitrary values
			nx := 60
			if tier == "thorough" {
				nx = 900
			}
			xnames := []string{"XInner", "XTwo", "XScalars", "XPtrs", "XNested", "XDeep", "XColl", "XEmbedded", "XEmbPtr", "XEmbPtr", "XLoose",
				"XMid", "XNested", "XDeep", "XMid", "XHold", "XRec"}
			for i := 0; i < nx; i++ {
				// rich (every other case): most member properties have defaults, half of the object-typed properties declare a
				// (partial) object default - the sub-object default propagation has something to merge at every level
				g := &xgen{r: r, rich: i%2 == 1}
				name := xnames[i%len(xnames)]
				ptr := r.Bool()
				s := g.object("Root", ptr, name)
				annotateX(s)
				er := eraseX(s)
				xn := &xnat{r: r, sc: scopeCtx{}}
				t := structTypes[name]
				l := sx.L(sx.A("calls"))
				for j := 0; j < 3; j++ {
					raw := rawFor(r, er, scopeCtx{}, 3)
					l.Append(op("u", raw))
					if r.Chance(40) {
						l.Append(op(pick(r, []string{"u", "c"}), mutate(r, raw)))
					}
					if r.Chance(40) {
						l.Append(op("u", vM(tAnyMap))) // omits every member: fills every default, at every level
					}
				}
				for j := 0; j < 4; j++ {
					v := xn.valFor(t, s, 2)
					var a any = v.Interface()
					if ptr {
						pv := reflect.New(t)
						pv.Elem().Set(v)
						a = pv.Interface()
					}
					nv := valSx(a)
					l.Append(op("v", nv), op("s", nv))
					if j == 0 {
						l.Append(op("c", nv))
					}
				}
				for _, a := range xn.arbitrary(s) {
					l.Append(op(pick(r, []string{"v", "s"}), a))
				}
				emit(sx.L(sx.A("c12s"), sx.L(sx.A("x"), mkEnv(nil, s, nil), s), l))
			}
		},
		Run: func(p *sx.Node) *sx.Node {
			var mk func() schema.Type
			if p.List[1].IsList() { // (x ENV XSCHEMA)
				mk = func() schema.Type { return buildWithEnv(p.List[1].List[1], p.List[1].List[2]) }
			} else if f, ok := c04StructSchemas[p.List[1].Str]; ok {
				mk = f
			} else {
				return sx.L(sx.A("bad"), sx.S("unknown struct schema"))
			}
			probes := []*sx.Node{op("u", vM(tAnyMap)), op("u", vM(tStrMap, vS("n"), vI("i64", 2))), op("u", vNil())}
			if p.List[1].IsList() {
				probes = append(probes, c12MemberProbes(eraseX(p.List[1].List[2]))...)
			}
			res := sx.L(sx.A("r"))
			res.Append(c12RunHistory(mk, p.List[2].List[1:], probes, func(c string) *sx.Node {
				if c == "ok" || c == "err" {
					return sx.A("t")
				}
				return sx.A(c)
			}, nil)...)
			return res
		},
	}
}
