package main

import (
	"fmt"

	"verif/harness/sx"
)

// Family c03objects (property C03): object presence rules, defaults, shorthand and one-of
// dispatch.  Cases use the ordinary schema-case syntax (label "schema"), so the model side is
// Interp/RunSchema.v unchanged; lib/props_c03.py re-reads the descriptor of each case and
// evaluates the declarative rule of the property text on it.
//
// Every property of the objects generated here has type `int` without bounds, so "accepted by
// its type" is decided by the value alone: integers in any representation are accepted, the
// string "x" is not.  Defaults: none | "7" (a JSON string the int type converts to int64 7) |
// "bad" (a JSON string the int type rejects).

type c03prop struct {
	req, dis        bool
	dflt            int  // 0 none, 1 `"7"`, 2 `"bad"`
	rif, rifn, conf uint // bit i = name i
}

var c03names = []string{"a", "b", "c", "d", "e", "f", "g", "h"}

func c03set(mask uint, n int) []string {
	var out []string
	for i := 0; i < n; i++ {
		if mask&(1<<uint(i)) != 0 {
			out = append(out, c03names[i])
		}
	}
	return out
}

func c03object(id string, ps []c03prop) *sx.Node {
	n := len(ps)
	var props []propD
	for i, p := range ps {
		d := propD{name: c03names[i], t: dInt(nil, nil, nil), required: p.req, disabled: p.dis,
			requiredIf: c03set(p.rif, n), requiredIfNot: c03set(p.rifn, n), conflicts: c03set(p.conf, n)}
		switch p.dflt {
		case 1:
			d.dflt = sp(`"7"`)
		case 2:
			d.dflt = sp(`"bad"`)
		}
		props = append(props, d)
	}
	return dObject(id, false, props...)
}

// the representations a decoder may hand over for a small non-negative integer
func c03reprs(z int64) []*sx.Node {
	return []*sx.Node{vI("i64", z), vU("u64", uint64(z)), vS(fmt.Sprint(z)), vF("f64", float64(z)), vI("i8", z), vU("u8", uint64(z)),
		vI("i0", z), vI("i16", z), vI("i32", z), vU("u0", uint64(z)), vU("u16", uint64(z)), vU("u32", uint64(z)), vF("f32", float64(z))}
}

type c03ops struct {
	ops []*sx.Node
	k   int // rotates the representation of accepted values
}

func (o *c03ops) val(z int64) *sx.Node {
	rs := c03reprs(z)
	o.k++
	return rs[o.k%len(rs)]
}

// raw builds the raw map for the properties in mask (bit i = name i); bad = index of a property
// that gets a value its type rejects (-1: none)
func (o *c03ops) raw(mt *sx.Node, mask uint, n int, bad int) *sx.Node {
	var kv []*sx.Node
	for i := 0; i < n; i++ {
		if mask&(1<<uint(i)) == 0 {
			continue
		}
		if i == bad {
			kv = append(kv, vS(c03names[i]), vS("x"))
		} else {
			kv = append(kv, vS(c03names[i]), o.val(int64(3+i)))
		}
	}
	return vM(mt, kv...)
}

func native(mt *sx.Node, mask uint, n int, bad int) *sx.Node {
	var kv []*sx.Node
	for i := 0; i < n; i++ {
		if mask&(1<<uint(i)) == 0 {
			continue
		}
		if i == bad {
			kv = append(kv, vS(c03names[i]), vS("x"))
		} else {
			kv = append(kv, vS(c03names[i]), vI("i64", int64(3+i)))
		}
	}
	return vM(mt, kv...)
}

// objectOps: every subset of supplied properties x {map[string]any, map[any]any} on Unserialize,
// every non-empty subset with one rejected value, every subset as a native map on Validate and
// Serialize; `extra` adds the key-discipline probes (undeclared key, non-string key, typed maps,
// non-map values).
func objectOps(n int, anyToo, extra bool) []*sx.Node {
	o := &c03ops{}
	for mask := uint(0); mask < 1<<uint(n); mask++ {
		o.ops = append(o.ops, op("u", o.raw(tStrMap, mask, n, -1)))
		if anyToo {
			o.ops = append(o.ops, op("u", o.raw(tAnyMap, mask, n, -1)))
		}
		if mask != 0 {
			bad := 0
			for mask&(1<<uint(bad)) == 0 {
				bad++
			}
			mt := tStrMap
			if mask%2 == 0 {
				mt = tAnyMap
			}
			o.ops = append(o.ops, op("u", o.raw(mt, mask, n, bad)))
		}
		nv := native(tStrMap, mask, n, -1)
		o.ops = append(o.ops, op("v", nv), op("s", nv))
	}
	if extra {
		full := uint(1<<uint(n)) - 1
		und := o.raw(tStrMap, full, n, -1)
		und.Append(sx.L(vS("zz"), vI("i64", 1)))
		nsk := o.raw(tAnyMap, full, n, -1)
		nsk.Append(sx.L(vI("i64", 1), vI("i64", 1)))
		nmd := o.raw(tAnyMap, 0, n, -1)
		nmd.Append(sx.L(vNamed("s", "MyStr", "str", sx.S("a")), vI("i64", 3)))
		tStrI64 := sx.L(sx.A("map"), sx.A("str"), sx.A("i64"))
		nund := native(tStrMap, full, n, -1)
		nund.Append(sx.L(vS("zz"), vI("i64", 1)))
		nany := native(tAnyMap, full, n, -1)
		nbad := native(tStrMap, full, n, 0)
		o.ops = append(o.ops, op("u", und), op("u", nsk), op("u", nmd), op("u", native(tStrI64, full, n, -1)),
			op("u", vI("i64", 3)), op("u", vS("x")), op("u", vNil()), op("u", vSl(tAnySlice, vI("i64", 3))), op("u", vS("3")),
			op("v", nund), op("s", nund), op("v", nany), op("s", nany), op("v", vI("i64", 3)), op("s", vNil()))
		if n > 0 {
			o.ops = append(o.ops, op("v", nbad), op("s", nbad))
		}
	}
	return o.ops
}

// partner modes of the properties that carry no rule sets of their own
var c03modes = []c03prop{
	{},                     // optional
	{req: true},            // required
	{dflt: 1},              // default
	{dis: true},            // disabled
	{dflt: 1, dis: true},   // default + disabled: unsatisfiable when absent
	{req: true, dflt: 1},   // required + default: the default satisfies "required"
	{req: true, dis: true}, // required + disabled: unsatisfiable
	{dflt: 2},              // default the type rejects
}

// allConfigs enumerates every configuration of ONE property among n (self references included)
func allConfigs(n int, dflts int, f func(c03prop)) {
	m := uint(1) << uint(n)
	for req := 0; req < 2; req++ {
		for d := 0; d < dflts; d++ {
			for dis := 0; dis < 2; dis++ {
				for rif := uint(0); rif < m; rif++ {
					for rifn := uint(0); rifn < m; rifn++ {
						for conf := uint(0); conf < m; conf++ {
							f(c03prop{req: req == 1, dflt: d, dis: dis == 1, rif: rif, rifn: rifn, conf: conf})
						}
					}
				}
			}
		}
	}
}

func randProp(r *Rng, n int) c03prop {
	m := uint(1) << uint(n)
	p := c03prop{req: r.Chance(30), dis: r.Chance(8)}
	if r.Chance(30) {
		p.dflt = 1
		if r.Chance(15) {
			p.dflt = 2
		}
	}
	if r.Chance(35) {
		p.rif = uint(r.Intn(int(m))) & uint(r.Intn(int(m)))
	}
	if r.Chance(35) {
		p.rifn = uint(r.Intn(int(m))) & uint(r.Intn(int(m)))
	}
	if r.Chance(35) {
		p.conf = uint(r.Intn(int(m))) & uint(r.Intn(int(m)))
	}
	return p
}

// ---------------- one-of ----------------

func c03member(i int, intKeys, inlined, discReq bool) *sx.Node {
	props := []propD{{name: fmt.Sprintf("m%d", i), t: dInt(nil, nil, nil), required: true}}
	if inlined {
		dt := dString(nil, nil, nil)
		if intKeys {
			dt = dInt(nil, nil, nil)
		}
		props = append(props, propD{name: "kind", t: dt, required: discReq})
	}
	return dObject(fmt.Sprintf("M%d", i), false, props...)
}

func c03skey(i int, numeric bool) string {
	if numeric {
		return fmt.Sprint(i)
	}
	return string(rune('A' + i - 1))
}

// oneofCases: nmem members x int/string keys x inlined or not; the discriminator in every
// representation, missing, nil, of a wrong type, unknown; a body that belongs to another member.
func oneofCases(emit func(*sx.Node), nmem int, intKeys, inlined, discReq, numeric bool) {
	var ms []memberD
	for i := 1; i <= nmem; i++ {
		ms = append(ms, memberD{ikey: int64(i), skey: c03skey(i, numeric), t: c03member(i, intKeys, inlined, discReq)})
	}
	s := dOneOf(intKeys, "kind", inlined, ms...)
	body := func(mt *sx.Node, member int, d *sx.Node) *sx.Node {
		m := vM(mt, vS(fmt.Sprintf("m%d", member)), vI("i64", int64(10+member)))
		if d != nil {
			m.Append(sx.L(vS("kind"), d))
		}
		return m
	}
	var ops []*sx.Node
	k := 0
	for t := 1; t <= nmem; t++ {
		var reprs []*sx.Node
		if intKeys {
			reprs = append(c03reprs(int64(t)), vB(t == 1), vS(fmt.Sprintf("+%d", t)), vS(fmt.Sprintf(" %d", t)), vF("f64", float64(t)+0.5),
				vNamed("i", "MyInt", "i64", sx.I(int64(t))))
		} else {
			reprs = []*sx.Node{vS(c03skey(t, numeric)), vNamed("s", "MyStr", "str", sx.S(c03skey(t, numeric))), vS(c03skey(t, numeric) + " ")}
			if numeric {
				reprs = append(reprs, vI("i64", int64(t)), vU("u64", uint64(t)), vI("i8", int64(t)), vF("f64", float64(t)), vF("f32", float64(t)), vB(true))
			}
		}
		for _, d := range reprs {
			mt := tStrMap
			if k%2 == 1 {
				mt = tAnyMap
			}
			k++
			ops = append(ops, op("u", body(mt, t, d)))
		}
		other := t%nmem + 1
		var typed, wrongTyped *sx.Node
		if intKeys {
			typed, wrongTyped = vI("i64", int64(t)), vU("u64", uint64(t))
		} else {
			typed, wrongTyped = vS(c03skey(t, numeric)), vNamed("s", "MyStr", "str", sx.S(c03skey(t, numeric)))
		}
		if other != t {
			ops = append(ops, op("u", body(tStrMap, other, typed))) // the body of another member: routed by the discriminator alone
			ops = append(ops, op("v", body(tStrMap, other, typed)), op("s", body(tStrMap, other, typed)))
		}
		nat := body(tStrMap, t, typed)
		ops = append(ops, op("v", nat), op("s", nat), op("rt", body(tAnyMap, t, typed)),
			op("v", body(tStrMap, t, wrongTyped)), op("s", body(tStrMap, t, wrongTyped)),
			op("v", body(tAnyMap, t, typed)), op("s", body(tAnyMap, t, typed)))
		if intKeys {
			ops = append(ops, op("v", body(tStrMap, t, vS(fmt.Sprint(t)))), op("s", body(tStrMap, t, vF("f64", float64(t)))))
		}
	}
	var unknown *sx.Node = vS("ZZ")
	if intKeys {
		unknown = vI("i64", 99)
	}
	for _, d := range []*sx.Node{nil, vNil(), vSl(tAnySlice, vI("i64", 1)), vM(tAnyMap), unknown, vS(""), vI("i64", 0), vF("f64", 1e300), vU("u64", 1<<63)} {
		ops = append(ops, op("u", body(tStrMap, 1, d)), op("u", body(tAnyMap, 1, d)), op("v", body(tStrMap, 1, d)), op("s", body(tStrMap, 1, d)))
	}
	nsk := body(tAnyMap, 1, vI("i64", 1))
	nsk.Append(sx.L(vI("i64", 5), vI("i64", 5)))
	tI64Map := sx.L(sx.A("map"), sx.A("i64"), sx.A("any"))
	ops = append(ops, op("u", nsk), op("u", vM(tI64Map, vI("i64", 1), vI("i64", 1))), op("u", vNil()), op("u", vI("i64", 1)), op("u", vS("A")),
		op("u", vSl(tAnySlice)), op("v", vNil()), op("s", vNil()), op("v", vI("i64", 1)), op("s", vSl(tAnySlice)))
	emitBatched(emit, nil, dScope("R", dObject("R", false, propD{name: "o", t: s, required: true})), wrapOps(ops, "o"), 40)
	emitBatched(emit, nil, s, ops, 40)
}

// wrapOps puts every op value under key `k` of a map[string]any (the one-of as a property of a root object)
func wrapOps(ops []*sx.Node, k string) []*sx.Node {
	var out []*sx.Node
	for _, o := range ops {
		out = append(out, op(o.Head(), vM(tStrMap, vS(k), o.List[1])))
	}
	return out
}

func init() {
	families["c03objects"] = &Family{
		Label: "schema",
		Gen: func(r *Rng, tier string, emit func(*sx.Node)) {
			thorough := tier == "thorough"
			// ---- n = 0 and n = 1: complete ----
			emit(schCase(nil, c03object("E", nil), objectOps(0, true, true)...))
			allConfigs(1, 3, func(a c03prop) {
				emit(schCase(nil, c03object("O1", []c03prop{a}), objectOps(1, true, true)...))
			})
			// ---- n = 2: property a in every configuration (rule sets over {a,b}, self references included)
			//      x property b in every rule-free mode ----
			modes2 := c03modes[:4]
			if thorough {
				modes2 = c03modes
			}
			cnt := 0
			allConfigs(2, 3, func(a c03prop) {
				for _, b := range modes2 {
					cnt++
					emit(schCase(nil, c03object("O2", []c03prop{a, b}), objectOps(2, true, cnt%64 == 0)...))
				}
			})
			// ---- n = 2: the full product of both properties' configurations (262144 schemas), sampled ----
			nPairs := 1200
			if thorough {
				nPairs = 30000
			}
			var cfgs2 []c03prop
			allConfigs(2, 2, func(a c03prop) { cfgs2 = append(cfgs2, a) })
			for i := 0; i < nPairs; i++ {
				emit(schCase(nil, c03object("P2", []c03prop{pick(r, cfgs2), pick(r, cfgs2)}), objectOps(2, i%2 == 0, i%32 == 0)...))
			}
			// ---- n = 3 (thorough): property a in every configuration over {a,b,c} x partners ----
			if thorough {
				cnt = 0
				allConfigs(3, 2, func(a c03prop) {
					for _, b := range c03modes[:4] {
						for _, c := range c03modes[:3] {
							cnt++
							emit(schCase(nil, c03object("O3", []c03prop{a, b, c}), objectOps(3, false, cnt%256 == 0)...))
						}
					}
				})
			} else {
				for i := 0; i < 300; i++ {
					emit(schCase(nil, c03object("O3", []c03prop{randProp(r, 3), randProp(r, 3), randProp(r, 3)}), objectOps(3, i%2 == 0, i%16 == 0)...))
				}
			}
			// ---- 4..8 properties, sampled ----
			nBig := 150
			if thorough {
				nBig = 3000
			}
			for i := 0; i < nBig; i++ {
				n := 4 + r.Intn(5)
				var ps []c03prop
				for j := 0; j < n; j++ {
					ps = append(ps, randProp(r, n))
				}
				o := &c03ops{}
				for j := 0; j < 10; j++ {
					mask := uint(r.Intn(1 << uint(n)))
					if j == 0 {
						mask = 0
					}
					mt := tStrMap
					if r.Bool() {
						mt = tAnyMap
					}
					bad := -1
					if r.Chance(15) {
						bad = r.Intn(n)
					}
					o.ops = append(o.ops, op("u", o.raw(mt, mask, n, bad)))
					nv := native(tStrMap, mask, n, -1)
					o.ops = append(o.ops, op("v", nv), op("s", nv))
				}
				emit(schCase(nil, c03object("B", ps), o.ops...))
			}
			// ---- one-of ----
			for nmem := 1; nmem <= 4; nmem++ {
				for _, intKeys := range []bool{true, false} {
					oneofCases(emit, nmem, intKeys, false, false, false)
					oneofCases(emit, nmem, intKeys, true, true, false)
					oneofCases(emit, nmem, intKeys, true, false, false)
					if !intKeys {
						oneofCases(emit, nmem, intKeys, false, false, true)
						oneofCases(emit, nmem, intKeys, true, true, true)
					}
				}
			}
		},
		Run: runSchemaCase,
	}
}
