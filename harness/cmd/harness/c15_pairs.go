package main

import (
	"fmt"
	"sort"

	"go.flow.arcalot.io/pluginsdk/schema"
	"verif/harness/sx"
)

// C15 — ValidateCompatibility between two SCHEMAS.
//
//	(c15 ENV1 S ENV2 T (meta KIND (expect ok|err|any) (flags FLAG...) NOTE...))
//	    S.ValidateCompatibility(T), three times on freshly built schemas (Go randomises map
//	    iteration per range loop, so repeated verdicts expose order dependence)
//	    observation: (r V...)   the distinct verdicts seen, sorted: ok | err | panic
//	    (a fatal stack overflow / a hang is reported by the supervisor as crash / hang)
//	(c15rb ENV S)
//	    S (a scope) against the scope rebuilt from its own description with the real SDK
//	    (SelfSerialize -> UnserializeScope -> ApplySelf), both ways
//	    observation: (rb V V) | (rb undescribable) | (rb unrebuildable)

const c15Repeats = 3

func c15Verdict(s, t schema.Type) (v string) {
	defer func() {
		if r := recover(); r != nil {
			v = "panic"
		}
	}()
	if err := s.ValidateCompatibility(t); err != nil {
		return "err"
	}
	return "ok"
}

func c15Build(envN, sN *sx.Node) (s schema.Type) {
	defer func() {
		if r := recover(); r != nil {
			s = nil
		}
	}()
	return buildWithEnv(envN, sN)
}

func runC15(p *sx.Node) *sx.Node {
	switch p.Head() {
	case "c15":
		seen := map[string]bool{}
		for i := 0; i < c15Repeats; i++ {
			s := c15Build(p.List[1], p.List[2])
			t := c15Build(p.List[3], p.List[4])
			if s == nil || t == nil {
				return sx.L(sx.A("build-failed"))
			}
			seen[c15Verdict(s, t)] = true
		}
		var vs []string
		for v := range seen {
			vs = append(vs, v)
		}
		sort.Strings(vs)
		out := sx.L(sx.A("r"))
		for _, v := range vs {
			out.Append(sx.A(v))
		}
		return out
	case "c15rb":
		s := c15Build(p.List[1], p.List[2])
		if s == nil {
			return sx.L(sx.A("build-failed"))
		}
		sc, ok := s.(*schema.ScopeSchema)
		if !ok {
			return sx.L(sx.A("bad"), sx.S("not a scope"))
		}
		var rebuilt *schema.ScopeSchema
		stage := "undescribable"
		func() {
			defer func() { _ = recover() }()
			ser, err := sc.SelfSerialize()
			if err != nil {
				return
			}
			stage = "unrebuildable"
			rb, err := schema.UnserializeScope(ser)
			if err != nil {
				return
			}
			rb.ApplySelf() // D30 (C09/C10): UnserializeScope does not link the references itself
			rebuilt = rb
		}()
		if rebuilt == nil {
			return sx.L(sx.A("rb"), sx.A(stage))
		}
		return sx.L(sx.A("rb"), sx.A(c15Verdict(sc, rebuilt)), sx.A(c15Verdict(rebuilt, sc)))
	}
	return sx.L(sx.A("bad"), sx.S("c15 payload"))
}

// ---------------------------------------------------------------------------------------
// the exhaustive small grammar
// ---------------------------------------------------------------------------------------

type c15Atom struct {
	name  string
	d     *sx.Node
	ext   *sx.Node // external namespaces applied to this side (nil: none)
	flags []string // emptyrange | recursive | unlinked | emptyenum
	kind  string   // kind, for the evidence distribution and the grid expectations
	mn    *int64   // the range of the bounded atoms (int/float/string/list/map x boundCombos)
	mx    *int64
	rng   bool
}

// c15Base: the base kind the property text talks about ("string into integer, list into map")
func c15Base(kind string) string {
	switch kind {
	case "enum_int":
		return "int"
	case "enum_str":
		return "string"
	case "scope":
		return "object"
	}
	return kind
}

// c15GridExpect: what the property text demands of a grid pair (consumer a, producer b)
func c15GridExpect(a, b c15Atom) string {
	if a.name == b.name {
		return "ok" // reflexivity
	}
	ba, bb := c15Base(a.kind), c15Base(b.kind)
	if ba != "any" && bb != "any" && ba != bb {
		return "err" // a different base kind
	}
	if a.rng && b.rng && a.kind == b.kind {
		if (a.mx != nil && b.mn != nil && *b.mn > *a.mx) || (a.mn != nil && b.mx != nil && *b.mx < *a.mn) {
			return "err" // ranges that cannot overlap
		}
	}
	return "any"
}

func dispNamed(n string) *sx.Node { return sx.L(sx.A("disp"), sx.S(n), none(), none()) }

func dEnumIntD(vals []int64, names []string) *sx.Node {
	l := sx.L()
	for i, v := range vals {
		d := none()
		if i < len(names) && names[i] != "" {
			d = dispNamed(names[i])
		}
		l.Append(sx.L(sx.I(v), d))
	}
	return sx.L(sx.A("enum_int"), l, none())
}
func dEnumStrD(named *string, vals []string, names []string) *sx.Node {
	l := sx.L()
	for i, v := range vals {
		d := none()
		if i < len(names) && names[i] != "" {
			d = dispNamed(names[i])
		}
		l.Append(sx.L(sx.S(v), d))
	}
	return sx.L(sx.A("enum_str"), dOptS(named), l)
}

// boundCombos: every nil/non-nil combination, overlapping, touching and disjoint partners, one empty range
func boundCombos() [][3]interface{} {
	return [][3]interface{}{
		{"nn", (*int64)(nil), (*int64)(nil)},
		{"1n", ip(1), (*int64)(nil)},
		{"n5", (*int64)(nil), ip(5)},
		{"15", ip(1), ip(5)},
		{"7n", ip(7), (*int64)(nil)},
		{"n0", (*int64)(nil), ip(0)},
		{"79", ip(7), ip(9)},
		{"55", ip(5), ip(5)}, // a single value: touches 15 and n5 at the boundary
		{"51", ip(5), ip(1)}, // empty range (D05 class)
	}
}

func c15Atoms() []c15Atom {
	var as []c15Atom
	add := func(name, kind string, d *sx.Node, flags ...string) {
		as = append(as, c15Atom{name: name, d: d, flags: flags, kind: kind})
	}
	fl := func(p *int64) *float64 {
		if p == nil {
			return nil
		}
		return fp(float64(*p) + 0.5)
	}
	for _, b := range boundCombos() {
		n, mn, mx := b[0].(string), b[1].(*int64), b[2].(*int64)
		var fs []string
		if n == "51" {
			fs = []string{"emptyrange"}
		}
		first := len(as)
		add("int"+n, "int", dInt(mn, mx, nil), fs...)
		add("float"+n, "float", dFloat(fl(mn), fl(mx), nil), fs...)
		add("string"+n, "string", dString(mn, mx, nil), fs...)
		add("list"+n, "list", dList(dBool(), mn, mx), fs...)
		add("map"+n, "map", dMap(dString(nil, nil, nil), dBool(), mn, mx), fs...)
		for i := first; i < len(as); i++ {
			as[i].mn, as[i].mx, as[i].rng = mn, mx, true
		}
	}
	add("floatNaN", "float", dFloat(fp(nan()), nil, nil))
	add("stringpat", "string", dString(nil, nil, patternPool[0]))
	add("bool", "bool", dBool())
	add("pattern", "pattern", dPattern())
	add("any", "any", dAny())
	add("ei1", "enum_int", dEnumIntD([]int64{1}, nil))
	add("ei12", "enum_int", dEnumIntD([]int64{1, 2}, nil))
	add("ei123", "enum_int", dEnumIntD([]int64{1, 2, 3}, nil))
	add("ei65", "enum_int", dEnumIntD([]int64{65}, nil))
	add("ei1named", "enum_int", dEnumIntD([]int64{1, 2}, []string{"one", ""}))
	add("ei1named2", "enum_int", dEnumIntD([]int64{1, 2}, []string{"uno", ""}))
	add("ei_empty", "enum_int", dEnumIntD(nil, nil), "emptyenum")
	add("esa", "enum_str", dEnumStrD(nil, []string{"a"}, nil))
	add("esab", "enum_str", dEnumStrD(nil, []string{"a", "b"}, nil))
	add("esabc", "enum_str", dEnumStrD(nil, []string{"a", "b", "c"}, nil))
	add("esA", "enum_str", dEnumStrD(nil, []string{"A"}, nil))
	add("es1", "enum_str", dEnumStrD(nil, []string{"\x01"}, nil))
	add("esanamed", "enum_str", dEnumStrD(nil, []string{"a", "b"}, []string{"", "bee"}))
	add("estyped", "enum_str", dEnumStrD(sp("MyStr"), []string{"a", "b"}, nil))
	add("es_empty", "enum_str", dEnumStrD(nil, nil, nil), "emptyenum")
	add("list_int15", "list", dList(dInt(ip(1), ip(5), nil), nil, nil))
	add("list_int79", "list", dList(dInt(ip(7), ip(9), nil), nil, nil))
	add("list_str", "list", dList(dString(nil, nil, nil), nil, nil))
	add("map_int_int15", "map", dMap(dInt(nil, nil, nil), dInt(ip(1), ip(5), nil), nil, nil))
	add("map_str_int79", "map", dMap(dString(nil, nil, nil), dInt(ip(7), ip(9), nil), nil, nil))
	add("map_es_bool", "map", dMap(dEnumStrD(nil, []string{"a"}, nil), dBool(), nil, nil))
	pa := func(t *sx.Node, req bool) propD { return propD{name: "a", t: t, required: req} }
	pb := func(t *sx.Node, req bool) propD { return propD{name: "b", t: t, required: req} }
	add("objO", "object", dObject("O", false))
	add("objOa", "object", dObject("O", false, pa(dInt(nil, nil, nil), false)))
	add("objOaReq", "object", dObject("O", false, pa(dInt(nil, nil, nil), true)))
	add("objOab", "object", dObject("O", false, pa(dInt(nil, nil, nil), false), pb(dBool(), false)))
	add("objOabReq", "object", dObject("O", false, pa(dInt(nil, nil, nil), false), pb(dBool(), true)))
	add("objOaStr", "object", dObject("O", false, pa(dString(nil, nil, nil), false)))
	add("objOaAny", "object", dObject("O", false, pa(dAny(), false)))
	add("objOa79", "object", dObject("O", false, pa(dInt(ip(7), ip(9), nil), false)))
	add("objPa", "object", dObject("P", false, pa(dInt(nil, nil, nil), false)))
	add("objPaUnenf", "object", dObject("P", true, pa(dInt(nil, nil, nil), false)))
	add("objOaDisabled", "object", dObject("O", false, propD{name: "a", t: dInt(nil, nil, nil), disabled: true}))
	mM := dObject("M", false, propD{name: "p", t: dInt(nil, nil, nil)})
	mN := dObject("N", false, propD{name: "q", t: dBool()})
	mMs := dObject("M", false, propD{name: "p", t: dString(nil, nil, nil)})
	mMk := dObject("M", false, propD{name: "p", t: dInt(nil, nil, nil)}, propD{name: "k", t: dString(nil, nil, nil)})
	add("oosA", "oneof_str", dOneOf(false, "k", false, memberD{skey: "A", t: mM}))
	add("oosAB", "oneof_str", dOneOf(false, "k", false, memberD{skey: "A", t: mM}, memberD{skey: "B", t: mN}))
	add("oosAkind", "oneof_str", dOneOf(false, "kind", false, memberD{skey: "A", t: mM}))
	add("oosAs", "oneof_str", dOneOf(false, "k", false, memberD{skey: "A", t: mMs}))
	add("oosAinl", "oneof_str", dOneOf(false, "k", true, memberD{skey: "A", t: mMk}))
	add("oosEmpty", "oneof_str", dOneOf(false, "k", false))
	add("ooi1", "oneof_int", dOneOf(true, "k", false, memberD{ikey: 1, t: mM}))
	add("ooi12", "oneof_int", dOneOf(true, "k", false, memberD{ikey: 1, t: mM}, memberD{ikey: 2, t: mN}))
	add("scopeOa", "scope", dScope("O", dObject("O", false, pa(dInt(nil, nil, nil), false))))
	add("scopeOxP", "scope", dScope("O", dObject("O", false, propD{name: "x", t: dRef("P", "")}), dObject("P", false, pa(dInt(nil, nil, nil), false))))
	add("scopeOxP79", "scope", dScope("O", dObject("O", false, propD{name: "x", t: dRef("P", "")}), dObject("P", false, pa(dInt(ip(7), ip(9), nil), false))))
	add("scopeOxInl", "scope", dScope("O", dObject("O", false, propD{name: "x", t: dObject("P", false, pa(dInt(nil, nil, nil), false))})))
	add("scopeOoneofRef", "scope", dScope("O", dObject("O", false, propD{name: "x", t: dOneOf(false, "k", false, memberD{skey: "A", t: dRef("M", "")})}), mM))
	add("scopeNested", "scope", dScope("O", dObject("O", false, propD{name: "x", t: dScope("P", dObject("P", false, propD{name: "y", t: dRef("Q", "")}), dObject("Q", false, pa(dInt(nil, nil, nil), false)))}),
		dObject("Q", false, pa(dString(nil, nil, nil), false))))
	// recursive and mutually recursive scopes (D03: the SDK has no cycle guard)
	add("scopeRecA", "scope", dScope("A", dObject("A", false, propD{name: "x", t: dRef("A", "")}, pa(dInt(nil, nil, nil), false))), "recursive")
	add("scopeRecA1", "scope", dScope("A", dObject("A", false, propD{name: "x", t: dRef("A", "")})), "recursive")
	add("scopeRecAB", "scope", dScope("A", dObject("A", false, propD{name: "x", t: dRef("B", "")}), dObject("B", false, propD{name: "y", t: dList(dRef("A", ""), nil, nil)})), "recursive")
	// an external namespace, applied and not applied
	extP := sx.L(sx.L(sx.S("ext"), sx.L(sx.L(sx.S("P"), dObject("P", false, pa(dInt(nil, nil, nil), false))))))
	as = append(as, c15Atom{name: "scopeExtApplied", kind: "scope", ext: extP,
		d: dScope("O", dObject("O", false, propD{name: "x", t: dRef("P", "ext")}))})
	as = append(as, c15Atom{name: "scopeExtUnapplied", kind: "scope", flags: []string{"unlinked"},
		d: dScope("O", dObject("O", false, propD{name: "x", t: dRef("P", "ext")}))})
	as = append(as, c15Atom{name: "listExtUnapplied", kind: "list", flags: []string{"unlinked"},
		d: dList(dRef("P", "ext"), nil, nil)})
	return as
}

func nan() float64 {
	z := 0.0
	return z / z
}

func c15Meta(kind, expect string, flags []string, notes ...*sx.Node) *sx.Node {
	fl := sx.L(sx.A("flags"))
	seen := map[string]bool{}
	for _, f := range flags {
		if !seen[f] {
			seen[f] = true
			fl.Append(sx.A(f))
		}
	}
	m := sx.L(sx.A("meta"), sx.A(kind), sx.L(sx.A("expect"), sx.A(expect)), fl)
	return m.Append(notes...)
}

func c15Case(a, b c15Atom, da, db *sx.Node, meta *sx.Node) *sx.Node {
	return sx.L(sx.A("c15"), mkEnv(a.ext, da, nil), da, mkEnv(b.ext, db, nil), db, meta)
}

// wrappers for one nesting level; the same wrapper on both sides
var c15Wrappers = []struct {
	name string
	wrap func(*sx.Node) *sx.Node
	ok   func(a c15Atom) bool
}{
	{"list", func(d *sx.Node) *sx.Node { return dList(d, nil, nil) }, func(c15Atom) bool { return true }},
	{"mapval", func(d *sx.Node) *sx.Node { return dMap(dString(nil, nil, nil), d, nil, nil) }, func(c15Atom) bool { return true }},
	{"mapkey", func(d *sx.Node) *sx.Node { return dMap(d, dBool(), nil, nil) },
		func(a c15Atom) bool { return a.kind == "int" || a.kind == "string" || a.kind == "enum_int" || a.kind == "enum_str" }},
	{"prop", func(d *sx.Node) *sx.Node { return dObject("W", false, propD{name: "w", t: d}, propD{name: "z", t: dBool()}) },
		func(c15Atom) bool { return true }},
	{"member", func(d *sx.Node) *sx.Node { return dOneOf(false, "k", false, memberD{skey: "A", t: d}) },
		func(a c15Atom) bool { return a.kind == "object" || a.kind == "scope" }},
}

func genC15Pairs(r *Rng, tier string, emit func(*sx.Node)) {
	atoms := c15Atoms()
	// (1) every ordered pair of atoms
	for _, a := range atoms {
		for _, b := range atoms {
			expect := c15GridExpect(a, b)
			emit(c15Case(a, b, a.d, b.d, c15Meta("grid", expect, append(append([]string{}, a.flags...), b.flags...), sx.S(a.name), sx.S(b.name))))
		}
	}
	// (2) one nesting level: the same wrapper around both sides.  thorough: all pairs; quick: a seeded sample
	for _, w := range c15Wrappers {
		for _, a := range atoms {
			if !w.ok(a) {
				continue
			}
			for _, b := range atoms {
				if !w.ok(b) {
					continue
				}
				if tier != "thorough" && a.name != b.name && !r.Chance(6) {
					continue
				}
				expect := c15GridExpect(a, b)
				emit(c15Case(a, b, w.wrap(a.d), w.wrap(b.d),
					c15Meta("grid-"+w.name, expect, append(append([]string{}, a.flags...), b.flags...), sx.S(a.name), sx.S(b.name))))
			}
		}
	}
	// (3) generated scopes: identical (also with every association list shuffled), single-feature
	// mutated at any reachable depth (both directions), unrelated
	n := 400
	if tier == "thorough" {
		n = 6000
	}
	for i := 0; i < n; i++ {
		g := &c15gen{r: r}
		depth := 1 + r.Intn(3)
		var s *sx.Node
		if r.Chance(75) {
			s = g.scope(depth)
		} else {
			s = g.typ(depth, false)
		}
		plain := c15Atom{}
		emit(c15Case(plain, plain, s, s, c15Meta("identical", "ok", nil)))
		emit(c15Case(plain, plain, s, c15Shuffle(r, s), c15Meta("identical-shuffled", "ok", nil)))
		for k := 0; k < 3; k++ {
			m := c15Copy(s)
			sites := c15Sites(m)
			if len(sites) == 0 {
				break
			}
			site := sites[r.Intn(len(sites))]
			fwd, bwd := site.apply(r)
			note := []*sx.Node{sx.S(site.class), sx.S(site.path)}
			// original = consumer, mutated = producer
			emit(c15Case(plain, plain, s, m, c15Meta("mutated-producer", fwd, nil, note...)))
			// mutated = consumer, original = producer
			emit(c15Case(plain, plain, m, s, c15Meta("mutated-consumer", bwd, nil, note...)))
		}
		g2 := &c15gen{r: r}
		u := g2.scope(1 + r.Intn(2))
		emit(c15Case(plain, plain, s, u, c15Meta("unrelated", "any", nil)))
	}
}

// ---------------------------------------------------------------------------------------
// generated schemas (acyclic reference graphs: object Oi refers only to Oj with j > i)
// ---------------------------------------------------------------------------------------

type c15gen struct {
	r      *Rng
	later  []string // ids a reference may point to
	inlCnt int
}

func (g *c15gen) bounds(lo0, span int) (*int64, *int64) {
	r := g.r
	lo, hi := int64(lo0+r.Intn(span)), int64(lo0+span+r.Intn(span))
	switch r.Intn(4) {
	case 0:
		return nil, nil
	case 1:
		return &lo, nil
	case 2:
		return nil, &hi
	}
	return &lo, &hi
}

func (g *c15gen) scalar() *sx.Node {
	r := g.r
	switch r.Intn(9) {
	case 0, 1:
		mn, mx := g.bounds(-10, 20)
		return dInt(mn, mx, nil)
	case 2:
		mn, mx := g.bounds(-10, 20)
		var a, b *float64
		if mn != nil {
			a = fp(float64(*mn) + 0.5)
		}
		if mx != nil {
			b = fp(float64(*mx) + 0.25)
		}
		return dFloat(a, b, nil)
	case 3:
		mn, mx := g.bounds(0, 6)
		return dString(mn, mx, nil)
	case 4:
		return dBool()
	case 5:
		names := []string{"", "", ""}
		if r.Chance(30) {
			names = []string{"one", "", "three"}
		}
		return dEnumIntD([]int64{1, 2, int64(3 + r.Intn(3))}, names)
	case 6:
		names := []string{"", "", ""}
		if r.Chance(30) {
			names = []string{"", "why", ""}
		}
		return dEnumStrD(nil, []string{"x", "y", "zed"}, names)
	case 7:
		if r.Chance(40) {
			return dPattern()
		}
		return dAny()
	}
	return dBool()
}

func (g *c15gen) keyType() *sx.Node {
	switch g.r.Intn(4) {
	case 0:
		return dInt(nil, nil, nil)
	case 1:
		return dEnumStrD(nil, []string{"x", "y"}, nil)
	case 2:
		return dEnumIntD([]int64{1, 2}, nil)
	}
	return dString(ip(1), nil, nil)
}

func (g *c15gen) typ(depth int, refs bool) *sx.Node {
	r := g.r
	if depth <= 0 {
		return g.scalar()
	}
	switch r.Intn(12) {
	case 0, 1:
		mn, mx := g.bounds(0, 4)
		return dList(g.typ(depth-1, refs), mn, mx)
	case 2, 3:
		mn, mx := g.bounds(0, 4)
		return dMap(g.keyType(), g.typ(depth-1, refs), mn, mx)
	case 4:
		g.inlCnt++
		return g.object(fmt.Sprintf("inl%d", g.inlCnt), depth-1, refs)
	case 5, 6:
		if refs && len(g.later) > 0 {
			return dRef(pick(r, g.later), "")
		}
	case 7:
		return g.oneof(depth-1, refs)
	}
	return g.scalar()
}

func (g *c15gen) oneof(depth int, refs bool) *sx.Node {
	r := g.r
	intKeys := r.Bool()
	n := 1 + r.Intn(3)
	var ms []memberD
	for i := 0; i < n; i++ {
		var t *sx.Node
		if refs && len(g.later) > 0 && r.Bool() {
			t = dRef(pick(r, g.later), "")
		} else {
			g.inlCnt++
			t = g.objectNamed(fmt.Sprintf("mem%d", g.inlCnt), depth, refs, []string{"p", "q", "w"})
		}
		ms = append(ms, memberD{ikey: int64(i + 1), skey: string(rune('A' + i)), t: t})
	}
	return dOneOf(intKeys, "kind", false, ms...)
}

func (g *c15gen) objectNamed(id string, depth int, refs bool, names []string) *sx.Node {
	r := g.r
	n := r.Intn(4)
	if n > len(names) {
		n = len(names)
	}
	var ps []propD
	used := map[string]bool{}
	for len(ps) < n {
		nm := pick(r, names)
		if used[nm] {
			continue
		}
		used[nm] = true
		ps = append(ps, propD{name: nm, t: g.typ(depth, refs), required: r.Chance(35)})
	}
	return dObject(id, r.Chance(10), ps...)
}

func (g *c15gen) object(id string, depth int, refs bool) *sx.Node {
	return g.objectNamed(id, depth, refs, propNames)
}

func (g *c15gen) scope(depth int) *sx.Node {
	n := 1 + g.r.Intn(4)
	ids := make([]string, n)
	for i := range ids {
		ids[i] = fmt.Sprintf("O%d", i)
	}
	var objs []*sx.Node
	for i, id := range ids {
		g.later = ids[i+1:]
		o := g.object(id, depth, true)
		// keep table objects ID-enforced and the root reachable
		o.List[2] = sx.B(false)
		objs = append(objs, o)
	}
	g.later = nil
	return dScope("O0", objs...)
}

func c15Copy(n *sx.Node) *sx.Node {
	c, err := sx.Parse(n.String())
	if err != nil {
		panic(err)
	}
	return c
}

// c15Shuffle returns a copy with every association list (enum values, properties, one-of
// members, scope objects) in a random order: the same Go schema, another list order for the model.
func c15Shuffle(r *Rng, n *sx.Node) *sx.Node {
	c := c15Copy(n)
	var walk func(x *sx.Node)
	shuffle := func(l *sx.Node) {
		for i := len(l.List) - 1; i > 0; i-- {
			j := r.Intn(i + 1)
			l.List[i], l.List[j] = l.List[j], l.List[i]
		}
	}
	walk = func(x *sx.Node) {
		if !x.IsList() {
			return
		}
		switch x.Head() {
		case "enum_int":
			shuffle(x.List[1])
		case "enum_str":
			shuffle(x.List[2])
		case "object":
			shuffle(x.List[3])
		case "oneof":
			shuffle(x.List[2])
		case "scope":
			shuffle(x.List[1])
		}
		for _, ch := range x.List {
			walk(ch)
		}
	}
	walk(c)
	return c
}

// ---------------------------------------------------------------------------------------
// single-feature mutations
// ---------------------------------------------------------------------------------------

// a place where one feature can be changed; apply edits the (copied) descriptor in place and
// returns what the property demands for (original consumer, mutated producer) and for
// (mutated consumer, original producer): "err" where the pair falls under a must-reject rule
// of the property text, "any" where the text demands nothing.
type c15Site struct {
	class string
	path  string
	apply func(r *Rng) (fwd, bwd string)
}

func c15Sites(root *sx.Node) []c15Site {
	var sites []c15Site
	visited := map[*sx.Node]bool{}
	var walk func(holder *sx.Node, idx int, tab map[string]*sx.Node, path string, keyPos bool, tableObj bool)
	rangeSite := func(n *sx.Node, iMn, iMx int, path string, nonNeg bool) {
		mn, mx := n.List[iMn], n.List[iMx]
		if isNone(mn) && isNone(mx) {
			return
		}
		isFloat := n.Head() == "float"
		sites = append(sites, c15Site{class: "bound", path: path, apply: func(r *Rng) (string, string) {
			put := func(lo, hi float64) {
				if isFloat {
					n.List[iMn], n.List[iMx] = flSx(lo), flSx(hi)
				} else {
					n.List[iMn], n.List[iMx] = sx.I(int64(lo)), sx.I(int64(hi))
				}
			}
			val := func(x *sx.Node) float64 {
				if isFloat {
					return flFromSx(x)
				}
				return float64(x.Int())
			}
			if !isNone(mx) { // a range strictly above the original maximum
				hi := val(mx)
				put(hi+3, hi+7)
				return "err", "err"
			}
			lo := val(mn) // only a minimum: a range strictly below it
			if nonNeg && lo < 1 {
				// no size below 0: widen instead (no demand)
				n.List[iMn] = none()
				return "any", "any"
			}
			if nonNeg {
				put(0, lo-1)
			} else {
				put(lo-9, lo-2)
			}
			return "err", "err"
		}})
	}
	leafKinds := func(keyPos bool) []*sx.Node {
		if keyPos {
			return []*sx.Node{dInt(nil, nil, nil), dString(nil, nil, nil)}
		}
		return []*sx.Node{dInt(nil, nil, nil), dString(nil, nil, nil), dBool(), dFloat(nil, nil, nil), dPattern(),
			dList(dBool(), nil, nil), dMap(dString(nil, nil, nil), dBool(), nil, nil)}
	}
	baseKind := func(n *sx.Node) string {
		if !n.IsList() {
			return n.Atom
		}
		switch n.Head() {
		case "enum_int":
			return "int"
		case "enum_str":
			return "string"
		case "ref", "scope":
			return "object"
		case "oneof":
			return "oneof" + n.List[1].Atom
		}
		return n.Head()
	}
	walk = func(holder *sx.Node, idx int, tab map[string]*sx.Node, path string, keyPos bool, tableObj bool) {
		n := holder.List[idx]
		if visited[n] {
			return
		}
		visited[n] = true
		// kind mutation: replace this node by a leaf of another base kind
		if bk := baseKind(n); bk != "any" && !tableObj {
			sites = append(sites, c15Site{class: "kind", path: path, apply: func(r *Rng) (string, string) {
				for {
					c := pick(r, leafKinds(keyPos))
					if baseKind(c) != bk {
						holder.List[idx] = c
						return "err", "err"
					}
				}
			}})
		}
		if !n.IsList() {
			return
		}
		switch n.Head() {
		case "int", "float":
			rangeSite(n, 1, 2, path, false)
		case "string":
			rangeSite(n, 1, 2, path, true)
		case "enum_int":
			sites = append(sites, c15Site{class: "enum_value", path: path, apply: func(r *Rng) (string, string) {
				n.List[1].Append(sx.L(sx.I(99), none()))
				return "err", "any"
			}})
		case "enum_str":
			sites = append(sites, c15Site{class: "enum_value", path: path, apply: func(r *Rng) (string, string) {
				n.List[2].Append(sx.L(sx.S("foreign"), none()))
				return "err", "any"
			}})
		case "list":
			rangeSite(n, 2, 3, path, true)
			walk(n, 1, tab, path+"/item", false, false)
		case "map":
			rangeSite(n, 3, 4, path, true)
			walk(n, 1, tab, path+"/key", true, false)
			walk(n, 2, tab, path+"/value", false, false)
		case "object":
			props := n.List[3]
			sites = append(sites, c15Site{class: "property_added", path: path, apply: func(r *Rng) (string, string) {
				req := r.Bool()
				props.Append(propD{name: "zz_extra", t: dBool(), required: req}.sx())
				if req {
					return "err", "err" // undeclared one way, a missing required property the other way
				}
				return "err", "any"
			}})
			if len(props.List) > 0 {
				sites = append(sites, c15Site{class: "property_removed", path: path, apply: func(r *Rng) (string, string) {
					i := r.Intn(len(props.List))
					req := props.List[i].List[1].List[3].Atom == "1"
					props.List = append(append([]*sx.Node{}, props.List[:i]...), props.List[i+1:]...)
					if req {
						return "err", "err"
					}
					return "any", "err"
				}})
				sites = append(sites, c15Site{class: "required_flag", path: path, apply: func(r *Rng) (string, string) {
					// an optional property made required (or the reverse): both still declare it — no demand
					p := props.List[r.Intn(len(props.List))].List[1]
					if p.List[3].Atom == "1" {
						p.List[3] = sx.A("0")
					} else {
						p.List[3] = sx.A("1")
					}
					return "any", "any"
				}})
			}
			if !tableObj && n.List[2].Atom == "0" {
				sites = append(sites, c15Site{class: "id", path: path, apply: func(r *Rng) (string, string) {
					n.List[1] = sx.S(n.List[1].Str + "_other")
					return "err", "err"
				}})
			}
			for _, p := range props.List {
				walk(p.List[1], 1, tab, path+"/"+p.List[0].Str, false, false)
			}
		case "oneof":
			ms := n.List[2]
			if n.List[4].Atom == "0" {
				sites = append(sites, c15Site{class: "discriminator", path: path, apply: func(r *Rng) (string, string) {
					n.List[3] = sx.S(n.List[3].Str + "_other")
					return "err", "err"
				}})
			}
			if len(ms.List) > 1 {
				sites = append(sites, c15Site{class: "member_removed", path: path, apply: func(r *Rng) (string, string) {
					i := r.Intn(len(ms.List))
					ms.List = append(append([]*sx.Node{}, ms.List[:i]...), ms.List[i+1:]...)
					return "err", "any"
				}})
			}
			for _, m := range ms.List {
				// a member stays an object: no kind mutation on the member itself
				mm := m.List[1]
				if mm.Head() == "ref" {
					if o, ok := tab[mm.List[1].Str]; ok && mm.List[2].Str == "" {
						walkObj(o, tab, path+"/"+m.List[0].String()+"->"+mm.List[1].Str, &sites, walk, visited)
					}
				} else {
					walkInline(m, 1, tab, path+"/"+m.List[0].String(), &sites, walk)
				}
			}
		case "ref":
			if n.List[2].Str == "" {
				if o, ok := tab[n.List[1].Str]; ok {
					walkObj(o, tab, path+"->"+n.List[1].Str, &sites, walk, visited)
				}
			}
		case "scope":
			inner := map[string]*sx.Node{}
			for _, o := range n.List[1].List {
				inner[o.List[0].Str] = o
			}
			if o, ok := inner[n.List[2].Str]; ok {
				walkObj(o, inner, path+"/scope:"+n.List[2].Str, &sites, walk, visited)
			}
		}
	}
	top := sx.L(root)
	walk(top, 0, map[string]*sx.Node{}, "", false, root.IsList() && root.Head() == "scope")
	// the walk mutates top.List[0] for a top-level kind change: copy it back into root
	_ = top
	return filterTopKind(sites, root)
}

// walkObj visits a scope-table entry (ID OBJECT): the object node is entry.List[1]; it keeps its
// id (references find it by id) and stays an object.
func walkObj(entry *sx.Node, tab map[string]*sx.Node, path string, sites *[]c15Site,
	walk func(holder *sx.Node, idx int, tab map[string]*sx.Node, path string, keyPos bool, tableObj bool), visited map[*sx.Node]bool) {
	walk(entry, 1, tab, path, false, true)
}

// walkInline visits an inline one-of member: it may change its id / properties but stays an object.
func walkInline(holder *sx.Node, idx int, tab map[string]*sx.Node, path string, sites *[]c15Site,
	walk func(holder *sx.Node, idx int, tab map[string]*sx.Node, path string, keyPos bool, tableObj bool)) {
	n := holder.List[idx]
	// same as an object node, minus the kind site: emulate by a wrapper that marks tableObj for the
	// kind site only; the id site of an inline member is re-added here
	walk2 := func() {
		// temporarily treat as table object to suppress the kind site
		walk(holder, idx, tab, path, false, true)
	}
	walk2()
	if n.IsList() && n.Head() == "object" && n.List[2].Atom == "0" {
		*sites = append(*sites, c15Site{class: "id", path: path, apply: func(r *Rng) (string, string) {
			n.List[1] = sx.S(n.List[1].Str + "_other")
			return "err", "err"
		}})
	}
}

// filterTopKind drops the kind site of the top-level node itself (path ""): replacing the whole
// schema is the "unrelated" family, not a single-feature mutation.
func filterTopKind(sites []c15Site, root *sx.Node) []c15Site {
	var out []c15Site
	for _, s := range sites {
		if s.class == "kind" && s.path == "" {
			continue
		}
		out = append(out, s)
	}
	return out
}

// ---------------------------------------------------------------------------------------
// rebuilt family
// ---------------------------------------------------------------------------------------

// describable scopes only (C09's known limits: negative integer bounds D27, enum-keyed maps D28,
// empty enums / odd ids D29 are avoided here)
func (g *c15gen) rbScalar() *sx.Node {
	r := g.r
	switch r.Intn(7) {
	case 0:
		return dInt(ip(int64(r.Intn(5))), ip(int64(10+r.Intn(5))), nil)
	case 1:
		return dInt(nil, nil, nil)
	case 2:
		return dString(ip(1), ip(8), nil)
	case 3:
		return dBool()
	case 4:
		return dFloat(fp(0.5), fp(9.5), nil)
	case 5:
		return dEnumStrD(nil, []string{"x", "y"}, []string{"ex", "why"})
	}
	return dEnumIntD([]int64{1, 2}, []string{"one", "two"})
}

func genC15Rebuilt(r *Rng, tier string, emit func(*sx.Node)) {
	n := 150
	if tier == "thorough" {
		n = 1500
	}
	for i := 0; i < n; i++ {
		g := &c15gen{r: r}
		k := 1 + r.Intn(3)
		ids := make([]string, k)
		for j := range ids {
			ids[j] = fmt.Sprintf("O%d", j)
		}
		var objs []*sx.Node
		for j, id := range ids {
			later := ids[j+1:]
			var ps []propD
			used := map[string]bool{}
			for len(ps) < 1+r.Intn(3) {
				nm := pick(r, propNames)
				if used[nm] {
					continue
				}
				used[nm] = true
				var t *sx.Node
				switch {
				case len(later) > 0 && r.Chance(35):
					t = dRef(pick(r, later), "")
				case r.Chance(20):
					t = dList(g.rbScalar(), ip(0), ip(5))
				case r.Chance(15):
					t = dMap(dString(ip(1), nil, nil), g.rbScalar(), nil, nil)
				default:
					t = g.rbScalar()
				}
				ps = append(ps, propD{name: nm, t: t, required: r.Chance(35)})
			}
			objs = append(objs, dObject(id, false, ps...))
		}
		s := dScope("O0", objs...)
		emit(sx.L(sx.A("c15rb"), mkEnv(nil, s, nil), s))
	}
}

func init() {
	families["c15pairs"] = &Family{Label: "c15", Gen: genC15Pairs, Run: runC15}
	families["c15rebuilt"] = &Family{Label: "c15", Gen: genC15Rebuilt, Run: runC15}
}
