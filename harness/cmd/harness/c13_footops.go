package main

// C13 — family c13foot, cases `footops`: the sequential footprint of WHOLE SCHEMA OPERATIONS.
//
//   case  (footops fresh|lazy ENV SCHEMA (ops (u V)|(v V)|(s V)|(c V) ...))
//   obs   (r (init all|none|mixed) (o CLASS (w (sorted N)|(re N)|(defaults N) ...)) ...)
//
// One schema instance nobody has used yet; the operations one after the other; after each, the
// cache cells it filled.  A cell is named by the NUMBER of the schema node that owns it — preorder
// over the descriptor, the node first, then its children left to right, exactly
// Schema/FootprintOps.ssize — so the walker below goes through the descriptor and the built Go schema
// in parallel (the Go maps have no order; the descriptor has).  Cells are read through the
// verif-tagged read-only accessors schema.VerifUnitsCacheState / VerifObjectDefaultsDecoded.
//
//   fresh: built by the public constructors (every object's defaults are decoded by the
//          constructor: `init all`; only unit caches are filled lazily).
//   lazy : an object tree WITHOUT references, serialized through the meta-schema's "Object" object and
//          unserialized again, never linked: every ObjectSchema in it has defaultValues == nil
//          (`init none`) and decodes its defaults on the first GetDefaults — i.e. on the first
//          Unserialize of a map in which at least one of its properties is absent.
//          (A scope that went through UnserializeScope/UnserializeSchema is NOT lazy any more:
//          ObjectSchema.ApplyNamespace decodes the defaults of every object it links.)
//
// The model (Interp/RunFootprint.v) prints per operation the outcome class, the cells its own
// state-passing run fills (d), the cells the operation's uses fill from an empty state in the model's
// evaluation order (t) and with the iterations over Go maps continued past a failing entry (m: the
// union over all iteration orders).  lib/props_c13.py compares: init; for an operation that succeeds
// w = t minus the cells observed filled before (and w = d while no failing operation has occurred);
// for one that fails w within m.

import (
	"fmt"
	"sort"

	"go.flow.arcalot.io/pluginsdk/schema"
	"verif/harness/sx"
)

type c13HasUnits interface{ Units() *schema.UnitsDefinition }

type c13Cells struct {
	units map[int64]*schema.UnitsDefinition
	objs  map[int64]*schema.ObjectSchema
}

func newC13Cells() *c13Cells {
	return &c13Cells{units: map[int64]*schema.UnitsDefinition{}, objs: map[int64]*schema.ObjectSchema{}}
}

// c13Walk numbers the nodes of descriptor d from b and records the Go objects that own cache cells;
// it returns the number of nodes of d.
func c13Walk(d *sx.Node, t any, b int64, c *c13Cells) int64 {
	if !d.IsList() {
		return 1
	}
	switch d.Head() {
	case "int", "float":
		if !isNone(d.List[3]) {
			c.units[b] = t.(c13HasUnits).Units()
		}
		return 1
	case "enum_int":
		if !isNone(d.List[2]) {
			c.units[b] = t.(c13HasUnits).Units()
		}
		return 1
	case "list":
		return 1 + c13Walk(d.List[1], t.(c12HasItems).Items(), b+1, c)
	case "map":
		kv := t.(c12HasKV)
		k := c13Walk(d.List[1], kv.Keys(), b+1, c)
		return 1 + k + c13Walk(d.List[2], kv.Values(), b+1+k, c)
	case "object":
		o := t.(*schema.ObjectSchema)
		c.objs[b] = o
		n := int64(1)
		for _, p := range d.List[3].List {
			n += c13Walk(p.List[1].List[1], o.Properties()[p.List[0].Str].Type(), b+n, c)
		}
		return n
	case "oneof":
		n := int64(1)
		for _, m := range d.List[2].List {
			var mt any
			if d.List[1].Atom == "1" {
				mt = t.(c12TypesI).Types()[m.List[0].Int()]
			} else {
				mt = t.(c12TypesS).Types()[m.List[0].Str]
			}
			n += c13Walk(m.List[1], mt, b+n, c)
		}
		return n
	case "scope":
		sc := t.(*schema.ScopeSchema)
		n := int64(1)
		for _, o := range d.List[1].List {
			n += c13Walk(o.List[1], sc.Objects()[o.List[0].Str], b+n, c)
		}
		return n
	}
	return 1 // string, enum_str, ref
}

// c13FootSupported: only the descriptor heads the walker knows, scope tables keyed by their objects' ids.
func c13FootSupported(d *sx.Node) bool {
	if !d.IsList() {
		return d.Atom == "bool" || d.Atom == "pattern" || d.Atom == "any"
	}
	switch d.Head() {
	case "int", "float", "string", "enum_int", "enum_str", "ref":
		return true
	case "list":
		return c13FootSupported(d.List[1])
	case "map":
		return c13FootSupported(d.List[1]) && c13FootSupported(d.List[2])
	case "object":
		for _, p := range d.List[3].List {
			if !c13FootSupported(p.List[1].List[1]) {
				return false
			}
		}
		return true
	case "oneof":
		for _, m := range d.List[2].List {
			if !c13FootSupported(m.List[1]) {
				return false
			}
		}
		return true
	case "scope":
		seen := map[string]bool{}
		for _, o := range d.List[1].List {
			if o.List[1].Head() != "object" || o.List[1].List[1].Str != o.List[0].Str || seen[o.List[0].Str] {
				return false
			}
			seen[o.List[0].Str] = true
			if !c13FootSupported(o.List[1]) {
				return false
			}
		}
		return true
	}
	return false
}

func c13HasRefOrScope(d *sx.Node) bool {
	if !d.IsList() {
		return false
	}
	if d.Head() == "ref" || d.Head() == "scope" {
		return true
	}
	for _, c := range d.List {
		if c13HasRefOrScope(c) {
			return true
		}
	}
	return false
}

func c13FootBuild(mode string, envN, schemaN *sx.Node) (s schema.Type, cells *c13Cells, ok bool) {
	defer func() {
		if recover() != nil {
			s, cells, ok = nil, nil, false
		}
	}()
	cells = newC13Cells()
	if mode == "lazy" {
		o := buildSchema(schemaN).(*schema.ObjectSchema)
		meta := schema.DescribeScope().Objects()["Object"]
		ser, err := meta.Serialize(o)
		if err != nil {
			return nil, nil, false
		}
		re, err := meta.Unserialize(ser)
		if err != nil {
			return nil, nil, false
		}
		ro := re.(*schema.ObjectSchema)
		c13Walk(schemaN, ro, 0, cells)
		return ro, cells, true
	}
	s = buildSchema(schemaN)
	b := c13Walk(schemaN, s, 0, cells)
	for _, ext := range envN.List[1].List[1].List {
		ns := ext.List[0].Str
		scopeN := sx.L(sx.A("scope"), ext.List[1], sx.S(ext.List[1].List[0].List[0].Str))
		tab := buildScope(scopeN)
		s.ApplyNamespace(tab.Objects(), ns)
		for _, o := range ext.List[1].List {
			b += c13Walk(o.List[1], tab.Objects()[o.List[0].Str], b, cells)
		}
	}
	return s, cells, true
}

type c13CellID struct {
	n    int64
	rank int // 0 sorted, 1 re, 2 defaults (Interp/RunFootprint.cell_rank)
}

func (c c13CellID) sx() *sx.Node {
	return sx.L(sx.A([]string{"sorted", "re", "defaults"}[c.rank]), sx.I(c.n))
}

func (c *c13Cells) snapshot() map[c13CellID]bool {
	st := map[c13CellID]bool{}
	for n, u := range c.units {
		s, r := schema.VerifUnitsCacheState(u)
		st[c13CellID{n, 0}] = s
		st[c13CellID{n, 1}] = r
	}
	for n, o := range c.objs {
		st[c13CellID{n, 2}] = schema.VerifObjectDefaultsDecoded(o)
	}
	return st
}

func c13SortedCells(st map[c13CellID]bool) []c13CellID {
	var ks []c13CellID
	for k := range st {
		ks = append(ks, k)
	}
	sort.Slice(ks, func(i, j int) bool {
		if ks[i].n != ks[j].n {
			return ks[i].n < ks[j].n
		}
		return ks[i].rank < ks[j].rank
	})
	return ks
}

func c13FootOp(s schema.Type, o *sx.Node) *sx.Node {
	v := valFromSx(o.List[1])
	return c04Class(func() error {
		switch o.Head() {
		case "u":
			_, err := s.Unserialize(v)
			return err
		case "v":
			return s.Validate(v)
		case "s":
			_, err := s.Serialize(v)
			return err
		default:
			return s.ValidateCompatibility(v)
		}
	})
}

func runFootOpsCase(p *sx.Node) *sx.Node {
	s, cells, ok := c13FootBuild(p.List[1].Atom, p.List[2], p.List[3])
	if !ok {
		return sx.L(sx.A("bad"), sx.S("not buildable"))
	}
	res := sx.L(sx.A("r"))
	state := cells.snapshot()
	dec := 0
	for n := range cells.objs {
		if state[c13CellID{n, 2}] {
			dec++
		}
	}
	init := "mixed"
	if dec == len(cells.objs) {
		init = "all"
	} else if dec == 0 {
		init = "none"
	}
	res.Append(sx.L(sx.A("init"), sx.A(init)))
	for _, o := range p.List[4].List[1:] {
		cls := c13FootOp(s, o)
		now := cells.snapshot()
		w := sx.L(sx.A("w"))
		for _, c := range c13SortedCells(now) {
			if now[c] && !state[c] {
				w.Append(c.sx())
			}
			if !now[c] && state[c] {
				w.Append(sx.L(sx.A("emptied"), sx.I(c.n)))
			}
		}
		res.Append(sx.L(sx.A("o"), cls, w))
		state = now
	}
	return res
}

// ---- generation ----

// c13FootType: property types rich in units, defaults and the containers that lead to them.
func c13FootType(r *Rng, depth int, later []string, inl *int) *sx.Node {
	secs, byt := unitsFromSDK(schema.UnitDurationSeconds), unitsFromSDK(schema.UnitBytes)
	chr := unitsFromSDK(schema.UnitCharacters) // no multipliers: the sorted cache stays nil
	u := pick(r, []*unitsD{&secs, &secs, &byt, &byt, &chr})
	if r.Chance(8) {
		g := genUnits(r)
		u = &g
	}
	n := 10
	if depth <= 0 {
		n = 5
	}
	switch r.Intn(n) {
	case 0:
		return dInt(nil, nil, u)
	case 1:
		return dFloat(nil, nil, u)
	case 2:
		return dEnumInt([]int64{1, 60, 90, 1024}, u)
	case 3:
		return pick(r, []*sx.Node{dInt(ip(0), ip(100), nil), dString(nil, nil, nil), dBool(), dFloat(nil, nil, nil)})
	case 4:
		return dInt(ip(0), nil, u)
	case 5:
		return dList(c13FootType(r, depth-1, later, inl), nil, nil)
	case 6:
		if r.Bool() {
			return dMap(dString(nil, nil, nil), c13FootType(r, depth-1, later, inl), nil, nil)
		}
		return dMap(dInt(nil, nil, u), c13FootType(r, depth-1, later, inl), nil, nil)
	case 7:
		if len(later) > 0 {
			return dRef(pick(r, later), "")
		}
		return dInt(nil, nil, u)
	case 8:
		*inl++
		return c13FootObject(r, fmt.Sprintf("In%d", *inl), depth-1, later, inl)
	default:
		if len(later) >= 1 {
			var ms []memberD
			for i, id := range later {
				if i < 3 {
					ms = append(ms, memberD{skey: "k" + id, t: dRef(id, "")})
				}
			}
			return dOneOf(false, "kind", false, ms...)
		}
		*inl++
		a := c13FootObject(r, fmt.Sprintf("In%d", *inl), depth-1, later, inl)
		*inl++
		b := c13FootObject(r, fmt.Sprintf("In%d", *inl), depth-1, later, inl)
		return dOneOf(false, "kind", false, memberD{skey: "a", t: a}, memberD{skey: "b", t: b})
	}
}

func c13FootObject(r *Rng, id string, depth int, later []string, inl *int) *sx.Node {
	var props []propD
	used := map[string]bool{}
	for i, n := 0, 1+r.Intn(4); i < n; i++ {
		name := pick(r, propNames)
		if used[name] || name == "kind" {
			continue
		}
		used[name] = true
		t := c13FootType(r, depth, later, inl)
		p := propD{name: name, t: t}
		switch t.Head() {
		case "int", "float":
			if !isNone(t.List[3]) && r.Chance(50) {
				p.dflt = sp(pick(r, []string{"5", `"1m"`, `"2kB"`, `"90"`, "7"}))
			}
		case "string":
			if r.Chance(40) {
				p.dflt = sp(`"dflt"`)
			}
		}
		if p.dflt == nil && r.Chance(12) {
			p.required = true
		}
		props = append(props, p)
	}
	if len(props) == 0 {
		secs := unitsFromSDK(schema.UnitDurationSeconds)
		props = append(props, propD{name: "n", t: dInt(nil, nil, &secs), dflt: sp(`"1m"`)})
	}
	return dObject(id, false, props...)
}

func c13FootScope(r *Rng) *sx.Node {
	n := 1 + r.Intn(3)
	var ids []string
	for i := 0; i < n; i++ {
		ids = append(ids, fmt.Sprintf("O%d", i))
	}
	inl := 0
	var objs []*sx.Node
	for i, id := range ids {
		objs = append(objs, c13FootObject(r, id, 2, ids[i+1:], &inl))
	}
	return dScope(ids[0], objs...)
}

func c13FootOpsCase(r *Rng, sc c04Schema, n int) *sx.Node {
	if !c13FootSupported(sc.s) {
		return nil
	}
	var calls []*sx.Node
	for _, o := range c12History(r, sc, n) {
		if o.Head() == "cs" { // schema-vs-schema compatibility calls (C12/C15) are not data operations: no footprint model
			continue
		}
		if !c12Collides(o.List[1]) { // D19: the verdict itself depends on the iteration order
			calls = append(calls, o)
		}
	}
	if len(calls) == 0 {
		return nil
	}
	mode := "fresh"
	if sc.s.Head() == "object" && sc.ext == nil && !c13HasRefOrScope(sc.s) {
		if _, _, ok := c13FootBuild("lazy", mkEnvEmpty(), sc.s); ok {
			mode = "lazy"
		}
	}
	if _, _, ok := c13FootBuild(mode, mkEnv(sc.ext, sc.s, calls), sc.s); !ok {
		return nil
	}
	l := sx.L(sx.A("ops"))
	l.Append(calls...)
	return sx.L(sx.A("footops"), sx.A(mode), mkEnv(sc.ext, sc.s, calls), sc.s, l)
}

func genFootOps(r *Rng, tier string, emit func(*sx.Node)) {
	nDed, nGen, nPer := 260, 120, 2
	if tier == "thorough" {
		nDed, nGen, nPer = 4000, 1500, 10
	}
	put := func(c *sx.Node) {
		if c != nil {
			emit(c)
		}
	}
	for _, sc := range c04FixedSchemas() {
		if c04InlineCycle(sc.s, sc.ext) || sc.defaultCyc {
			continue
		}
		for i := 0; i < nPer; i++ {
			put(c13FootOpsCase(r, sc, 1+r.Intn(8)))
		}
	}
	for i := 0; i < nDed; i++ {
		var s *sx.Node
		if r.Chance(40) {
			inl := 0
			s = c13FootObject(r, "Top", 2, nil, &inl) // no references: rebuilt unlinked -> lazy defaults
		} else {
			s = c13FootScope(r)
		}
		put(c13FootOpsCase(r, c04Schema{s: s}, 2+r.Intn(8)))
	}
	for i := 0; i < nGen; i++ {
		g := &sgen{r: r}
		var s *sx.Node
		if r.Chance(70) {
			s = g.scope(1 + r.Intn(3))
		} else {
			s = g.typ(1 + r.Intn(3))
		}
		if c04InlineCycle(s, nil) {
			continue
		}
		put(c13FootOpsCase(r, c04Schema{s: s}, 1+r.Intn(8)))
	}
}
