package main

import (
	"fmt"
	"reflect"
	"regexp"
	"sort"

	"verif/harness/sx"
)

// Family `structobj`: struct-mapped objects (NewStructMappedObjectSchema[T], NewTypedObject[T],
// typed scopes) over the fixed struct family of xstruct_types.go.
//
//   payload ::= (xsch ENV STRUCTS XSCHEMA (ops OP...))
//   OP      ::= (u V) | (v V) | (s V) | (c V) | (rt V)      as for map-based schemas
//             | (x V)     Unserialize on the schema and on the SAME schema rebuilt map-based (C03 partner)
//             | (ty V)    untyped vs typed entry points (UnserializeType / ValidateType / SerializeType)

type xgen struct {
	r     *Rng
	scope bool // generate refs to the scope objects XI (struct-mapped XInner) and A (map-based, recursive)
	rich  bool // sub-object defaults everywhere: most member properties have defaults, half of the object-typed properties declare a (partial) object default
}

// xgenRichDefaults (opt-in, set around a generator call; the default streams stay as they are): member defaults come
// from richDefaultFor - JSON lists / maps on `any`-typed members, non-empty list and map defaults.
var xgenRichDefaults bool

type xcand struct {
	prop  string
	types []func() *sx.Node
}

func one(n *sx.Node) func() *sx.Node { return func() *sx.Node { return n } }

func (g *xgen) innerObj(ptr bool) *sx.Node {
	r := g.r
	a := propD{name: "a", t: pick(r, []*sx.Node{dInt(nil, nil, nil), dInt(nil, nil, nil), dInt(ip(1), nil, nil), dEnumInt([]int64{1, 2, 5}, nil)})}
	b := propD{name: "b", t: pick(r, []*sx.Node{dString(nil, nil, nil), dString(nil, nil, nil), dString(ip(1), nil, nil), dEnumStr(nil, []string{"x", "y", "dflt"})})}
	var ps []propD
	switch r.Intn(4) {
	case 0:
		ps = []propD{a}
	default:
		ps = []propD{a, b}
	}
	g.decorate(ps)
	if r.Chance(35) {
		ps[0].dflt = sp(pick(r, []string{"1", "5", "\"2\""}))
	}
	if g.rich {
		if r.Chance(60) {
			ps[0].dflt = sp(pick(r, []string{"1", "5", "2"}))
		}
		if len(ps) > 1 && r.Chance(60) {
			ps[1].dflt = sp(pick(r, []string{"\"x\"", "\"y\"", "\"dflt\""}))
		}
	}
	return dXObject("XInner", false, "XInner", ptr, ps...)
}

func (g *xgen) mapObj() *sx.Node {
	ps := []propD{{name: "p", t: dInt(nil, nil, nil)}, {name: "q", t: dString(nil, nil, nil)}}
	if g.r.Chance(30) {
		ps = ps[:1]
	}
	g.decorate(ps)
	if g.r.Chance(30) {
		ps[0].dflt = sp("3")
	}
	if g.r.Chance(35) || g.rich && g.r.Chance(50) {
		// a third level below the plain object: an object-typed property (map-based, or struct-mapped by value)
		// whose object has defaults of its own
		var sub *sx.Node
		if g.r.Bool() {
			sub = dObject("MI", false, propD{name: "y", t: dInt(nil, nil, nil), dflt: pick(g.r, []*string{sp("5"), sp("5"), nil})},
				propD{name: "z", t: dString(nil, nil, nil), dflt: pick(g.r, []*string{sp("\"zd\""), nil})})
		} else {
			sub = g.innerObj(false)
		}
		o := []propD{{name: "o", t: sub}}
		g.decorate(o)
		o[0].required, o[0].requiredIf, o[0].requiredIfNot, o[0].conflicts = false, nil, nil, nil
		ps = append(ps, o[0])
	}
	return dObject("MO", false, ps...)
}

func (g *xgen) cands(structName string) []xcand {
	r := g.r
	intT := func() *sx.Node {
		return pick(r, []*sx.Node{dInt(nil, nil, nil), dInt(nil, nil, nil), dInt(ip(-5), ip(50), nil), dInt(ip(1), nil, nil), dEnumInt([]int64{0, 1, 2, 7}, nil)})
	}
	floatT := func() *sx.Node { return pick(r, []*sx.Node{dFloat(nil, nil, nil), dFloat(fp(0.5), fp(40), nil)}) }
	strT := func() *sx.Node {
		return pick(r, []*sx.Node{dString(nil, nil, nil), dString(nil, nil, nil), dString(ip(1), ip(6), nil), dEnumStr(nil, []string{"x", "y", "zed"})})
	}
	namedT := func() *sx.Node {
		return pick(r, []*sx.Node{dEnumStr(sp("MyStr"), []string{"x", "y", "zed"}), dString(nil, nil, nil)})
	}
	boolT := func() *sx.Node { return dBool() }
	innerV := func() *sx.Node {
		if g.scope && r.Chance(40) {
			return dRef("XI", "")
		}
		return g.innerObj(false)
	}
	innerP := func() *sx.Node { return g.innerObj(true) }
	innerAny := func() *sx.Node {
		if r.Bool() {
			return innerV()
		}
		return innerP()
	}
	switch structName {
	case "XInner":
		return []xcand{{"a", []func() *sx.Node{intT}}, {"b", []func() *sx.Node{strT}}}
	case "XTwo":
		return []xcand{{"a", []func() *sx.Node{intT}}, {"b", []func() *sx.Node{intT}}}
	case "XScalars", "XPtrs":
		c := []xcand{{"i", []func() *sx.Node{intT}}, {"f", []func() *sx.Node{floatT}}, {"s", []func() *sx.Node{strT}},
			{"b", []func() *sx.Node{boolT}}, {"n", []func() *sx.Node{namedT}}}
		if structName == "XScalars" {
			c = append(c, xcand{"e", []func() *sx.Node{one(dEnumInt([]int64{1, 2, 3}, nil))}})
		}
		return c
	case "XNested":
		return []xcand{{"in", []func() *sx.Node{innerV}}, {"p", []func() *sx.Node{innerAny}}, {"x", []func() *sx.Node{intT}}}
	case "XDeep":
		nested := func(ptr bool) func() *sx.Node {
			return func() *sx.Node {
				sub := &xgen{r: r, rich: g.rich}
				return sub.object("XNested", ptr, "XNested")
			}
		}
		return []xcand{{"n", []func() *sx.Node{nested(false)}}, {"pn", []func() *sx.Node{nested(false), nested(true)}}, {"y", []func() *sx.Node{intT}}}
	case "XColl":
		return []xcand{
			{"l", []func() *sx.Node{func() *sx.Node { return dList(strT(), nil, ip(3)) }}},
			{"li", []func() *sx.Node{func() *sx.Node { return dList(dInt(nil, nil, nil), pick(r, []*int64{nil, ip(1)}), nil) }}},
			{"m", []func() *sx.Node{func() *sx.Node { return dMap(dString(ip(1), nil, nil), dInt(nil, nil, nil), nil, ip(3)) }}},
			{"ls", []func() *sx.Node{func() *sx.Node { return dList(g.innerObj(false), nil, ip(3)) }}},
			{"ms", []func() *sx.Node{func() *sx.Node { return dMap(dString(ip(1), nil, nil), g.innerObj(false), nil, nil) }}},
			{"a", []func() *sx.Node{one(dAny())}},
			{"o", []func() *sx.Node{g.mapObj}},
			{"lp", []func() *sx.Node{func() *sx.Node { return dList(g.innerObj(true), nil, ip(3)) }}},
		}
	case "XEmbedded", "XEmbPtr":
		return []xcand{{"a", []func() *sx.Node{intT}}, {"b", []func() *sx.Node{strT}}, {"c", []func() *sx.Node{intT}}}
	case "XLoose":
		return []xcand{
			{"i32", []func() *sx.Node{intT}}, {"u8", []func() *sx.Node{intT}}, {"f32", []func() *sx.Node{floatT}},
			{"str", []func() *sx.Node{strT, namedT, intT}},
			{"flag", []func() *sx.Node{boolT, boolT, intT}},
			{"any", []func() *sx.Node{intT, strT, one(dAny()), func() *sx.Node { return dList(dInt(nil, nil, nil), nil, nil) }, g.mapObj}},
			{"ByName", []func() *sx.Node{intT}},
			{"re", []func() *sx.Node{one(dPattern()), one(dPattern()), strT}},
			{"pi32", []func() *sx.Node{intT}},
			{"in", []func() *sx.Node{innerV, innerV, innerP}},
		}
	case "XMid":
		return []xcand{{"m", []func() *sx.Node{g.mapObj}}, {"in", []func() *sx.Node{innerV}}, {"k", []func() *sx.Node{intT}}}
	case "XHold":
		return []xcand{{"o", []func() *sx.Node{func() *sx.Node { return g.oneofX() }}}, {"k", []func() *sx.Node{intT}}}
	case "XRec":
		m := func() *sx.Node {
			if g.scope && r.Chance(50) {
				return dRef("A", "")
			}
			return g.mapObj()
		}
		return []xcand{{"m", []func() *sx.Node{m}}, {"k", []func() *sx.Node{intT}}}
	}
	panic("no candidates for " + structName)
}

// names: 1..3 distinct names of the list, in ANY order (rule lists are not sorted by the constructors).
func (g *xgen) names(others []string) []string {
	if len(others) == 0 {
		return nil
	}
	n := 1
	if len(others) > 1 && g.r.Chance(50) {
		n = 2 + g.r.Intn(2)
	}
	if n > len(others) {
		n = len(others)
	}
	pool := append([]string{}, others...)
	var out []string
	for i := 0; i < n; i++ {
		j := g.r.Intn(len(pool))
		out = append(out, pool[j])
		pool = append(pool[:j], pool[j+1:]...)
	}
	return out
}

// decorate adds presence rules, defaults and flags to a property list.
func (g *xgen) decorate(ps []propD) {
	r := g.r
	for i := range ps {
		p := &ps[i]
		var others []string
		for j := range ps {
			if j != i {
				others = append(others, ps[j].name)
			}
		}
		switch r.Intn(10) {
		case 0, 1, 2:
			p.required = true
		case 3:
			p.requiredIf = g.names(others)
		case 4:
			p.requiredIfNot = g.names(others)
		case 5:
			p.conflicts = g.names(others)
		}
		if r.Chance(20) || g.rich && (p.t.Head() == "xobject" || p.t.Head() == "ref" || p.t.Head() == "object") && r.Chance(40) ||
			xgenRichDefaults && r.Chance(45) {
			switch p.t.Head() {
			case "xobject", "ref":
				p.dflt = sp(pick(r, []string{"{\"a\":5}", "{\"b\":\"dflt\"}", "{}", "{\"a\":7,\"b\":\"x\"}"}))
			case "object":
				p.dflt = sp(pick(r, []string{"{\"p\":5}", "{}"}))
			default:
				if xgenRichDefaults {
					p.dflt = richDefaultFor(r, p.t) // container defaults (JSON lists / maps) on `any`, list and map members
				} else {
					p.dflt = defaultFor(r, p.t)
				}
			}
		}
		if r.Chance(25) {
			p.emptyIsDefault = true
		}
		if r.Chance(3) {
			p.disabled = true
		}
		// D86: treat-empty-as-default AND a non-empty declared default on a scalar / list property, now and then
		if d := nonEmptyDefaultFor(r, p.t); d != nil && r.Chance(6) {
			p.emptyIsDefault, p.dflt = true, d
		}
	}
}

// nonEmptyDefaultFor: a decodable default that is not the empty value of the (scalar / list) type; nil for other types.
func nonEmptyDefaultFor(r *Rng, t *sx.Node) *string {
	if !t.IsList() {
		if t.Atom == "bool" {
			return sp("true")
		}
		return nil
	}
	switch t.Head() {
	case "int":
		return sp(pick(r, []string{"5", "1", "\"7\""}))
	case "enum_int":
		return sp("1")
	case "float":
		return sp(pick(r, []string{"5.5", "1"}))
	case "string":
		return sp(pick(r, []string{"\"abc\"", "\"x\""}))
	case "enum_str":
		return sp("\"x\"")
	case "list":
		switch t.List[1].Head() {
		case "string", "enum_str":
			return sp("[\"x\"]")
		case "int":
			return sp("[1]")
		}
	}
	return nil
}

// emptyRawFor: the raw EMPTY value of a scalar / list type (0, "", false, empty list); nil for other types.
func emptyRawFor(t *sx.Node) *sx.Node {
	if !t.IsList() {
		if t.Atom == "bool" {
			return vB(false)
		}
		return nil
	}
	switch t.Head() {
	case "int", "enum_int":
		return vI("i64", 0)
	case "float":
		return vF("f64", 0)
	case "string", "enum_str":
		return vS("")
	case "list":
		return vSl(tAnySlice)
	}
	return nil
}

// withEmptyDefaults: the raw map v with every treat-empty-as-default property of the object that declares a default
// supplied EMPTY (nil: the object has no such property, or v is not a map).
func withEmptyDefaults(obj, v *sx.Node) *sx.Node {
	if obj == nil || !obj.IsList() || (obj.Head() != "object" && obj.Head() != "xobject") || !v.IsList() || v.Head() != "m" {
		return nil
	}
	set := map[string]*sx.Node{}
	for _, p := range obj.List[3].List {
		pn := p.List[1]
		if pn.List[9].Atom == "1" && !isNone(pn.List[7]) {
			if e := emptyRawFor(pn.List[1]); e != nil {
				set[p.List[0].Str] = e
			}
		}
	}
	if len(set) == 0 {
		return nil
	}
	out := sx.L(v.List[:3]...)
	for _, e := range v.List[3:] {
		if e.List[0].Head() == "s" {
			if _, ok := set[e.List[0].List[2].Str]; ok {
				continue
			}
		}
		out.Append(e)
	}
	var names []string
	for k := range set {
		names = append(names, k)
	}
	sort.Strings(names)
	for _, k := range names {
		out.Append(sx.L(vS(k), set[k]))
	}
	return out
}

func (g *xgen) object(id string, ptr bool, structName string) *sx.Node {
	r := g.r
	cs := g.cands(structName)
	var ps []propD
	for len(ps) == 0 {
		for _, c := range cs {
			if r.Chance(65) {
				ps = append(ps, propD{name: c.prop, t: pick(r, c.types)()})
			}
		}
	}
	g.decorate(ps)
	return dXObject(id, false, structName, ptr, ps...)
}

var xTopStructs = []string{"XInner", "XTwo", "XScalars", "XPtrs", "XNested", "XDeep", "XColl", "XEmbedded", "XLoose", "XRec", "XScalars", "XPtrs", "XNested", "XColl", "XMid", "XMid", "XHold"}

// oneofX: a one-of over struct-mapped members.  Inlined: the members are XKindP / XKindV (string keys) or XKindI
// (integer keys) and declare the discriminator as a property - optional (a nil pointer field / an empty field under
// treat-empty-as-default leaves it unset in a native value) or required.  Not inlined: any struct members with
// distinct Go types.
func (g *xgen) oneofX() *sx.Node {
	r := g.r
	field := "kind"
	if r.Chance(70) { // inlined
		if r.Chance(30) {
			kp := propD{name: field, t: pick(r, []*sx.Node{dInt(nil, nil, nil), dEnumInt([]int64{1, 2}, nil)}), required: r.Chance(30)}
			m := dXObject("mi", false, "XKindI", r.Chance(30), kp, propD{name: "z", t: dInt(nil, nil, nil), required: r.Bool()})
			return dOneOf(true, field, true, memberD{ikey: pick(r, []int64{1, 2}), t: m})
		}
		kt := func() *sx.Node {
			return pick(r, []*sx.Node{dString(nil, nil, nil), dString(nil, nil, nil), dEnumStr(nil, []string{"a", "b"}), dString(ip(1), ip(4), nil)})
		}
		a := dXObject("ma", false, "XKindP", r.Chance(30), propD{name: field, t: kt(), required: r.Chance(30)},
			propD{name: "x", t: dString(nil, nil, nil), required: r.Bool(), dflt: pick(r, []*string{nil, nil, sp("\"xd\"")})})
		bk := propD{name: field, t: kt(), required: r.Chance(30), emptyIsDefault: r.Chance(70)}
		b := dXObject("mb", false, "XKindV", r.Chance(30), bk, propD{name: "y", t: dInt(nil, nil, nil), required: r.Bool()})
		ms := []memberD{{skey: "a", t: a}, {skey: "b", t: b}}
		if r.Chance(25) {
			ms = ms[r.Intn(2):][:1]
		}
		return dOneOf(false, field, true, ms...)
	}
	intKeys := r.Chance(40)
	sub := &xgen{r: r, rich: g.rich}
	ms := []memberD{{ikey: 1, skey: "a", t: sub.innerObj(r.Chance(30))}}
	if r.Chance(70) {
		ms = append(ms, memberD{ikey: 2, skey: "b", t: sub.object("mt", r.Chance(30), "XTwo")})
	}
	if r.Chance(40) {
		ms = append(ms, memberD{ikey: 7, skey: "m", t: dObject("mm", false, propD{name: "p", t: dInt(nil, nil, nil)})})
	}
	return dOneOf(intKeys, field, false, ms...)
}

// oneofNative: a native value of one member of a one-of, built by hand: the member's struct filled from its
// schema, the member's own discriminator field (inlined one-ofs) left UNSET (half of the time), set to the
// member's key, or (rarely) to another key.
func (x *xnat) oneofNative(s *sx.Node, depth int) any {
	r := x.r
	m := pick(r, s.List[2].List)
	ms := x.resolve(m.List[1])
	if ms == nil {
		return nil
	}
	if ms.Head() != "xobject" {
		mm, _ := x.anyFor(ms, depth).(map[string]any)
		if mm == nil {
			mm = map[string]any{}
		}
		if s.List[1].Atom == "1" {
			mm[s.List[3].Str] = m.List[0].Int()
		} else {
			mm[s.List[3].Str] = m.List[0].Str
		}
		return mm
	}
	t := structTypes[ms.List[4].List[1].Str]
	v := x.valFor(t, ms, depth)
	if f := v.FieldByName("Kind"); f.IsValid() && s.List[4].Atom == "1" {
		var key reflect.Value
		if s.List[1].Atom == "1" {
			k := m.List[0].Int()
			if r.Chance(8) {
				k = 2 - k + 1
			}
			key = reflect.ValueOf(k)
		} else {
			k := m.List[0].Str
			if r.Chance(8) {
				k = pick(r, []string{"a", "b"})
			}
			key = reflect.ValueOf(k)
		}
		switch {
		case r.Chance(50):
			f.Set(reflect.Zero(f.Type()))
		case f.Kind() == reflect.Pointer:
			p := reflect.New(f.Type().Elem())
			p.Elem().Set(key)
			f.Set(p)
		default:
			f.Set(key)
		}
	}
	if ms.List[4].List[2].Atom == "1" {
		p := reflect.New(t)
		p.Elem().Set(v)
		return p.Interface()
	}
	return v.Interface()
}

// schema generates a top-level schema: an xobject, or a scope whose root is one.
func (g *xgen) schema() *sx.Node {
	r := g.r
	g.scope = r.Chance(40)
	name := pick(r, xTopStructs)
	ptr := r.Chance(35)
	root := g.object("Root", ptr, name)
	if !g.scope {
		return root
	}
	sub := &xgen{r: r}
	xi := sub.innerObj(false)
	xi.List[1] = sx.S("XI")
	ax := dInt(nil, nil, nil)
	if r.Chance(12) {
		ax = dRef("A", "") // a recursive member: Unserialize without it never returns (known finding)
	}
	a := dObject("A", false, propD{name: "x", t: ax}, propD{name: "v", t: dInt(nil, nil, nil), dflt: pick(r, []*string{nil, sp("4")})})
	return dScope("Root", root, xi, a)
}

// ---- native values, generated by Go type and guided by the schema ----

type xnat struct {
	r  *Rng
	sc scopeCtx
}

func (x *xnat) resolve(s *sx.Node) *sx.Node {
	for s != nil && s.IsList() {
		switch s.Head() {
		case "ref":
			o, ok := x.sc[s.List[1].Str]
			if !ok {
				return nil
			}
			s = o
		case "scope":
			x.sc = scopeTable(s)
			s = x.sc[s.List[2].Str]
		default:
			return s
		}
	}
	return s
}

func optIn(n *sx.Node, i int, dflt int64) int64 {
	if n == nil || !n.IsList() || len(n.List) <= i {
		return dflt
	}
	return optI(n.List[i], dflt)
}

func (x *xnat) intFor(s *sx.Node) int64 {
	r := x.r
	if s != nil && s.IsList() {
		switch s.Head() {
		case "int":
			lo, hi := optIn(s, 1, -3), optIn(s, 2, 9)
			if hi < lo {
				hi = lo
			}
			if r.Chance(12) {
				return lo - 1
			}
			if hi-lo > 12 {
				hi = lo + 12
			}
			return lo + int64(r.Intn(int(hi-lo+1)))
		case "enum_int":
			if len(s.List[1].List) > 0 && r.Chance(85) {
				return pick(r, s.List[1].List).List[0].Int()
			}
			return 99
		}
	}
	return int64(r.Intn(5))
}

func (x *xnat) strFor(s *sx.Node) string {
	r := x.r
	if s != nil && s.IsList() {
		switch s.Head() {
		case "enum_str":
			if len(s.List[2].List) > 0 && r.Chance(85) {
				return pick(r, s.List[2].List).List[0].Str
			}
			return "nope"
		case "string":
			lo := optIn(s, 1, 0)
			if r.Chance(15) {
				return ""
			}
			b := make([]byte, lo+int64(r.Intn(3)))
			for i := range b {
				b[i] = byte('a' + r.Intn(26))
			}
			return string(b)
		case "int", "enum_int":
			return fmt.Sprintf("%d", x.intFor(s))
		}
	}
	return pick(r, []string{"", "x", "abc"})
}

// anyFor: a native value for a schema whose Go home is `any` / map[string]any.
func (x *xnat) anyFor(s *sx.Node, depth int) any {
	r := x.r
	s = x.resolve(s)
	if s == nil {
		return nil
	}
	if !s.IsList() {
		switch s.Atom {
		case "bool":
			return r.Bool()
		case "pattern":
			return regexp.MustCompile("a+")
		}
		return pick(r, []any{int64(3), "s", 1.5, true, []any{int64(1), "x"}, map[string]any{"k": int64(1)}, map[any]any{"k": "v"}, MyStr("n"), MyInt(4), nil, int32(7)})
	}
	switch s.Head() {
	case "int", "enum_int":
		return x.intFor(s)
	case "float":
		return float64(x.r.Intn(40)) + 0.5
	case "string", "enum_str":
		if s.Head() == "enum_str" && !isNone(s.List[1]) {
			return MyStr(x.strFor(s))
		}
		return x.strFor(s)
	case "list":
		n := r.Intn(3)
		out := make([]any, 0, n)
		for i := 0; i < n; i++ {
			out = append(out, x.anyFor(s.List[1], depth-1))
		}
		return out
	case "object":
		out := map[string]any{}
		for _, p := range s.List[3].List {
			if depth > 0 && r.Chance(70) {
				out[p.List[0].Str] = x.anyFor(p.List[1].List[1], depth-1)
			}
		}
		return out
	case "oneof":
		return x.oneofNative(s, depth-1)
	case "xobject":
		t := structTypes[s.List[4].List[1].Str]
		v := x.valFor(t, s, depth-1)
		if s.List[4].List[2].Atom == "1" {
			p := reflect.New(t)
			p.Elem().Set(v)
			return p.Interface()
		}
		return v.Interface()
	}
	return int64(1)
}

// valFor: a value of Go type t; s is the schema describing it (nil: no schema, free choice).
func (x *xnat) valFor(t reflect.Type, s *sx.Node, depth int) reflect.Value {
	r := x.r
	s = x.resolve(s)
	v := reflect.New(t).Elem()
	if t == regexpType {
		if r.Chance(75) {
			v.Set(reflect.ValueOf(regexp.MustCompile(pick(r, []string{"a+", "^x$"}))))
		}
		return v
	}
	switch t.Kind() {
	case reflect.Bool:
		v.SetBool(r.Bool())
	case reflect.Int, reflect.Int8, reflect.Int16, reflect.Int32, reflect.Int64:
		z := x.intFor(s)
		if t.Kind() == reflect.Int32 && r.Chance(5) {
			z = 1 << 20
		}
		v.SetInt(z)
	case reflect.Uint, reflect.Uint8, reflect.Uint16, reflect.Uint32, reflect.Uint64:
		z := x.intFor(s)
		if z < 0 {
			z = 0
		}
		v.SetUint(uint64(z) & 0xff)
	case reflect.Float32, reflect.Float64:
		v.SetFloat(float64(r.Intn(40)) + pick(r, []float64{0, 0.5, 0.25}))
	case reflect.String:
		v.SetString(x.strFor(s))
	case reflect.Pointer:
		if r.Chance(25) || depth < -2 {
			return v // nil
		}
		p := reflect.New(t.Elem())
		p.Elem().Set(x.valFor(t.Elem(), s, depth))
		return p
	case reflect.Slice:
		switch r.Intn(6) {
		case 0:
			return v // nil slice
		case 1:
			return reflect.MakeSlice(t, 0, 0)
		}
		var item *sx.Node
		if s != nil && s.Head() == "list" {
			item = s.List[1]
		}
		n := 1 + r.Intn(3)
		v = reflect.MakeSlice(t, n, n)
		for i := 0; i < n; i++ {
			v.Index(i).Set(x.valFor(t.Elem(), item, depth-1))
		}
	case reflect.Map:
		switch r.Intn(6) {
		case 0:
			return v // nil map
		case 1:
			return reflect.MakeMap(t)
		}
		if t.Elem() == anyType && t.Key().Kind() == reflect.String { // map[string]any: home of a map-based object
			m := x.anyFor(s, depth)
			if mm, ok := m.(map[string]any); ok {
				return reflect.ValueOf(mm)
			}
			return reflect.ValueOf(map[string]any{"zz": int64(1)})
		}
		var ks, vs *sx.Node
		if s != nil && s.Head() == "map" {
			ks, vs = s.List[1], s.List[2]
		}
		v = reflect.MakeMap(t)
		for i := 0; i < 1+r.Intn(2); i++ {
			v.SetMapIndex(x.valFor(t.Key(), ks, depth-1), x.valFor(t.Elem(), vs, depth-1))
		}
	case reflect.Interface:
		a := x.anyFor(s, depth)
		if s == nil {
			a = pick(r, []any{nil, int64(2), "z"})
		}
		if a != nil {
			v.Set(reflect.ValueOf(a))
		}
	case reflect.Struct:
		// fields that carry a property get a value for that property's type; the rest stay zero (sometimes junk)
		byField := map[string]*sx.Node{}
		if s != nil && s.Head() == "xobject" {
			props := map[string]*sx.Node{}
			for _, p := range s.List[3].List {
				props[p.List[0].Str] = p.List[1].List[1]
			}
			for _, f := range s.List[4].List[3].List {
				byField[fmt.Sprint(f.List[2])] = props[f.List[0].Str]
			}
		}
		x.fillStruct(v, t, nil, byField, depth)
	}
	return v
}

func (x *xnat) fillStruct(v reflect.Value, t reflect.Type, prefix []int, byField map[string]*sx.Node, depth int) {
	r := x.r
	for i := 0; i < t.NumField(); i++ {
		f := t.Field(i)
		idx := append(append([]int{}, prefix...), i)
		ps, has := byField[fmt.Sprint(idxSx(idx))]
		switch {
		case has && ps != nil:
			if f.Type.Kind() == reflect.Pointer && x.resolve(ps) != nil && x.resolve(ps).Head() == "xobject" && x.resolve(ps).List[4].List[2].Atom == "1" {
				// a *T-mapped member on a pointer field: the member's native value is the pointer itself
				if a := x.anyFor(ps, depth-1); a != nil && reflect.TypeOf(a) == f.Type && r.Chance(80) {
					v.Field(i).Set(reflect.ValueOf(a))
				}
				continue
			}
			v.Field(i).Set(x.valFor(f.Type, ps, depth-1))
		case f.Anonymous:
			ft := f.Type
			if ft.Kind() == reflect.Pointer {
				if r.Chance(25) {
					continue // nil embedded pointer
				}
				p := reflect.New(ft.Elem())
				x.fillStruct(p.Elem(), ft.Elem(), nil, shiftIdx(byField, idx), depth)
				v.Field(i).Set(p)
			} else {
				x.fillStruct(v.Field(i), ft, nil, shiftIdx(byField, idx), depth)
			}
		case r.Chance(25) && depth > -2:
			v.Field(i).Set(x.valFor(f.Type, nil, depth-1))
		}
	}
}

// shiftIdx: the properties whose index path starts with idx, re-keyed relative to it.
func shiftIdx(byField map[string]*sx.Node, idx []int) map[string]*sx.Node {
	out := map[string]*sx.Node{}
	for i := 0; i < 8; i++ {
		k := fmt.Sprint(idxSx(append(append([]int{}, idx...), i)))
		if s, ok := byField[k]; ok {
			out[fmt.Sprint(idxSx([]int{i}))] = s
		}
	}
	return out
}

// arbitrary Go values for Validate / Serialize / ValidateCompatibility (C04)
func (x *xnat) arbitrary(top *sx.Node) []*sx.Node {
	r := x.r
	root := x.resolve(top)
	var out []*sx.Node
	add := func(v any) { out = append(out, valSx(v)) }
	if root != nil && root.Head() == "xobject" {
		t := structTypes[root.List[4].List[1].Str]
		val := x.valFor(t, root, 2)
		p := reflect.New(t)
		p.Elem().Set(val)
		pp := reflect.New(p.Type())
		pp.Elem().Set(p)
		add(val.Interface())                           // the struct
		add(p.Interface())                             // pointer to it
		add(reflect.Zero(p.Type()).Interface())        // nil pointer
		add(pp.Interface())                            // pointer to pointer
		add(reflect.Zero(t).Interface())               // zero struct
		add(reflect.New(t).Interface())                // pointer to zero struct
	}
	others := []any{XInner{A: 1, B: "x"}, &XInner{A: 2}, XTwo{A: 1}, (*XTwo)(nil), XEmbPtr{C: 1}, &XEmbPtr{}, XEmbPtr{XInner: &XInner{A: 3}},
		map[string]any{"a": int64(1)}, map[string]any{}, map[any]any{"a": int64(1)}, MyStr("x"), MyInt(3), int64(5), "str", nil,
		[]any{int64(1)}, MyStruct{A: 1}, &MyStruct{}, true, 1.5, []string(nil), map[string]int64(nil), XColl{}, &XColl{L: []string{}}}
	for i := 0; i < 5; i++ {
		add(pick(r, others))
	}
	return out
}

// ---- fixed configurations: the known defects and the panic suspects, for every seed ----

func xFixed() []struct {
	s   *sx.Node
	ops []*sx.Node
} {
	type cfg = struct {
		s   *sx.Node
		ops []*sx.Node
	}
	m := func(kv ...*sx.Node) *sx.Node { return vM(tAnyMap, kv...) }
	nat := func(v any) *sx.Node { return valSx(v) }
	i1 := int64(1)
	var out []cfg
	// D10: treat-empty-as-default on slice / map / struct-slice fields
	coll := dXObject("Root", false, "XColl", false,
		propD{name: "l", t: dList(dString(nil, nil, nil), nil, nil), emptyIsDefault: true},
		propD{name: "m", t: dMap(dString(nil, nil, nil), dInt(nil, nil, nil), nil, nil), emptyIsDefault: true},
		propD{name: "li", t: dList(dInt(nil, nil, nil), nil, nil)})
	var collOps []*sx.Node
	for _, v := range []any{XColl{}, XColl{L: []string{}}, XColl{L: []string{"x"}}, XColl{M: map[string]int64{}}, XColl{M: map[string]int64{"k": 1}, LI: []int64{1}},
		&XColl{}, XColl{L: []string{"x"}, M: map[string]int64{"a": 2}, LI: []int64{}}} {
		collOps = append(collOps, op("v", nat(v)), op("s", nat(v)), op("c", nat(v)))
	}
	collOps = append(collOps, op("rt", m()), op("rt", m(vS("l"), vSl(tAnySlice, vS("a")))), op("rt", m(vS("l"), vSl(tAnySlice))), op("x", m(vS("m"), m(vS("k"), vI("i64", 1)))))
	out = append(out, cfg{coll, collOps})
	// treat-empty-as-default on scalar fields, pointer fields, a struct field and an `any` field
	sc := dXObject("Root", false, "XScalars", false,
		propD{name: "i", t: dInt(nil, nil, nil), emptyIsDefault: true, conflicts: []string{"s"}},
		propD{name: "s", t: dString(nil, nil, nil), emptyIsDefault: true},
		propD{name: "f", t: dFloat(nil, nil, nil), emptyIsDefault: true},
		propD{name: "b", t: dBool(), emptyIsDefault: true},
		propD{name: "n", t: dEnumStr(sp("MyStr"), []string{"x", "y"}), emptyIsDefault: true})
	var scOps []*sx.Node
	for _, v := range []any{XScalars{}, XScalars{I: 1}, XScalars{S: "x"}, XScalars{I: 1, S: "x"}, XScalars{F: 1.5, B: true, N: "x"}, XScalars{N: "q"}, &XScalars{}} {
		scOps = append(scOps, op("v", nat(v)), op("s", nat(v)))
	}
	scOps = append(scOps, op("rt", m()), op("rt", m(vS("i"), vI("i64", 0))), op("rt", m(vS("i"), vI("i64", 2))), op("rt", m(vS("s"), vS(""))), op("rt", m(vS("i"), vI("i64", 0), vS("s"), vS("x"))), op("ty", m(vS("i"), vI("i64", 2))))
	out = append(out, cfg{sc, scOps})
	nestedE := dXObject("Root", false, "XNested", false,
		propD{name: "in", t: dXObject("XInner", false, "XInner", false, propD{name: "a", t: dInt(nil, nil, nil)}, propD{name: "b", t: dString(nil, nil, nil)}), emptyIsDefault: true, requiredIfNot: []string{"p"}},
		propD{name: "p", t: dXObject("XInner", false, "XInner", true, propD{name: "a", t: dInt(nil, nil, nil), required: true}), emptyIsDefault: true})
	out = append(out, cfg{nestedE, []*sx.Node{
		op("v", nat(XNested{})), op("s", nat(XNested{})), op("v", nat(XNested{In: XInner{A: 1}})), op("s", nat(XNested{In: XInner{A: 1}})),
		op("v", nat(XNested{P: &XInner{}})), op("s", nat(XNested{P: &XInner{A: 1}})), op("rt", m(vS("in"), m(vS("a"), vI("i64", 0), vS("b"), vS("")))),
		op("rt", m(vS("p"), m(vS("a"), vI("i64", 0)))), op("rt", m())}})
	// D41: required struct-typed member absent, member object has defaults
	d41 := dXObject("Root", false, "XNested", false,
		propD{name: "in", required: true, t: dXObject("XInner", false, "XInner", false, propD{name: "a", t: dInt(nil, nil, nil), dflt: sp("1")}, propD{name: "b", t: dString(nil, nil, nil)})},
		propD{name: "x", t: dInt(nil, nil, nil)})
	out = append(out, cfg{d41, []*sx.Node{op("x", m()), op("rt", m()), op("x", m(vS("x"), vI("i64", 3))), op("x", m(vS("in"), m())), op("x", m(vS("in"), m(vS("b"), vS("q"))))}})
	// D42 (post-fix behaviour): the property's own default wins over the member's defaults
	d42 := dXObject("Root", false, "XNested", false,
		propD{name: "in", dflt: sp("{\"a\":5}"), t: dXObject("XInner", false, "XInner", false, propD{name: "a", t: dInt(nil, nil, nil), dflt: sp("1")}, propD{name: "b", t: dString(nil, nil, nil), dflt: sp("\"bd\"")})},
		propD{name: "x", t: dInt(nil, nil, nil)})
	out = append(out, cfg{d42, []*sx.Node{op("rt", m()), op("x", m()), op("rt", m()), op("rt", m(vS("in"), m(vS("a"), vI("i64", 9)))), op("rt", m(vS("x"), vI("i64", 1)))}})
	// D44: optional property on a non-pointer field is always present on the way back
	d44 := dXObject("Root", false, "XTwo", false,
		propD{name: "a", t: dInt(nil, nil, nil), conflicts: []string{"b"}}, propD{name: "b", t: dInt(nil, nil, nil)})
	out = append(out, cfg{d44, []*sx.Node{op("rt", m(vS("b"), vI("i64", 1))), op("rt", m(vS("a"), vI("i64", 1))), op("rt", m()), op("x", m(vS("b"), vI("i64", 1))),
		op("v", nat(XTwo{B: 1})), op("s", nat(XTwo{A: 1})), op("ty", m(vS("b"), vI("i64", 1)))}})
	// D86: treat-empty-as-default AND a declared default: an explicitly supplied EMPTY value is kept by Unserialize, dropped by
	// Serialize (empty = default) and comes back as the default (Properties/C01.v C01_struct_roundtrip_emptydefault_refuted)
	d86 := dXObject("Root", false, "XInner", false, propD{name: "a", t: dInt(nil, nil, nil), dflt: sp("1"), emptyIsDefault: true})
	out = append(out, cfg{d86, []*sx.Node{op("rt", m(vS("a"), vI("i64", 0)))}})
	out = append(out, cfg{d86, []*sx.Node{op("rt", m()), op("rt", m(vS("a"), vI("i64", 2))), op("rt", m(vS("a"), vI("i64", 1))), op("x", m(vS("a"), vI("i64", 0))), op("ty", m(vS("a"), vI("i64", 0))),
		op("v", nat(XInner{})), op("s", nat(XInner{})), op("sr", nat(XInner{})), op("v", nat(XInner{A: 1})), op("s", nat(XInner{A: 1})), op("c", nat(XInner{}))}})
	d86s := dXObject("Root", false, "XScalars", false,
		propD{name: "s", t: dString(nil, nil, nil), dflt: sp("\"abc\""), emptyIsDefault: true},
		propD{name: "b", t: dBool(), dflt: sp("true"), emptyIsDefault: true},
		propD{name: "f", t: dFloat(nil, nil, nil), dflt: sp("5.5"), emptyIsDefault: true},
		propD{name: "i", t: dInt(nil, nil, nil), dflt: sp("0"), emptyIsDefault: true})
	out = append(out, cfg{d86s, []*sx.Node{op("rt", m(vS("s"), vS(""))), op("rt", m(vS("b"), vB(false))), op("rt", m(vS("f"), vF("f64", 0))), op("rt", m(vS("i"), vI("i64", 0))),
		op("rt", m(vS("s"), vS(""), vS("b"), vB(false), vS("i"), vI("i64", 3))), op("rt", m()), op("x", m(vS("b"), vB(false))), op("v", nat(XScalars{})), op("s", nat(XScalars{}))}})
	d86p := dXObject("Root", false, "XPtrs", true,
		propD{name: "i", t: dInt(nil, nil, nil), dflt: sp("5"), emptyIsDefault: true}, propD{name: "s", t: dString(nil, nil, nil), dflt: sp("\"abc\""), emptyIsDefault: true})
	out = append(out, cfg{d86p, []*sx.Node{op("rt", m(vS("i"), vI("i64", 0))), op("rt", m(vS("s"), vS(""))), op("rt", m()), op("rt", m(vS("i"), vI("i64", 5)))}})
	d86l := dXObject("Root", false, "XColl", false,
		propD{name: "l", t: dList(dString(nil, nil, nil), nil, nil), dflt: sp("[\"x\"]"), emptyIsDefault: true},
		propD{name: "ls", t: dList(dXObject("XInner", false, "XInner", false, propD{name: "a", t: dInt(nil, nil, nil), dflt: sp("1"), emptyIsDefault: true}), nil, nil)})
	out = append(out, cfg{d86l, []*sx.Node{op("rt", m(vS("l"), vSl(tAnySlice))), op("rt", m(vS("ls"), vSl(tAnySlice, m(vS("a"), vI("i64", 0)), m(vS("a"), vI("i64", 4))))), op("rt", m())}})
	d44b := dXObject("Root", false, "XInner", false, propD{name: "a", t: dInt(ip(1), nil, nil)}, propD{name: "b", t: dString(nil, nil, nil), required: true})
	out = append(out, cfg{d44b, []*sx.Node{op("rt", m(vS("b"), vS("x"))), op("rt", m(vS("a"), vI("i64", 1), vS("b"), vS("x")))}})
	// an object-typed property whose default is not a JSON object (inline shorthand of a one-property member)
	nm := dXObject("Root", false, "XNested", false,
		propD{name: "in", dflt: sp("7"), t: dXObject("XInner", false, "XInner", false, propD{name: "a", t: dInt(nil, nil, nil)})},
		propD{name: "x", t: dInt(nil, nil, nil)})
	out = append(out, cfg{nm, []*sx.Node{op("u", m()), op("rt", m()), op("x", m()), op("c", m()), op("u", m(vS("in"), vI("i64", 2)))}})
	// a recursive map-based member under a struct-mapped parent
	rec := dScope("Root",
		dXObject("Root", false, "XRec", false, propD{name: "m", t: dRef("A", "")}, propD{name: "k", t: dInt(nil, nil, nil)}),
		dObject("A", false, propD{name: "x", t: dRef("A", "")}, propD{name: "v", t: dInt(nil, nil, nil), dflt: sp("4")}))
	out = append(out, cfg{rec, []*sx.Node{op("u", m(vS("m"), m())), op("u", m(vS("m"), m(vS("x"), m()))), op("rt", m(vS("m"), m(vS("v"), vI("i64", 2)), vS("k"), vI("i64", 1)))}})
	out = append(out, cfg{rec, []*sx.Node{op("u", m())}})
	out = append(out, cfg{rec, []*sx.Node{op("c", m(vS("k"), vI("i64", 1)))}})
	// promoted fields through an embedded struct and through an embedded pointer
	emb := dXObject("Root", false, "XEmbedded", false, propD{name: "a", t: dInt(nil, nil, nil)}, propD{name: "b", t: dString(nil, nil, nil)}, propD{name: "c", t: dInt(nil, nil, nil), required: true})
	out = append(out, cfg{emb, []*sx.Node{op("rt", m(vS("a"), vI("i64", 1), vS("c"), vI("i64", 2))), op("rt", m(vS("c"), vI("i64", 2))), op("v", nat(XEmbedded{C: 1})), op("s", nat(XEmbedded{XInner: XInner{A: 1, B: "q"}, C: 1})), op("ty", m(vS("c"), vI("i64", 2)))}})
	embp := dXObject("Root", false, "XEmbPtr", false, propD{name: "a", t: dInt(nil, nil, nil)}, propD{name: "c", t: dInt(nil, nil, nil)})
	out = append(out, cfg{embp, []*sx.Node{op("u", m(vS("c"), vI("i64", 2))), op("u", m(vS("a"), vI("i64", 1))), op("v", nat(XEmbPtr{C: 1})), op("s", nat(XEmbPtr{C: 1})),
		op("v", nat(XEmbPtr{XInner: &XInner{A: 1}, C: 1})), op("s", nat(XEmbPtr{XInner: &XInner{A: 1}, C: 1})), op("v", nat(&XEmbPtr{C: 1}))}})
	// an INLINED one-of whose struct-mapped members declare the discriminator as an optional property: native values
	// that leave it unset (nil pointer / empty under treat-empty-as-default), set it, or hold another member's key
	ka, kb := "a", "b"
	oo := dOneOf(false, "kind", true,
		memberD{skey: "a", t: dXObject("ma", false, "XKindP", false, propD{name: "kind", t: dString(nil, nil, nil)}, propD{name: "x", t: dString(nil, nil, nil), required: true})},
		memberD{skey: "b", t: dXObject("mb", false, "XKindV", false, propD{name: "kind", t: dString(nil, nil, nil), emptyIsDefault: true}, propD{name: "y", t: dInt(nil, nil, nil), required: true})})
	var ooOps []*sx.Node
	for _, v := range []any{XKindP{Kind: &ka, X: "v"}, XKindP{X: "v"}, XKindV{Kind: "b", Y: 3}, XKindV{Y: 3}, XKindP{Kind: &kb, X: "v"}, &XKindP{X: "v"}, XKindV{}} {
		ooOps = append(ooOps, op("v", nat(v)), op("s", nat(v)), op("sr", nat(v)))
	}
	ooOps = append(ooOps, op("rt", m(vS("kind"), vS("a"), vS("x"), vS("q"))), op("rt", m(vS("kind"), vS("b"), vS("y"), vI("i64", 2))), op("rt", m(vS("x"), vS("q"))), op("x", m(vS("kind"), vS("b"))))
	out = append(out, cfg{oo, ooOps})
	i2 := int64(2)
	oi := dXObject("Root", false, "XHold", false, propD{name: "k", t: dInt(nil, nil, nil)},
		propD{name: "o", t: dOneOf(true, "kind", true, memberD{ikey: 2, t: dXObject("mi", false, "XKindI", false, propD{name: "kind", t: dInt(nil, nil, nil)}, propD{name: "z", t: dInt(nil, nil, nil)})})})
	out = append(out, cfg{oi, []*sx.Node{op("sr", nat(XHold{O: XKindI{Z: 1}})), op("sr", nat(XHold{O: XKindI{Kind: &i2, Z: 1}, K: 1})), op("s", nat(XHold{})), op("v", nat(XHold{O: XKindI{}})),
		op("rt", m(vS("o"), m(vS("kind"), vI("i64", 2), vS("z"), vI("i64", 5))))}})
	// three levels, a PLAIN object in the middle: struct-mapped parent -> map-based m (no declared default) -> object o with
	// defaults; and the same with a declared partial default on m; histories that first omit m, then supply it without o
	mi := dObject("MI", false, propD{name: "y", t: dInt(nil, nil, nil), dflt: sp("5")}, propD{name: "z", t: dString(nil, nil, nil)})
	for _, md := range []*string{nil, sp("{\"p\":1}"), sp("{\"o\":{\"z\":\"q\"}}")} {
		mid := dXObject("Root", false, "XMid", false,
			propD{name: "m", dflt: md, t: dObject("MO", false, propD{name: "p", t: dInt(nil, nil, nil)}, propD{name: "o", t: mi})},
			propD{name: "in", t: dXObject("XInner", false, "XInner", false, propD{name: "a", t: dInt(nil, nil, nil), dflt: sp("1")}, propD{name: "b", t: dString(nil, nil, nil)})})
		out = append(out, cfg{mid, []*sx.Node{op("rt", m()), op("rt", m(vS("m"), m())), op("x", m(vS("m"), m(vS("p"), vI("i64", 2)))), op("rt", m(vS("m"), m(vS("o"), m()))), op("rt", m()), op("rt", m(vS("in"), m(vS("b"), vS("q"))))}})
	}
	// pointer fields: optional properties are representable
	pt := dXObject("Root", false, "XPtrs", true,
		propD{name: "i", t: dInt(nil, nil, nil), conflicts: []string{"s"}}, propD{name: "s", t: dString(nil, nil, nil)}, propD{name: "b", t: dBool(), requiredIf: []string{"i"}})
	out = append(out, cfg{pt, []*sx.Node{op("rt", m(vS("s"), vS("x"))), op("rt", m(vS("i"), vI("i64", 1), vS("b"), vB(false))), op("rt", m()), op("ty", m(vS("s"), vS("x"))),
		op("v", nat(&XPtrs{I: &i1})), op("s", nat(&XPtrs{})), op("v", nat(XPtrs{})), op("v", nat((*XPtrs)(nil))), op("s", nat((*XPtrs)(nil)))}})
	return out
}

func init() {
	families["structobj"] = &Family{
		Gen: withProfile(genProfile{edgeInts: true, utf8Strings: true, anyDeep: true}, func(r *Rng, tier string, emit func(*sx.Node)) {
			xemit := func(s *sx.Node, ops []*sx.Node) {
				annotateX(s)
				for i := 0; i < len(ops); i += 40 {
					j := i + 40
					if j > len(ops) {
						j = len(ops)
					}
					l := sx.L(sx.A("ops"))
					l.Append(ops[i:j]...)
					emit(sx.L(sx.A("xsch"), mkEnv(nil, s, ops[i:j]), structTable(s, l), s, l))
				}
			}
			for _, c := range xFixed() {
				xemit(c.s, c.ops)
			}
			n := 260
			if tier == "thorough" {
				n = 5000
			}
			for i := 0; i < n; i++ {
				g := &xgen{r: r}
				s := g.schema()
				annotateX(s)
				er := eraseX(s)
				sc := scopeCtx{}
				if er.Head() == "scope" {
					sc = scopeTable(er)
				}
				var ops []*sx.Node
				for j := 0; j < 5; j++ {
					v := rawFor(r, er, sc, 3)
					ops = append(ops, op("rt", v), op("x", v))
					if j == 0 {
						ops = append(ops, op("c", v), op("ty", v))
					}
					if r.Chance(60) {
						mv := mutate(r, v)
						ops = append(ops, op("rt", mv), op("x", mv), op("c", mv))
					}
					if j < 2 { // D86: the treat-empty-as-default properties with a declared default supplied EMPTY
						ro := er
						if ro.Head() == "scope" {
							ro = sc[ro.List[2].Str]
						}
						if ev := withEmptyDefaults(ro, v); ev != nil {
							ops = append(ops, op("rt", ev), op("x", ev))
						}
					}
				}
				xn := &xnat{r: r, sc: scopeCtx{}}
				if s.Head() == "scope" {
					xn.sc = scopeTable(s)
				}
				root := xn.resolve(s)
				for j := 0; j < 4; j++ {
					t := structTypes[root.List[4].List[1].Str]
					v := xn.valFor(t, root, 2)
					var a any = v.Interface()
					if root.List[4].List[2].Atom == "1" {
						p := reflect.New(t)
						p.Elem().Set(v)
						a = p.Interface()
					}
					nv := valSx(a)
					ops = append(ops, op("v", nv), op("s", nv))
					if j == 0 {
						ops = append(ops, op("c", nv), op("u", nv))
					}
					if j < 2 {
						ops = append(ops, op("sr", nv))
					}
				}
				for _, a := range xn.arbitrary(s) {
					ops = append(ops, op("v", a), op("s", a))
					if r.Chance(40) {
						ops = append(ops, op("c", a))
					}
					if r.Chance(20) {
						ops = append(ops, op("u", a))
					}
				}
				xemit(s, ops)
			}
			// one-ofs over struct-mapped members at the top: raw inputs through the map-based twin, and HAND-BUILT
			// native member values (the member's own discriminator field unset / set / wrong) through Validate,
			// Serialize and Serialize-then-Unserialize
			no := 70
			if tier == "thorough" {
				no = 1200
			}
			for i := 0; i < no; i++ {
				g := &xgen{r: r, rich: r.Chance(30)}
				s := g.oneofX()
				annotateX(s)
				er := eraseX(s)
				var ops []*sx.Node
				for j := 0; j < 3; j++ {
					v := rawFor(r, er, scopeCtx{}, 3)
					ops = append(ops, op("rt", v), op("x", v))
					if r.Chance(50) {
						mv := mutate(r, v)
						ops = append(ops, op("rt", mv), op("x", mv), op("c", mv))
					}
				}
				xn := &xnat{r: r, sc: scopeCtx{}}
				for j := 0; j < 6; j++ {
					nv := valSx(xn.oneofNative(s, 2))
					ops = append(ops, op("v", nv), op("s", nv), op("sr", nv))
					if j == 0 {
						ops = append(ops, op("c", nv))
					}
				}
				for _, a := range []any{XInner{A: 1}, &XKindP{X: "q"}, XKindV{}, (*XKindP)(nil), map[string]any{"kind": "a"}, map[string]any{}, nil, int64(3)} {
					if r.Chance(40) {
						ops = append(ops, op("v", valSx(a)), op("s", valSx(a)))
					}
				}
				xemit(s, ops)
			}
		}),
		Run: runXSchemaCase,
	}
}
