package main

import (
	"fmt"
	"os"
	"sort"

	"go.flow.arcalot.io/pluginsdk/schema"
	"verif/harness/sx"
)

// C14 — references resolve lexically; inlining a reference never changes behaviour.
//
//	(c14 ENV SCHEMA (order|order-so "ns"...) INLINED (ops OP...))
//	    ENV carries the external namespaces (ns -> object table); SCHEMA is built through the public
//	    constructors (NewScopeSchema links the self namespace), then the namespaces are applied in the
//	    given order, then once more on a fresh build in the reverse order.
//	    order-so: the scope is wrapped in a StepOutputSchema (schema.NewStepOutputSchema) and the namespaces
//	    are applied, and ValidateReferences is asked, THROUGH that step output; the reverse-order run applies
//	    them to the scope directly (the metamorphic partner of the wrapper).
//	    order-rb: the scope (and INLINED) is built through the constructors, DESCRIBED (SelfSerialize) and REBUILT
//	    from the description by schema.UnserializeScope — a tree none of whose scopes went through NewScopeSchema:
//	    the inner scopes are linked only by the ApplySelf of the outermost one.  Links, ValidateReferences and the
//	    operations are observed on the rebuilt tree; the reverse-order run uses the code-built tree (its partner).
//	    OP = (u RAW) | (rt RAW) | (vs NATIVE): Validate and Serialize of a native value (e.g. one that carries
//	    the field of a DISABLED property: Unserialize refuses those, Validate / Serialize still go through its type).
//	    INLINED is SCHEMA with every non-recursive self-namespace reference replaced by its target.
//	observation:
//	    (r (st LINKS VR)            after construction
//	       (st LINKS VR)...          after each ApplyNamespace   (or `panic`)
//	       (rev (st LINKS VR))       final state of the reverse order (or `panic`)
//	       (ops O...)                the ops on the linked schema
//	       (inl O...))               the same ops on INLINED
//	    LINKS = (("PATH" "ID" "NS" TARGET)...) sorted by path; TARGET = nil | (scope "PATH") | (ext "NS")
//	    VR = ok | err (ValidateReferences)

type c14Frame struct {
	sc   *schema.ScopeSchema
	path string
}

type c14Link struct{ path, id, ns, target string }

func c14Walk(t schema.Type, path string, stack []c14Frame, exts map[string]*schema.ScopeSchema, out *[]c14Link) {
	switch x := t.(type) {
	case *schema.ListSchema:
		c14Walk(x.Items(), path+"/i", stack, exts, out)
	case *schema.MapSchema[schema.Type, schema.Type]:
		c14Walk(x.Keys(), path+"/k", stack, exts, out)
		c14Walk(x.Values(), path+"/v", stack, exts, out)
	case *schema.ObjectSchema:
		for name, p := range x.Properties() {
			c14Walk(p.Type(), path+"/p:"+name, stack, exts, out)
		}
	case *schema.OneOfSchema[string]:
		for k, m := range x.Types() {
			c14Walk(m, path+"/m:"+k, stack, exts, out)
		}
	case *schema.OneOfSchema[int64]:
		for k, m := range x.Types() {
			c14Walk(m, fmt.Sprintf("%s/m:%d", path, k), stack, exts, out)
		}
	case *schema.ScopeSchema:
		st := append(append([]c14Frame{}, stack...), c14Frame{x, path})
		for id, o := range x.Objects() {
			c14Walk(o, path+"/O:"+id, st, exts, out)
		}
	case *schema.RefSchema:
		target := "nil"
		if x.ObjectReady() {
			obj := x.GetObject()
			target = "unknown"
			for i := len(stack) - 1; i >= 0 && target == "unknown"; i-- {
				if o, ok := stack[i].sc.Objects()[x.ID()]; ok && schema.Object(o) == obj {
					target = "(scope " + sx.S(stack[i].path).String() + ")"
				}
			}
			if target == "unknown" {
				var nss []string
				for ns := range exts {
					nss = append(nss, ns)
				}
				sort.Strings(nss)
				for _, ns := range nss {
					if o, ok := exts[ns].Objects()[x.ID()]; ok && schema.Object(o) == obj && target == "unknown" {
						target = "(ext " + sx.S(ns).String() + ")"
					}
				}
			}
		}
		*out = append(*out, c14Link{path, x.ID(), x.Namespace(), target})
	default:
		// other instantiations of the container types (as a loader may build them): through their accessors
		if l, ok := t.(c12HasItems); ok {
			c14Walk(l.Items(), path+"/i", stack, exts, out)
		} else if m, ok := t.(c12HasKV); ok {
			c14Walk(m.Keys(), path+"/k", stack, exts, out)
			c14Walk(m.Values(), path+"/v", stack, exts, out)
		} else if o, ok := t.(c12TypesS); ok {
			for k, m := range o.Types() {
				c14Walk(m, path+"/m:"+k, stack, exts, out)
			}
		} else if o, ok := t.(c12TypesI); ok {
			for k, m := range o.Types() {
				c14Walk(m, fmt.Sprintf("%s/m:%d", path, k), stack, exts, out)
			}
		}
	}
}

// c14Rebuild: the scope described and rebuilt from its description (nil: SelfSerialize or UnserializeScope failed
// or panicked).
func c14Rebuild(t schema.Type) (out schema.Type) {
	defer func() {
		if r := recover(); r != nil {
			out = nil
		}
	}()
	sc, ok := t.(*schema.ScopeSchema)
	if !ok {
		return nil
	}
	d, err := sc.SelfSerialize()
	if err != nil {
		return nil
	}
	rb, err := schema.UnserializeScope(d)
	if err != nil {
		return nil
	}
	return rb
}

// c14Applier: what ApplyNamespace / ValidateReferences are called on — the schema itself, or the
// StepOutputSchema that wraps it.
type c14Applier interface {
	ApplyNamespace(objects map[string]*schema.ObjectSchema, namespace string)
	ValidateReferences() error
}

func c14State(s schema.Type, exts map[string]*schema.ScopeSchema) *sx.Node {
	return c14StateVia(s, s, exts)
}

func c14StateVia(s schema.Type, via c14Applier, exts map[string]*schema.ScopeSchema) *sx.Node {
	var links []c14Link
	c14Walk(s, "", nil, exts, &links)
	sort.Slice(links, func(i, j int) bool { return links[i].path < links[j].path })
	l := sx.L()
	for _, k := range links {
		tn, err := sx.Parse(k.target)
		if err != nil {
			tn = sx.A(k.target)
		}
		l.Append(sx.L(sx.S(k.path), sx.S(k.id), sx.S(k.ns), tn))
	}
	vr := "ok"
	func() {
		defer func() {
			if r := recover(); r != nil {
				vr = "panic"
			}
		}()
		if err := via.ValidateReferences(); err != nil {
			vr = "err"
		}
	}()
	return sx.L(sx.A("st"), l, sx.A(vr))
}

func c14Exts(envN *sx.Node) map[string]*schema.ScopeSchema {
	exts := map[string]*schema.ScopeSchema{}
	for _, ext := range envN.List[1].List[1].List {
		scopeN := sx.L(sx.A("scope"), ext.List[1], sx.S(ext.List[1].List[0].List[0].Str))
		exts[ext.List[0].Str] = buildScope(scopeN)
	}
	return exts
}

// c14Apply applies the namespaces in order; it returns the states and whether every application returned.
func c14Apply(s schema.Type, exts map[string]*schema.ScopeSchema, order []string) (states []*sx.Node, ok bool) {
	return c14ApplyVia(s, s, exts, order)
}

func c14ApplyVia(s schema.Type, via c14Applier, exts map[string]*schema.ScopeSchema, order []string) (states []*sx.Node, ok bool) {
	for _, ns := range order {
		panicked := false
		func() {
			defer func() {
				if r := recover(); r != nil {
					panicked = true
				}
			}()
			via.ApplyNamespace(exts[ns].Objects(), ns)
		}()
		if panicked {
			return append(states, sx.A("panic")), false
		}
		states = append(states, c14StateVia(s, via, exts))
	}
	return states, true
}

func c14Ops(s schema.Type, ops *sx.Node, head string) *sx.Node {
	res := sx.L(sx.A(head))
	for _, op := range ops.List[1:] {
		v := valFromSx(op.List[1])
		switch op.Head() {
		case "u":
			o, _, _ := c14Unser(s, v)
			res.Append(o)
		case "rt":
			// unserialize, then validate and serialize the result (error paths are not compared: with several
			// faults the first error depends on map iteration order)
			rt := sx.L(sx.A("rt"))
			o, n, ok := c14Unser(s, v)
			rt.Append(o)
			if ok {
				rt.Append(c14Strip(obsValidate(s, n)))
				se, _, _ := obsSerialize(s, n)
				rt.Append(c14Strip(se))
			}
			res.Append(rt)
		case "vs":
			se, _, _ := obsSerialize(s, v)
			res.Append(sx.L(sx.A("vs"), c14Strip(obsValidate(s, v)), c14Strip(se)))
		default:
			res.Append(sx.L(sx.A("bad"), sx.S("op")))
		}
	}
	return res
}

// c14Unser: Unserialize, projected by c14Strip.  When the input has SEVERAL faults the error the SDK
// reports first depends on Go's map iteration order (properties and raw data are Go maps), and so may
// its constraint flag: a failing call is repeated, and an outcome that varies is projected to (err any),
// which the comparison (lib/props_c14.py) matches with every error.
func c14Unser(s schema.Type, v any) (*sx.Node, any, bool) {
	o, n, ok := obsUnser(s, v)
	so := c14Strip(o)
	if !ok && so.IsList() && so.Head() == "err" {
		first := so.String()
		for i := 0; i < 200; i++ {
			o2, _, _ := obsUnser(s, v)
			if c14Strip(o2).String() != first {
				return sx.L(sx.A("err"), sx.A("any")), n, ok
			}
		}
	}
	return so, n, ok
}

// c14Strip projects an outcome: (err C (path...)) -> (err C)
func c14Strip(n *sx.Node) *sx.Node {
	if n.IsList() && n.Head() == "err" && len(n.List) == 3 {
		return sx.L(n.List[0], n.List[1])
	}
	return n
}

func runC14(p *sx.Node) *sx.Node {
	envN, sN, orderN, inlN, opsN := p.List[1], p.List[2], p.List[3], p.List[4], p.List[5]
	var order []string
	for _, o := range orderN.List[1:] {
		order = append(order, o.Str)
	}
	build := func(n *sx.Node) (s schema.Type) {
		defer func() {
			if r := recover(); r != nil {
				s = nil
			}
		}()
		return buildSchema(n)
	}
	exts := c14Exts(envN)
	s := build(sN)
	if s == nil {
		return sx.L(sx.A("r"), sx.A("build-panic"))
	}
	rebuilt := orderN.Head() == "order-rb"
	if rebuilt {
		if s = c14Rebuild(s); s == nil {
			return sx.L(sx.A("r"), sx.A("rebuild-failed"))
		}
	}
	// order-so: everything that links or asks about links goes through a step output wrapping the scope
	wrap := func(x schema.Type) c14Applier {
		if sc, isScope := x.(*schema.ScopeSchema); isScope && orderN.Head() == "order-so" {
			return schema.NewStepOutputSchema(sc, nil, false)
		}
		return x
	}
	via := wrap(s)
	out := sx.L(sx.A("r"), c14StateVia(s, via, exts))
	states, ok := c14ApplyVia(s, via, exts, order)
	out.Append(states...)
	// the reverse order on a fresh build
	s2 := build(sN)
	var rev []string
	for i := len(order) - 1; i >= 0; i-- {
		rev = append(rev, order[i])
	}
	st2, ok2 := c14Apply(s2, exts, rev)
	if ok2 && len(st2) > 0 {
		out.Append(sx.L(sx.A("rev"), st2[len(st2)-1]))
	} else if ok2 {
		out.Append(sx.L(sx.A("rev"), c14State(s2, exts)))
	} else {
		out.Append(sx.L(sx.A("rev"), sx.A("panic")))
	}
	if !ok {
		return out.Append(sx.L(sx.A("ops")), sx.L(sx.A("inl")))
	}
	out.Append(c14Ops(s, opsN, "ops"))
	si := build(inlN)
	if si == nil {
		return out.Append(sx.L(sx.A("inl"), sx.A("build-panic")))
	}
	if rebuilt {
		if si = c14Rebuild(si); si == nil {
			return out.Append(sx.L(sx.A("inl"), sx.A("rebuild-failed")))
		}
	}
	if _, ok3 := c14ApplyVia(si, wrap(si), exts, order); !ok3 {
		return out.Append(sx.L(sx.A("inl"), sx.A("panic")))
	}
	return out.Append(c14Ops(si, opsN, "inl"))
}

// ---------------------------------------------------------------------------------------
// generator
// ---------------------------------------------------------------------------------------

type c14gen struct {
	r     *Rng
	later []string // ids of the current scope a reference may point to (acyclic: only later objects)
	all   []string // all ids of the current scope (for deliberately recursive references)
	depth int
	extOK bool // references to the external namespaces allowed here
	cnt   int
}

var c14ExtIDs = map[string][]string{"n1": {"X", "Y", "O1"}, "n2": {"X", "Z"}}

func (g *c14gen) scalar() *sx.Node {
	switch g.r.Intn(5) {
	case 0:
		return dInt(nil, nil, nil)
	case 1:
		return dString(nil, ip(8), nil)
	case 2:
		return dBool()
	case 3:
		return dEnumStrD(nil, []string{"x", "y"}, []string{"ex", "why"}) // named values: an enum whose values carry no display cannot be described (D29)
	}
	return dInt(ip(0), ip(50), nil)
}

func (g *c14gen) ref() *sx.Node {
	r := g.r
	if g.extOK && r.Chance(35) {
		ns := pick(r, []string{"n1", "n2"})
		return dRef(pick(r, c14ExtIDs[ns]), ns)
	}
	if len(g.later) > 0 {
		return dRef(pick(r, g.later), "")
	}
	return nil
}

func (g *c14gen) typ(depth int) *sx.Node {
	r := g.r
	if depth <= 0 {
		if x := g.ref(); x != nil && r.Bool() {
			return x
		}
		return g.scalar()
	}
	switch r.Intn(10) {
	case 0, 1:
		return dList(g.typ(depth-1), nil, ip(3))
	case 2:
		return dMap(dString(ip(1), nil, nil), g.typ(depth-1), nil, ip(3))
	case 3, 4:
		if x := g.ref(); x != nil {
			return x
		}
	case 5:
		// one-of over objects of the scope and inline objects
		var ms []memberD
		for i := 0; i < 1+r.Intn(2); i++ {
			var t *sx.Node
			if len(g.later) > 0 && r.Bool() {
				t = dRef(pick(r, g.later), "")
			} else {
				g.cnt++
				t = dObject(fmt.Sprintf("m%d", g.cnt), false, propD{name: "q", t: g.typ(depth - 1)})
			}
			ms = append(ms, memberD{skey: string(rune('A' + i)), t: t})
		}
		return dOneOf(false, "kind", false, ms...)
	case 6:
		if depth >= 2 {
			return g.scope(depth-1, false) // a nested scope with colliding ids
		}
	case 7:
		g.cnt++
		return dObject(fmt.Sprintf("inl%d", g.cnt), false, propD{name: "a", t: g.typ(depth - 1)}, propD{name: "b", t: g.scalar()})
	}
	return g.scalar()
}

// scope: objects named from a SHARED pool, so inner scopes collide with outer ones
func (g *c14gen) scope(depth int, top bool) *sx.Node {
	r := g.r
	pool := []string{"A", "B", "C", "X"}
	n := 2 + r.Intn(3)
	ids := append([]string{}, pool[:n]...)
	saveLater, saveAll := g.later, g.all
	g.all = ids
	var objs []*sx.Node
	for i, id := range ids {
		g.later = ids[i+1:]
		np := 1 + r.Intn(3)
		var ps []propD
		names := []string{"a", "b", "c", "xs"}
		for j := 0; j < np; j++ {
			p := propD{name: names[j], t: g.typ(depth), required: j == 0 && r.Chance(40)}
			// a DISABLED property (with or without a reason): Unserialize refuses it, but its type is still linked,
			// still visited by ValidateReferences and still used by Validate / Serialize
			if !p.required && r.Chance(8) {
				p.disabled, p.noReason = true, r.Chance(35)
			}
			ps = append(ps, p)
		}
		ps = append(ps, propD{name: "tag", t: dString(nil, nil, nil)})
		objs = append(objs, dObject(id, false, ps...))
	}
	g.later, g.all = saveLater, saveAll
	return dScope(ids[0], objs...)
}

func c14ExtTables(r *Rng) *sx.Node {
	n1 := sx.L(
		sx.L(sx.S("X"), dObject("X", false, propD{name: "a", t: dInt(nil, nil, nil)}, propD{name: "y", t: dRef("Y", "")})),
		sx.L(sx.S("Y"), dObject("Y", false, propD{name: "b", t: dString(nil, nil, nil)})),
		sx.L(sx.S("O1"), dObject("O1", false, propD{name: "o", t: dBool()})))
	n2 := sx.L(
		sx.L(sx.S("X"), dObject("X", false, propD{name: "c", t: dBool(), required: true})),
		sx.L(sx.S("Z"), dObject("Z", false, propD{name: "zs", t: dList(dRef("X", ""), nil, nil)})))
	return sx.L(sx.L(sx.S("n1"), n1), sx.L(sx.S("n2"), n2))
}

// ---- inlining -------------------------------------------------------------------------

// c14Cyclic: ids of the scope's objects that lie on a cycle of self-namespace references
func c14Cyclic(tab map[string]*sx.Node) map[string]bool {
	reach := map[string]map[string]bool{}
	var collect func(n *sx.Node, out map[string]bool)
	collect = func(n *sx.Node, out map[string]bool) {
		if !n.IsList() {
			return
		}
		switch n.Head() {
		case "ref":
			if n.List[2].Str == "" {
				out[n.List[1].Str] = true
			}
			return
		case "scope":
			return // another scope: its references do not name our objects
		}
		for _, c := range n.List {
			collect(c, out)
		}
	}
	for id, o := range tab {
		reach[id] = map[string]bool{}
		collect(o, reach[id])
	}
	cyc := map[string]bool{}
	for id := range tab {
		seen := map[string]bool{}
		var dfs func(x string) bool
		dfs = func(x string) bool {
			for y := range reach[x] {
				if y == id {
					return true
				}
				if !seen[y] {
					seen[y] = true
					if dfs(y) {
						return true
					}
				}
			}
			return false
		}
		if dfs(id) {
			cyc[id] = true
		}
	}
	return cyc
}

func c14Inline(n *sx.Node, tab map[string]*sx.Node, stop map[string]bool) *sx.Node {
	if !n.IsList() {
		return n
	}
	switch n.Head() {
	case "ref":
		if n.List[2].Str == "" && !stop[n.List[1].Str] {
			if o, ok := tab[n.List[1].Str]; ok {
				return c14Inline(o, tab, stop)
			}
		}
		return n
	case "scope":
		inner := map[string]*sx.Node{}
		for _, o := range n.List[1].List {
			inner[o.List[0].Str] = o.List[1]
		}
		st := c14Cyclic(inner)
		objs := sx.L()
		for _, o := range n.List[1].List {
			objs.Append(sx.L(o.List[0], c14Inline(o.List[1], inner, st)))
		}
		return sx.L(sx.A("scope"), objs, n.List[2])
	}
	out := sx.L()
	for _, c := range n.List {
		out.Append(c14Inline(c, tab, stop))
	}
	return out
}

// ---- deep inputs for the recursive scopes ----------------------------------------------

func c14Chain(depth int, field string, leaf *sx.Node) *sx.Node {
	v := leaf
	for i := 0; i < depth; i++ {
		v = vM(tAnyMap, vS("v"), vI("i64", int64(i)), vS(field), v)
	}
	return v
}

func orderSx(ns ...string) *sx.Node {
	o := sx.L(sx.A("order"))
	for _, n := range ns {
		o.Append(sx.S(n))
	}
	return o
}

// throughStepOutput: the same order, applied through a StepOutputSchema wrapping the scope.
func throughStepOutput(order *sx.Node) *sx.Node {
	o := sx.L(sx.A("order-so"))
	o.Append(order.List[1:]...)
	return o
}

// rebuiltFromDescription: the same order, on the scope rebuilt from its description (order-rb); the plain order
// where the scope cannot be described at all (C09's known findings: nothing to rebuild from).
func rebuiltFromDescription(s, inl, order *sx.Node) *sx.Node {
	for _, n := range []*sx.Node{s, inl} {
		ok := false
		func() {
			defer func() { _ = recover() }()
			if sc, isScope := buildSchema(n).(*schema.ScopeSchema); isScope {
				_, err := sc.SelfSerialize()
				ok = err == nil
				if err != nil && os.Getenv("VERIF_DEBUG") != "" {
					fmt.Fprintf(os.Stderr, "c14: not describable: %v\n", err)
				}
			}
		}()
		if !ok {
			return order
		}
	}
	o := sx.L(sx.A("order-rb"))
	o.Append(order.List[1:]...)
	return o
}

// c14Enable: the descriptor with every property enabled (used only to MAKE native values that carry the
// fields of disabled properties).
func c14Enable(n *sx.Node) *sx.Node {
	if !n.IsList() {
		return n
	}
	out := sx.L()
	for _, c := range n.List {
		out.Append(c14Enable(c))
	}
	if n.Head() == "prop" && len(n.List) == 12 {
		out.List[10], out.List[11] = sx.B(false), none()
	}
	return out
}

func c14HasDisabled(n *sx.Node) bool {
	if !n.IsList() {
		return false
	}
	if n.Head() == "prop" && len(n.List) == 12 && n.List[10].Atom == "1" {
		return true
	}
	for _, c := range n.List {
		if c14HasDisabled(c) {
			return true
		}
	}
	return false
}

// c14Native asks the SDK (all properties enabled, every namespace applied) for the native form of a raw value.
func c14Native(ext, s, raw *sx.Node) (out *sx.Node) {
	defer func() {
		if recover() != nil {
			out = nil
		}
	}()
	twin := buildSchema(c14Enable(s))
	for _, e := range ext.List {
		scopeN := sx.L(sx.A("scope"), c14Enable(e.List[1]), sx.S(e.List[1].List[0].List[0].Str))
		twin.ApplyNamespace(buildScope(scopeN).Objects(), e.List[0].Str)
	}
	v, err := twin.Unserialize(valFromSx(raw))
	if err != nil {
		return nil
	}
	return valSx(v)
}

func c14Case(ext, s *sx.Node, order *sx.Node, ops []*sx.Node) *sx.Node {
	l := sx.L(sx.A("ops"))
	l.Append(ops...)
	inl := c14Inline(s, map[string]*sx.Node{}, map[string]bool{})
	return sx.L(sx.A("c14"), mkEnv(ext, s, ops), s, order, inl, l)
}

// c14CaseRB: the case on the scope REBUILT from its description.
func c14CaseRB(ext, s *sx.Node, order *sx.Node, ops []*sx.Node) *sx.Node {
	inl := c14Inline(s, map[string]*sx.Node{}, map[string]bool{})
	return c14Case(ext, s, rebuiltFromDescription(s, inl, order), ops)
}

// c14NSPairs: names the two external namespaces take.  Namespaces are plain strings compared for EQUALITY, so the
// pairs are near-equal names: differing only in letter case (ASCII, and a non-ASCII simple case fold), one a prefix
// of the other, differing in a trailing / leading space, blank names next to the self namespace "", names with
// separators.  Both tables hold an object X of different shapes, references go into both, both orders are applied.
var c14NSPairs = [][2]string{
	{"Steps", "steps"}, {"steps", "STEPS"}, {"ns", "ns "}, {"n", "n1"}, {" ", "  "}, {"a.b", "a.B"},
	{"k", "\u212a"}, {"n2", "n1"}, {"ns/a", "ns"}, {"steps", " steps"},
}

// c14Rename: the descriptor / case with the namespace names of every reference, of the external tables and of the
// order replaced (a fresh tree: the fixed descriptors are shared between cases).
func c14Rename(n *sx.Node, m map[string]string) *sx.Node {
	if !n.IsList() {
		return n
	}
	ren := func(x *sx.Node) *sx.Node {
		if to, ok := m[x.Str]; ok && x.IsStr {
			return sx.S(to)
		}
		return x
	}
	out := sx.L()
	switch {
	case n.Head() == "ref" && len(n.List) == 4:
		return sx.L(n.List[0], n.List[1], ren(n.List[2]), n.List[3])
	case n.Head() == "order" || n.Head() == "order-so" || n.Head() == "order-rb":
		out.Append(n.List[0])
		for _, c := range n.List[1:] {
			out.Append(ren(c))
		}
		return out
	case n.Head() == "ext" && len(n.List) == 2 && n.List[1].IsList():
		tabs := sx.L()
		for _, e := range n.List[1].List {
			tabs.Append(sx.L(ren(e.List[0]), c14Rename(e.List[1], m)))
		}
		return sx.L(n.List[0], tabs)
	case n.Head() == "ops" || n.Head() == "json" || n.Head() == "reok":
		return n // data: never renamed
	}
	for _, c := range n.List {
		out.Append(c14Rename(c, m))
	}
	return out
}

func c14HasExt(c *sx.Node) bool { return len(c.List[1].List[1].List[1].List) > 0 }

func genC14(r *Rng, tier string, emit0 func(*sx.Node)) {
	ext := c14ExtTables(r)
	// every fixed case that has external namespaces is emitted as written (n1, n2) AND under one of the near-equal
	// pairs of names (cycling through them); a generated case takes a random pair 60% of the time
	fixed, nth := true, 0
	emit := func(c *sx.Node) {
		if !c14HasExt(c) {
			emit0(c)
			return
		}
		if fixed {
			emit0(c)
			p := c14NSPairs[nth%len(c14NSPairs)]
			nth++
			emit0(c14Rename(c, map[string]string{"n1": p[0], "n2": p[1]}))
			return
		}
		if r.Chance(60) {
			p := pick(r, c14NSPairs)
			c = c14Rename(c, map[string]string{"n1": p[0], "n2": p[1]})
		}
		emit0(c)
	}
	// (1) fixed cases: shadowing, every container kind, recursion, the one-of/namespace interaction
	inner := dScope("A", dObject("A", false, propD{name: "inner", t: dBool()}, propD{name: "b", t: dRef("B", "")}),
		dObject("B", false, propD{name: "innerB", t: dInt(nil, nil, nil)}))
	shadow := dScope("A",
		dObject("A", false, propD{name: "outer", t: dInt(nil, nil, nil)}, propD{name: "s", t: inner}, propD{name: "b", t: dRef("B", "")}),
		dObject("B", false, propD{name: "outerB", t: dString(nil, nil, nil)}, propD{name: "x", t: dRef("X", "n1")}))
	shadowOps := []*sx.Node{
		op("rt", vM(tAnyMap, vS("outer"), vI("i64", 1), vS("s"), vM(tAnyMap, vS("inner"), vB(true), vS("b"), vM(tAnyMap, vS("innerB"), vI("i64", 2))),
			vS("b"), vM(tAnyMap, vS("outerB"), vS("z")))),
		op("rt", vM(tAnyMap, vS("s"), vM(tAnyMap, vS("b"), vM(tAnyMap, vS("outerB"), vS("wrong scope"))))),
		op("rt", vM(tAnyMap, vS("b"), vM(tAnyMap, vS("innerB"), vI("i64", 2)))),
		op("rt", vM(tAnyMap, vS("b"), vM(tAnyMap, vS("x"), vM(tAnyMap, vS("a"), vI("i64", 5), vS("y"), vM(tAnyMap, vS("b"), vS("q")))))),
	}
	emit(c14Case(ext, shadow, orderSx("n1", "n2"), shadowOps))
	emit(c14Case(ext, shadow, orderSx("n2", "n1"), shadowOps))
	emit(c14Case(ext, shadow, orderSx("n2"), shadowOps[:3])) // n1 never applied: ValidateReferences must fail
	containers := dScope("A",
		dObject("A", false,
			propD{name: "l", t: dList(dRef("B", ""), nil, nil)},
			propD{name: "m", t: dMap(dString(nil, nil, nil), dRef("B", ""), nil, nil)},
			propD{name: "o", t: dOneOf(false, "kind", false, memberD{skey: "b", t: dRef("B", "")}, memberD{skey: "c", t: dRef("C", "")})},
			propD{name: "e1", t: dList(dRef("X", "n1"), nil, nil)},
			propD{name: "e2", t: dMap(dString(nil, nil, nil), dRef("X", "n2"), nil, nil)}),
		dObject("B", false, propD{name: "v", t: dInt(nil, nil, nil)}),
		dObject("C", false, propD{name: "w", t: dString(nil, nil, nil)}))
	contOps := []*sx.Node{
		op("rt", vM(tAnyMap, vS("l"), vSl(tAnySlice, vM(tAnyMap, vS("v"), vI("i64", 1))), vS("m"), vM(tAnyMap, vS("k"), vM(tAnyMap, vS("v"), vI("i64", 2))),
			vS("o"), vM(tAnyMap, vS("kind"), vS("c"), vS("w"), vS("x")))),
		op("rt", vM(tAnyMap, vS("e1"), vSl(tAnySlice, vM(tAnyMap, vS("a"), vI("i64", 1))), vS("e2"), vM(tAnyMap, vS("k"), vM(tAnyMap, vS("c"), vB(true))))),
		op("rt", vM(tAnyMap, vS("e2"), vM(tAnyMap, vS("k"), vM(tAnyMap, vS("a"), vI("i64", 1))))), // n1's X shape under n2: must fail
	}
	emit(c14Case(ext, containers, orderSx("n1", "n2"), contOps))
	emit(c14Case(ext, containers, orderSx("n2", "n1"), contOps))
	// the same through a StepOutputSchema wrapping the scope (the way a step's outputs hold their scopes)
	emit(c14Case(ext, shadow, throughStepOutput(orderSx("n1", "n2")), shadowOps))
	emit(c14Case(ext, shadow, throughStepOutput(orderSx("n2")), shadowOps[:3]))
	emit(c14Case(ext, containers, throughStepOutput(orderSx("n2", "n1")), contOps))
	// the same trees REBUILT from their descriptions (no scope of the tree went through NewScopeSchema): the nested scope
	// whose object ids A, B collide with the outer ones, every container kind, partial application
	emit(c14CaseRB(ext, shadow, orderSx("n1", "n2"), shadowOps))
	emit(c14CaseRB(ext, shadow, orderSx("n2"), shadowOps[:3]))
	emit(c14CaseRB(ext, containers, orderSx("n2", "n1"), contOps))
	// scopes nested DIRECTLY as property types three deep, every level with its own A and B; under a list, a map and as a
	// one-of member as well
	lvl3 := dScope("A", dObject("A", false, propD{name: "v3", t: dInt(nil, nil, nil)}, propD{name: "b", t: dRef("B", "")}),
		dObject("B", false, propD{name: "w3", t: dBool()}))
	lvl2 := dScope("A", dObject("A", false, propD{name: "v2", t: dInt(nil, nil, nil)}, propD{name: "b", t: dRef("B", "")}, propD{name: "s", t: lvl3},
		propD{name: "ls", t: dList(lvl3, nil, nil)}),
		dObject("B", false, propD{name: "w2", t: dString(nil, nil, nil)}, propD{name: "a", t: dRef("A", "")}))
	lvl1 := dScope("A", dObject("A", false, propD{name: "v1", t: dInt(nil, nil, nil)}, propD{name: "s", t: lvl2}, propD{name: "b", t: dRef("B", "")},
		propD{name: "ms", t: dMap(dString(nil, nil, nil), lvl3, nil, nil)},
		propD{name: "o", t: dOneOf(false, "kind", false, memberD{skey: "in", t: lvl3}, memberD{skey: "b", t: dRef("B", "")})}),
		dObject("B", false, propD{name: "w1", t: dInt(nil, nil, nil)}))
	v3 := vM(tAnyMap, vS("v3"), vI("i64", 3), vS("b"), vM(tAnyMap, vS("w3"), vB(true)))
	nestOps := []*sx.Node{
		op("rt", vM(tAnyMap, vS("v1"), vI("i64", 1), vS("b"), vM(tAnyMap, vS("w1"), vI("i64", 1)),
			vS("s"), vM(tAnyMap, vS("v2"), vI("i64", 2), vS("b"), vM(tAnyMap, vS("w2"), vS("two")), vS("s"), v3, vS("ls"), vSl(tAnySlice, v3)))),
		op("rt", vM(tAnyMap, vS("ms"), vM(tAnyMap, vS("k"), v3), vS("o"), vM(tAnyMap, vS("kind"), vS("in"), vS("b"), vM(tAnyMap, vS("w3"), vB(false))))),
		op("rt", vM(tAnyMap, vS("s"), vM(tAnyMap, vS("b"), vM(tAnyMap, vS("w1"), vI("i64", 1))))),                            // the OUTER B's shape inside: must fail
		op("rt", vM(tAnyMap, vS("s"), vM(tAnyMap, vS("s"), vM(tAnyMap, vS("b"), vM(tAnyMap, vS("w2"), vS("level 2 shape")))))), // must fail
		op("rt", vM(tAnyMap, vS("o"), vM(tAnyMap, vS("kind"), vS("b"), vS("w1"), vI("i64", 5)))),
	}
	emit(c14Case(nil, lvl1, orderSx(), nestOps))
	emit(c14CaseRB(nil, lvl1, orderSx(), nestOps))
	// references under DISABLED properties (self and external namespace, bare and under a list), and native data that
	// carries those fields: Validate / Serialize still go through the property's type
	disabled := dScope("A",
		dObject("A", false,
			propD{name: "live", t: dRef("B", "")},
			propD{name: "old", t: dRef("B", ""), disabled: true},
			propD{name: "older", t: dList(dRef("B", ""), nil, nil), disabled: true, noReason: true},
			propD{name: "x", t: dRef("X", "n2"), disabled: true}),
		dObject("B", false, propD{name: "v", t: dInt(nil, nil, nil)}))
	nB := func(v int64) *sx.Node { return vM(tStrMap, vS("v"), vI("i64", v)) }
	disOps := []*sx.Node{
		op("rt", vM(tAnyMap, vS("live"), vM(tAnyMap, vS("v"), vI("i64", 1)))),
		op("rt", vM(tAnyMap, vS("old"), vM(tAnyMap, vS("v"), vI("i64", 1)))), // the disabled property is set: refused
		op("vs", vM(tStrMap, vS("live"), nB(1))),
		op("vs", vM(tStrMap, vS("live"), nB(1), vS("old"), nB(2))),
		op("vs", vM(tStrMap, vS("older"), vSl(tAnySlice, nB(3), nB(4)))),
		op("vs", vM(tStrMap, vS("x"), vM(tStrMap, vS("c"), vB(true)))),
		op("vs", vM(tStrMap, vS("old"), vM(tStrMap, vS("v"), vS("not an int")))),
	}
	emit(c14Case(ext, disabled, orderSx("n1", "n2"), disOps))
	emit(c14Case(ext, disabled, throughStepOutput(orderSx("n2", "n1")), disOps))
	emit(c14Case(ext, disabled, orderSx("n1"), disOps[:5])) // n2 never applied: the disabled x stays unlinked, ValidateReferences must fail
	emit(c14CaseRB(ext, disabled, orderSx("n2", "n1"), disOps))
	// a one-of whose members live in an external namespace (the walk reads Properties() of every member)
	oneofExt := dScope("A", dObject("A", false,
		propD{name: "o", t: dOneOf(false, "kind", false, memberD{skey: "x", t: dRef("X", "n1")}, memberD{skey: "z", t: dRef("Z", "n2")})}))
	emit(c14Case(ext, oneofExt, orderSx("n1", "n2"), nil))
	oneofExt1 := dScope("A", dObject("A", false,
		propD{name: "o", t: dOneOf(false, "kind", false, memberD{skey: "x", t: dRef("X", "n1")}, memberD{skey: "a", t: dRef("A", "")})}))
	emit(c14Case(ext, oneofExt1, orderSx("n1"), nil))
	// recursive and mutually recursive objects, inputs nested deep
	depths := []int{1, 5, 40, 150}
	recA := dScope("A", dObject("A", false, propD{name: "v", t: dInt(nil, nil, nil)}, propD{name: "next", t: dRef("A", "")}))
	mutual := dScope("A",
		dObject("A", false, propD{name: "v", t: dInt(nil, nil, nil)}, propD{name: "next", t: dRef("B", "")}),
		dObject("B", false, propD{name: "v", t: dInt(nil, nil, nil)}, propD{name: "next", t: dList(dRef("A", ""), nil, nil)}, propD{name: "t", t: dRef("C", "")}),
		dObject("C", false, propD{name: "c", t: dBool()}))
	var recOps, mutOps []*sx.Node
	for _, d := range depths {
		recOps = append(recOps, op("u", c14Chain(d, "next", vM(tAnyMap, vS("v"), vI("i64", -1)))))
		recOps = append(recOps, op("u", c14Chain(d, "next", vS("not an object")))) // the innermost value is wrong
		a := vM(tAnyMap, vS("v"), vI("i64", -1))
		for i := 0; i < (d+1)/2; i++ {
			b := vM(tAnyMap, vS("v"), vI("i64", int64(i)), vS("next"), vSl(tAnySlice, a), vS("t"), vM(tAnyMap, vS("c"), vB(true)))
			a = vM(tAnyMap, vS("v"), vI("i64", int64(i)), vS("next"), b)
		}
		mutOps = append(mutOps, op("u", a))
	}
	// D11 (known finding, owned by C04): the one-property object A{x: ref A} given a non-map input follows its own
	// reference through the inline shorthand for ever (fatal stack overflow)
	d11 := dScope("A", dObject("A", false, propD{name: "x", t: dRef("A", "")}))
	emit(c14Case(nil, d11, orderSx(), []*sx.Node{op("u", vS("foo"))}))
	emit(c14Case(nil, recA, orderSx(), recOps))
	emit(c14Case(nil, mutual, orderSx(), mutOps))
	emit(c14CaseRB(nil, mutual, orderSx(), mutOps))
	// (2) generated scope trees
	fixed = false
	n := 500
	if tier == "thorough" {
		n = 2500
	}
	for i := 0; i < n; i++ {
		g := &c14gen{r: r, extOK: true}
		depth := 1 + r.Intn(3)
		s := g.scope(depth, true)
		sc := scopeTable(s)
		var ops []*sx.Node
		for j := 0; j < 6; j++ {
			v := rawFor(r, s, sc, depth+2)
			ops = append(ops, op("rt", v))
			if r.Chance(50) {
				ops = append(ops, op("rt", mutate(r, v)))
			}
		}
		if c14HasDisabled(s) {
			// native values that carry the fields of the disabled properties
			for j := 0; j < 3; j++ {
				if nat := c14Native(ext, s, rawFor(r, s, sc, depth+2)); nat != nil {
					ops = append(ops, op("vs", nat))
				}
			}
		}
		order := orderSx("n1", "n2")
		if r.Bool() {
			order = orderSx("n2", "n1")
		}
		// a third as built, a third through a step output, a third rebuilt from the description
		switch r.Intn(3) {
		case 0:
			emit(c14Case(ext, s, order, ops))
		case 1:
			emit(c14Case(ext, s, throughStepOutput(order), ops))
		default:
			emit(c14CaseRB(ext, s, order, ops))
		}
	}
}

func init() {
	families["c14scopes"] = &Family{Label: "c14", Gen: genC14, Run: runC14}
}
