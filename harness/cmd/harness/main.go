// Command harness generates cases, runs them against the SDK built from /repo's working
// tree, and prints canonical observations (DESIGN §2.3).
package main

import (
	"bufio"
	"fmt"
	"os"
	"strconv"
	"strings"

	"verif/harness/sx"
)

// Rng is splitmix64: every random choice of a run derives from one seed.
type Rng struct{ s uint64 }

func (r *Rng) Next() uint64 {
	r.s += 0x9e3779b97f4a7c15
	z := r.s
	z = (z ^ (z >> 30)) * 0xbf58476d1ce4e5b9
	z = (z ^ (z >> 27)) * 0x94d049bb133111eb
	return z ^ (z >> 31)
}
func (r *Rng) Intn(n int) int {
	if n <= 0 {
		return 0
	}
	return int(r.Next() % uint64(n))
}
func (r *Rng) Bool() bool       { return r.Next()&1 == 1 }
func (r *Rng) Chance(p int) bool { return r.Intn(100) < p }
func pick[T any](r *Rng, l []T) T { return l[r.Intn(len(l))] }

// Family is one kind of case: a generator and a runner.
type Family struct {
	// Gen emits case payloads (without the (case ID FAMILY ...) wrapper).
	Gen func(r *Rng, tier string, emit func(payload *sx.Node))
	// Run executes one payload on the implementation and returns the observation.
	Run func(payload *sx.Node) *sx.Node
}

var families = map[string]*Family{}

// guarded runs one case; a panic escaping the family's own supervision is an observation.
func guarded(run func(*sx.Node) *sx.Node, p *sx.Node) (res *sx.Node) {
	defer func() {
		if r := recover(); r != nil {
			res = sx.A("panic")
		}
	}()
	return run(p)
}

func main() {
	if len(os.Args) < 2 {
		fmt.Fprintln(os.Stderr, "usage: harness gen FAMILY TIER SEED OUT | run IN OUT | tables OUT")
		os.Exit(2)
	}
	switch os.Args[1] {
	case "gen":
		fam, tier := os.Args[2], os.Args[3]
		seed, _ := strconv.ParseUint(os.Args[4], 10, 64)
		f, ok := families[fam]
		if !ok {
			fmt.Fprintln(os.Stderr, "unknown family", fam)
			os.Exit(2)
		}
		out, err := os.Create(os.Args[5])
		if err != nil {
			panic(err)
		}
		w := bufio.NewWriterSize(out, 1<<20)
		n := 0
		f.Gen(&Rng{s: seed}, tier, func(p *sx.Node) {
			n++
			fmt.Fprintln(w, sx.L(sx.A("case"), sx.I(int64(n)), sx.A(fam), p).String())
		})
		w.Flush()
		out.Close()
		fmt.Printf("generated %d cases\n", n)
	case "run":
		in, err := os.Open(os.Args[2])
		if err != nil {
			panic(err)
		}
		out, err := os.Create(os.Args[3])
		if err != nil {
			panic(err)
		}
		w := bufio.NewWriterSize(out, 1<<20)
		sc := bufio.NewScanner(in)
		sc.Buffer(make([]byte, 1<<20), 1<<28)
		for sc.Scan() {
			line := sc.Text()
			if line == "" || strings.HasPrefix(line, ";") {
				continue
			}
			c, err := sx.Parse(line)
			if err != nil || len(c.List) != 4 {
				fmt.Fprintln(w, `(bad "parse error")`)
				continue
			}
			f, ok := families[c.List[2].Atom]
			if !ok {
				fmt.Fprintln(w, sx.L(sx.A("obs"), c.List[1], sx.L(sx.A("bad"), sx.S("unknown family"))).String())
				continue
			}
			fmt.Fprintln(w, sx.L(sx.A("obs"), c.List[1], guarded(f.Run, c.List[3])).String())
		}
		w.Flush()
		out.Close()
	case "tables":
		writeTables(os.Args[2])
	default:
		fmt.Fprintln(os.Stderr, "unknown command")
		os.Exit(2)
	}
}
