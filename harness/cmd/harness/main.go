// Command harness generates cases, runs them against the SDK built from /repo's working
// tree, and prints canonical observations (DESIGN §2.3).
package main

import (
	"bufio"
	"fmt"
	"io"
	"os"
	"os/exec"
	"runtime/debug"
	"strconv"
	"strings"
	"time"

	"verif/harness/sx"
)

// Rng is splitmix64: every random choice of a run derives from one seed.
type Rng struct{ s uint64 }

func (r *Rng) Next() uint64 {
	r.s += 0x9e3779b97f4a7c15
	z := r.s
	z = (z ^ (z >> 30)) * 0xbf58476d1ce4e5b9
	z = (z ^ (z >> 27)) * 0x94d049bb133111eb
	return z ^ (z >> 31)
}
func (r *Rng) Intn(n int) int {
	if n <= 0 {
		return 0
	}
	return int(r.Next() % uint64(n))
}
func (r *Rng) Bool() bool       { return r.Next()&1 == 1 }
func (r *Rng) Chance(p int) bool { return r.Intn(100) < p }
func pick[T any](r *Rng, l []T) T { return l[r.Intn(len(l))] }

// Family is one kind of case: a generator and a runner.
type Family struct {
	// Label is the family name written into the cases (the model dispatches on it); default: the registry key.
	Label string
	// Gen emits case payloads (without the (case ID FAMILY ...) wrapper).
	Gen func(r *Rng, tier string, emit func(payload *sx.Node))
	// Run executes one payload on the implementation and returns the observation.
	Run func(payload *sx.Node) *sx.Node
}

var families = map[string]*Family{}

// familyByLabel finds the runner for a case's family label.
func familyByLabel(label string) *Family {
	if f, ok := families[label]; ok {
		return f
	}
	for _, f := range families {
		if f.Label == label {
			return f
		}
	}
	return nil
}

func runLine(line string) string {
	c, err := sx.Parse(line)
	if err != nil || len(c.List) != 4 {
		return `(bad "parse error")`
	}
	f := familyByLabel(c.List[2].Atom)
	if f == nil {
		return sx.L(sx.A("obs"), c.List[1], sx.L(sx.A("bad"), sx.S("unknown family"))).String()
	}
	return sx.L(sx.A("obs"), c.List[1], guarded(f.Run, c.List[3])).String()
}

// worker: one case per line on stdin, one observation per line on stdout.
func worker() {
	debug.SetMaxStack(64 << 20) // a runaway recursion dies quickly instead of eating a gigabyte
	sc := bufio.NewScanner(os.Stdin)
	sc.Buffer(make([]byte, 1<<20), 1<<28)
	w := bufio.NewWriter(os.Stdout)
	for sc.Scan() {
		fmt.Fprintln(w, runLine(sc.Text()))
		w.Flush()
	}
}

type workerProc struct {
	cmd *exec.Cmd
	in  io.WriteCloser
	out *bufio.Reader
}

func startWorker() *workerProc {
	cmd := exec.Command(os.Args[0], "worker")
	in, _ := cmd.StdinPipe()
	out, _ := cmd.StdoutPipe()
	cmd.Stderr = os.Stderr
	if err := cmd.Start(); err != nil {
		panic(err)
	}
	return &workerProc{cmd, in, bufio.NewReaderSize(out, 1<<20)}
}
func (w *workerProc) kill() {
	w.in.Close()
	_ = w.cmd.Process.Kill()
	_ = w.cmd.Wait()
}

// supervise runs every case in a worker process: a fatal error (stack overflow) or a hang
// in the SDK is an observation (crash / hang), not the end of the run.
func supervise(inPath, outPath string) {
	in, err := os.Open(inPath)
	if err != nil {
		panic(err)
	}
	out, err := os.Create(outPath)
	if err != nil {
		panic(err)
	}
	w := bufio.NewWriterSize(out, 1<<20)
	sc := bufio.NewScanner(in)
	sc.Buffer(make([]byte, 1<<20), 1<<28)
	wk := startWorker()
	type resp struct {
		line string
		err  error
	}
	for sc.Scan() {
		line := sc.Text()
		if line == "" || strings.HasPrefix(line, ";") {
			continue
		}
		id := "?"
		if c, err := sx.Parse(line); err == nil && len(c.List) > 1 {
			id = c.List[1].Atom
		}
		if _, err := io.WriteString(wk.in, line+"\n"); err != nil {
			wk.kill()
			wk = startWorker()
			_, _ = io.WriteString(wk.in, line+"\n")
		}
		ch := make(chan resp, 1)
		go func(r *bufio.Reader) {
			l, err := r.ReadString('\n')
			ch <- resp{l, err}
		}(wk.out)
		select {
		case r := <-ch:
			if r.err != nil {
				fmt.Fprintf(w, "(obs %s crash)\n", id)
				wk.kill()
				wk = startWorker()
			} else {
				w.WriteString(r.line)
			}
		case <-time.After(20 * time.Second):
			fmt.Fprintf(w, "(obs %s hang)\n", id)
			wk.kill()
			wk = startWorker()
		}
	}
	wk.kill()
	w.Flush()
	out.Close()
}

// guarded runs one case; a panic escaping the family's own supervision is an observation.
func guarded(run func(*sx.Node) *sx.Node, p *sx.Node) (res *sx.Node) {
	defer func() {
		if r := recover(); r != nil {
			if os.Getenv("VERIF_DEBUG") != "" {
				fmt.Fprintf(os.Stderr, "harness-level panic: %v\n%s\n", r, debug.Stack())
			}
			res = sx.A("panic")
		}
	}()
	return run(p)
}

func main() {
	if len(os.Args) < 2 {
		fmt.Fprintln(os.Stderr, "usage: harness gen FAMILY TIER SEED OUT | run IN OUT | tables OUT")
		os.Exit(2)
	}
	switch os.Args[1] {
	case "gen":
		fam, tier := os.Args[2], os.Args[3]
		seed, _ := strconv.ParseUint(os.Args[4], 10, 64)
		f, ok := families[fam]
		if !ok {
			fmt.Fprintln(os.Stderr, "unknown family", fam)
			os.Exit(2)
		}
		out, err := os.Create(os.Args[5])
		if err != nil {
			panic(err)
		}
		w := bufio.NewWriterSize(out, 1<<20)
		n := 0
		label := fam
		if f.Label != "" {
			label = f.Label
		}
		f.Gen(&Rng{s: seed}, tier, func(p *sx.Node) {
			n++
			fmt.Fprintln(w, sx.L(sx.A("case"), sx.I(int64(n)), sx.A(label), p).String())
		})
		w.Flush()
		out.Close()
		fmt.Printf("generated %d cases\n", n)
	case "run":
		supervise(os.Args[2], os.Args[3])
	case "worker":
		worker()
	case "tables":
		writeTables(os.Args[2])
	default:
		fmt.Fprintln(os.Stderr, "unknown command")
		os.Exit(2)
	}
}
