package main

// c15rebuilt2 — a second generator for the rebuilt half of C15 ("every schema is compatible with a schema
// rebuilt from its own description"), same case syntax and runner as c15rebuilt:
//
//	(c15rb ENV S)   observation (rb V V) | (rb undescribable) | (rb unrebuildable)
//
// What it adds: the scopes carry exactly what distinguishes a schema from its rebuild and everything a
// description has to carry through — properties with TreatEmptyAsDefaultValue (the one thing a description
// cannot carry: `erase` of Schema/Describe.v; theorem C15_erase_invisible says ValidateCompatibility must not
// see it), defaults, disabled properties with and without a reason, presence rules, unenforced ids, one-ofs
// over references and inline objects, nested scopes, references at every position.

import (
	"fmt"

	"verif/harness/sx"
)

func (g *c15gen) rb2Type(later []string, depth int) *sx.Node {
	r := g.r
	switch {
	case len(later) > 0 && r.Chance(25):
		return dRef(pick(r, later), "")
	case r.Chance(15):
		if len(later) > 0 && r.Chance(50) {
			return dList(dRef(pick(r, later), ""), ip(0), ip(int64(1+r.Intn(5))))
		}
		return dList(g.rbScalar(), ip(0), ip(5))
	case r.Chance(12):
		if len(later) > 0 && r.Chance(40) {
			return dMap(dString(ip(1), nil, nil), dRef(pick(r, later), ""), nil, ip(4))
		}
		return dMap(dString(ip(1), nil, nil), g.rbScalar(), nil, nil)
	case depth < 2 && r.Chance(15):
		// a string-keyed one-of, not inlined: no member declares the discriminator field "kind"
		var ms []memberD
		if len(later) > 0 {
			ms = append(ms, memberD{skey: "r", t: dRef(pick(r, later), "")})
		}
		ms = append(ms, memberD{skey: "i", t: dObject(fmt.Sprintf("inl%d", depth), r.Chance(50), g.rb2Props(later, depth+1, 2)...)})
		if r.Chance(30) {
			ms = append(ms, memberD{skey: "j", t: dObject(fmt.Sprintf("inm%d", depth), false, g.rb2Props(nil, depth+1, 1)...)})
		}
		return dOneOf(false, "kind", false, ms...)
	case depth < 2 && r.Chance(10):
		// an int-keyed one-of, inlined: every member declares the discriminator field "t" as an integer
		mk := func(id string) *sx.Node {
			ps := append([]propD{{name: "t", t: dInt(nil, nil, nil), required: true}}, g.rb2Props(nil, depth+1, 1)...)
			return dObject(id, false, ps...)
		}
		return dOneOf(true, "t", true, memberD{ikey: 1, t: mk("m1")}, memberD{ikey: 2, t: mk("m2")})
	case depth < 2 && r.Chance(10):
		return dScope("N", dObject("N", false, g.rb2Props(nil, depth+1, 2)...))
	}
	return g.rbScalar()
}

func (g *c15gen) rb2Props(later []string, depth int, max int) []propD {
	r := g.r
	var ps []propD
	used := map[string]bool{"t": true, "kind": true}
	want := 1 + r.Intn(max)
	for len(ps) < want {
		nm := pick(r, propNames)
		if used[nm] {
			continue
		}
		used[nm] = true
		p := propD{name: nm, t: g.rb2Type(later, depth), required: r.Chance(35), emptyIsDefault: r.Chance(50)}
		if p.t.IsList() && p.t.Head() == "int" && r.Chance(40) {
			p.dflt = sp("5") // every generated integer range contains 5
			p.required = false
		}
		if r.Chance(10) {
			p.disabled = true
			p.noReason = r.Chance(50)
		}
		ps = append(ps, p)
	}
	// presence rules between the properties of this object (a description carries them; compatibility ignores them)
	if len(ps) >= 2 && r.Chance(30) {
		switch r.Intn(3) {
		case 0:
			ps[0].requiredIf = []string{ps[1].name}
			ps[0].required = false
		case 1:
			ps[0].requiredIfNot = []string{ps[1].name}
			ps[0].required = false
		default:
			ps[0].conflicts = []string{ps[1].name}
			ps[0].required = false
			ps[1].required = false
		}
	}
	return ps
}

func genC15Rebuilt2(r *Rng, tier string, emit func(*sx.Node)) {
	n := 200
	if tier == "thorough" {
		n = 2000
	}
	for i := 0; i < n; i++ {
		g := &c15gen{r: r}
		k := 1 + r.Intn(3)
		ids := make([]string, k)
		for j := range ids {
			ids[j] = fmt.Sprintf("O%d", j)
		}
		var objs []*sx.Node
		for j, id := range ids {
			objs = append(objs, dObject(id, j > 0 && r.Chance(25), g.rb2Props(ids[j+1:], 0, 4)...))
		}
		s := dScope("O0", objs...)
		emit(sx.L(sx.A("c15rb"), mkEnv(nil, s, nil), s))
	}
}

func init() {
	families["c15rebuilt2"] = &Family{Label: "c15", Gen: genC15Rebuilt2, Run: runC15}
}
