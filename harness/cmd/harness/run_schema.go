package main

import (
	"github.com/fxamacker/cbor/v2"
	"go.flow.arcalot.io/pluginsdk/schema"
	"verif/harness/sx"
)

// cborRoundTrip encodes and decodes a value exactly as ATP transports it.
func cborRoundTrip(v any) (any, error) {
	b, err := cbor.Marshal(v)
	if err != nil {
		return nil, err
	}
	var out any
	if err := cbor.Unmarshal(b, &out); err != nil {
		return nil, err
	}
	return out, nil
}

func unit() *sx.Node { return sx.A("-") }

func obsUnser(s schema.Type, v any) (*sx.Node, any, bool) {
	var got any
	ok := false
	o := outcomeSx(func() (*sx.Node, error) {
		r, err := s.Unserialize(v)
		if err != nil {
			return nil, err
		}
		got, ok = r, true
		return valSx(r), nil
	})
	return o, got, ok
}
func obsValidate(s schema.Type, v any) *sx.Node {
	return outcomeSx(func() (*sx.Node, error) { return unit(), s.Validate(v) })
}
func obsSerialize(s schema.Type, v any) (*sx.Node, any, bool) {
	var got any
	ok := false
	o := outcomeSx(func() (*sx.Node, error) {
		r, err := s.Serialize(v)
		if err != nil {
			return nil, err
		}
		got, ok = r, true
		return valSx(r), nil
	})
	return o, got, ok
}
func obsCompat(s schema.Type, v any) *sx.Node {
	return outcomeSx(func() (*sx.Node, error) { return unit(), s.ValidateCompatibility(v) })
}

func runRT(s schema.Type, v any) *sx.Node {
	out := sx.L(sx.A("rt"))
	u1, n, ok := obsUnser(s, v)
	out.Append(u1)
	if !ok {
		return out
	}
	out.Append(obsValidate(s, n))
	se, w, ok := obsSerialize(s, n)
	out.Append(se)
	if !ok {
		return out
	}
	u2, n2, ok2 := obsUnser(s, w)
	out.Append(u2)
	if ok2 {
		s2, _, _ := obsSerialize(s, n2)
		out.Append(s2)
	} else {
		out.Append(unit())
	}
	wc, err := cborRoundTrip(w)
	if err != nil {
		out.Append(sx.A("cbor-error"))
		return out
	}
	out.Append(valSx(wc))
	u3, _, _ := obsUnser(s, wc)
	out.Append(u3)
	return out
}

// runSchemaCase: (sch ENV SCHEMA (ops OP...)) -> (r O...)
func runSchemaCase(p *sx.Node) *sx.Node {
	var s schema.Type
	built := outcomeSx(func() (*sx.Node, error) {
		s = buildWithEnv(p.List[1], p.List[2])
		return unit(), nil
	})
	if s == nil {
		return sx.L(sx.A("build-failed"), built)
	}
	res := sx.L(sx.A("r"))
	for _, op := range p.List[3].List[1:] {
		v := valFromSx(op.List[1])
		switch op.Head() {
		case "u":
			o, _, _ := obsUnser(s, v)
			res.Append(o)
		case "v":
			res.Append(obsValidate(s, v))
		case "s":
			o, _, _ := obsSerialize(s, v)
			res.Append(o)
		case "c":
			res.Append(obsCompat(s, v))
		case "rt":
			res.Append(runRT(s, v))
		default:
			res.Append(sx.L(sx.A("bad"), sx.S("op")))
		}
	}
	return res
}
