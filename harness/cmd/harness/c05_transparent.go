// C05 — ATP is transparent (DESIGN §5 C05): every Client.Execute returns what calling the step
// in-process returns, up to CBOR normalisation; rejected input comes back as that step's error;
// nothing lost, duplicated, cross-delivered or corrupted.
//
// One case is one SESSION of the REAL atp client against the REAL atp.RunATPServer (protocol v3) or
// against a scripted server speaking the legacy version-1 framing (the client's v1 path), over a
// chosen transport, with the calls issued one after the other or overlapping.
//
//	case      ::= (session PROTO MODE TRANSPORT (plugin STEP+) (calls CALL+) (order IDX*))
//	PROTO     ::= v3 | v1
//	MODE      ::= serial | (overlap paced|burst|held)     ; held: a burst while the client's side of the server->client
//	                                                    ; stream is not being read (back-pressure on the server's
//	                                                    ; output: a slow consumer); reading starts when everything has
//	                                                    ; come to rest.  Serial sessions may RE-USE the run id of an
//	                                                    ; earlier (finished) call: an ordinary call.
//	TRANSPORT ::= pipe | buf | (frag pipe|buf (N+))     ; io.Pipe / OS-pipe-like buffer / either one with every
//	                                                    ; Write split into chunks of the scripted sizes and every
//	                                                    ; Read cut to the scripted short counts (cyclic lists)
//	STEP      ::= (step "id" INSCOPE (outs ("outid" OUTSCOPE ERRFLAG)+))       ; schema descriptors of schemad.go
//	CALL      ::= (call "run" "step" TOK INPUT (ret "outid" OUTRAW) EXPECT)
//	EXPECT    ::= (expect ok "outid" VALUE) | (expect err H)                   ; the in-process reference, recorded
//	                                                                           ; at generation time by CallStep
//	obs       ::= (r CALLOBS+ (server returned N | hang))
//	CALLOBS   ::= (call "run" (atp ok "outid" VALUE) | (atp err) | (atp hang) | (atp panic)) (h N) (inproc-agrees 0|1))
//
// Every input root object carries a required integer property "tok": the token selects the scripted
// output (and the gate) of the call inside the handler, which is not told the run id.  (h N) is the
// number of times the handler ran for that token; (inproc-agrees 1) says that CallStep run in-process
// at RUN time on a fresh identical plugin gives the recorded expectation (both after a real CBOR
// round trip), so a stale expectation is detected.  IDX* is the order in which the gates of the
// overlapping calls are released (the order of completion).
package main

import (
	"context"
	"fmt"
	"io"
	"math"
	"os"
	"runtime"
	"sync"
	"sync/atomic"
	"time"

	"github.com/fxamacker/cbor/v2"
	"go.flow.arcalot.io/pluginsdk/atp"
	"go.flow.arcalot.io/pluginsdk/schema"

	"verif/harness/sx"
)

// ---------------------------------------------------------------------------------------
// the case
// ---------------------------------------------------------------------------------------

type c05Call struct {
	run, step string
	tok       int64
	input     *sx.Node
	retID     string
	retRaw    *sx.Node
	expect    *sx.Node
}

type c05Session struct {
	proto   string // v3 | v1
	overlap bool
	paced   bool
	held    bool   // overlap held
	base    string // pipe | buf
	sizes   []int  // nil: no fragmentation
	steps   []*sx.Node
	calls   []c05Call
	order   []int
}

func c05Parse(p *sx.Node) (s *c05Session, ok bool) {
	defer func() {
		if r := recover(); r != nil {
			s, ok = nil, false
		}
	}()
	if p.Head() != "session" || len(p.List) != 7 {
		return nil, false
	}
	s = &c05Session{proto: p.List[1].Atom}
	if s.proto != "v3" && s.proto != "v1" {
		return nil, false
	}
	switch m := p.List[2]; {
	case m.IsAtom("serial"):
	case m.Head() == "overlap":
		s.overlap = true
		s.paced = m.List[1].IsAtom("paced")
		s.held = m.List[1].IsAtom("held")
	default:
		return nil, false
	}
	switch t := p.List[3]; {
	case t.IsAtom("pipe"), t.IsAtom("buf"):
		s.base = t.Atom
	case t.Head() == "frag":
		s.base = t.List[1].Atom
		for _, n := range t.List[2].List {
			k := int(n.Int())
			if k < 1 {
				return nil, false
			}
			s.sizes = append(s.sizes, k)
		}
		if len(s.sizes) == 0 || (s.base != "pipe" && s.base != "buf") {
			return nil, false
		}
	default:
		return nil, false
	}
	if p.List[4].Head() != "plugin" || p.List[5].Head() != "calls" || p.List[6].Head() != "order" {
		return nil, false
	}
	s.steps = p.List[4].List[1:]
	for _, c := range p.List[5].List[1:] {
		if c.Head() != "call" || len(c.List) != 7 {
			return nil, false
		}
		s.calls = append(s.calls, c05Call{run: c.List[1].Str, step: c.List[2].Str, tok: c.List[3].Int(), input: c.List[4],
			retID: c.List[5].List[1].Str, retRaw: c.List[5].List[2], expect: c.List[6]})
	}
	for _, n := range p.List[6].List[1:] {
		i := int(n.Int())
		if i < 0 || i >= len(s.calls) {
			return nil, false
		}
		s.order = append(s.order, i)
	}
	return s, len(s.calls) > 0
}

// ---------------------------------------------------------------------------------------
// the plugin: real schemas from the descriptors; handlers return the scripted output of the token
// ---------------------------------------------------------------------------------------

type c05Entry struct {
	outID string
	out   any
	gate  chan struct{}
	hits  int32
	once  sync.Once
}

func (e *c05Entry) release() {
	if e.gate != nil {
		e.once.Do(func() { close(e.gate) })
	}
}

type c05Table struct{ m map[int64]*c05Entry }

func (t *c05Table) releaseAll() {
	for _, e := range t.m {
		e.release()
	}
}

func c05BuildPlugin(steps []*sx.Node, calls []c05Call, gated bool) (*schema.CallableSchema, *c05Table) {
	tab := &c05Table{m: map[int64]*c05Entry{}}
	handler := func(_ context.Context, input any) (string, any) {
		m, _ := input.(map[string]any)
		tok, _ := m["tok"].(int64)
		e := tab.m[tok]
		if e == nil {
			return "no-scripted-output-for-this-token", nil
		}
		atomic.AddInt32(&e.hits, 1)
		if e.gate != nil {
			<-e.gate
		}
		return e.outID, e.out
	}
	outSchemas := map[string]map[string]*schema.StepOutputSchema{}
	var cs []schema.CallableStep
	for _, st := range steps {
		id := st.List[1].Str
		in := buildScope(st.List[2])
		outs := map[string]*schema.StepOutputSchema{}
		for _, o := range st.List[3].List[1:] {
			outs[o.List[0].Str] = schema.NewStepOutputSchema(buildScope(o.List[1]), nil, o.List[2].Atom == "1")
		}
		outSchemas[id] = outs
		cs = append(cs, schema.NewCallableStep[any](id, in, outs, nil, handler))
	}
	for _, c := range calls {
		e := &c05Entry{outID: c.retID}
		raw := valFromSx(c.retRaw)
		e.out = raw
		if o, ok := outSchemas[c.step][c.retID]; ok {
			func() {
				defer func() { _ = recover() }()
				if native, err := o.Schema().Unserialize(valFromSx(c.retRaw)); err == nil {
					e.out = native
				}
			}()
		}
		if gated {
			e.gate = make(chan struct{})
		}
		tab.m[c.tok] = e
	}
	return schema.NewCallableSchema(cs...), tab
}

// c05CallInProc: the reference semantics of one call.
func c05CallInProc(plugin *schema.CallableSchema, c c05Call) (outID string, data any, failed bool, panicked bool) {
	defer func() {
		if r := recover(); r != nil {
			failed, panicked = true, true
		}
	}()
	o, d, err := plugin.CallStep(context.Background(), c.run, c.step, valFromSx(c.input))
	if err != nil {
		return "", nil, true, false
	}
	return o, d, false, false
}

// ---------------------------------------------------------------------------------------
// transports
// ---------------------------------------------------------------------------------------

type c05Frag struct {
	sizes []int
	cur   int64
}

func (f *c05Frag) next() int {
	i := atomic.AddInt64(&f.cur, 1)
	return f.sizes[int(i%int64(len(f.sizes)))]
}

type c05FragW struct {
	w io.WriteCloser
	f *c05Frag
}

func (x c05FragW) Write(b []byte) (int, error) {
	total := 0
	for len(b) > 0 {
		n := x.f.next()
		if n > len(b) {
			n = len(b)
		}
		k, err := x.w.Write(b[:n])
		total += k
		if err != nil {
			return total, err
		}
		b = b[n:]
		runtime.Gosched() // another writer of the same stream gets its chance between two chunks
	}
	return total, nil
}
func (x c05FragW) Close() error { return x.w.Close() }

type c05FragR struct {
	r io.ReadCloser
	f *c05Frag
}

func (x c05FragR) Read(b []byte) (int, error) {
	if n := x.f.next(); n < len(b) {
		b = b[:n]
	}
	return x.r.Read(b)
}
func (x c05FragR) Close() error { return x.r.Close() }

// c05Duplex: two byte streams; the client reads what the server writes and vice versa.
type c05Duplex struct {
	cliR, srvR io.ReadCloser
	cliW, srvW io.WriteCloser
	hold       *c05HoldR // non-nil: the client's reads can be held back (mode `overlap held`)
}

// c05HoldR: a reader that can be stopped: while held, Read blocks before it touches the underlying stream, so nothing
// is taken off an unbuffered pipe and the writer (the server) feels the back-pressure of a consumer that does not read.
type c05HoldR struct {
	r    io.ReadCloser
	mu   sync.Mutex
	cond *sync.Cond
	held bool
}

func c05NewHoldR(r io.ReadCloser) *c05HoldR {
	h := &c05HoldR{r: r}
	h.cond = sync.NewCond(&h.mu)
	return h
}
func (h *c05HoldR) set(v bool) {
	h.mu.Lock()
	h.held = v
	h.mu.Unlock()
	h.cond.Broadcast()
}
func (h *c05HoldR) Read(b []byte) (int, error) {
	h.mu.Lock()
	for h.held {
		h.cond.Wait()
	}
	h.mu.Unlock()
	return h.r.Read(b)
}
func (h *c05HoldR) Close() error {
	h.set(false)
	return h.r.Close()
}

func c05OneWay(base string, sizes []int, shift int) (io.ReadCloser, io.WriteCloser) {
	var r io.ReadCloser
	var w io.WriteCloser
	if base == "buf" {
		p := newBufPipe()
		r, w = bufPipeReader{p}, bufPipeWriter{p}
	} else {
		r, w = io.Pipe()
	}
	if len(sizes) > 0 {
		r = c05FragR{r, &c05Frag{sizes: sizes, cur: int64(shift)}}
		w = c05FragW{w, &c05Frag{sizes: sizes, cur: int64(shift + 1)}}
	}
	return r, w
}

func c05NewDuplex(s *c05Session) *c05Duplex {
	d := &c05Duplex{}
	d.srvR, d.cliW = c05OneWay(s.base, s.sizes, 0)
	d.cliR, d.srvW = c05OneWay(s.base, s.sizes, 2)
	if s.held {
		d.hold = c05NewHoldR(d.cliR)
		d.cliR = d.hold
	}
	return d
}
func (d *c05Duplex) closeAll() {
	if d.hold != nil {
		d.hold.set(false)
	}
	_ = d.cliW.Close()
	_ = d.srvW.Close()
	_ = d.cliR.Close()
	_ = d.srvR.Close()
}

type c05Chan struct{ d *c05Duplex }

func (c c05Chan) Read(b []byte) (int, error)  { return c.d.cliR.Read(b) }
func (c c05Chan) Write(b []byte) (int, error) { return c.d.cliW.Write(b) }
func (c c05Chan) Close() error {
	_ = c.d.cliW.Close()
	return c.d.cliR.Close()
}

// ---------------------------------------------------------------------------------------
// the scripted version-1 server: start -> hello{version 1}; per bare work-start one bare work-done
// (no run id anywhere); a failing step ends the session, as the legacy server did
// ---------------------------------------------------------------------------------------

func c05V1Server(ctx context.Context, stdin io.ReadCloser, stdout io.WriteCloser, plugin *schema.CallableSchema) int {
	dec := cbor.NewDecoder(stdin)
	enc := cbor.NewEncoder(stdout)
	var start any
	if err := dec.Decode(&start); err != nil {
		return 1
	}
	ser, err := plugin.SelfSerialize()
	if err != nil {
		return 1
	}
	if err := enc.Encode(atp.HelloMessage{Version: 1, Schema: ser}); err != nil {
		return 1
	}
	var mu sync.Mutex
	var wg sync.WaitGroup
	nerr, dead, n := 0, false, 0
	for {
		var ws atp.WorkStartMessage
		if err := dec.Decode(&ws); err != nil {
			break
		}
		n++
		runID := fmt.Sprintf("v1-%d", n)
		wg.Add(1)
		go func() {
			defer wg.Done()
			var outID string
			var data any
			var err error
			func() {
				defer func() {
					if r := recover(); r != nil {
						err = fmt.Errorf("panic")
					}
				}()
				outID, data, err = plugin.CallStep(ctx, runID, ws.StepID, ws.Config)
			}()
			mu.Lock()
			defer mu.Unlock()
			if err != nil {
				nerr++
				if !dead {
					dead = true
					_ = stdout.Close()
					_ = stdin.Close()
				}
				return
			}
			if dead {
				return
			}
			_ = enc.Encode(atp.WorkDoneMessage{StepID: ws.StepID, OutputID: outID, OutputData: data})
		}()
	}
	wg.Wait()
	return nerr
}

// ---------------------------------------------------------------------------------------
// waiting: done, or a deadlock (every other goroutine blocked in the runtime), or the backstop
// ---------------------------------------------------------------------------------------

const c05Backstop = 10 * time.Second

func c05Await(done func() bool) bool {
	deadline := time.Now().Add(c05Backstop)
	seen := 0
	d := 20 * time.Microsecond
	for {
		if done() {
			return true
		}
		runtime.Gosched()
		if ok, _ := allBlocked(); ok {
			seen++
			if seen >= 3 {
				return done() // nothing can move any more
			}
		} else {
			seen = 0
		}
		if time.Now().After(deadline) {
			return done()
		}
		time.Sleep(d)
		if d < time.Millisecond {
			d *= 2
		}
	}
}

// ---------------------------------------------------------------------------------------
// the runner
// ---------------------------------------------------------------------------------------

type c05Res struct {
	kind  string // ok | err | panic | hang
	outID string
	data  any
}

func c05ResSx(r c05Res) *sx.Node {
	if r.kind == "ok" {
		return sx.L(sx.A("atp"), sx.A("ok"), sx.S(r.outID), valSx(r.data))
	}
	return sx.L(sx.A("atp"), sx.A(r.kind))
}

// c05RunOnce runs the session once; hang = some Execute, Close or the server did not come back.
func c05RunOnce(s *c05Session) (results []c05Res, hits []int, server string, hang bool) {
	plugin, tab := c05BuildPlugin(s.steps, s.calls, s.overlap)
	d := c05NewDuplex(s)
	ctx, cancel := context.WithCancel(context.Background())
	n := len(s.calls)
	results = make([]c05Res, n)
	for i := range results {
		results[i] = c05Res{kind: "hang"}
	}
	server = "hang"
	srvCh := make(chan int, 1)
	go func() {
		defer func() {
			if r := recover(); r != nil {
				srvCh <- -1
			}
		}()
		if s.proto == "v3" {
			srvCh <- len(atp.RunATPServer(ctx, d.srvR, d.srvW, plugin))
		} else {
			srvCh <- c05V1Server(ctx, d.srvR, d.srvW, plugin)
		}
	}()
	srvDone := false
	srvN := 0
	pollSrv := func() bool {
		if srvDone {
			return true
		}
		select {
		case srvN = <-srvCh:
			srvDone = true
		default:
		}
		return srvDone
	}
	defer func() {
		// tear everything down: later cases of this worker must not be disturbed
		tab.releaseAll()
		cancel()
		d.closeAll()
		c05Await(pollSrv)
		hits = make([]int, n)
		for i, c := range s.calls {
			if e := tab.m[c.tok]; e != nil {
				hits[i] = int(atomic.LoadInt32(&e.hits))
			}
		}
	}()

	cli := atp.NewClientWithLogger(c05Chan{d}, nil)
	schemaCh := make(chan string, 1)
	go func() {
		defer func() {
			if r := recover(); r != nil {
				schemaCh <- "schema-panic"
			}
		}()
		if _, err := cli.ReadSchema(); err != nil {
			schemaCh <- "schema-fail"
		} else {
			schemaCh <- ""
		}
	}()
	schemaRes := "schema-hang"
	got := false
	c05Await(func() bool {
		if !got {
			select {
			case schemaRes = <-schemaCh:
				got = true
			default:
			}
		}
		return got
	})
	if schemaRes != "" {
		server = schemaRes
		return results, nil, server, schemaRes == "schema-hang"
	}

	chs := make([]chan c05Res, n)
	have := make([]bool, n)
	exec := func(i int) {
		c := s.calls[i]
		defer func() {
			if r := recover(); r != nil {
				chs[i] <- c05Res{kind: "panic"}
			}
		}()
		res := cli.Execute(schema.Input{RunID: c.run, ID: c.step, InputData: valFromSx(c.input)}, nil, nil)
		if res.Error != nil {
			chs[i] <- c05Res{kind: "err"}
			return
		}
		chs[i] <- c05Res{kind: "ok", outID: res.OutputID, data: res.OutputData}
	}
	poll := func(i int) bool {
		if !have[i] {
			select {
			case results[i] = <-chs[i]:
				have[i] = true
			default:
			}
		}
		return have[i]
	}
	for i := range chs {
		chs[i] = make(chan c05Res, 1)
	}
	if !s.overlap {
		for i := 0; i < n; i++ {
			go exec(i)
			if !c05Await(func() bool { return poll(i) }) {
				return results, nil, server, true
			}
		}
	} else {
		if s.held {
			d.hold.set(true) // from now on nobody reads what the server writes
		}
		for i := 0; i < n; i++ {
			go exec(i)
			if s.paced {
				waitQuiescent()
			}
		}
		if s.held {
			// every work start has been written and handled as far as it can be without the client reading: rejected
			// inputs have failed, their error reports are queued behind the one the server is trying to write
			waitQuiescent()
			d.hold.set(false)
		}
		for _, j := range s.order {
			tab.m[s.calls[j].tok].release()
			if s.paced {
				waitQuiescent()
			}
		}
		tab.releaseAll()
		all := func() bool {
			ok := true
			for i := 0; i < n; i++ {
				if !poll(i) {
					ok = false
				}
			}
			return ok
		}
		if !c05Await(all) {
			return results, nil, server, true
		}
	}
	// the session ends: Close, (v1: end of input), the server returns
	closeCh := make(chan bool, 1)
	go func() {
		defer func() {
			if r := recover(); r != nil {
				closeCh <- false
			}
		}()
		_ = cli.Close()
		closeCh <- true
	}()
	closed := false
	if !c05Await(func() bool {
		if !closed {
			select {
			case <-closeCh:
				closed = true
			default:
			}
		}
		return closed
	}) {
		return results, nil, server, true
	}
	if s.proto == "v1" {
		_ = d.cliW.Close()
	}
	if !c05Await(pollSrv) {
		return results, nil, server, true
	}
	if srvN < 0 {
		server = "panic"
	} else {
		server = fmt.Sprintf("returned %d", srvN)
	}
	return results, nil, server, false
}

func c05CborEq(a, b any) bool {
	x, err1 := cborRoundTrip(a)
	y, err2 := cborRoundTrip(b)
	if err1 != nil || err2 != nil {
		return false
	}
	return valSx(x).String() == valSx(y).String()
}

// c05InprocAgrees: CallStep in-process NOW gives what the case recorded.
func c05InprocAgrees(s *c05Session) []bool {
	out := make([]bool, len(s.calls))
	func() {
		defer func() { _ = recover() }()
		plugin, tab := c05BuildPlugin(s.steps, s.calls, false)
		for i, c := range s.calls {
			outID, data, failed, panicked := c05CallInProc(plugin, c)
			h := int64(atomic.LoadInt32(&tab.m[c.tok].hits))
			switch {
			case panicked:
			case c.expect.List[1].IsAtom("err"):
				out[i] = failed && h == c.expect.List[2].Int()
			default:
				out[i] = !failed && outID == c.expect.List[2].Str && h == 1 && c05CborEq(data, valFromSx(c.expect.List[3]))
			}
		}
	}()
	return out
}

func runTransparent(p *sx.Node) *sx.Node {
	s, ok := c05Parse(p)
	if !ok {
		return sx.L(sx.A("bad"), sx.S("c05transparent case"))
	}
	agrees := c05InprocAgrees(s)
	var results []c05Res
	var hits []int
	var server string
	for attempt := 0; ; attempt++ {
		var hang bool
		results, hits, server, hang = c05RunOnce(s)
		// D20 (client read-loop hand-over window, timing dependent) must not raise a false alarm here:
		// a v3 session that hangs is re-run; `hang` is reported only when every attempt hangs.
		if !hang || s.proto != "v3" || attempt >= 3 {
			if attempt > 0 {
				fmt.Fprintf(os.Stderr, "(retries %d %s)\n", attempt, map[bool]string{true: "still-hangs", false: "recovered"}[hang])
			}
			break
		}
	}
	out := sx.L(sx.A("r"))
	for i, c := range s.calls {
		h := 0
		if i < len(hits) {
			h = hits[i]
		}
		out.Append(sx.L(sx.A("call"), sx.S(c.run), c05ResSx(results[i]), sx.L(sx.A("h"), sx.I(int64(h))),
			sx.L(sx.A("inproc-agrees"), sx.B(agrees[i]))))
	}
	srv := sx.L(sx.A("server"))
	var a, b string
	if n, _ := fmt.Sscanf(server, "%s %s", &a, &b); n == 2 {
		srv.Append(sx.A(a), sx.A(b))
	} else {
		srv.Append(sx.A(server))
	}
	return out.Append(srv)
}

// ---------------------------------------------------------------------------------------
// the generator
// ---------------------------------------------------------------------------------------

// c05AddTok: the root object of an input scope gets the required integer property "tok".
func c05AddTok(scope *sx.Node) *sx.Node {
	root := scope.List[2].Str
	objs := sx.L()
	for _, o := range scope.List[1].List {
		if o.List[0].Str != root {
			objs.Append(o)
			continue
		}
		obj := o.List[1]
		props := sx.L()
		for _, p := range obj.List[3].List {
			if p.List[0].Str != "tok" {
				props.Append(p)
			}
		}
		props.Append(propD{name: "tok", t: dInt(nil, nil, nil), required: true}.sx())
		objs.Append(sx.L(o.List[0], sx.L(obj.List[0], obj.List[1], obj.List[2], props)))
	}
	return sx.L(scope.List[0], objs, scope.List[2])
}

// c05SetTok: the top-level "tok" entry of a raw input is the call's token.
func c05SetTok(v *sx.Node, tok int64) *sx.Node {
	if v.Head() != "m" || v.List[2].Atom == "1" {
		return vM(tAnyMap, vS("tok"), vI("i64", tok))
	}
	out := sx.L(v.List[0], v.List[1], v.List[2])
	for _, e := range v.List[3:] {
		if e.List[0].Head() == "s" && e.List[0].List[2].Str == "tok" {
			continue
		}
		out.Append(e)
	}
	return out.Append(sx.L(vS("tok"), vI("i64", tok)))
}

func c05RootProps(scope *sx.Node) int {
	for _, o := range scope.List[1].List {
		if o.List[0].Str == scope.List[2].Str {
			return len(o.List[1].List[3].List)
		}
	}
	return 0
}

func c05KeyIdentity(k *sx.Node) (string, bool) {
	if !k.IsList() {
		return "nil", k.IsAtom("nil")
	}
	switch k.Head() {
	case "i":
		return "i:" + k.List[2].Atom, true
	case "s":
		return "s:" + k.List[2].Str, true
	case "b":
		return "b:" + k.List[2].Atom, true
	case "f":
		return fmt.Sprintf("f:%x", math.Float64bits(flFromSx(k.List[2]))), true
	}
	return "", false
}

// c05Decodable: the class of Properties/C05.v (what a CBOR / JSON / YAML decoder into `any` produces), with
// non-nil containers and keys that stay pairwise distinct on the wire.
func c05Decodable(v *sx.Node) bool {
	if !v.IsList() {
		return v.IsAtom("nil")
	}
	atomType := func(n *sx.Node, allowed ...string) bool {
		if n.IsList() || n.IsStr {
			return false
		}
		for _, a := range allowed {
			if n.Atom == a {
				return true
			}
		}
		return false
	}
	switch v.Head() {
	case "b":
		return atomType(v.List[1], "bool")
	case "i":
		return atomType(v.List[1], intKinds...)
	case "f":
		return atomType(v.List[1], "f32", "f64")
	case "s":
		return atomType(v.List[1], "str")
	case "sl":
		if v.List[1].String() != tAnySlice.String() || v.List[2].Atom != "0" {
			return false
		}
		for _, it := range v.List[3:] {
			if !c05Decodable(it) {
				return false
			}
		}
		return true
	case "m":
		ts := v.List[1].String()
		if (ts != tAnyMap.String() && ts != tStrMap.String()) || v.List[2].Atom != "0" {
			return false
		}
		seen := map[string]bool{}
		for _, e := range v.List[3:] {
			id, ok := c05KeyIdentity(e.List[0])
			if !ok || seen[id] || !c05Decodable(e.List[0]) || !c05Decodable(e.List[1]) {
				return false
			}
			if ts == tStrMap.String() && e.List[0].Head() != "s" {
				return false
			}
			seen[id] = true
		}
		return true
	}
	return false
}

func c05Try(f func()) (ok bool) {
	defer func() {
		if r := recover(); r != nil {
			ok = false
		}
	}()
	f()
	return true
}

func c05StepSx(id string, in *sx.Node, outs ...*sx.Node) *sx.Node {
	o := sx.L(sx.A("outs"))
	o.Append(outs...)
	return sx.L(sx.A("step"), sx.S(id), in, o)
}
func c05OutSx(id string, scope *sx.Node, isErr bool) *sx.Node {
	return sx.L(sx.S(id), scope, sx.B(isErr))
}

// c05PluginUsable: the schema can be built, serialized, carried by CBOR and read back by the client.
func c05PluginUsable(steps []*sx.Node) bool {
	good := false
	ok := c05Try(func() {
		plugin, _ := c05BuildPlugin(steps, nil, false)
		ser, err := plugin.SelfSerialize()
		if err != nil {
			return
		}
		rt, err := cborRoundTrip(ser)
		if err != nil {
			return
		}
		if _, err := schema.UnserializeSchema(rt); err != nil {
			return
		}
		good = true
	})
	return ok && good
}

func c05GenStep(r *Rng, id string) *sx.Node {
	for try := 0; try < 8; try++ {
		depth := 1 + r.Intn(2)
		var in *sx.Node
		var outs []*sx.Node
		ok := c05Try(func() {
			in = c05AddTok((&sgen{r: r}).scope(depth))
			outs = append(outs, c05OutSx("success", (&sgen{r: r}).scope(1+r.Intn(2)), false))
			if r.Bool() {
				outs = append(outs, c05OutSx("error", (&sgen{r: r}).scope(1), true))
			}
		})
		if !ok {
			continue
		}
		st := c05StepSx(id, in, outs...)
		if c05PluginUsable([]*sx.Node{st}) {
			return st
		}
	}
	return c05SimpleStep(id)
}

// c05SimpleStep: in {tok int, a string (optional), n list[int]}; out success {v int, s string}; error {msg string}
func c05SimpleStep(id string) *sx.Node {
	in := dScope("In", dObject("In", false,
		propD{name: "a", t: dString(nil, nil, nil)},
		propD{name: "n", t: dList(dInt(ip(0), ip(100), nil), nil, ip(4))},
		propD{name: "tok", t: dInt(nil, nil, nil), required: true}))
	okOut := dScope("Out", dObject("Out", false,
		propD{name: "v", t: dInt(nil, nil, nil), required: true},
		propD{name: "s", t: dString(nil, nil, nil)}))
	errOut := dScope("Err", dObject("Err", false, propD{name: "msg", t: dString(nil, nil, nil), required: true}))
	return c05StepSx(id, in, c05OutSx("success", okOut, false), c05OutSx("error", errOut, true))
}

func c05CallSx(c c05Call) *sx.Node {
	return sx.L(sx.A("call"), sx.S(c.run), sx.S(c.step), sx.I(c.tok), c.input, sx.L(sx.A("ret"), sx.S(c.retID), c.retRaw), c.expect)
}

func c05SessionSx(proto string, mode, transport *sx.Node, steps []*sx.Node, calls []c05Call, order []int) *sx.Node {
	pl := sx.L(sx.A("plugin"))
	pl.Append(steps...)
	cl := sx.L(sx.A("calls"))
	for _, c := range calls {
		cl.Append(c05CallSx(c))
	}
	ol := sx.L(sx.A("order"))
	for _, i := range order {
		ol.Append(sx.I(int64(i)))
	}
	return sx.L(sx.A("session"), sx.A(proto), mode, transport, pl, cl, ol)
}

// c05Expect records the in-process reference of every call (a fresh plugin, the calls in order).
func c05Expect(steps []*sx.Node, calls []c05Call) bool {
	good := true
	ok := c05Try(func() {
		plugin, tab := c05BuildPlugin(steps, calls, false)
		for i := range calls {
			outID, data, failed, panicked := c05CallInProc(plugin, calls[i])
			if panicked {
				good = false
				return
			}
			if failed {
				calls[i].expect = sx.L(sx.A("expect"), sx.A("err"), sx.I(int64(atomic.LoadInt32(&tab.m[calls[i].tok].hits))))
			} else {
				calls[i].expect = sx.L(sx.A("expect"), sx.A("ok"), sx.S(outID), valSx(data))
			}
		}
	})
	return ok && good
}

func c05StepByID(steps []*sx.Node, id string) *sx.Node {
	for _, s := range steps {
		if s.List[1].Str == id {
			return s
		}
	}
	return nil
}

var c05RunNames = []string{"r0", "r1", "r2", "r3", "run-a", "run/b", "00000000-0000-0000-0000-000000000001", "x"}

// c05GenCall: an input generated FROM the step's input schema (sometimes mutated so that the schema rejects
// it), the output the handler will return generated from the chosen output schema.
func c05GenCall(r *Rng, steps []*sx.Node, i int, wantAccept bool) c05Call {
	c := c05Call{tok: int64(i + 1), run: fmt.Sprintf("r%d", i)}
	if i < len(c05RunNames) {
		c.run = c05RunNames[i]
	}
	if r.Chance(30) {
		c.run = fmt.Sprintf("%s-%d", pick(r, c05RunNames), i)
	}
	st := pick(r, steps)
	c.step = st.List[1].Str
	inScope := st.List[2]
	for try := 0; try < 6; try++ {
		v := rawFor(r, inScope, scopeTable(inScope), 3)
		if !wantAccept && r.Chance(70) {
			// the token of a call is never another call's: a map always carries this call's token; a value
			// that is not a map is kept only where the root object cannot take it as its single property
			m := mutate(r, v)
			if m.Head() == "m" || c05RootProps(inScope) < 2 {
				m = c05SetTok(m, c.tok)
			}
			if c05Decodable(m) {
				c.input = m
				break
			}
		}
		v = c05SetTok(v, c.tok)
		if c05Decodable(v) {
			c.input = v
			break
		}
	}
	if c.input == nil {
		c.input = vM(tAnyMap, vS("tok"), vI("i64", c.tok))
	}
	if !wantAccept && r.Chance(12) {
		c.step = "nosuchstep"
	}
	outs := st.List[3].List[1:]
	o := pick(r, outs)
	c.retID = o.List[0].Str
	c.retRaw = rawFor(r, o.List[1], scopeTable(o.List[1]), 3)
	if r.Chance(4) {
		c.retID = "undeclared"
	} else if r.Chance(4) {
		c.retRaw = mutate(r, c.retRaw)
	}
	if !c05Try(func() { _ = valFromSx(c.retRaw) }) {
		c.retRaw = vM(tAnyMap)
	}
	return c
}

func c05Transport(r *Rng) *sx.Node {
	switch r.Intn(10) {
	case 0, 1, 2:
		return sx.A("pipe")
	case 3, 4:
		return sx.A("buf")
	}
	base := "pipe"
	if r.Bool() {
		base = "buf"
	}
	max := pick(r, []int{1, 2, 3, 7, 16, 64, 500})
	sizes := sx.L()
	for i, n := 0, 2+r.Intn(6); i < n; i++ {
		sizes.Append(sx.I(int64(1 + r.Intn(max))))
	}
	return sx.L(sx.A("frag"), sx.A(base), sizes)
}

func c05Order(r *Rng, n int, overlap bool) []int {
	o := make([]int, n)
	for i := range o {
		o[i] = i
	}
	if !overlap {
		return o
	}
	for i := n - 1; i > 0; i-- {
		j := r.Intn(i + 1)
		o[i], o[j] = o[j], o[i]
	}
	same := true
	for i := range o {
		if o[i] != i {
			same = false
		}
	}
	if same && n > 1 { // the order of completion differs from the order of issue
		for i := range o {
			o[i] = n - 1 - i
		}
	}
	return o
}

func c05GenSession(r *Rng) *sx.Node {
	for {
		nSteps := 1 + r.Intn(3)
		var steps []*sx.Node
		for i := 0; i < nSteps; i++ {
			if r.Chance(12) {
				steps = append(steps, c05SimpleStep(fmt.Sprintf("s%d", i)))
			} else {
				steps = append(steps, c05GenStep(r, fmt.Sprintf("s%d", i)))
			}
		}
		if !c05PluginUsable(steps) {
			continue
		}
		nCalls := 1 + r.Intn(4)
		var calls []c05Call
		for i := 0; i < nCalls; i++ {
			calls = append(calls, c05GenCall(r, steps, i, r.Chance(72)))
		}
		proto := "v3"
		if r.Chance(30) {
			proto = "v1"
		}
		mode := sx.A("serial")
		overlap := r.Chance(60)
		if overlap {
			mode = sx.L(sx.A("overlap"), sx.A(pick(r, []string{"paced", "burst"})))
		} else if nCalls > 1 && r.Chance(45) {
			// one call after the other: a later call may carry the run id of an earlier one, which has returned - with
			// its result or with an error - by then; that is an ordinary call (the in-process reference below is
			// recorded with the same run ids)
			for i := 1; i < nCalls; i++ {
				if r.Chance(60) {
					calls[i].run = calls[r.Intn(i)].run
				}
			}
		}
		if !c05Expect(steps, calls) {
			continue
		}
		return c05SessionSx(proto, mode, c05Transport(r), steps, calls, c05Order(r, nCalls, overlap))
	}
}

// c05GenHeldSession: MANY overlapping calls (6..12), most of them with an input the step's schema rejects, issued in a
// burst over protocol 3 while the client's side does not read the server's output (an unbuffered pipe: the server's
// writes block): every failure has to be reported, however many queue up behind a blocked writer.
func c05GenHeldSession(r *Rng) *sx.Node {
	for {
		nSteps := 1 + r.Intn(2)
		var steps []*sx.Node
		for i := 0; i < nSteps; i++ {
			if r.Chance(40) {
				steps = append(steps, c05SimpleStep(fmt.Sprintf("s%d", i)))
			} else {
				steps = append(steps, c05GenStep(r, fmt.Sprintf("s%d", i)))
			}
		}
		if !c05PluginUsable(steps) {
			continue
		}
		nCalls := 6 + r.Intn(7)
		var calls []c05Call
		for i := 0; i < nCalls; i++ {
			calls = append(calls, c05GenCall(r, steps, i, r.Chance(30)))
		}
		if !c05Expect(steps, calls) {
			continue
		}
		transport := sx.A("pipe")
		if r.Chance(35) {
			sizes := sx.L()
			for i, n := 0, 2+r.Intn(4); i < n; i++ {
				sizes.Append(sx.I(int64(8 + r.Intn(120))))
			}
			transport = sx.L(sx.A("frag"), sx.A("pipe"), sizes)
		}
		return c05SessionSx("v3", sx.L(sx.A("overlap"), sx.A("held")), transport, steps, calls, c05Order(r, nCalls, true))
	}
}

// c05D26Replay: two overlapping calls over the version-1 framing, answered in the reverse order of issue.
func c05D26Replay(transport *sx.Node) *sx.Node {
	steps := []*sx.Node{c05SimpleStep("s0")}
	mk := func(i int, run, a string, v int64) c05Call {
		return c05Call{run: run, step: "s0", tok: int64(i + 1),
			input:  vM(tAnyMap, vS("a"), vS(a), vS("tok"), vI("i64", int64(i+1))),
			retID:  "success",
			retRaw: vM(tAnyMap, vS("v"), vI("i64", v), vS("s"), vS("output of "+run))}
	}
	calls := []c05Call{mk(0, "first", "x", 1), mk(1, "second", "y", 2)}
	if !c05Expect(steps, calls) {
		panic("c05: the D26 replay cannot be evaluated in-process")
	}
	return c05SessionSx("v1", sx.L(sx.A("overlap"), sx.A("paced")), transport, steps, calls, []int{1, 0})
}

func genTransparent(r *Rng, tier string, emit func(*sx.Node)) {
	// (0) the deterministic reproduction of D26, then the same session over version 3 (must be correct)
	emit(c05D26Replay(sx.A("pipe")))
	{
		d := c05D26Replay(sx.A("pipe"))
		d.List[1] = sx.A("v3")
		emit(d)
		for _, t := range []*sx.Node{sx.A("buf"), sx.L(sx.A("frag"), sx.A("pipe"), sx.L(sx.I(1))), sx.L(sx.A("frag"), sx.A("buf"), sx.L(sx.I(3), sx.I(1), sx.I(2)))} {
			d := c05D26Replay(t)
			d.List[1] = sx.A("v3")
			emit(d)
		}
	}
	n := 2400
	if tier == "thorough" {
		n = 24000
	}
	for i := 0; i < n; i++ {
		emit(c05GenSession(r))
	}
	nHeld := 70
	if tier == "thorough" {
		nHeld = 700
	}
	for i := 0; i < nHeld; i++ {
		emit(c05GenHeldSession(r))
	}
}

func init() {
	families["c05transparent"] = &Family{Gen: genTransparent, Run: runTransparent}
}
