package main

// C09 — self-description is a fixed point (family c09describe).
//
// case payload:
//   (desc scope  ENV SCOPE  (inputs V...))
//   (desc plugin ENV PLUGIN (inputs V...))
//   PLUGIN ::= (plugin (STEP...))
//   STEP   ::= (step ID SCOPE ((OID SCOPE ODISP ERR)...) ((SID SIGID SCOPE ODISP)...) ((SID SIGID SCOPE ODISP)...) ODISP)
//
// observation (scope):
//   (r D1)                                    when SelfSerialize fails: D1 = err | panic
//   (r (ok VAL) R2 D2 (cbor NORM DC) (yaml NORM DY) (beh (O1 O2)...))
//     R2 = ok | err | panic        UnserializeScope(d1) (+ first use)
//     D2 = same | (diff VAL) | err | panic | -     second SelfSerialize compared with the first
//     NORM = the description after a real CBOR / yaml.v3 round trip (canonical value print)
//     O1/O2 = Unserialize of the input on the original / the rebuilt schema
// observation (plugin): the same with (behs (WHERE (O1 O2)...) ...) for every step input, output and
// signal data schema.

import (
	"fmt"
	"math"
	"os"
	"reflect"
	"sort"

	"go.flow.arcalot.io/pluginsdk/schema"
	"gopkg.in/yaml.v3"
	"verif/harness/sx"
)

func yamlRoundTrip(v any) (any, error) {
	b, err := yaml.Marshal(v)
	if err != nil {
		return nil, err
	}
	var out any
	if err := yaml.Unmarshal(b, &out); err != nil {
		return nil, err
	}
	return out, nil
}

// classSx runs f under recover and reports ok | err | panic.
func classSx(f func() error) (res *sx.Node) {
	defer func() {
		if r := recover(); r != nil {
			res = sx.A("panic")
		}
	}()
	if err := f(); err != nil {
		return sx.A("err")
	}
	return sx.A("ok")
}

// ---- plugin descriptors ----

func buildSignals(n *sx.Node) map[string]*schema.SignalSchema {
	if len(n.List) == 0 {
		return nil
	}
	out := map[string]*schema.SignalSchema{}
	for _, s := range n.List {
		var disp schema.Display
		if d := optDisplay(s.List[3]); d != nil {
			disp = d
		}
		out[s.List[0].Str] = schema.NewSignalSchema(s.List[1].Str, buildScope(s.List[2]), disp)
	}
	return out
}

func buildStep(n *sx.Node) *schema.StepSchema {
	outputs := map[string]*schema.StepOutputSchema{}
	for _, o := range n.List[3].List {
		outputs[o.List[0].Str] = schema.NewStepOutputSchema(buildScope(o.List[1]), optDisplay(o.List[2]), o.List[3].Atom == "1")
	}
	var disp schema.Display
	if d := optDisplay(n.List[6]); d != nil {
		disp = d
	}
	return schema.NewStepSchema(n.List[1].Str, buildScope(n.List[2]), outputs, buildSignals(n.List[4]), buildSignals(n.List[5]), disp)
}

func buildPlugin(n *sx.Node) *schema.SchemaSchema {
	steps := map[string]*schema.StepSchema{}
	for _, s := range n.List[1].List {
		steps[s.List[1].Str] = buildStep(s)
	}
	return schema.NewSchema(steps).(*schema.SchemaSchema)
}

// pluginScopes lists every data schema of a plugin schema in a fixed order with a label.
type labelledScope struct {
	label string
	scope schema.Scope
}

func sortedStrKeys[V any](m map[string]V) []string {
	ks := make([]string, 0, len(m))
	for k := range m {
		ks = append(ks, k)
	}
	sort.Strings(ks)
	return ks
}

func pluginScopes(p *schema.SchemaSchema) []labelledScope {
	var out []labelledScope
	for _, sid := range sortedStrKeys(p.StepsValue) {
		st := p.StepsValue[sid]
		out = append(out, labelledScope{"in:" + sid, st.InputValue})
		for _, oid := range sortedStrKeys(st.OutputsValue) {
			out = append(out, labelledScope{"out:" + sid + ":" + oid, st.OutputsValue[oid].SchemaValue})
		}
		for _, k := range sortedStrKeys(st.SignalHandlersValue) {
			out = append(out, labelledScope{"sh:" + sid + ":" + k, st.SignalHandlersValue[k].DataSchemaValue})
		}
		for _, k := range sortedStrKeys(st.SignalEmittersValue) {
			out = append(out, labelledScope{"se:" + sid + ":" + k, st.SignalEmittersValue[k].DataSchemaValue})
		}
	}
	return out
}

// ---- running ----

type describer interface{ SelfSerialize() (any, error) }

func describeSx(s describer) (res *sx.Node, val any, ok bool) {
	defer func() {
		if r := recover(); r != nil {
			res, ok = sx.A("panic"), false
		}
	}()
	v, err := s.SelfSerialize()
	if err != nil {
		if os.Getenv("VERIF_DEBUG") != "" {
			fmt.Fprintf(os.Stderr, "SelfSerialize: %v\n", err)
		}
		return sx.A("err"), nil, false
	}
	return sx.L(sx.A("ok"), valSx(v)), v, true
}

// againSx: SelfSerialize of a rebuilt schema compared with the first description.
func againSx(s describer, first any) *sx.Node {
	res, v, ok := describeSx(s)
	if !ok {
		return res
	}
	if reflect.DeepEqual(v, first) {
		return sx.A("same")
	}
	return sx.L(sx.A("diff"), valSx(v))
}

func applyExt(envN *sx.Node, apply func(objs map[string]*schema.ObjectSchema, ns string)) {
	for _, ext := range envN.List[1].List[1].List {
		ns := ext.List[0].Str
		scopeN := sx.L(sx.A("scope"), ext.List[1], sx.S(ext.List[1].List[0].List[0].Str))
		apply(buildScope(scopeN).Objects(), ns)
	}
}

func rebuildScope(envN *sx.Node, d any) (s2 *schema.ScopeSchema, class *sx.Node) {
	class = classSx(func() error {
		var err error
		s2, err = schema.UnserializeScope(d)
		if err != nil {
			return err
		}
		applyExt(envN, s2.ApplyNamespace)
		// first use: the link step and the lazily decoded defaults
		s2.GetDefaults()
		return nil
	})
	if class.Atom != "ok" {
		s2 = nil
	}
	return
}

func viaSx(tag string, envN *sx.Node, d1 any, rt func(any) (any, error)) *sx.Node {
	d, err := rt(d1)
	if err != nil {
		return sx.L(sx.A(tag), sx.A("transport-error"), sx.A("-"))
	}
	s, class := rebuildScope(envN, d)
	if s == nil {
		return sx.L(sx.A(tag), valSx(d), class)
	}
	return sx.L(sx.A(tag), valSx(d), againSx(s, d1))
}

func behSx(orig, rebuilt schema.Type, inputs []*sx.Node) *sx.Node {
	beh := sx.L(sx.A("beh"))
	for _, in := range inputs {
		v := valFromSx(in)
		o1, _, _ := obsUnser(orig, v)
		o2, _, _ := obsUnser(rebuilt, v)
		beh.Append(sx.L(o1, o2))
	}
	return beh
}

func runDescribeScope(p *sx.Node) *sx.Node {
	envN, inputs := p.List[2], p.List[4].List[1:]
	var s *schema.ScopeSchema
	built := classSx(func() error {
		s = buildScope(p.List[3])
		applyExt(envN, s.ApplyNamespace)
		return nil
	})
	if s == nil || built.Atom != "ok" {
		return sx.L(sx.A("build-failed"), built)
	}
	d1sx, d1, ok := describeSx(s)
	if !ok {
		return sx.L(sx.A("r"), d1sx)
	}
	res := sx.L(sx.A("r"), d1sx)
	s2, class := rebuildScope(envN, d1)
	res.Append(class)
	if s2 == nil {
		return res
	}
	res.Append(againSx(s2, d1))
	res.Append(viaSx("cbor", envN, d1, cborRoundTrip))
	res.Append(viaSx("yaml", envN, d1, yamlRoundTrip))
	res.Append(behSx(s, s2, inputs))
	return res
}

func rebuildPlugin(envN *sx.Node, d any) (p2 *schema.SchemaSchema, class *sx.Node) {
	class = classSx(func() error {
		var err error
		p2, err = schema.UnserializeSchema(d)
		if err != nil {
			return err
		}
		for _, ls := range pluginScopes(p2) {
			applyExt(envN, ls.scope.ApplyNamespace)
			ls.scope.GetDefaults()
		}
		return nil
	})
	if class.Atom != "ok" {
		p2 = nil
	}
	return
}

func viaPluginSx(tag string, envN *sx.Node, d1 any, rt func(any) (any, error)) *sx.Node {
	d, err := rt(d1)
	if err != nil {
		return sx.L(sx.A(tag), sx.A("transport-error"), sx.A("-"))
	}
	p, class := rebuildPlugin(envN, d)
	if p == nil {
		return sx.L(sx.A(tag), valSx(d), class)
	}
	return sx.L(sx.A(tag), valSx(d), againSx(p, d1))
}

func runDescribePlugin(p *sx.Node) *sx.Node {
	envN, inputs := p.List[2], p.List[4].List[1:]
	var pl *schema.SchemaSchema
	built := classSx(func() error {
		pl = buildPlugin(p.List[3])
		for _, ls := range pluginScopes(pl) {
			applyExt(envN, ls.scope.ApplyNamespace)
		}
		return nil
	})
	if pl == nil || built.Atom != "ok" {
		return sx.L(sx.A("build-failed"), built)
	}
	d1sx, d1, ok := describeSx(pl)
	if !ok {
		return sx.L(sx.A("r"), d1sx)
	}
	res := sx.L(sx.A("r"), d1sx)
	p2, class := rebuildPlugin(envN, d1)
	res.Append(class)
	if p2 == nil {
		return res
	}
	res.Append(againSx(p2, d1))
	res.Append(viaPluginSx("cbor", envN, d1, cborRoundTrip))
	res.Append(viaPluginSx("yaml", envN, d1, yamlRoundTrip))
	// behaviour of every data schema: input i goes to data schema number i mod n
	orig, reb := pluginScopes(pl), pluginScopes(p2)
	behs := sx.L(sx.A("behs"))
	if len(orig) != len(reb) {
		behs.Append(sx.A("shape-differs"))
	} else {
		for i, ls := range orig {
			if ls.label != reb[i].label {
				behs.Append(sx.A("shape-differs"))
				break
			}
			var mine []*sx.Node
			for j, in := range inputs {
				if j%len(orig) == i {
					mine = append(mine, in)
				}
			}
			b := sx.L(sx.S(ls.label))
			b.Append(func() (out []*sx.Node) {
				defer func() {
					if r := recover(); r != nil {
						out = []*sx.Node{sx.A("panic")}
					}
				}()
				return behSx(ls.scope, reb[i].scope, mine).List[1:]
			}()...)
			behs.Append(b)
		}
	}
	res.Append(behs)
	return res
}

func runDescribeCase(p *sx.Node) *sx.Node {
	buildNilProps = true
	defer func() { buildNilProps = false }()
	switch p.List[1].Atom {
	case "scope":
		return runDescribeScope(p)
	case "plugin":
		return runDescribePlugin(p)
	}
	return sx.L(sx.A("bad"), sx.S("kind"))
}

// ---- generation ----

type dgen struct {
	r      *Rng
	objIDs []string // ids of the scope being generated
	extIDs []string // ids available in the external namespace "ext" ("" = none)
	noObj  bool
	quirk  string // "" or one of the not-describable classes being seeded into this schema
	nscope int
}

func dDisp(name, desc, icon *string) *sx.Node {
	return sx.L(sx.A("disp"), dOptS(name), dOptS(desc), dOptS(icon))
}

func (g *dgen) display(p int) *sx.Node {
	r := g.r
	if !r.Chance(p) {
		return none()
	}
	var name, desc, icon *string
	if r.Chance(70) {
		name = sp(pick(r, []string{"Name", "A title", "x", "Näme"}))
	}
	if r.Chance(50) {
		desc = sp(pick(r, []string{"Some description.", "d", "line1\nline2", "yes"}))
	}
	if r.Chance(25) {
		icon = sp("<svg></svg>")
	}
	if g.quirk == "empty-display" && r.Chance(50) {
		name = sp("")
	}
	return dDisp(name, desc, icon)
}

// enumDisplay: the display value of an enum entry. A nil *DisplayValue is accepted by the constructors
// but cannot be described (known-finding class nil-enum-display).
func (g *dgen) enumDisplay() *sx.Node {
	if g.quirk == "nil-enum-display" && g.r.Chance(60) {
		return none()
	}
	d := g.display(100)
	if g.r.Chance(20) {
		d = dDisp(nil, nil, nil)
	}
	return d
}

func c09EnumIntD(vals []int64, disps []*sx.Node, u *unitsD) *sx.Node {
	l := sx.L()
	for i, v := range vals {
		l.Append(sx.L(sx.I(v), disps[i]))
	}
	return sx.L(sx.A("enum_int"), l, dOptU(u))
}
func c09EnumStrD(named *string, vals []string, disps []*sx.Node) *sx.Node {
	l := sx.L()
	for i, v := range vals {
		l.Append(sx.L(sx.S(v), disps[i]))
	}
	return sx.L(sx.A("enum_str"), dOptS(named), l)
}

// c09MetaFragments: character sequences a unit name may carry (the meta-schema puts no constraint on unit names) that
// are special to a regular-expression engine.  The first group is NOT a valid regular expression on its own
// (unbalanced group / class, dangling repetition operator, trailing backslash, unknown escape / class, unterminated
// group name); the second group is valid but means something other than itself.  The unit parser must take every
// name literally, in each of the eight positions (base unit and multiplier; short / long; singular / plural).
var c09MetaFragments = []string{
	"(", ")", "[", "*", "+", "?", "\\", "(?P<", "[a-", "\\p{Xx}", "\\q", "(s)(", "a**", "[]", "(?",
	".", "|", "^", "$", "{", "}", "]", "(s)", "[ab]", "a*", ".+", "\\d", "a|", "^$",
}

// metaUnits: a units definition (base unit and 1-3 multipliers) in which every name has a 50 % chance of carrying one of
// c09MetaFragments at its start, at its end or in the middle (and at least one name of the base unit and of one
// multiplier does, at a position drawn from the four of that unit).  Stems are distinct two-letter
// words, so no name is used twice and no name starts with a digit or ends in white space.
func (g *dgen) metaUnits() unitsD {
	r := g.r
	n := 0
	name := func(force bool) string {
		stem := string([]byte{'q' + byte(n/20), 'a' + byte(n%20)})
		n++
		if !force && r.Bool() {
			return stem
		}
		f := pick(r, c09MetaFragments)
		switch r.Intn(3) {
		case 0:
			return f + stem
		case 1:
			return stem + f
		}
		return stem[:1] + f + stem[1:]
	}
	unit := func(forced int) unitD {
		return unitD{name(forced == 0), name(forced == 1), name(forced == 2), name(forced == 3)}
	}
	d := unitsD{base: unit(r.Intn(4)), mults: map[int64]unitD{}}
	mpool := []int64{2, 10, 60, 1000, 1024, 3600, 1 << 20}
	nm := 1 + r.Intn(3)
	for i := 0; i < nm; i++ {
		forced := -1
		if i == 0 {
			forced = r.Intn(4)
		}
		d.mults[mpool[(r.Intn(3)+3*i)%len(mpool)]] = unit(forced)
	}
	return d
}

func (g *dgen) units() *unitsD {
	r := g.r
	if r.Chance(50) {
		u := unitsFromSDK(pick(r, builtinUnits))
		return &u
	}
	if r.Chance(50) {
		u := g.metaUnits()
		return &u
	}
	u := genUnits(r)
	return &u
}

func (g *dgen) scalar() *sx.Node {
	r := g.r
	switch r.Intn(10) {
	case 0:
		lo, hi := int64(r.Intn(40)-20), int64(r.Intn(60)-10)
		if r.Chance(12) { // the ends of the int64 range: describable, and they must survive every transport (CBOR: uint64)
			lo = pick(r, []int64{math.MinInt64, math.MinInt64 + 1, -(1 << 53), 0})
			hi = pick(r, []int64{math.MaxInt64, math.MaxInt64 - 1, 1 << 53, 1 << 32})
		}
		var u *unitsD
		if r.Chance(25) {
			u = g.units()
		}
		switch r.Intn(4) {
		case 0:
			return dInt(nil, nil, u)
		case 1:
			return dInt(&lo, nil, u)
		case 2:
			return dInt(nil, &hi, u)
		}
		return dInt(&lo, &hi, u)
	case 1:
		lo, hi := float64(r.Intn(20)-10)+0.5, float64(r.Intn(40))+0.25
		var u *unitsD
		if r.Chance(25) {
			u = g.units()
		}
		switch r.Intn(4) {
		case 0:
			return dFloat(nil, nil, u)
		case 1:
			lo = float64(r.Intn(10) - 5) // a whole number: YAML prints it as an integer
			return dFloat(&lo, nil, u)
		case 2:
			hi = float64(r.Intn(3)) * 1e6
			return dFloat(nil, &hi, u)
		}
		return dFloat(&lo, &hi, u)
	case 2:
		if r.Chance(40) {
			return dString(nil, nil, pick(r, c09PatternPool))
		}
		if r.Bool() {
			return dString(nil, nil, nil)
		}
		if r.Chance(10) {
			return dString(ip(int64(r.Intn(3))), ip(pick(r, c09BigSizes)), nil)
		}
		return dString(ip(int64(r.Intn(3))), ip(int64(2+r.Intn(6))), nil)
	case 3:
		return dBool()
	case 4:
		n := 1 + r.Intn(3)
		if g.quirk == "empty-enum" {
			n = 0
		}
		var vals []int64
		var ds []*sx.Node
		for i := 0; i < n; i++ {
			vals = append(vals, int64(i*3-2))
			ds = append(ds, g.enumDisplay())
		}
		if n > 0 && r.Chance(12) {
			vals[n-1] = pick(r, []int64{math.MaxInt64, math.MinInt64, 1 << 53})
		}
		var u *unitsD
		if r.Chance(20) {
			u = g.units()
		}
		return c09EnumIntD(vals, ds, u)
	case 5:
		all := []string{"x", "y", "zed", "true", "12", "a b"}
		n := 1 + r.Intn(4)
		if g.quirk == "empty-enum" {
			n = 0
		}
		var ds []*sx.Node
		for i := 0; i < n; i++ {
			ds = append(ds, g.enumDisplay())
		}
		if g.quirk == "typed-enum" {
			return c09EnumStrD(sp("MyStr"), all[:n], ds)
		}
		return c09EnumStrD(nil, all[:n], ds)
	case 6:
		return dPattern()
	case 7:
		return dAny()
	}
	return dInt(nil, nil, nil)
}

func (g *dgen) keyType() *sx.Node {
	r := g.r
	if g.quirk == "enum-key" {
		if r.Bool() {
			return dEnumStr(nil, []string{"x", "y", "zed"})
		}
		return dEnumInt([]int64{1, 2, 3}, nil)
	}
	switch r.Intn(4) {
	case 0:
		return dInt(nil, nil, nil)
	case 1:
		return dInt(ip(-3), ip(100), nil)
	case 2:
		return dString(nil, nil, pick(r, c09PatternPool))
	}
	return dString(ip(1), nil, nil)
}

func (g *dgen) ref() *sx.Node {
	r := g.r
	if len(g.extIDs) > 0 && r.Chance(35) {
		return sx.L(sx.A("ref"), sx.S(pick(r, g.extIDs)), sx.S("ext"), g.display(30))
	}
	return sx.L(sx.A("ref"), sx.S(pick(r, g.objIDs)), sx.S(""), g.display(30))
}

func (g *dgen) typ(depth int) *sx.Node {
	r := g.r
	if depth <= 0 {
		return g.scalar()
	}
	switch r.Intn(14) {
	case 0, 1:
		if r.Chance(8) {
			return dList(g.typ(depth-1), ip(int64(r.Intn(2))), ip(pick(r, c09BigSizes)))
		}
		return dList(g.typ(depth-1), ip(int64(r.Intn(2))), ip(int64(2+r.Intn(3))))
	case 2:
		return dList(g.typ(depth-1), nil, nil)
	case 3:
		if r.Chance(8) {
			return dMap(g.keyType(), g.typ(depth-1), nil, ip(pick(r, c09BigSizes)))
		}
		return dMap(g.keyType(), g.typ(depth-1), nil, ip(4))
	case 4:
		if g.noObj {
			return g.scalar()
		}
		g.nscope++
		return g.object(fmt.Sprintf("inl%d", g.nscope), depth-1)
	case 5, 6:
		if !g.noObj {
			return g.ref()
		}
	case 7:
		if !g.noObj {
			return g.oneof(depth - 1)
		}
	case 8:
		if !g.noObj && depth >= 2 && r.Chance(50) {
			return g.nested(depth - 1)
		}
	}
	return g.scalar()
}

// nested: a scope used as a property type, with its own object table (lexical scoping).
func (g *dgen) nested(depth int) *sx.Node {
	save := g.objIDs
	g.nscope++
	k := g.nscope
	n := 1 + g.r.Intn(2)
	g.objIDs = nil
	for i := 0; i < n; i++ {
		// one id deliberately shadows an id of the enclosing scope
		if i == 1 && g.r.Bool() {
			g.objIDs = append(g.objIDs, "O0")
		} else {
			g.objIDs = append(g.objIDs, fmt.Sprintf("N%d_%d", k, i))
		}
	}
	var objs []*sx.Node
	for _, id := range g.objIDs {
		objs = append(objs, g.object(id, depth))
	}
	root := g.objIDs[0]
	g.objIDs = save
	return dScope(root, objs...)
}

func (g *dgen) oneof(depth int) *sx.Node {
	r := g.r
	intKeys := r.Bool()
	inlined := r.Chance(35)
	field := pick(r, []string{"kind", "_type", "t"})
	n := 1 + r.Intn(3)
	l := sx.L()
	for i := 0; i < n; i++ {
		var t *sx.Node
		if !inlined && r.Chance(40) {
			t = sx.L(sx.A("ref"), sx.S(pick(r, g.objIDs)), sx.S(""), g.display(30))
		} else if !inlined && r.Chance(25) {
			t = g.nested(depth) // a whole scope as a member (the third admissible member kind)
		} else {
			props := g.props(depth, 1+r.Intn(2), []string{"p", "q", "w"})
			if inlined {
				dt := dString(nil, nil, nil)
				if intKeys {
					dt = dInt(nil, nil, nil)
				}
				props = append(props, dprop{name: field, t: dt, required: r.Bool(), disp: none()})
			}
			g.nscope++
			t = dObjectD(fmt.Sprintf("mem%d", g.nscope), false, props...)
		}
		if intKeys {
			key := int64(i*5 - 1)
			if i == n-1 && r.Chance(10) {
				key = pick(r, []int64{math.MaxInt64, math.MinInt64})
			}
			l.Append(sx.L(sx.I(key), t))
		} else {
			l.Append(sx.L(sx.S(string(rune('A'+i))), t))
		}
	}
	return sx.L(sx.A("oneof"), sx.B(intKeys), l, sx.S(field), sx.B(inlined))
}

type dprop struct {
	name                      string
	t, disp                   *sx.Node
	required                  bool
	requiredIf, requiredIfNot []string
	conflicts, examples       []string
	dflt, reason              *string
	emptyIsDefault, disabled  bool
}

func (p dprop) sx() *sx.Node {
	return sx.L(sx.S(p.name), sx.L(sx.A("prop"), p.t, p.disp, sx.B(p.required), strsSx(p.requiredIf), strsSx(p.requiredIfNot),
		strsSx(p.conflicts), dOptS(p.dflt), strsSx(p.examples), sx.B(p.emptyIsDefault), sx.B(p.disabled), dOptS(p.reason)))
}
func dObjectD(id string, unenforced bool, props ...dprop) *sx.Node {
	l := sx.L()
	for _, p := range props {
		l.Append(p.sx())
	}
	return sx.L(sx.A("object"), sx.S(id), sx.B(unenforced), l)
}

var dPropNames = []string{"a", "b", "c", "d", "e", "name", "n", "xs", "m", "opt", "with space", "UPPER", "k-1"}

func (g *dgen) props(depth, n int, names []string) []dprop {
	r := g.r
	var ps []dprop
	used := map[string]bool{}
	for len(ps) < n {
		nm := pick(r, names)
		if used[nm] {
			continue
		}
		used[nm] = true
		save := g.noObj
		if n == 1 {
			g.noObj = true
		}
		p := dprop{name: nm, t: g.typ(depth), disp: g.display(40)}
		g.noObj = save
		ps = append(ps, p)
	}
	for i := range ps {
		p := &ps[i]
		var others []string
		for j := range ps {
			if j != i {
				others = append(others, ps[j].name)
			}
		}
		switch r.Intn(8) {
		case 0, 1:
			p.required = true
		case 2:
			if len(others) > 0 {
				p.requiredIf = []string{pick(r, others)}
			}
		case 3:
			if len(others) > 0 {
				p.requiredIfNot = []string{pick(r, others)}
				if len(others) > 1 && r.Bool() {
					p.requiredIfNot = append(p.requiredIfNot, others[len(others)-1])
				}
			}
		case 4:
			if len(others) > 0 {
				p.conflicts = []string{pick(r, others)}
			}
		}
		if r.Chance(25) {
			p.dflt = defaultFor(r, p.t)
		}
		if r.Chance(15) {
			p.examples = []string{"1", "\"two\""}[:1+r.Intn(2)]
		}
		if r.Chance(8) {
			p.disabled = true
			if r.Chance(70) {
				p.reason = sp(pick(r, []string{"off", "not available here", ""}))
			}
		}
		if r.Chance(5) {
			p.emptyIsDefault = true
		}
	}
	return ps
}

func (g *dgen) object(id string, depth int) *sx.Node {
	n := g.r.Intn(5)
	if g.r.Chance(10) {
		n = 1
	}
	return dObjectD(id, g.r.Chance(15), g.props(depth, n, dPropNames)...)
}

func (g *dgen) scope(depth int, prefix string) *sx.Node {
	n := 1 + g.r.Intn(4)
	g.objIDs = nil
	for i := 0; i < n; i++ {
		id := fmt.Sprintf("%s%d", prefix, i)
		if g.quirk == "bad-id" && i == n-1 {
			id = pick(g.r, []string{"has space", "", "dotted.id", "é"})
		} else if g.r.Chance(6) {
			id += "_a-long-identifier-with-$-and-@_0123456789" // idType allows 255 bytes
		}
		g.objIDs = append(g.objIDs, id)
	}
	var objs []*sx.Node
	for _, id := range g.objIDs {
		objs = append(objs, g.object(id, depth))
	}
	return dScope(g.objIDs[0], objs...)
}

// extTable generates the object table of the external namespace "ext" (self-contained).
func (g *dgen) extTable(depth int) *sx.Node {
	save, saveExt := g.objIDs, g.extIDs
	g.extIDs = nil
	sc := g.scope(depth, "E")
	ids := g.objIDs
	g.objIDs, g.extIDs = save, saveExt
	_ = ids
	return sc.List[1]
}

func tableIDs(tab *sx.Node) []string {
	var ids []string
	for _, o := range tab.List {
		ids = append(ids, o.List[0].Str)
	}
	return ids
}

// c09PatternPool: the shared pool plus expressions that begin or end with white space (the text of a pattern
// must come back byte for byte).
var c09PatternPool = append(append([]*sx.Node{}, patternPool...),
	rCat(rBol, rPlus(rCls(false, [2]byte{'a', 'z'})), rLit(", ")),   // "^[a-z]+, "
	rCat(rLit(" "), rPlus(rCls(false, [2]byte{'0', '9'}))),          // " [0-9]+"
	rCat(rPlus(rChr(' ')), rEol))                                    // " +$"

// c09BigSizes: size bounds at the ends of what an int64 holds.
var c09BigSizes = []int64{math.MaxInt64, math.MaxInt64 - 1, 1 << 53, 1 << 31}

var c09Quirks = []string{"enum-key", "bad-id", "empty-display", "empty-enum", "nil-enum-display", "typed-enum"}

// genDescScope: one scope (with its env and inputs) per call.
func genDescScope(r *Rng, ninputs int) *sx.Node {
	rawBoundPct = 20
	defer func() { rawBoundPct = 0 }()
	g := &dgen{r: r}
	if r.Chance(8) {
		g.quirk = pick(r, c09Quirks)
	}
	depth := 1 + r.Intn(3)
	var ext *sx.Node
	if r.Chance(30) {
		tab := g.extTable(depth - 1)
		ext = sx.L(sx.L(sx.S("ext"), tab))
		g.extIDs = tableIDs(tab)
	}
	s := g.scope(depth, "O")
	sc := scopeTable(s)
	if ext != nil {
		for _, o := range ext.List[0].List[1].List {
			sc[o.List[0].Str] = o.List[1]
		}
	}
	var ops []*sx.Node
	for j := 0; j < ninputs; j++ {
		v := rawFor(r, s, sc, depth+1)
		if r.Chance(40) {
			v = mutate(r, v)
		}
		ops = append(ops, op("u", v))
	}
	inputs := sx.L(sx.A("inputs"))
	for _, o := range ops {
		inputs.Append(o.List[1])
	}
	return sx.L(sx.A("desc"), sx.A("scope"), mkEnv(ext, s, ops), s, inputs)
}

func (g *dgen) signals(depth int, prefix string) *sx.Node {
	l := sx.L()
	n := g.r.Intn(3)
	for i := 0; i < n; i++ {
		key := fmt.Sprintf("%s%d", prefix, i)
		id := key
		if g.r.Chance(15) {
			id = key + "-id" // the map key and the signal's own id may differ
		}
		l.Append(sx.L(sx.S(key), sx.S(id), g.scope(depth, "S"), g.display(40)))
	}
	return l
}

func genDescPlugin(r *Rng, ninputs int) *sx.Node {
	rawBoundPct = 20
	defer func() { rawBoundPct = 0 }()
	g := &dgen{r: r}
	depth := 1 + r.Intn(2)
	nsteps := 1 + r.Intn(2)
	steps := sx.L()
	var scopes []*sx.Node
	for i := 0; i < nsteps; i++ {
		sid := fmt.Sprintf("step%d", i)
		in := g.scope(depth, "I")
		scopes = append(scopes, in)
		outs := sx.L()
		var outScopes []*sx.Node
		for j, oid := range []string{"success", "error", "other"}[:1+r.Intn(3)] {
			o := g.scope(depth, "R")
			outScopes = append(outScopes, o)
			outs.Append(sx.L(sx.S(oid), o, g.display(40), sx.B(j == 1)))
		}
		sh := g.signals(depth, "h")
		// a step may emit a signal under the very key under which it handles one (two maps of the step description:
		// "signal_handlers" and "signal_emitters"): in a third of the steps the emitters reuse the handlers' keys
		ePrefix := "e"
		if r.Chance(33) {
			ePrefix = "h"
		}
		se := g.signals(depth, ePrefix)
		steps.Append(sx.L(sx.A("step"), sx.S(sid), in, outs, sh, se, g.display(50)))
		scopes = append(scopes, outScopes...)
		for _, s := range sh.List {
			scopes = append(scopes, s.List[2])
		}
		for _, s := range se.List {
			scopes = append(scopes, s.List[2])
		}
	}
	pl := sx.L(sx.A("plugin"), steps)
	// data schemas in the order of pluginScopes (steps sorted; outputs, handlers, emitters sorted by key)
	ordered := orderedPluginScopes(pl)
	var ops []*sx.Node
	for j := 0; j < ninputs; j++ {
		s := ordered[j%len(ordered)]
		v := rawFor(r, s, scopeTable(s), depth+1)
		if r.Chance(40) {
			v = mutate(r, v)
		}
		ops = append(ops, op("u", v))
	}
	inputs := sx.L(sx.A("inputs"))
	for _, o := range ops {
		inputs.Append(o.List[1])
	}
	return sx.L(sx.A("desc"), sx.A("plugin"), mkEnv(nil, pl, ops), pl, inputs)
}

func orderedPluginScopes(pl *sx.Node) []*sx.Node {
	var out []*sx.Node
	steps := append([]*sx.Node(nil), pl.List[1].List...)
	sort.Slice(steps, func(i, j int) bool { return steps[i].List[1].Str < steps[j].List[1].Str })
	byKey := func(l *sx.Node, idx int) []*sx.Node {
		items := append([]*sx.Node(nil), l.List...)
		sort.Slice(items, func(i, j int) bool { return items[i].List[0].Str < items[j].List[0].Str })
		var res []*sx.Node
		for _, it := range items {
			res = append(res, it.List[idx])
		}
		return res
	}
	for _, st := range steps {
		out = append(out, st.List[2])
		out = append(out, byKey(st.List[3], 1)...)
		out = append(out, byKey(st.List[4], 2)...)
		out = append(out, byKey(st.List[5], 2)...)
	}
	return out
}

// c09Fixed: the hand-written witnesses of the defects this property found (run on every tier).
func c09Fixed() []*sx.Node {
	mk := func(s *sx.Node, vals ...*sx.Node) *sx.Node {
		var ops []*sx.Node
		inputs := sx.L(sx.A("inputs"))
		for _, v := range vals {
			ops = append(ops, op("u", v))
			inputs.Append(v)
		}
		return sx.L(sx.A("desc"), sx.A("scope"), mkEnv(nil, s, ops), s, inputs)
	}
	neg := dScope("A", dObjectD("A", false, dprop{name: "n", t: dInt(ip(-5), ip(-1), nil), disp: none()}))
	rec := dScope("A", dObjectD("A", false,
		dprop{name: "next", t: dRef("A", ""), disp: none()},
		dprop{name: "v", t: dInt(nil, nil, nil), disp: none(), required: true}))
	return []*sx.Node{
		mk(neg, vM(tAnyMap, vS("n"), vI("i64", -3)), vM(tAnyMap, vS("n"), vI("i64", 3))),
		mk(rec, vM(tAnyMap, vS("v"), vI("i64", 1), vS("next"), vM(tAnyMap, vS("v"), vI("i64", 2)))),
	}
}

func init() {
	families["c09describe"] = &Family{
		Gen: func(r *Rng, tier string, emit func(*sx.Node)) {
			nscope, nplugin, nin := 330, 70, 8
			if tier == "thorough" {
				nscope, nplugin, nin = 5000, 900, 10
			}
			for _, c := range c09Fixed() {
				emit(c)
			}
			for i := 0; i < nscope; i++ {
				emit(genDescScope(r, nin))
			}
			for i := 0; i < nplugin; i++ {
				emit(genDescPlugin(r, nin+4))
			}
		},
		Run: runDescribeCase,
	}
}
