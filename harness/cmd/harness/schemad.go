package main

import (
	"errors"
	"fmt"
	"regexp"
	"strings"

	"go.flow.arcalot.io/pluginsdk/schema"
	"verif/harness/sx"
)

// Schema descriptors are s-expression trees (DESIGN appendix A); this file builds the real
// SDK schema from a descriptor through the public constructors.

func none() *sx.Node { return sx.A("none") }
func isNone(n *sx.Node) bool { return !n.IsList() && !n.IsStr && n.Atom == "none" }

func optInt(n *sx.Node) *int64 {
	if isNone(n) {
		return nil
	}
	v := n.Int()
	return &v
}
func optFloat(n *sx.Node) *float64 {
	if isNone(n) {
		return nil
	}
	v := flFromSx(n)
	return &v
}
func optStr(n *sx.Node) *string {
	if isNone(n) {
		return nil
	}
	v := n.Str
	return &v
}
func optUnits(n *sx.Node) *schema.UnitsDefinition {
	if isNone(n) {
		return nil
	}
	return unitsFromSx(n).build()
}
func strList(n *sx.Node) []string {
	if len(n.List) == 0 {
		return nil
	}
	var out []string
	for _, x := range n.List {
		out = append(out, x.Str)
	}
	return out
}
func optDisplay(n *sx.Node) *schema.DisplayValue {
	if isNone(n) {
		return nil
	}
	return schema.NewDisplayValue(optStr(n.List[1]), optStr(n.List[2]), optStr(n.List[3]))
}

// reSrc prints a regular-expression AST as Go regexp source.
func reSrc(n *sx.Node) string {
	if !n.IsList() {
		switch n.Atom {
		case "eps":
			return ""
		case "any":
			return "."
		case "bol":
			return "^"
		case "eol":
			return "$"
		}
		panic("bad re")
	}
	switch n.Head() {
	case "chr":
		return regexp.QuoteMeta(string(rune(n.List[1].Int())))
	case "cls":
		var b strings.Builder
		b.WriteString("[")
		if n.List[1].Atom == "1" {
			b.WriteString("^")
		}
		for _, r := range n.List[2].List {
			fmt.Fprintf(&b, "\\x%02x-\\x%02x", r.List[0].Int(), r.List[1].Int())
		}
		b.WriteString("]")
		return b.String()
	case "cat":
		return reSrc(n.List[1]) + reSrc(n.List[2])
	case "alt":
		return "(?:" + reSrc(n.List[1]) + "|" + reSrc(n.List[2]) + ")"
	case "star":
		return "(?:" + reSrc(n.List[1]) + ")*"
	case "grp":
		return "(" + reSrc(n.List[2]) + ")"
	}
	panic("bad re " + n.String())
}

func buildProperty(n *sx.Node) *schema.PropertySchema {
	// (prop S ODISP REQ (..) (..) (..) ODEFAULT (..) EMPTY DIS OREASON)
	var disp schema.Display
	if d := optDisplay(n.List[2]); d != nil {
		disp = d
	}
	p := schema.NewPropertySchema(buildSchema(n.List[1]), disp, n.List[3].Atom == "1",
		strList(n.List[4]), strList(n.List[5]), strList(n.List[6]), optStr(n.List[7]), strList(n.List[8]))
	if n.List[9].Atom == "1" {
		p.TreatEmptyAsDefaultValue()
	}
	if n.List[10].Atom == "1" {
		if r := optStr(n.List[11]); r != nil {
			p.Disable(*r)
		} else {
			p.Disabled = true
		}
	}
	return p
}

// extraSchemaBuilders: descriptor heads added by other families' files (e.g. "xobject").
var extraSchemaBuilders = map[string]func(*sx.Node) schema.Type{}

func buildObject(n *sx.Node) *schema.ObjectSchema {
	if f, ok := extraSchemaBuilders[n.Head()]; ok && n.Head() != "object" {
		return f(n).(*schema.ObjectSchema)
	}
	props := map[string]*schema.PropertySchema{}
	for _, p := range n.List[3].List {
		props[p.List[0].Str] = buildProperty(p.List[1])
	}
	if buildNilProps && len(props) == 0 && len(n.List[1].Str)%2 == 0 {
		props = nil // NewObjectSchema(id, nil): an object without properties need not be given an empty map
	}
	if buildLiteralObjects {
		// not built by a constructor: the exported fields only, the decoded-default cache still empty (the state
		// of an object that came out of a schema description before it was linked)
		return &schema.ObjectSchema{IDValue: n.List[1].Str, PropertiesValue: props, IDUnenforcedValue: n.List[2].Atom == "1"}
	}
	if n.List[2].Atom == "1" {
		return schema.NewUnenforcedIDObjectSchema(n.List[1].Str, props)
	}
	return schema.NewObjectSchema(n.List[1].Str, props)
}

// buildLiteralObjects: map-based objects are built as struct literals instead of through NewObjectSchema
// (set by a runner around one build; the harness worker is single-threaded).
var buildLiteralObjects bool

// buildNilProps: every other object without properties (by the length of its id) gets a nil property map.
var buildNilProps bool

func buildScope(n *sx.Node) *schema.ScopeSchema {
	root := n.List[2].Str
	var rootObj *schema.ObjectSchema
	var others []*schema.ObjectSchema
	for _, o := range n.List[1].List {
		obj := buildObject(o.List[1])
		if o.List[0].Str == root {
			rootObj = obj
		} else {
			others = append(others, obj)
		}
	}
	return schema.NewScopeSchema(rootObj, others...)
}

func buildSchema(n *sx.Node) schema.Type {
	if !n.IsList() {
		switch n.Atom {
		case "bool":
			return schema.NewBoolSchema()
		case "pattern":
			return schema.NewPatternSchema()
		case "any":
			return schema.NewAnySchema()
		}
		panic("bad schema atom " + n.Atom)
	}
	switch n.Head() {
	case "int":
		return schema.NewIntSchema(optInt(n.List[1]), optInt(n.List[2]), optUnits(n.List[3]))
	case "float":
		return schema.NewFloatSchema(optFloat(n.List[1]), optFloat(n.List[2]), optUnits(n.List[3]))
	case "string":
		var re *regexp.Regexp
		if !isNone(n.List[3]) {
			re = regexp.MustCompile(n.List[3].List[1].Str)
		}
		return schema.NewStringSchema(optInt(n.List[1]), optInt(n.List[2]), re)
	case "enum_int":
		vals := map[int64]*schema.DisplayValue{}
		for _, v := range n.List[1].List {
			vals[v.List[0].Int()] = optDisplay(v.List[1])
		}
		return schema.NewIntEnumSchema(vals, optUnits(n.List[2]))
	case "enum_str":
		if isNone(n.List[1]) {
			vals := map[string]*schema.DisplayValue{}
			for _, v := range n.List[2].List {
				vals[v.List[0].Str] = optDisplay(v.List[1])
			}
			return schema.NewStringEnumSchema(vals)
		}
		vals := map[MyStr]*schema.DisplayValue{}
		for _, v := range n.List[2].List {
			vals[MyStr(v.List[0].Str)] = optDisplay(v.List[1])
		}
		return schema.NewTypedStringEnumSchema[MyStr](vals)
	case "list":
		return schema.NewListSchema(buildSchema(n.List[1]), optInt(n.List[2]), optInt(n.List[3]))
	case "map":
		return schema.NewMapSchema(buildSchema(n.List[1]), buildSchema(n.List[2]), optInt(n.List[3]), optInt(n.List[4]))
	case "object":
		return buildObject(n)
	case "oneof":
		field, inlined := n.List[3].Str, n.List[4].Atom == "1"
		if n.List[1].Atom == "1" {
			types := map[int64]schema.Object{}
			for _, t := range n.List[2].List {
				types[t.List[0].Int()] = buildSchema(t.List[1]).(schema.Object)
			}
			return schema.NewOneOfIntSchema[any](types, field, inlined)
		}
		types := map[string]schema.Object{}
		for _, t := range n.List[2].List {
			types[t.List[0].Str] = buildSchema(t.List[1]).(schema.Object)
		}
		return schema.NewOneOfStringSchema[any](types, field, inlined)
	case "ref":
		var disp schema.Display
		if d := optDisplay(n.List[3]); d != nil {
			disp = d
		}
		return schema.NewNamespacedRefSchema(n.List[1].Str, n.List[2].Str, disp)
	case "scope":
		return buildScope(n)
	}
	if f, ok := extraSchemaBuilders[n.Head()]; ok {
		return f(n)
	}
	panic("bad schema " + n.String())
}

// buildWithEnv builds the schema and applies the external namespaces of the case's env.
func buildWithEnv(envN, schemaN *sx.Node) schema.Type {
	s := buildSchema(schemaN)
	for _, ext := range envN.List[1].List[1].List {
		ns := ext.List[0].Str
		scopeN := sx.L(sx.A("scope"), ext.List[1], sx.S(ext.List[1].List[0].List[0].Str))
		tab := buildScope(scopeN)
		s.ApplyNamespace(tab.Objects(), ns)
	}
	return s
}

// ---- observations ----

func errSx(err error) *sx.Node {
	var c *schema.ConstraintError
	if errors.As(err, &c) {
		p := sx.L()
		for _, s := range c.Path {
			p.Append(sx.S(s))
		}
		return sx.L(sx.A("err"), sx.A("1"), p)
	}
	return sx.L(sx.A("err"), sx.A("0"), sx.L())
}

// outcomeSx runs f under recover.
func outcomeSx(f func() (*sx.Node, error)) (res *sx.Node) {
	defer func() {
		if r := recover(); r != nil {
			res = sx.A("panic")
		}
	}()
	v, err := f()
	if err != nil {
		return errSx(err)
	}
	return sx.L(sx.A("ok"), v)
}
