package main

import (
	"go.flow.arcalot.io/pluginsdk/schema"
	"verif/harness/sx"
)

// outcome class of an observation: ok / err / panic
func obsClass(o *sx.Node) *sx.Node {
	if o.IsList() {
		return sx.A(o.Head())
	}
	return sx.A(o.Atom)
}

// buildXTyped builds the typed twin (NewTypedObject[T] / NewTypedScopeSchema[T]) of a top-level
// xobject or of a scope whose root is one; nil when the schema has no typed constructor.
func buildXTyped(envN, n *sx.Node) (t xtyped, ok bool) {
	defer func() {
		if r := recover(); r != nil {
			ok = false
		}
	}()
	switch n.Head() {
	case "xobject":
		si := n.List[4]
		e := xstructs[si.List[1].Str]
		return e.typed(si.List[2].Atom == "1", n.List[1].Str, xobjProps(n)), true
	case "scope":
		rootID := n.List[2].Str
		var rootN *sx.Node
		var root *schema.ObjectSchema
		var others []*schema.ObjectSchema
		for _, o := range n.List[1].List {
			obj := buildObject(o.List[1])
			if o.List[0].Str == rootID {
				root, rootN = obj, o.List[1]
			} else {
				others = append(others, obj)
			}
		}
		if rootN == nil || rootN.Head() != "xobject" {
			return xtyped{}, false
		}
		si := rootN.List[4]
		e := xstructs[si.List[1].Str]
		return e.typedScope(si.List[2].Atom == "1", root, others), true
	}
	return xtyped{}, false
}

// runXSchemaCase: (xsch ENV STRUCTS XSCHEMA (ops OP...)) -> (r O...)
func runXSchemaCase(p *sx.Node) *sx.Node {
	var s schema.Type
	built := outcomeSx(func() (*sx.Node, error) {
		s = buildWithEnv(p.List[1], p.List[3])
		return unit(), nil
	})
	if s == nil {
		return sx.L(sx.A("build-failed"), built)
	}
	var erased schema.Type
	var typed *xtyped
	res := sx.L(sx.A("r"))
	for _, op := range p.List[4].List[1:] {
		v := valFromSx(op.List[1])
		switch op.Head() {
		case "u":
			o, _, _ := obsUnser(s, v)
			res.Append(o)
		case "v":
			res.Append(obsValidate(s, v))
		case "s":
			o, _, _ := obsSerialize(s, v)
			res.Append(o)
		case "c":
			res.Append(obsCompat(s, v))
		case "rt":
			res.Append(runRT(s, v))
		case "sr":
			// Serialize of a native value, then Unserialize of what came out (a one-of must be routable back)
			o, w, ok := obsSerialize(s, v)
			out := sx.L(sx.A("sr"), o)
			if ok {
				u, _, _ := obsUnser(s, w)
				out.Append(u)
			}
			res.Append(out)
		case "x":
			if erased == nil {
				erased = buildWithEnv(p.List[1], eraseX(p.List[3]))
			}
			o1, _, _ := obsUnser(s, v)
			o2, _, _ := obsUnser(erased, valFromSx(op.List[1]))
			res.Append(sx.L(sx.A("x"), o1, obsClass(o2)))
		case "ty":
			if typed == nil {
				t, ok := buildXTyped(p.List[1], p.List[3])
				if !ok {
					res.Append(sx.L(sx.A("bad"), sx.S("no typed twin")))
					continue
				}
				typed = &t
			}
			out := sx.L(sx.A("ty"))
			uu, n, ok := obsUnser(s, v)
			out.Append(uu)
			out.Append(outcomeSx(func() (*sx.Node, error) {
				r, err := typed.unser(valFromSx(op.List[1]))
				if err != nil {
					return nil, err
				}
				return valSx(r), nil
			}))
			if ok {
				out.Append(obsValidate(s, n))
				out.Append(outcomeSx(func() (*sx.Node, error) {
					err, okT := typed.validate(n)
					if !okT {
						return sx.A("not-a-T"), nil
					}
					return unit(), err
				}))
				su, _, _ := obsSerialize(s, n)
				out.Append(su)
				out.Append(outcomeSx(func() (*sx.Node, error) {
					r, err, okT := typed.serialize(n)
					if !okT {
						return sx.A("not-a-T"), nil
					}
					if err != nil {
						return nil, err
					}
					return valSx(r), nil
				}))
			}
			res.Append(out)
		default:
			res.Append(sx.L(sx.A("bad"), sx.S("op")))
		}
	}
	return res
}
