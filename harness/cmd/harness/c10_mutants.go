package main

// C10 — a schema received from a plugin is rejected with an error or fully usable (family c10mutants).
//
// case payload:  (mut KIND ENV10 VALUE INPUTS)   KIND ::= scope | schema | hello
//   ENV10  ::= (env10 (json ((TEXT VALUE|fail)...)) (repat ((SRC 0|1)...)))   oracle tables for the model
//   VALUE  ::= the (mutated) description, canonical value print
//   INPUTS ::= (inputs V...) raw inputs used to exercise whatever is returned (the model ignores them)
//
// observation:  rejected | (usable DESCRIPTION) | pending | (panic load) | (panic use OP) ; the supervisor adds crash | hang
//   DESCRIPTION = SelfSerialize of the accepted schema (what the loader built, meta-schema defaults included)
//   pending = UnserializeScope accepted a scope that still has references into a namespace other than its own
//             (the caller has to apply that namespace first, exactly as for a scope built in code).

import (
	"encoding/json"
	"fmt"
	"io"
	"os"
	"regexp"
	"sort"
	"strings"

	"github.com/fxamacker/cbor/v2"
	"go.flow.arcalot.io/pluginsdk/atp"
	"go.flow.arcalot.io/pluginsdk/schema"
	"verif/harness/sx"
)

// ---- running ----

type pipeChannel struct {
	io.Reader
	io.Writer
}

func (p pipeChannel) Close() error { return p.Writer.(io.Closer).Close() }

// readSchemaOverPipe plays a plugin that answers the client's start message with a hello message
// carrying the given schema value.
func readSchemaOverPipe(d any) (*schema.SchemaSchema, error) {
	c2sR, c2sW := io.Pipe()
	s2cR, s2cW := io.Pipe()
	go func() {
		// the scripted plugin: read the start message (an empty CBOR item), send hello, go away
		var start any
		_ = cbor.NewDecoder(c2sR).Decode(&start)
		_ = cbor.NewEncoder(s2cW).Encode(atp.HelloMessage{Version: atp.ProtocolVersion, Schema: d})
		_, _ = io.Copy(io.Discard, c2sR)
	}()
	cli := atp.NewClientWithLogger(pipeChannel{s2cR, c2sW}, nil)
	defer func() {
		_ = c2sW.Close()
		_ = s2cW.Close()
	}()
	return cli.ReadSchema()
}

// exercise runs every operation on one data schema; it returns the name of the operation that panicked.
func exercise(s schema.Scope, inputs []any) (failed string) {
	op := "?"
	defer func() {
		if r := recover(); r != nil {
			if os.Getenv("VERIF_DEBUG") != "" {
				fmt.Fprintf(os.Stderr, "panic in %s: %v\n", op, r)
			}
			failed = op
		}
	}()
	op = "GetDefaults"
	s.GetDefaults()
	op = "SelfSerialize"
	_, _ = s.SelfSerialize()
	op = "Properties"
	s.Properties()
	op = "ValidateReferences"
	_ = s.ValidateReferences()
	for _, in := range inputs {
		op = "Unserialize"
		u, err := s.Unserialize(in)
		op = "ValidateCompatibility"
		_ = s.ValidateCompatibility(in)
		op = "Validate"
		_ = s.Validate(in)
		op = "Serialize"
		_, _ = s.Serialize(in)
		if err == nil {
			op = "Validate(unserialized)"
			_ = s.Validate(u)
			op = "Serialize(unserialized)"
			w, err := s.Serialize(u)
			if err == nil {
				op = "Unserialize(serialized)"
				_, _ = s.Unserialize(w)
			}
			op = "ValidateCompatibility(unserialized)"
			_ = s.ValidateCompatibility(u)
		}
	}
	return ""
}

// exerciseObjects runs the data operations on every object of a scope's table with inputs derived from the
// object itself; it returns the name of the operation that panicked.
func exerciseObjects(s schema.Scope) (failed string) {
	op := "Objects"
	defer func() {
		if r := recover(); r != nil {
			if os.Getenv("VERIF_DEBUG") != "" {
				fmt.Fprintf(os.Stderr, "panic in %s: %v\n", op, r)
			}
			failed = op
		}
	}()
	objs := s.Objects()
	for _, id := range sortedStrKeys(objs) {
		o := objs[id]
		if o == nil {
			continue
		}
		for _, text := range []bool{false, true} {
			op = "object " + id + ": probe"
			in := probeFor(o, 4, text)
			op = "object " + id + ": Unserialize"
			u, err := o.Unserialize(in)
			op = "object " + id + ": ValidateCompatibility"
			_ = o.ValidateCompatibility(in)
			if err == nil {
				op = "object " + id + ": Validate(unserialized)"
				_ = o.Validate(u)
				op = "object " + id + ": Serialize(unserialized)"
				_, _ = o.Serialize(u)
			}
		}
	}
	return ""
}

type probeDisc interface{ DiscriminatorFieldName() string }

// probeFor builds an input from the ACCEPTED schema itself, through the public accessors.
func probeFor(t schema.Type, depth int, text bool) any {
	if t == nil || depth <= 0 {
		return nil
	}
	switch t.TypeID() {
	case schema.TypeIDInt, schema.TypeIDFloat, schema.TypeIDIntEnum:
		if text {
			return "5"
		}
		return int64(5)
	case schema.TypeIDString, schema.TypeIDStringEnum:
		return "abc"
	case schema.TypeIDBool:
		return true
	case schema.TypeIDPattern:
		return "a+"
	case schema.TypeIDAny:
		return "x"
	case schema.TypeIDList:
		if l, ok := t.(c12HasItems); ok {
			return []any{probeFor(l.Items(), depth-1, text)}
		}
	case schema.TypeIDMap:
		if m, ok := t.(c12HasKV); ok {
			k := probeFor(m.Keys(), depth-1, text)
			switch k.(type) {
			case string, int64:
			default:
				k = "k"
			}
			return map[any]any{k: probeFor(m.Values(), depth-1, text)}
		}
	case schema.TypeIDRef:
		if r, ok := t.(*schema.RefSchema); ok && r.ObjectReady() {
			return probeFor(r.GetObject(), depth-1, text)
		}
		// a reference the loader left unlinked: the property is SET all the same (an accepted schema is used where it sits)
		return map[any]any{}
	case schema.TypeIDObject, schema.TypeIDScope:
		if o, ok := t.(schema.Object); ok {
			out := map[any]any{}
			for name, p := range o.Properties() {
				out[name] = probeFor(p.Type(), depth-1, text)
			}
			return out
		}
	case schema.TypeIDOneOfString, schema.TypeIDOneOfInt:
		var key any
		var member schema.Object
		if o, ok := t.(c12TypesS); ok {
			ks := sortedStrKeys(o.Types())
			if len(ks) > 0 {
				key, member = ks[0], o.Types()[ks[0]]
			}
		} else if o, ok := t.(c12TypesI); ok {
			first := true
			for k, m := range o.Types() {
				if first || k < key.(int64) {
					key, member, first = k, m, false
				}
			}
		}
		if member == nil {
			return map[any]any{}
		}
		body, _ := probeFor(member, depth-1, text).(map[any]any)
		if body == nil {
			body = map[any]any{}
		}
		if d, ok := t.(probeDisc); ok {
			body[d.DiscriminatorFieldName()] = key
		}
		return body
	}
	return nil
}

// numbersAsText: the value with every integer / float VALUE leaf (not map keys) replaced by its decimal text.
func numbersAsText(v *sx.Node) (*sx.Node, bool) {
	if !v.IsList() {
		return v, false
	}
	switch v.Head() {
	case "i":
		if !v.List[1].IsList() {
			return vS(v.List[2].Atom), true
		}
		return v, false
	case "f":
		if !v.List[1].IsList() {
			return vS(fmtG(flFromSx(v.List[2]))), true
		}
		return v, false
	case "sl":
		out := sx.L(v.List[0], tAnySlice, v.List[2])
		changed := false
		for _, it := range v.List[3:] {
			x, c := numbersAsText(it)
			changed = changed || c
			out.Append(x)
		}
		if !changed {
			return v, false
		}
		return out, true
	case "m":
		t := v.List[1]
		if t.String() != tStrMap.String() {
			t = tAnyMap
		}
		out := sx.L(v.List[0], t, v.List[2])
		changed := false
		for _, e := range v.List[3:] {
			x, c := numbersAsText(e.List[1])
			changed = changed || c
			out.Append(sx.L(e.List[0], x))
		}
		if !changed {
			return v, false
		}
		return out, true
	}
	return v, false
}

// fixedInputs: inputs that do not depend on the schema.
func fixedInputs() []any {
	return []any{
		nil, map[string]any{}, map[any]any{}, "x", int64(1), 1.5, true, []any{}, []any{"a", int64(1)},
		map[string]any{"a": int64(1)}, map[any]any{"a": map[any]any{"a": "x"}, "b": []any{int64(1)}},
		map[any]any{int64(1): "x"},
	}
}

func runMutantCase(p *sx.Node) *sx.Node {
	kind := p.List[1].Atom
	d := valFromSx(p.List[3])
	var inputs []any
	for _, in := range p.List[4].List[1:] {
		inputs = append(inputs, valFromSx(in))
	}
	// the same shaped inputs with every number written as a string (what a YAML or command-line front end hands
	// over): numbers given as text go through the units parser and the string mappers
	nText := 0
	for _, in := range p.List[4].List[1:] {
		if s, changed := numbersAsText(in); changed && nText < 4 {
			inputs = append(inputs, valFromSx(s))
			nText++
		}
	}
	inputs = append(inputs, fixedInputs()...)
	var scopes []labelledScope
	var whole describer
	load := classSx(func() error {
		switch kind {
		case "scope":
			s, err := schema.UnserializeScope(d)
			if err != nil {
				return err
			}
			scopes = []labelledScope{{"scope", s}}
			whole = s
		case "schema":
			pl, err := schema.UnserializeSchema(d)
			if err != nil {
				return err
			}
			scopes = pluginScopes(pl)
			whole = pl
		case "hello":
			pl, err := readSchemaOverPipe(d)
			if err != nil {
				return err
			}
			scopes = pluginScopes(pl)
			whole = pl
		default:
			panic("kind")
		}
		return nil
	})
	switch load.Atom {
	case "err":
		return sx.A("rejected")
	case "panic":
		return sx.L(sx.A("panic"), sx.A("load"))
	}
	if kind == "scope" {
		// a scope may legitimately wait for another namespace to be applied
		pending := false
		if c := classSx(func() error { return scopes[0].scope.ValidateReferences() }); c.Atom == "err" {
			pending = true
		} else if c.Atom == "panic" {
			return sx.L(sx.A("panic"), sx.A("use"), sx.S("ValidateReferences"))
		}
		if pending {
			return sx.A("pending")
		}
	}
	// what was built: the description of the accepted schema (defaults of the meta-schema filled in)
	var again *sx.Node
	if c := classSx(func() error {
		d2, err := whole.SelfSerialize()
		if err != nil {
			again = sx.A("not-describable")
		} else {
			again = valSx(d2)
		}
		return nil
	}); c.Atom == "panic" {
		return sx.L(sx.A("panic"), sx.A("use"), sx.S("SelfSerialize"))
	}
	for _, ls := range scopes {
		// inputs shaped by the schema the loader BUILT (every property, one item / entry per container, the first
		// member of every one-of), numbers once as numbers and once as decimal text
		mine := inputs
		for _, text := range []bool{false, true} {
			func() {
				defer func() { _ = recover() }() // reading a broken schema is `exercise`'s business (Properties ...)
				if p := probeFor(ls.scope, 5, text); p != nil {
					mine = append(append([]any{}, mine...), p)
				}
			}()
		}
		if op := exercise(ls.scope, mine); op != "" {
			return sx.L(sx.A("panic"), sx.A("use"), sx.S(op))
		}
		// every object of the scope's table, whether the root reaches it or not (Objects() hands them all out)
		if op := exerciseObjects(ls.scope); op != "" {
			return sx.L(sx.A("panic"), sx.A("use"), sx.S(op))
		}
	}
	return sx.L(sx.A("usable"), again)
}

// ---- generation ----

// env10 records, for the model, what encoding/json and regexp.Compile say about every string that sits
// where a default or a pattern is read.
func env10(v *sx.Node) *sx.Node {
	defaults, pats := map[string]bool{}, map[string]bool{}
	var walk func(n *sx.Node)
	leafText := func(n *sx.Node) (string, bool) {
		// what the string mapper makes of the value: strings, and the decimal text of integers
		if n.IsList() && n.Head() == "s" {
			return n.List[2].Str, true
		}
		if n.IsList() && n.Head() == "i" {
			return n.List[2].Atom, true
		}
		if n.IsList() && n.Head() == "f" {
			return fmt.Sprintf("%f", flFromSx(n.List[2])), true
		}
		return "", false
	}
	walk = func(n *sx.Node) {
		if !n.IsList() {
			return
		}
		if n.Head() == "m" {
			for _, e := range n.List[3:] {
				if k, ok := leafText(e.List[0]); ok {
					if t, ok := leafText(e.List[1]); ok {
						if k == "default" {
							defaults[t] = true
						}
						if k == "pattern" {
							pats[t] = true
						}
					}
				}
			}
		}
		for _, c := range n.List {
			walk(c)
		}
	}
	walk(v)
	js := sx.L()
	for _, txt := range sortedKeys(defaults) {
		js.Append(sx.L(sx.S(txt), jsonDecoded10(txt)))
		q := "\"" + txt + "\""
		js.Append(sx.L(sx.S(q), jsonDecoded10(q)))
	}
	rs := sx.L()
	for _, src := range sortedKeys(pats) {
		_, err := regexp.Compile(src)
		rs.Append(sx.L(sx.S(src), sx.B(err == nil)))
	}
	return sx.L(sx.A("env10"), sx.L(sx.A("json"), js), sx.L(sx.A("repat"), rs))
}

// jsonDecoded10: only whether the text decodes matters to the model of the load step.
func jsonDecoded10(txt string) *sx.Node {
	var v any
	if err := json.Unmarshal([]byte(txt), &v); err != nil {
		return sx.A("fail")
	}
	return sx.A("nil")
}

// ---- mutations of a value tree ----

type vpath []int // child indices from the root; in a map entry e: [i,0] = key, [i,1] = value

func nodeAt(v *sx.Node, p vpath) *sx.Node {
	for _, i := range p {
		v = v.List[i]
	}
	return v
}

// replaceAt returns a copy of v with the node at p replaced (nil = removed from its parent list).
func replaceAt(v *sx.Node, p vpath, by *sx.Node) *sx.Node {
	if len(p) == 0 {
		return by
	}
	out := sx.L()
	for i, c := range v.List {
		if i == p[0] {
			r := replaceAt(c, p[1:], by)
			if r != nil {
				out.Append(r)
			}
		} else {
			out.Append(c)
		}
	}
	return out
}

func insertAfter(v *sx.Node, p vpath, extra *sx.Node) *sx.Node {
	if len(p) == 1 {
		out := sx.L()
		for i, c := range v.List {
			out.Append(c)
			if i == p[0] {
				out.Append(extra)
			}
		}
		return out
	}
	out := sx.L()
	for i, c := range v.List {
		if i == p[0] {
			out.Append(insertAfter(c, p[1:], extra))
		} else {
			out.Append(c)
		}
	}
	return out
}

type vnode struct {
	path    vpath
	n       *sx.Node
	isEntry bool   // a map entry (k v)
	isItem  bool   // a list item
	key     string // for an entry / the value of an entry: the key text
	isValue bool   // the value side of a map entry
}

func valueNodes(v *sx.Node) []vnode {
	var out []vnode
	var walk func(n *sx.Node, p vpath, key string, isValue, isItem bool)
	walk = func(n *sx.Node, p vpath, key string, isValue, isItem bool) {
		out = append(out, vnode{path: append(vpath(nil), p...), n: n, key: key, isValue: isValue, isItem: isItem})
		if !n.IsList() {
			return
		}
		switch n.Head() {
		case "m":
			for i := 3; i < len(n.List); i++ {
				e := n.List[i]
				k := ""
				if e.List[0].IsList() && len(e.List[0].List) == 3 {
					if e.List[0].Head() == "s" {
						k = e.List[0].List[2].Str
					} else {
						k = e.List[0].List[2].Atom
					}
				}
				out = append(out, vnode{path: append(append(vpath(nil), p...), i), n: e, isEntry: true, key: k})
				walk(e.List[1], append(append(vpath(nil), p...), i, 1), k, true, false)
			}
		case "sl":
			for i := 3; i < len(n.List); i++ {
				walk(n.List[i], append(append(vpath(nil), p...), i), key, false, true)
			}
		}
	}
	walk(v, nil, "", false, false)
	return out
}

var retypePool = []*sx.Node{vNil(), vS("zz"), vI("i64", -1), vB(true), vSl(tAnySlice), vM(tAnyMap), vF("f64", 2.5), vS(""), vI("u64", 7), vS("1")}

func sameShape(a, b *sx.Node) bool {
	if a.IsList() != b.IsList() {
		return false
	}
	if !a.IsList() {
		return a.Atom == b.Atom
	}
	return a.Head() == b.Head() && (a.Head() == "m" || a.Head() == "sl" || a.String() == b.String())
}

// stringsAtKey collects, per key name, the string values that occur under it (for re-pointing).
func stringsAtKey(nodes []vnode) map[string][]string {
	m := map[string]map[string]bool{}
	for _, nd := range nodes {
		if nd.isValue && nd.n.IsList() && nd.n.Head() == "s" {
			if m[nd.key] == nil {
				m[nd.key] = map[string]bool{}
			}
			m[nd.key][nd.n.List[2].Str] = true
		}
	}
	out := map[string][]string{}
	for k, set := range m {
		out[k] = sortedKeys(set)
	}
	return out
}

var typeIDs = []string{"any", "bool", "enum_integer", "enum_string", "float", "integer", "list", "map", "object", "one_of_int", "one_of_string", "pattern", "ref", "scope", "string"}

// singleMutations: every structural mutation at every node. limit > 0 keeps only a seeded sample of the
// retype / re-point alternatives per node (quick tier).
func singleMutations(r *Rng, v *sx.Node, limit int) (out []*sx.Node, sensitive []*sx.Node) {
	nodes := valueNodes(v)
	byKey := stringsAtKey(nodes)
	sample := func(l []*sx.Node) []*sx.Node {
		if limit <= 0 || len(l) <= limit {
			return l
		}
		var s []*sx.Node
		for _, i := range pickN(r, len(l), limit) {
			s = append(s, l[i])
		}
		return s
	}
	for _, nd := range nodes {
		switch {
		case nd.isEntry:
			// delete
			out = append(out, replaceAt(v, nd.path, nil))
			// rename the key
			k := nd.n.List[0]
			var nk *sx.Node
			if k.IsList() && k.Head() == "s" {
				nk = vS("zz_" + k.List[2].Str)
			} else {
				nk = vS("renamed")
			}
			out = append(out, replaceAt(v, append(append(vpath(nil), nd.path...), 0), nk))
			// retype the key (the map becomes a map[any]any, as a decoder would deliver it)
			rk := pick(r, []*sx.Node{vI("i64", 3), vNil(), vB(false), vNamed("s", "MyStr", "str", sx.S("x"))})
			parentPath := nd.path[:len(nd.path)-1]
			parent := nodeAt(v, parentPath)
			np := sx.L(parent.List[0], tAnyMap, parent.List[2])
			for i := 3; i < len(parent.List); i++ {
				if i == nd.path[len(nd.path)-1] {
					np.Append(sx.L(rk, parent.List[i].List[1]))
				} else {
					np.Append(parent.List[i])
				}
			}
			out = append(out, replaceAt(v, parentPath, np))
			// duplicate under another key
			out = append(out, insertAfter(v, nd.path, sx.L(nk, nd.n.List[1])))
		case nd.isItem:
			out = append(out, replaceAt(v, nd.path, nil))
			out = append(out, insertAfter(v, nd.path, nd.n))
			fallthrough
		default:
			if len(nd.path) == 0 {
				// the root: retype only
				for _, alt := range sample(retypePool) {
					out = append(out, alt)
				}
				continue
			}
			var alts []*sx.Node
			for _, alt := range retypePool {
				if !sameShape(alt, nd.n) {
					alts = append(alts, replaceAt(v, nd.path, alt))
				}
			}
			out = append(out, sample(alts)...)
			// re-point: a string becomes another string that occurs under the same key, or a fresh one
			if nd.n.IsList() && nd.n.Head() == "s" {
				var rp []*sx.Node
				cur := nd.n.List[2].Str
				cands := append([]string{"Nope"}, byKey[nd.key]...)
				if nd.key == "type_id" {
					cands = append(cands, typeIDs...)
				}
				if nd.key == "namespace" {
					cands = append(cands, "other")
				}
				if nd.key == "default" {
					cands = append(cands, "{", "nul", "[1,", "\"open")
				}
				if nd.key == "pattern" {
					cands = append(cands, "(", "[a-", "a{2,1}", "x*")
				}
				seen := map[string]bool{cur: true}
				for _, c := range cands {
					if !seen[c] {
						seen[c] = true
						rp = append(rp, replaceAt(v, nd.path, vS(c)))
					}
				}
				if nd.key == "type_id" || nd.key == "default" || nd.key == "pattern" || nd.key == "root" || nd.key == "id" || nd.key == "namespace" {
					sensitive = append(sensitive, rp...) // the link-sensitive places are always enumerated completely
				} else {
					out = append(out, sample(rp)...)
				}
			}
			// numbers: boundary re-pointing
			if nd.n.IsList() && nd.n.Head() == "i" {
				for _, z := range []int64{0, 1, -7} {
					alt := vI("i64", z)
					if alt.String() != nd.n.String() {
						out = append(out, replaceAt(v, nd.path, alt))
					}
				}
			}
			if nd.n.IsList() && nd.n.Head() == "b" {
				out = append(out, replaceAt(v, nd.path, vB(nd.n.List[2].Atom != "1")))
			}
		}
	}
	return out, sensitive
}

func pickN(r *Rng, n, k int) []int {
	idx := make([]int, n)
	for i := range idx {
		idx[i] = i
	}
	for i := 0; i < k && i < n; i++ {
		j := i + r.Intn(n-i)
		idx[i], idx[j] = idx[j], idx[i]
	}
	if k > n {
		k = n
	}
	res := append([]int(nil), idx[:k]...)
	sort.Ints(res)
	return res
}

// randomTree: a grammar-free value.
func randomTree(r *Rng, depth int) *sx.Node {
	words := []string{"objects", "root", "id", "properties", "type", "type_id", "steps", "input", "outputs", "schema",
		"ref", "object", "scope", "integer", "string", "list", "items", "A", "x", "", "required", "default", "values"}
	if depth <= 0 || r.Chance(30) {
		switch r.Intn(6) {
		case 0:
			return vNil()
		case 1:
			return vS(pick(r, words))
		case 2:
			return vI("i64", int64(r.Intn(5)-1))
		case 3:
			return vB(r.Bool())
		case 4:
			return vF("f64", 1.5)
		}
		return vU("u64", uint64(r.Intn(3)))
	}
	if r.Chance(25) {
		var items []*sx.Node
		for i := 0; i < r.Intn(4); i++ {
			items = append(items, randomTree(r, depth-1))
		}
		return vSl(tAnySlice, items...)
	}
	var kv []*sx.Node
	seen := map[string]bool{}
	for i := 0; i < r.Intn(5); i++ {
		k := pick(r, words)
		if seen[k] {
			continue
		}
		seen[k] = true
		kv = append(kv, vS(k), randomTree(r, depth-1))
	}
	if r.Bool() {
		return vM(tStrMap, kv...)
	}
	return vM(tAnyMap, kv...)
}

// cborEncodable: a hello message can only carry what CBOR encodes and decodes.
func toCBORForm(v *sx.Node) (*sx.Node, bool) {
	var ok bool
	var out *sx.Node
	func() {
		defer func() {
			if r := recover(); r != nil {
				ok = false
			}
		}()
		d, err := cborRoundTrip(valFromSx(v))
		if err != nil {
			return
		}
		out, ok = valSx(d), true
	}()
	return out, ok
}

type c10Base struct {
	kind   string
	val    *sx.Node
	inputs *sx.Node
}

// c10Bases builds valid descriptions with the real SelfSerialize, from the generator of family c09describe.
func c10Bases(r *Rng, n int, small bool) []c10Base {
	var out []c10Base
	for len(out) < n {
		plugin := r.Chance(35)
		var c *sx.Node
		if plugin {
			c = genDescPlugin(r, 12) // shaped inputs for (nearly) every data schema: outputs and signals are exercised through their references too
		} else {
			c = genDescScope(r, 4)
		}
		var d any
		ok := false
		func() {
			defer func() { _ = recover() }()
			var err error
			if plugin {
				d, err = buildPlugin(c.List[3]).SelfSerialize()
			} else {
				s := buildScope(c.List[3])
				applyExt(c.List[2], s.ApplyNamespace)
				d, err = s.SelfSerialize()
			}
			ok = err == nil
		}()
		if !ok {
			continue
		}
		v := valSx(d)
		max := 7000
		if plugin {
			max = 14000
		}
		if small && len(v.String()) > max {
			continue
		}
		kind := "scope"
		if plugin {
			kind = "schema"
		}
		out = append(out, c10Base{kind, v, c.List[4]})
	}
	return out
}

// hasDupKeys: a Go map cannot hold two entries under one key; such a tree is not a value.
func hasDupKeys(v *sx.Node) bool {
	if !v.IsList() {
		return false
	}
	if v.Head() == "m" {
		seen := map[string]bool{}
		for _, e := range v.List[3:] {
			k := e.List[0].String()
			if seen[k] {
				return true
			}
			seen[k] = true
		}
	}
	for _, c := range v.List {
		if hasDupKeys(c) {
			return true
		}
	}
	return false
}

func emitMutant(emit func(*sx.Node), r *Rng, b c10Base, v *sx.Node) {
	if hasDupKeys(v) {
		return
	}
	kind := b.kind
	if kind == "schema" && r.Chance(30) {
		if cv, ok := toCBORForm(v); ok {
			kind, v = "hello", cv
		}
	}
	emit(sx.L(sx.A("mut"), sx.A(kind), env10(v), v, b.inputs))
}

// c10Fixed: the witnesses of D30/D32 (run on every tier).
func c10Fixed() []*sx.Node {
	obj := func(id string, props ...*sx.Node) *sx.Node {
		pm := vM(tAnyMap, props...)
		return vM(tStrMap, vS("id"), vS(id), vS("properties"), pm)
	}
	prop := func(t *sx.Node, extra ...*sx.Node) *sx.Node {
		return vM(tStrMap, append([]*sx.Node{vS("type"), t}, extra...)...)
	}
	ty := func(id string, kv ...*sx.Node) *sx.Node {
		return vM(tStrMap, append([]*sx.Node{vS("type_id"), vS(id)}, kv...)...)
	}
	scope := func(root string, objs ...*sx.Node) *sx.Node {
		return vM(tStrMap, vS("objects"), vM(tAnyMap, objs...), vS("root"), vS(root))
	}
	inputs := sx.L(sx.A("inputs"), vM(tAnyMap, vS("a"), vM(tAnyMap)), vM(tAnyMap))
	mk := func(kind string, v *sx.Node) *sx.Node { return sx.L(sx.A("mut"), sx.A(kind), env10(v), v, inputs) }
	step := func(in *sx.Node) *sx.Node {
		return vM(tStrMap, vS("steps"), vM(tAnyMap, vS("s"), vM(tStrMap, vS("id"), vS("s"), vS("input"), in,
			vS("outputs"), vM(tAnyMap, vS("ok"), vM(tStrMap, vS("schema"), scope("R", vS("R"), obj("R")))))))
	}
	dangling := scope("A", vS("A"), obj("A", vS("a"), prop(ty("ref", vS("id"), vS("Missing")))))
	linked := scope("A", vS("A"), obj("A", vS("a"), prop(ty("ref", vS("id"), vS("B")))), vS("B"), obj("B"))
	noRoot := scope("Nope", vS("A"), obj("A"))
	wrongKey := scope("K", vS("K"), obj("A"))
	badDefault := scope("A", vS("A"), obj("A", vS("a"), prop(ty("integer"), vS("default"), vS("{"))))
	oneofNotInlined := scope("A", vS("A"), obj("A", vS("a"), prop(ty("one_of_string", vS("discriminator_field_name"), vS("k"),
		vS("discriminator_inlined"), vB(true), vS("types"), vM(tAnyMap, vS("x"), ty("ref", vS("id"), vS("B")))))), vS("B"), obj("B"))
	foreign := scope("A", vS("A"), obj("A", vS("a"), prop(ty("ref", vS("id"), vS("B"), vS("namespace"), vS("other")))))
	negMult := scope("A", vS("A"), obj("A", vS("a"), prop(ty("integer", vS("units"), vM(tStrMap,
		vS("base_unit"), vM(tStrMap, vS("name_long_plural"), vS("bs"), vS("name_long_singular"), vS("b"), vS("name_short_plural"), vS("b"), vS("name_short_singular"), vS("b")),
		vS("multipliers"), vM(tAnyMap, vI("i64", -5), vM(tStrMap, vS("name_long_plural"), vS("ks"), vS("name_long_singular"), vS("k"), vS("name_short_plural"), vS("k"), vS("name_short_singular"), vS("k"))))))))
	negInputs := sx.L(sx.A("inputs"), vM(tAnyMap, vS("a"), vS("3k")))
	// the same data schemas at every other place of a plugin schema: an output, a signal handler, a signal emitter
	good := scope("R", vS("R"), obj("R"))
	stepAt := func(where string, sc *sx.Node) *sx.Node {
		out, ha, em := good, good, good
		hKey, eKey := "h", "e"
		switch where {
		case "output":
			out = sc
		case "handler":
			ha = sc
		case "emitter":
			em = sc
		case "handler-shared-key": // the step emits a signal under the key under which it handles one
			ha, hKey, eKey = sc, "x", "x"
		case "emitter-shared-key":
			em, hKey, eKey = sc, "x", "x"
		}
		sig := func(id string, d *sx.Node) *sx.Node {
			return vM(tAnyMap, vS(id), vM(tStrMap, vS("id"), vS(id), vS("data_schema"), d))
		}
		return vM(tStrMap, vS("steps"), vM(tAnyMap, vS("s"), vM(tStrMap, vS("id"), vS("s"), vS("input"), good,
			vS("outputs"), vM(tAnyMap, vS("ok"), vM(tStrMap, vS("schema"), out)),
			vS("signal_handlers"), sig(hKey, ha), vS("signal_emitters"), sig(eKey, em))))
	}
	var placed []*sx.Node
	for _, where := range []string{"output", "handler", "emitter", "handler-shared-key", "emitter-shared-key"} {
		for _, sc := range []*sx.Node{linked, dangling, noRoot, badDefault, foreign} {
			placed = append(placed, mk("schema", stepAt(where, sc)))
		}
		placed = append(placed, mk("hello", stepAt(where, foreign)), mk("hello", stepAt(where, linked)))
	}
	return append(placed, []*sx.Node{
		mk("scope", linked), mk("scope", dangling), mk("schema", step(dangling)), mk("scope", noRoot), mk("schema", step(noRoot)),
		mk("scope", wrongKey), mk("scope", badDefault), mk("schema", step(badDefault)), mk("scope", oneofNotInlined),
		mk("scope", foreign), mk("schema", step(foreign)), mk("hello", step(linked)), mk("hello", step(dangling)),
		sx.L(sx.A("mut"), sx.A("scope"), env10(negMult), negMult, negInputs),
	}...)
}

func init() {
	families["c10mutants"] = &Family{
		Gen: func(r *Rng, tier string, emit func(*sx.Node)) {
			// quick: every mutation at the link-sensitive places (type_id, id, root, default, pattern) and a
			// seeded 30 % sample of the other single mutations; thorough: all of them, on 100 bases
			nbase, limit, ndouble, nrandom, keep := 40, 1, 6, 400, 30
			if tier == "thorough" {
				nbase, limit, ndouble, nrandom, keep = 100, 2, 40, 6000, 100
			}
			for _, c := range c10Fixed() {
				emit(c)
			}
			for _, b := range c10Bases(r, nbase, true) {
				emitMutant(emit, r, b, b.val) // the unmutated description
				singles, sensitive := singleMutations(r, b.val, limit)
				for _, m := range sensitive {
					emitMutant(emit, r, b, m)
				}
				for _, m := range singles {
					if keep == 100 || r.Chance(keep) {
						emitMutant(emit, r, b, m)
					}
				}
				singles = append(singles, sensitive...)
				// sampled double mutations
				for i := 0; i < ndouble && len(singles) > 0; i++ {
					m := pick(r, singles)
					if m == nil || !m.IsList() {
						continue
					}
					second, sens2 := singleMutations(r, m, 1)
					second = append(second, sens2...)
					if len(second) > 0 {
						emitMutant(emit, r, b, pick(r, second))
					}
				}
			}
			kinds := []string{"scope", "schema", "hello"}
			for i := 0; i < nrandom; i++ {
				v := randomTree(r, 1+r.Intn(4))
				kind := pick(r, kinds)
				if kind == "hello" {
					cv, ok := toCBORForm(v)
					if !ok {
						continue
					}
					v = cv
				}
				emit(sx.L(sx.A("mut"), sx.A(kind), env10(v), v, sx.L(sx.A("inputs"))))
			}
		},
		Run: runMutantCase,
	}
}

var _ = strings.Contains
