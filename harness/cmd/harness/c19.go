package main

// Family "codegen" (C19): the code generator cmd/arcaflow-codegen, built from the working
// tree and run as a subprocess on generated schema YAML files.
//
//	case payload ::= (gen (objs ((NAME ((PNAME TYPEID REFID) ...)) ...)) IGNORE)
//	                 all names are quoted strings, REFID "" = no `id:` key, IGNORE ::= none | "name";
//	                 the lists are in the order in which the keys are written to the YAML file
//	observation  ::= (r ok ((STRUCT ((FIELD TYPE TAG) ...)) ...))   structs/fields in FILE order
//	               | (r crash)       non-zero exit status (a Go panic exits with status 2)
//	               | (r nondet)      two runs on the same input wrote different bytes
//	               | (r hang) | (r nooutput) | (r unparsable) | (r notgofmt) | (r unexpected WHAT)
//	               | (r buildfail)   the generator does not build from the working tree
//
// Names are ASCII identifiers; inside one map no two keys title-case to the same Go name
// (two such keys give a file that gofmt accepts but that declares a type or field twice —
// outside the property).  Go keywords are used as KEYS (they are title-cased on output and
// harmless) but as TYPE tokens only in the cases marked below (D46: type id "map").

import (
	"bytes"
	"context"
	"fmt"
	"go/ast"
	"go/format"
	"go/parser"
	"go/token"
	"go/types"
	"os"
	"os/exec"
	"path/filepath"
	"reflect"
	"runtime/debug"
	"strconv"
	"strings"
	"sync"
	"time"

	"verif/harness/sx"
)

const (
	cgRuns       = 3 // runs per case on the same input; outputs must be byte-identical
	cgRunTimeout = 30 * time.Second
	cgModulePath = "go.flow.arcalot.io/pluginsdk"
)

// ---- descriptors ----

type cgProp struct{ name, tid, rid string }
type cgObj struct {
	name  string
	props []cgProp
}
type cgCase struct {
	objs   []cgObj
	ignore *string
}

func (c cgCase) sx() *sx.Node {
	os_ := sx.L()
	for _, o := range c.objs {
		ps := sx.L()
		for _, p := range o.props {
			ps.Append(sx.L(sx.S(p.name), sx.S(p.tid), sx.S(p.rid)))
		}
		os_.Append(sx.L(sx.S(o.name), ps))
	}
	ig := sx.A("none")
	if c.ignore != nil {
		ig = sx.S(*c.ignore)
	}
	return sx.L(sx.A("gen"), sx.L(sx.A("objs"), os_), ig)
}

func cgFromSx(n *sx.Node) (c cgCase, ok bool) {
	defer func() {
		if recover() != nil {
			ok = false
		}
	}()
	if n.Head() != "gen" || len(n.List) != 3 || n.List[1].Head() != "objs" {
		return c, false
	}
	for _, o := range n.List[1].List[1].List {
		obj := cgObj{name: o.List[0].Str}
		for _, p := range o.List[1].List {
			obj.props = append(obj.props, cgProp{p.List[0].Str, p.List[1].Str, p.List[2].Str})
		}
		c.objs = append(c.objs, obj)
	}
	if ig := n.List[2]; ig.IsStr {
		s := ig.Str
		c.ignore = &s
	} else if !ig.IsAtom("none") {
		return c, false
	}
	return c, true
}

// ---- YAML ----

// words a YAML reader may resolve to something other than the string (null would arrive as
// the key ""): always quoted
var cgYamlSpecial = map[string]bool{"null": true, "~": true, "true": true, "false": true, "yes": true,
	"no": true, "on": true, "off": true, "y": true, "n": true}

func cgScalar(s string, quote bool) string {
	if quote || cgYamlSpecial[strings.ToLower(s)] {
		return strconv.Quote(s)
	}
	return s
}

// cgYAML writes the document in the layout gen.go reads (steps.create.input.objects), keys in
// case order.  Everything gen.go ignores (ids, display, required) is added or left out as a
// deterministic function of the names so that both shapes occur.
func cgYAML(c cgCase) string {
	var b strings.Builder
	b.WriteString("steps:\n    create:\n        id: create\n        input:\n")
	if len(c.objs) == 0 {
		b.WriteString("            objects: {}\n")
		return b.String()
	}
	b.WriteString("            objects:\n")
	for i, o := range c.objs {
		q := i%3 == 2
		fmt.Fprintf(&b, "                %s:\n", cgScalar(o.name, q))
		// the object's name is its key in the objects map; the redundant id attribute is left
		// out for some objects (gen.go must not depend on it)
		if i%5 != 4 {
			fmt.Fprintf(&b, "                    id: %s\n", cgScalar(o.name, q))
		}
		if len(o.props) == 0 {
			if len(o.name)%2 == 0 {
				b.WriteString("                    properties: {}\n")
			}
			continue
		}
		b.WriteString("                    properties:\n")
		for j, p := range o.props {
			pq := (i+j)%4 == 3
			fmt.Fprintf(&b, "                        %s:\n", cgScalar(p.name, pq))
			if j%2 == 0 {
				fmt.Fprintf(&b, "                            display:\n                                name: %s\n", strconv.Quote("The "+p.name))
			}
			b.WriteString("                            type:\n")
			if p.rid != "" && j%2 == 1 {
				fmt.Fprintf(&b, "                                id: %s\n", cgScalar(p.rid, pq))
			}
			fmt.Fprintf(&b, "                                type_id: %s\n", cgScalar(p.tid, false))
			if p.rid != "" && j%2 == 0 {
				fmt.Fprintf(&b, "                                id: %s\n", cgScalar(p.rid, pq))
			}
			if j%3 == 0 {
				fmt.Fprintf(&b, "                            required: %v\n", j%2 == 0)
			}
		}
	}
	return b.String()
}

// ---- the generator binary, built once per process from the working tree ----

var (
	cgOnce sync.Once
	cgBin  string
	cgErr  error
)

func cgRepoDir() string {
	if d := os.Getenv("VERIF_REPO"); d != "" {
		return d
	}
	// the harness is built with `replace go.flow.arcalot.io/pluginsdk => <dir>`
	if bi, ok := debug.ReadBuildInfo(); ok {
		for _, m := range bi.Deps {
			if m.Path == cgModulePath && m.Replace != nil && filepath.IsAbs(m.Replace.Path) {
				return m.Replace.Path
			}
		}
	}
	return "/repo"
}

func cgEnv() []string {
	env := os.Environ()
	for _, kv := range []string{"GOFLAGS=-mod=mod", "GOPROXY=off", "GOSUMDB=off", "GOTOOLCHAIN=local", "CGO_ENABLED=0"} {
		if os.Getenv(kv[:strings.IndexByte(kv, '=')]) == "" {
			env = append(env, kv)
		}
	}
	return env
}

func cgBinary() (string, error) {
	cgOnce.Do(func() {
		// the process has no exit hook: binaries left by earlier runs are removed here
		if old, _ := filepath.Glob(filepath.Join(os.TempDir(), "c19bin-*")); old != nil {
			for _, d := range old {
				if st, err := os.Stat(d); err == nil && time.Since(st.ModTime()) > 30*time.Minute {
					os.RemoveAll(d)
				}
			}
		}
		dir, err := os.MkdirTemp("", "c19bin-")
		if err != nil {
			cgErr = err
			return
		}
		bin := filepath.Join(dir, "codegen")
		cmd := exec.Command("go", "build", "-o", bin, ".")
		cmd.Dir = filepath.Join(cgRepoDir(), "cmd", "arcaflow-codegen")
		cmd.Env = cgEnv()
		if out, err := cmd.CombinedOutput(); err != nil {
			cgErr = fmt.Errorf("go build in %s: %v\n%s", cmd.Dir, err, out)
			fmt.Fprintln(os.Stderr, cgErr)
			return
		}
		cgBin = bin
	})
	return cgBin, cgErr
}

// ---- running one case ----

func cgR(items ...*sx.Node) *sx.Node { return sx.L(append([]*sx.Node{sx.A("r")}, items...)...) }

func runCodegen(p *sx.Node) *sx.Node {
	c, ok := cgFromSx(p)
	if !ok {
		return sx.L(sx.A("bad"), sx.S("codegen case"))
	}
	bin, err := cgBinary()
	if err != nil {
		return cgR(sx.A("buildfail"))
	}
	dir, err := os.MkdirTemp("", "c19gen-") // outside /repo and /verif
	if err != nil {
		panic(err)
	}
	defer os.RemoveAll(dir)
	if err := os.WriteFile(filepath.Join(dir, "in.yaml"), []byte(cgYAML(c)), 0o644); err != nil {
		panic(err)
	}
	args := []string{"in.yaml"}
	if c.ignore != nil {
		args = append(args, *c.ignore)
	}
	outPath := filepath.Join(dir, "typedef_output.go")
	var first []byte
	for i := 0; i < cgRuns; i++ {
		// run 0 starts from an empty directory; run 1 regenerates over its own previous output;
		// run 2 regenerates over a LONGER stale file (what is left after the schema shrank):
		// the output must be the same bytes every time
		switch i {
		case 0:
			os.Remove(outPath)
		case 2:
			stale := append(append([]byte{}, first...), []byte("\n// stale tail of an earlier, longer output\ntype StaleLeftOver struct {\n\tA int64 `json:\"a\"`\n}\n")...)
			_ = os.WriteFile(outPath, stale, 0o644)
		}
		ctx, cancel := context.WithTimeout(context.Background(), cgRunTimeout)
		cmd := exec.CommandContext(ctx, bin, args...)
		cmd.Dir = dir
		_, err := cmd.CombinedOutput()
		timedOut := ctx.Err() != nil
		cancel()
		if timedOut {
			return cgR(sx.A("hang"))
		}
		if err != nil {
			return cgR(sx.A("crash"))
		}
		b, err := os.ReadFile(outPath)
		if err != nil {
			return cgR(sx.A("nooutput"))
		}
		if i == 0 {
			first = b
		} else if !bytes.Equal(first, b) {
			return cgR(sx.A("nondet"))
		}
	}
	return cgParseOutput(first)
}

// cgParseOutput re-reads typedef_output.go: it must be a gofmt fixed point and consist of the
// package clause, imports and struct type declarations only.
func cgParseOutput(src []byte) *sx.Node {
	fset := token.NewFileSet()
	f, err := parser.ParseFile(fset, "typedef_output.go", src, parser.SkipObjectResolution)
	if err != nil {
		return cgR(sx.A("unparsable"))
	}
	if fm, err := format.Source(src); err != nil || !bytes.Equal(fm, src) {
		return cgR(sx.A("notgofmt"))
	}
	structs := sx.L()
	for _, d := range f.Decls {
		gd, ok := d.(*ast.GenDecl)
		if !ok {
			return cgR(sx.A("unexpected"), sx.S("function declaration"))
		}
		switch gd.Tok {
		case token.IMPORT:
			continue
		case token.TYPE:
		default:
			return cgR(sx.A("unexpected"), sx.S(gd.Tok.String()+" declaration"))
		}
		for _, sp := range gd.Specs {
			ts := sp.(*ast.TypeSpec)
			st, ok := ts.Type.(*ast.StructType)
			if !ok || ts.TypeParams != nil || ts.Assign.IsValid() {
				return cgR(sx.A("unexpected"), sx.S("type "+ts.Name.Name+" is not a plain struct"))
			}
			fields := sx.L()
			for _, fl := range st.Fields.List {
				tag := ""
				if fl.Tag != nil {
					raw, err := strconv.Unquote(fl.Tag.Value)
					if err != nil {
						raw = fl.Tag.Value
					}
					if v, ok := reflect.StructTag(raw).Lookup("json"); ok && raw == `json:"`+v+`"` {
						tag = v
					} else {
						tag = "raw:" + raw
					}
				} else {
					tag = "raw:"
				}
				typ := types.ExprString(fl.Type)
				if len(fl.Names) == 0 { // embedded field: no name
					fields.Append(sx.L(sx.S(""), sx.S(typ), sx.S(tag)))
				}
				for _, nm := range fl.Names {
					fields.Append(sx.L(sx.S(nm.Name), sx.S(typ), sx.S(tag)))
				}
			}
			structs.Append(sx.L(sx.S(ts.Name.Name), fields))
		}
	}
	return cgR(sx.A("ok"), structs)
}

// ---- generation ----

// identifiers: prefixes of each other, upper/lower/underscore first bytes (byte order differs
// from case-insensitive order), leading underscores and digits (title-casing skips them), YAML
// words, Go predeclared names and Go keywords (as keys only).
var cgNamePool = []string{
	"a", "ab", "abc", "b", "B2", "x", "Z", "z", "zz", "id", "name", "kind", "metadata", "spec", "status",
	"ObjectMeta", "Connection", "connection_", "bearerToken", "qps", "burst", "kubeconfig", "URL", "url_path",
	"fooBar", "foo_bar", "foo1bar", "_foo", "__foo", "_9a", "_", "_1", "x_1a", "a1_b2", "A_b", "camelCaseName",
	"snake_case_name", "SCREAMING", "m", "M_", "k8s", "v1", "metav1", "null", "true", "y", "no", "string", "int64",
	"float64", "len", "nil", "any", "integer", "float", "ref", "list", "type", "range", "default", "func", "map",
	"aVeryLongIdentifierNameThatGoesOnAndOnAndOn_0123456789",
}

var cgGoKeywords = map[string]bool{"break": true, "case": true, "chan": true, "const": true, "continue": true,
	"default": true, "defer": true, "else": true, "fallthrough": true, "for": true, "func": true, "go": true,
	"goto": true, "if": true, "import": true, "interface": true, "map": true, "package": true, "range": true,
	"return": true, "select": true, "struct": true, "switch": true, "type": true, "var": true}

// every arcaflow type id except ref (handled separately) and map (a Go keyword: D46 cases only)
var cgTypeIDs = []string{"integer", "float", "string", "bool", "list", "object", "scope", "pattern", "any",
	"enum_string", "enum_integer", "one_of_string", "one_of_int"}

// cgTitle mirrors cases.Title(language.Und, cases.NoLower) on identifiers; used ONLY to keep
// two keys of one map from colliding after title-casing.
func cgTitle(s string) string {
	b := []byte(s)
	for i, c := range b {
		if c >= 'a' && c <= 'z' {
			b[i] = c - 32
			break
		}
		if c >= 'A' && c <= 'Z' {
			break
		}
	}
	return string(b)
}

func cgPickNames(r *Rng, n int) []string {
	used := map[string]bool{}
	var out []string
	for len(out) < n {
		s := pick(r, cgNamePool)
		if r.Chance(15) {
			s = s + strconv.Itoa(r.Intn(10))
		}
		if used[cgTitle(s)] {
			continue
		}
		used[cgTitle(s)] = true
		out = append(out, s)
	}
	return out
}

func cgGenProp(r *Rng, name string, objNames []string, keywordCase bool) cgProp {
	switch {
	case keywordCase && r.Chance(25):
		if r.Chance(80) {
			return cgProp{name, "map", ""}
		}
		return cgProp{name, "ref", pick(r, []string{"type", "func", "interface", "struct", "map", "chan"})}
	case r.Chance(30):
		// reference: mostly to an object of the document, sometimes dangling
		var id string
		if len(objNames) > 0 && r.Chance(80) {
			id = pick(r, objNames)
		} else {
			id = pick(r, cgNamePool)
		}
		if cgGoKeywords[id] {
			id = id + "_"
		}
		return cgProp{name, "ref", id}
	default:
		tid := pick(r, cgTypeIDs)
		rid := ""
		if tid == "object" && r.Chance(50) {
			rid = pick(r, cgNamePool) // inline object: has an id, which gen.go must NOT use
		}
		return cgProp{name, tid, rid}
	}
}

func cgGenCase(r *Rng, minObjs, minProps int, keywordCase bool) cgCase {
	nObj := minObjs + r.Intn(7-minObjs)
	names := cgPickNames(r, nObj)
	c := cgCase{}
	for _, on := range names {
		nProp := minProps + r.Intn(9-minProps)
		o := cgObj{name: on}
		for _, pn := range cgPickNames(r, nProp) {
			o.props = append(o.props, cgGenProp(r, pn, names, keywordCase))
		}
		c.objs = append(c.objs, o)
	}
	switch k := r.Intn(100); {
	case k < 45: // no ignore argument
	case k < 80 && nObj > 0:
		s := pick(r, names)
		c.ignore = &s
	case k < 90 && nObj > 0: // the title-cased spelling is NOT the key (unless they coincide)
		s := cgTitle(pick(r, names))
		c.ignore = &s
	default:
		s := pick(r, []string{"ObjectMeta", "nosuchobject", "x", "_"})
		c.ignore = &s
	}
	return c
}

func genCodegen(r *Rng, tier string, emit func(*sx.Node)) {
	str := func(s string) *string { return &s }
	both := func(objs []cgObj, ig string) {
		emit(cgCase{objs: objs}.sx())
		emit(cgCase{objs: objs, ignore: str(ig)}.sx())
	}
	// small fixed scope: empty document, empty object, every type id alone, gen_test.go's schemas
	both(nil, "ObjectMeta")
	both([]cgObj{{name: "Connection"}}, "ObjectMeta")
	both([]cgObj{{name: "Connection"}}, "Connection")
	for _, t := range cgTypeIDs {
		both([]cgObj{{name: "Connection", props: []cgProp{{"value", t, ""}}}}, "ObjectMeta")
	}
	both([]cgObj{{name: "Connection", props: []cgProp{{"metadata", "ref", "ObjectMeta"}}}}, "ObjectMeta")
	both([]cgObj{{name: "Connection", props: []cgProp{{"bearerToken", "string", ""}, {"qps", "float", ""}, {"burst", "integer", ""},
		{"metadata", "ref", "ObjectMeta"}}}, {name: "ObjectMeta", props: []cgProp{{"name", "string", ""}, {"namespace", "string", ""}}}}, "ObjectMeta")
	// a reference to objects called integer / float goes through the same type mapping
	both([]cgObj{{name: "integer"}, {name: "float"}, {name: "user", props: []cgProp{{"i", "ref", "integer"}, {"f", "ref", "float"}, {"o", "object", "integer"}}}}, "float")
	// byte order of keys: upper case < '_' < lower case; prefixes first
	both([]cgObj{{name: "b"}, {name: "_b"}, {name: "B2"}, {name: "ab"}, {name: "a"}, {name: "Z"}}, "a")
	// D46: the type id map is a Go keyword
	both([]cgObj{{name: "pod", props: []cgProp{{"labels", "map", ""}}}}, "pod")

	nRand, nKw := 420, 40
	if tier == "thorough" {
		nRand, nKw = 9000, 600
	}
	for i := 0; i < nRand; i++ {
		switch {
		case i%10 < 7: // map order matters: >= 3 objects with >= 3 properties each
			emit(cgGenCase(r, 3, 3, false).sx())
		case i%10 < 9:
			emit(cgGenCase(r, 0, 0, false).sx())
		default:
			emit(cgGenCase(r, 1, 5, false).sx())
		}
	}
	for i := 0; i < nKw; i++ {
		emit(cgGenCase(r, 1, 1, true).sx())
	}
}

func init() {
	families["codegen"] = &Family{Gen: genCodegen, Run: runCodegen}
}
