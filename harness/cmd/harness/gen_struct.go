package main

import (
	"fmt"
	"math"

	"go.flow.arcalot.io/pluginsdk/schema"
	"verif/harness/sx"
)

// Structured random generation: schemas (scopes with objects, one-ofs, references, lists,
// maps, every scalar kind), raw values generated FROM the schema (mostly valid, every
// representation), mutations of them, and native-form values for Validate / Serialize.

type sgen struct {
	r        *Rng
	objIDs   []string // object ids of the scope being generated (for refs)
	allowRef bool
	noObj    bool // inside a single-property object: no object-like property types (inline-cycle hazard is its own family)
	// multiRules (opt-in; the default streams stay as they are): rule lists (required_if / required_if_not / conflicts) of
	// 1..3 names in ANY order - the constructors keep the order they are given
	multiRules bool
	// richDefaults (opt-in; the default streams stay as they are): more than half of the properties have a default, and
	// CONTAINER-valued ones too - JSON lists / maps (nested) on `any`, non-empty lists and maps on list / map types: decoded
	// once into the object's default cache, they are the values every call that omits the property is handed
	richDefaults bool
}

// richDefaultFor: defaultFor plus container-valued defaults (nil: no default for this type).
func richDefaultFor(r *Rng, t *sx.Node) *string {
	if !t.IsList() && !t.IsStr && t.Atom == "any" {
		return sp(pick(r, []string{`[1,2,3]`, `["a",["b","c"],[]]`, `{"k":[1,2]}`, `{"a":{"b":[true,false]},"l":[1.5]}`, `[{"x":[1]},{"y":[]}]`,
			`[]`, `{}`, `"s"`, `5`, `[[1,2],[3]]`}))
	}
	if t.IsList() && t.Head() == "list" {
		it := t.List[1]
		switch {
		case it.IsList() && it.Head() == "int" && it.List[3].String() == none().String() && it.List[1].String() == none().String() && it.List[2].String() == none().String():
			return sp(pick(r, []string{`[1,2]`, `[]`, `[7]`}))
		case it.IsList() && it.Head() == "string" && it.List[1].String() == none().String() && it.List[2].String() == none().String() && it.List[3].String() == none().String():
			return sp(pick(r, []string{`["a","b"]`, `[]`}))
		case !it.IsList() && !it.IsStr && it.Atom == "any":
			return sp(pick(r, []string{`[[1,2],{"k":[3]}]`, `[1,"a"]`, `[]`}))
		}
		if len(t.List) > 2 && t.List[2].String() == none().String() {
			return sp("[]")
		}
		return nil
	}
	if t.IsList() && t.Head() == "map" {
		k, v := t.List[1], t.List[2]
		if k.IsList() && k.Head() == "string" && k.List[1].String() == none().String() && k.List[2].String() == none().String() && k.List[3].String() == none().String() &&
			!v.IsList() && !v.IsStr && v.Atom == "any" && t.List[3].String() == none().String() && t.List[4].String() == none().String() {
			return sp(pick(r, []string{`{"a":[1,2]}`, `{"a":{"b":[1]},"c":"d"}`, `{}`}))
		}
		return nil
	}
	return defaultFor(r, t)
}

// ruleNames: one name of the list, or - under multiRules - up to three distinct names in any order.
func (g *sgen) ruleNames(others []string) []string {
	r := g.r
	if !g.multiRules {
		return []string{pick(r, others)}
	}
	n := 1 + r.Intn(3)
	if n > len(others) {
		n = len(others)
	}
	pool := append([]string{}, others...)
	var out []string
	for i := 0; i < n; i++ {
		j := r.Intn(len(pool))
		out = append(out, pool[j])
		pool = append(pool[:j], pool[j+1:]...)
	}
	return out
}

var propNames = []string{"a", "b", "c", "d", "e", "name", "n", "xs", "m", "opt"}

func (g *sgen) scalar() *sx.Node {
	r := g.r
	switch r.Intn(9) {
	case 0:
		lo, hi := int64(r.Intn(20)-10), int64(r.Intn(40))
		switch r.Intn(4) {
		case 0:
			return dInt(nil, nil, nil)
		case 1:
			return dInt(&lo, nil, nil)
		case 2:
			return dInt(nil, &hi, nil)
		}
		return dInt(&lo, &hi, nil)
	case 1:
		lo, hi := float64(r.Intn(20)-10)+0.5, float64(r.Intn(40))+0.25
		if r.Bool() {
			return dFloat(nil, nil, nil)
		}
		return dFloat(&lo, &hi, nil)
	case 2:
		if r.Chance(30) {
			return dString(nil, nil, pick(r, patternPool))
		}
		if r.Bool() {
			return dString(nil, nil, nil)
		}
		return dString(ip(int64(r.Intn(3))), ip(int64(2+r.Intn(6))), nil)
	case 3:
		return dBool()
	case 4:
		if gp.edgeInts && r.Chance(20) {
			return dEnumInt([]int64{1, math.MaxInt64, math.MinInt64, 1<<53 + 1}, nil)
		}
		return dEnumInt([]int64{1, 2, int64(3 + r.Intn(5))}, nil)
	case 5:
		if r.Chance(25) {
			return dEnumStr(sp("MyStr"), []string{"x", "y", "zed"})
		}
		return dEnumStr(nil, []string{"x", "y", "zed"})
	case 6:
		if r.Chance(30) {
			return dPattern()
		}
		return dAny()
	case 7:
		u := unitsFromSDK(pick(r, []*schema.UnitsDefinition{schema.UnitDurationSeconds, schema.UnitBytes}))
		if r.Bool() {
			return dInt(ip(0), nil, &u)
		}
		return dFloat(fp(0), nil, &u)
	}
	return dInt(nil, nil, nil)
}

func (g *sgen) keyType() *sx.Node {
	switch g.r.Intn(4) {
	case 0:
		return dInt(nil, nil, nil)
	case 1:
		return dEnumStr(nil, []string{"x", "y", "zed"})
	case 2:
		return dEnumInt([]int64{1, 2, 3}, nil)
	}
	return dString(ip(1), nil, nil)
}

func (g *sgen) typ(depth int) *sx.Node {
	r := g.r
	if depth <= 0 {
		return g.scalar()
	}
	switch r.Intn(12) {
	case 0, 1:
		return dList(g.typ(depth-1), nil, ip(int64(2+r.Intn(3))))
	case 2:
		return dMap(g.keyType(), g.typ(depth-1), nil, ip(4))
	case 3:
		if g.noObj {
			return g.scalar()
		}
		return g.object(fmt.Sprintf("inl%d", r.Intn(1000)), depth-1)
	case 4:
		if g.allowRef && !g.noObj && len(g.objIDs) > 0 {
			return dRef(pick(r, g.objIDs), "")
		}
		return g.scalar()
	case 5:
		if g.allowRef && !g.noObj && len(g.objIDs) > 0 {
			return g.oneof(depth - 1)
		}
		return g.scalar()
	}
	return g.scalar()
}

func (g *sgen) oneof(depth int) *sx.Node {
	r := g.r
	intKeys := r.Bool()
	inlined := r.Chance(30)
	field := "kind"
	n := 1 + r.Intn(3)
	var ms []memberD
	var ikeys []int64
	var skeys []string
	for i := 0; i < n; i++ {
		ikeys, skeys = append(ikeys, int64(i+1)), append(skeys, string(rune('A'+i)))
	}
	if gp.oneofRich && gp.edgeInts && intKeys && r.Chance(15) {
		ikeys[n-1] = pick(r, []int64{math.MaxInt64, math.MinInt64, 1 << 53, -1, 0})
	}
	for i := 0; i < n; i++ {
		var t *sx.Node
		if !inlined && r.Bool() && len(g.objIDs) > 0 {
			t = dRef(pick(r, g.objIDs), "")
		} else {
			props := g.props(depth, 1+r.Intn(2), []string{"p", "q", "w"})
			if gp.oneofRich && r.Chance(45) {
				// an any-typed member property: the member's data-mode compatibility pre-check sees `any` data
				props = append(props, propD{name: "z", required: r.Chance(60), t: pick(r, []*sx.Node{dAny(), dAny(), dList(dAny(), nil, nil), dMap(dString(nil, nil, nil), dAny(), nil, nil)})})
			}
			if inlined {
				dt := dString(nil, nil, nil)
				if intKeys {
					dt = dInt(nil, nil, nil)
				}
				if gp.oneofRich {
					// every property type the constructor admits for an inlined discriminator (same reflected kind as the key)
					switch r.Intn(5) {
					case 0:
						if intKeys {
							dt = dEnumInt(ikeys, nil)
						} else {
							dt = dEnumStr(nil, skeys)
						}
					case 1:
						if intKeys {
							dt = dInt(ip(math.MinInt64), ip(math.MaxInt64), nil)
						} else {
							dt = dEnumStr(sp("MyStr"), skeys) // a NAMED string type
						}
					case 2:
						if !intKeys {
							dt = dString(ip(1), ip(8), nil)
						}
					}
				}
				props = append(props, propD{name: field, t: dt, required: r.Bool()})
			}
			t = dObject(fmt.Sprintf("mem%d", i), false, props...)
		}
		ms = append(ms, memberD{ikey: ikeys[i], skey: skeys[i], t: t})
	}
	return dOneOf(intKeys, field, inlined, ms...)
}

func (g *sgen) props(depth, n int, names []string) []propD {
	r := g.r
	var ps []propD
	used := map[string]bool{}
	for len(ps) < n {
		nm := pick(r, names)
		if used[nm] {
			continue
		}
		used[nm] = true
		saveNoObj := g.noObj
		if n == 1 {
			g.noObj = true
		}
		p := propD{name: nm, t: g.typ(depth)}
		g.noObj = saveNoObj
		ps = append(ps, p)
	}
	// presence rules over the chosen names
	for i := range ps {
		p := &ps[i]
		var others []string
		for j := range ps {
			if j != i {
				others = append(others, ps[j].name)
			}
		}
		switch r.Intn(8) {
		case 0, 1:
			p.required = true
		case 2:
			if len(others) > 0 {
				p.requiredIf = g.ruleNames(others)
			}
		case 3:
			if len(others) > 0 {
				p.requiredIfNot = g.ruleNames(others)
			}
		case 4:
			if len(others) > 0 {
				p.conflicts = g.ruleNames(others)
			}
		}
		if g.richDefaults {
			if r.Chance(25) {
				p.t = dAny() // more `any`-typed properties: the type whose defaults are arbitrary JSON containers
			}
			if r.Chance(60) {
				if p.dflt = richDefaultFor(r, p.t); p.dflt != nil {
					// a property with a default may be left out: no presence rule demands it
					p.required, p.requiredIf, p.requiredIfNot = false, nil, nil
				}
			}
		} else if r.Chance(15) {
			p.dflt = defaultFor(r, p.t)
		}
		if r.Chance(4) {
			p.disabled = true
		}
	}
	return ps
}

// defaultFor returns a JSON default text that is (usually) valid for the type.
func defaultFor(r *Rng, t *sx.Node) *string {
	switch {
	case !t.IsList() && t.Atom == "bool":
		return sp(pick(r, []string{"true", "false", "\"yes\""}))
	case !t.IsList():
		return nil
	}
	switch t.Head() {
	case "int":
		return sp(pick(r, []string{"5", "0", "\"7\"", "1000"}))
	case "float":
		return sp(pick(r, []string{"5.5", "1"}))
	case "string":
		return sp(pick(r, []string{"\"abc\"", "abc", "\"\""}))
	case "enum_str":
		return sp("\"x\"")
	case "enum_int":
		return sp("1")
	case "list":
		return sp("[]")
	}
	return nil
}

func (g *sgen) object(id string, depth int) *sx.Node {
	n := g.r.Intn(5)
	if g.r.Chance(10) {
		n = 1
	}
	return dObject(id, g.r.Chance(10), g.props(depth, n, propNames)...)
}

// scope generates a scope of 1-4 objects that may reference each other (also recursively).
func (g *sgen) scope(depth int) *sx.Node {
	n := 1 + g.r.Intn(4)
	g.objIDs = nil
	for i := 0; i < n; i++ {
		g.objIDs = append(g.objIDs, fmt.Sprintf("O%d", i))
	}
	g.allowRef = true
	var objs []*sx.Node
	for _, id := range g.objIDs {
		objs = append(objs, g.object(id, depth))
	}
	return dScope("O0", objs...)
}

// ---- raw values from a schema ----

type scopeCtx map[string]*sx.Node // object id -> object descriptor

func scopeTable(scopeN *sx.Node) scopeCtx {
	t := scopeCtx{}
	for _, o := range scopeN.List[1].List {
		t[o.List[0].Str] = o.List[1]
	}
	return t
}

func optI(n *sx.Node, dflt int64) int64 {
	if isNone(n) {
		return dflt
	}
	return n.Int()
}

func pickRepr(r *Rng, z int64) *sx.Node {
	rs := intReprs(z)
	if r.Chance(60) {
		return vI("i64", z)
	}
	return pick(r, rs)
}

// rawBoundPct: percentage of bounded numbers that rawFor puts exactly on one of their bounds (0 = off; set by
// the families that compare two schemas on the same inputs).
var rawBoundPct int

// rawFor generates a raw value the schema (probably) accepts.
func rawFor(r *Rng, t *sx.Node, sc scopeCtx, depth int) *sx.Node {
	if !t.IsList() {
		switch t.Atom {
		case "bool":
			return pick(r, []*sx.Node{vB(true), vB(false), vS("yes"), vS("Off"), vI("i64", 1), vU("u64", 0)})
		case "pattern":
			return vS(pick(r, []string{"a+", "^x$", "[0-9]*"}))
		case "any":
			if gp.anyTyped && r.Chance(40) {
				return anyTypedValue(r, 2)
			}
			if gp.anyDirty && r.Chance(30) {
				return anyValue(r, 2, 4+r.Intn(2)) // a list or a map at the top
			}
			if gp.anyDeep && r.Chance(60) {
				return anyValue(r, 2, -1)
			}
			return pick(r, []*sx.Node{vI("i64", 3), vU("u64", 3), vS("s"), vF("f64", 1.5), vB(true), vSl(tAnySlice, vI("i64", 1), vI("i64", 2)),
				vM(tAnyMap, vS("k"), vI("u64", 1)), vM(tStrMap, vS("k"), vSl(tAnySlice, vS("x")))})
		}
	}
	switch t.Head() {
	case "int":
		if gp.unitEdges && !isNone(t.List[3]) && r.Chance(35) {
			return vS(unitString(r, unitsFromSx(t.List[3])))
		}
		if !isNone(t.List[3]) && r.Chance(50) {
			return vS(pick(r, []string{"1m", "90", "2 m 5 s", "1kB", "1 kilobyte"}))
		}
		if gp.edgeInts && r.Chance(10) {
			if z, ok := edgeInt(r, optI(t.List[1], math.MinInt64), optI(t.List[2], math.MaxInt64)); ok {
				return edgeRepr(r, z)
			}
		}
		lo, hi := optI(t.List[1], -20), optI(t.List[2], 60)
		if hi < lo {
			return vI("i64", lo)
		}
		if rawBoundPct > 0 && r.Chance(rawBoundPct) { // exactly at a declared bound (bounds are inclusive)
			if !isNone(t.List[2]) && (isNone(t.List[1]) || r.Bool()) {
				return pickRepr(r, hi)
			}
			if !isNone(t.List[1]) {
				return pickRepr(r, lo)
			}
		}
		return pickRepr(r, lo+int64(r.Intn(int(hi-lo+1))))
	case "float":
		if gp.unitEdges && !isNone(t.List[3]) && r.Chance(35) {
			u := unitsFromSx(t.List[3])
			if r.Chance(30) {
				return vS(genWellFormedFloat(r, u))
			}
			return vS(unitString(r, u))
		}
		if !isNone(t.List[3]) && r.Chance(50) {
			return vS(pick(r, []string{"1m", "1.5", "1m0.5s", "2kB"}))
		}
		lo, hi := -10.0, 40.0
		if !isNone(t.List[1]) {
			lo = flFromSx(t.List[1])
		}
		if !isNone(t.List[2]) {
			hi = flFromSx(t.List[2])
		}
		x := lo + float64(r.Intn(1000))/1000*(hi-lo)
		if rawBoundPct > 0 && r.Chance(rawBoundPct) { // exactly at a declared bound (bounds are inclusive)
			if !isNone(t.List[2]) && (isNone(t.List[1]) || r.Bool()) {
				return vF("f64", hi)
			}
			if !isNone(t.List[1]) {
				return vF("f64", lo)
			}
		}
		switch r.Intn(5) {
		case 0:
			return vS(fmtG(x))
		case 1:
			return pickRepr(r, int64(math.Ceil(lo)))
		case 2:
			return vF("f32", float64(float32(x)))
		}
		return vF("f64", x)
	case "string":
		if !isNone(t.List[3]) {
			return vS(pick(r, []string{"abc", "123", "ab", "foo", "c", "ac", "Abc_1", "zzz"}))
		}
		lo, hi := optI(t.List[1], 0), optI(t.List[2], 6)
		if hi-lo > 1000 || hi-lo < 0 { // a bound near MaxInt64: stay near the minimum
			hi = lo + 3
		}
		n := lo
		if hi > lo {
			n += int64(r.Intn(int(hi - lo + 1)))
		}
		if gp.utf8Strings && n >= 1 && r.Chance(25) {
			return vS(utf8String(r, n)) // n RUNES: the byte length may pass a declared maximum
		}
		if r.Chance(15) && n >= 1 && n <= 3 {
			return vI("i64", int64(math.Pow10(int(n)-1)))
		}
		b := make([]byte, n)
		for i := range b {
			b[i] = byte('a' + r.Intn(26))
		}
		return vS(string(b))
	case "enum_int":
		vals := t.List[1].List
		if len(vals) == 0 {
			return vI("i64", 0)
		}
		return pickRepr(r, pick(r, vals).List[0].Int())
	case "enum_str":
		vals := t.List[2].List
		if len(vals) == 0 {
			return vS("")
		}
		return vS(pick(r, vals).List[0].Str)
	case "list":
		lo, hi := optI(t.List[2], 0), optI(t.List[3], 3)
		if hi-lo > 1000 || hi-lo < 0 {
			hi = lo + 3
		}
		n := lo
		if hi > lo {
			n += int64(r.Intn(int(hi - lo + 1)))
		}
		var items []*sx.Node
		for i := int64(0); i < n; i++ {
			items = append(items, rawFor(r, t.List[1], sc, depth-1))
		}
		return vSl(tAnySlice, items...)
	case "map":
		n := r.Intn(3)
		mt := tAnyMap
		if r.Chance(30) && (t.List[1].Head() == "string" || t.List[1].Head() == "enum_str") {
			mt = tStrMap
		}
		seen := map[string]bool{}
		var kv []*sx.Node
		for i := 0; i < n; i++ {
			k := rawFor(r, t.List[1], sc, depth-1)
			key := mapKeyIdentity(k)
			if seen[key] {
				continue
			}
			seen[key] = true
			if mt == tStrMap && k.Head() != "s" {
				continue
			}
			kv = append(kv, k, rawFor(r, t.List[2], sc, depth-1))
		}
		return vM(mt, kv...)
	case "object":
		props := t.List[3].List
		if len(props) == 1 && r.Chance(25) {
			pt := props[0].List[1].List[1]
			h := pt.Head()
			if h != "map" && h != "object" && h != "oneof" && h != "ref" && h != "scope" {
				return rawFor(r, pt, sc, depth-1) // single-property shorthand
			}
		}
		mt := tAnyMap
		if r.Bool() {
			mt = tStrMap
		}
		var kv []*sx.Node
		for _, p := range props {
			pn := p.List[1]
			required := pn.List[3].Atom == "1"
			if !(required || r.Chance(55)) || depth <= 0 && !required {
				continue
			}
			kv = append(kv, vS(p.List[0].Str), rawFor(r, pn.List[1], sc, depth-1))
		}
		return vM(mt, kv...)
	case "ref":
		if o, ok := sc[t.List[1].Str]; ok && depth > -3 {
			return rawFor(r, o, sc, depth-1)
		}
		return vM(tAnyMap)
	case "scope":
		inner := scopeTable(t)
		return rawFor(r, inner[t.List[2].Str], inner, depth-1)
	case "oneof":
		ms := t.List[2].List
		m := pick(r, ms)
		body := rawFor(r, m.List[1], sc, depth-1)
		if body.Head() != "m" {
			body = vM(tAnyMap)
		}
		field := t.List[3].Str
		var d *sx.Node
		if t.List[1].Atom == "1" {
			d = pick(r, intReprs(m.List[0].Int()))
		} else {
			d = vS(m.List[0].Str)
		}
		// replace or add the discriminator entry
		out := sx.L(body.List[0], body.List[1], body.List[2])
		for _, e := range body.List[3:] {
			if e.List[0].Head() == "s" && e.List[0].List[2].Str == field {
				continue
			}
			out.Append(e)
		}
		out.Append(sx.L(vS(field), d))
		return out
	}
	return vNil()
}

// mapKeyIdentity: two raw keys that denote the same unserialized key collide (D19); the
// generator keeps keys distinct after conversion.
func mapKeyIdentity(k *sx.Node) string {
	switch k.Head() {
	case "i":
		return k.List[2].Atom
	case "s":
		return k.List[2].Str
	case "f":
		return fmt.Sprintf("%d", int64(flFromSx(k.List[2])))
	}
	return k.String()
}

// ---- mutations ----

var wrongValues = []*sx.Node{vNil(), vS("wrong!"), vI("i64", -12345), vF("f64", 1e300), vB(true), vSl(tAnySlice, vNil()), vM(tAnyMap, vI("i64", 1), vS("x")),
	vM(sx.L(sx.A("map"), sx.A("i64"), sx.A("any")), vI("i64", 1), vS("x")), vU("u64", math.MaxUint64), vF("f64", math.NaN()),
	vNamed("s", "MyStr", "str", sx.S("x")), sx.L(sx.A("op"), sx.A("struct"), sx.S("cbor.Tag")), vSl(sx.L(sx.A("slice"), sx.A("u8")), vI("u8", 65))}

var wrongKeys = []*sx.Node{vNil(), vS("wrong!"), vI("i64", -12345), vF("f64", 1.5), vB(true), vU("u64", math.MaxUint64), vNamed("s", "MyStr", "str", sx.S("x")), vI("i32", 7)}

// mutate replaces one random node of the value tree, drops a map entry, or adds an entry.
func mutate(r *Rng, v *sx.Node) *sx.Node {
	if !v.IsList() {
		return pick(r, wrongValues)
	}
	h := v.Head()
	// a container with a concrete element type (gp.anyTyped: []int8, map[string]int64 ...) cannot hold an arbitrary
	// value: one of its entries is dropped, or the container as a whole is replaced
	typed := (h == "sl" || h == "m") && !elemAny(v.List[1])
	if (h == "sl" || h == "m") && len(v.List) > 3 && r.Chance(70) {
		i := 3 + r.Intn(len(v.List)-3)
		out := sx.L(v.List[:i]...)
		switch {
		case typed: // drop the entry / the element
		case h == "m" && r.Chance(25): // drop the entry
		case h == "m":
			e := v.List[i]
			if r.Chance(20) && v.List[1].String() == tAnyMap.String() { // a different key: keys must stay hashable
				out.Append(sx.L(pick(r, wrongKeys), e.List[1]))
			} else {
				out.Append(sx.L(e.List[0], mutate(r, e.List[1])))
			}
		default:
			out.Append(mutate(r, v.List[i]))
		}
		out.Append(v.List[i+1:]...)
		return out
	}
	if typed {
		return pick(r, wrongValues)
	}
	if h == "m" && r.Chance(50) {
		out := sx.L(v.List...)
		k := pick(r, []string{"zz", "a", "kind", "b"})
		for _, e := range v.List[3:] { // keys of a Go map are unique
			if e.List[0].Head() == "s" && e.List[0].List[2].Str == k {
				return pick(r, wrongValues)
			}
		}
		return out.Append(sx.L(vS(k), pick(r, wrongValues)))
	}
	if h == "sl" && r.Chance(50) {
		out := sx.L(v.List...)
		for i := 0; i < 1+r.Intn(4); i++ {
			out.Append(pick(r, wrongValues))
		}
		return out
	}
	return pick(r, wrongValues)
}

func init() {
	families["structured"] = &Family{
		Label: "schema",
		Gen: withProfile(genProfile{edgeInts: true, utf8Strings: true, unitEdges: true, anyDeep: true}, func(r *Rng, tier string, emit func(*sx.Node)) {
			n := 350
			if tier == "thorough" {
				n = 6000
			}
			for i := 0; i < n; i++ {
				g := &sgen{r: r}
				depth := 1 + r.Intn(3)
				var s *sx.Node
				var sc scopeCtx
				if r.Chance(75) {
					s = g.scope(depth)
					sc = scopeTable(s)
				} else {
					s = g.typ(depth)
					sc = scopeCtx{}
				}
				var ops []*sx.Node
				for j := 0; j < 6; j++ {
					v := rawFor(r, s, sc, depth+1)
					ops = append(ops, op("rt", v), op("c", v))
					if r.Chance(60) {
						m := mutate(r, v)
						ops = append(ops, op("rt", m), op("c", m), op("v", m), op("s", m))
					}
				}
				emit(schCase(nil, s, ops...))
			}
		}),
		Run: runSchemaCase,
	}
}
