package main

import (
	"encoding/json"
	"fmt"
	"math"
	"regexp"

	"verif/harness/sx"
)

// ---- descriptor constructors ----

func dOptI(p *int64) *sx.Node {
	if p == nil {
		return none()
	}
	return sx.I(*p)
}
func dOptF(p *float64) *sx.Node {
	if p == nil {
		return none()
	}
	return flSx(*p)
}
func dOptS(p *string) *sx.Node {
	if p == nil {
		return none()
	}
	return sx.S(*p)
}
func dOptU(u *unitsD) *sx.Node {
	if u == nil {
		return none()
	}
	return u.sx()
}
func ip(v int64) *int64     { return &v }
func fp(v float64) *float64 { return &v }
func sp(v string) *string   { return &v }

func dInt(mn, mx *int64, u *unitsD) *sx.Node { return sx.L(sx.A("int"), dOptI(mn), dOptI(mx), dOptU(u)) }
func dFloat(mn, mx *float64, u *unitsD) *sx.Node {
	return sx.L(sx.A("float"), dOptF(mn), dOptF(mx), dOptU(u))
}
func dString(mn, mx *int64, pat *sx.Node) *sx.Node {
	p := none()
	if pat != nil {
		p = sx.L(sx.A("pat"), sx.S(reSrc(pat)), pat)
	}
	return sx.L(sx.A("string"), dOptI(mn), dOptI(mx), p)
}
func dBool() *sx.Node    { return sx.A("bool") }
func dPattern() *sx.Node { return sx.A("pattern") }
func dAny() *sx.Node     { return sx.A("any") }
func dEnumInt(vals []int64, u *unitsD) *sx.Node {
	l := sx.L()
	for _, v := range vals {
		l.Append(sx.L(sx.I(v), none()))
	}
	return sx.L(sx.A("enum_int"), l, dOptU(u))
}
func dEnumStr(named *string, vals []string) *sx.Node {
	l := sx.L()
	for _, v := range vals {
		l.Append(sx.L(sx.S(v), none()))
	}
	return sx.L(sx.A("enum_str"), dOptS(named), l)
}
func dList(it *sx.Node, mn, mx *int64) *sx.Node { return sx.L(sx.A("list"), it, dOptI(mn), dOptI(mx)) }
func dMap(k, v *sx.Node, mn, mx *int64) *sx.Node {
	return sx.L(sx.A("map"), k, v, dOptI(mn), dOptI(mx))
}

type propD struct {
	name                       string
	t                          *sx.Node
	required                   bool
	requiredIf, requiredIfNot  []string
	conflicts                  []string
	dflt                       *string
	emptyIsDefault, disabled   bool
	noReason                   bool // disabled WITHOUT a reason (Disabled=true, DisabledReason=nil: a struct literal or a rebuilt schema)
	disp                       *sx.Node // display value (disp NAME DESC ICON); nil = none
}

func strsSx(l []string) *sx.Node {
	n := sx.L()
	for _, s := range l {
		n.Append(sx.S(s))
	}
	return n
}
func (p propD) sx() *sx.Node {
	reason := none()
	if p.disabled && !p.noReason {
		reason = sx.S("off")
	}
	disp := none()
	if p.disp != nil {
		disp = p.disp
	}
	return sx.L(sx.S(p.name), sx.L(sx.A("prop"), p.t, disp, sx.B(p.required), strsSx(p.requiredIf), strsSx(p.requiredIfNot),
		strsSx(p.conflicts), dOptS(p.dflt), sx.L(), sx.B(p.emptyIsDefault), sx.B(p.disabled), reason))
}
func dObject(id string, unenforced bool, props ...propD) *sx.Node {
	l := sx.L()
	for _, p := range props {
		l.Append(p.sx())
	}
	return sx.L(sx.A("object"), sx.S(id), sx.B(unenforced), l)
}
func dRef(id, ns string) *sx.Node { return sx.L(sx.A("ref"), sx.S(id), sx.S(ns), none()) }
func dScope(root string, objs ...*sx.Node) *sx.Node {
	l := sx.L()
	for _, o := range objs {
		l.Append(sx.L(o.List[1], o))
	}
	return sx.L(sx.A("scope"), l, sx.S(root))
}

type memberD struct {
	ikey int64
	skey string
	t    *sx.Node
}

func dOneOf(intKeys bool, field string, inlined bool, members ...memberD) *sx.Node {
	l := sx.L()
	for _, m := range members {
		if intKeys {
			l.Append(sx.L(sx.I(m.ikey), m.t))
		} else {
			l.Append(sx.L(sx.S(m.skey), m.t))
		}
	}
	return sx.L(sx.A("oneof"), sx.B(intKeys), l, sx.S(field), sx.B(inlined))
}

// ---- regular expression ASTs (the modelled subset) ----
func rChr(c byte) *sx.Node { return sx.L(sx.A("chr"), sx.I(int64(c))) }
func rCat(a ...*sx.Node) *sx.Node {
	if len(a) == 0 {
		return sx.A("eps")
	}
	if len(a) == 1 {
		return a[0]
	}
	return sx.L(sx.A("cat"), a[0], rCat(a[1:]...))
}
func rAlt(a, b *sx.Node) *sx.Node { return sx.L(sx.A("alt"), a, b) }
func rStar(a *sx.Node) *sx.Node   { return sx.L(sx.A("star"), a) }
func rPlus(a *sx.Node) *sx.Node   { return rCat(a, rStar(a)) }
func rCls(neg bool, ranges ...[2]byte) *sx.Node {
	l := sx.L()
	for _, r := range ranges {
		l.Append(sx.L(sx.I(int64(r[0])), sx.I(int64(r[1]))))
	}
	return sx.L(sx.A("cls"), sx.B(neg), l)
}
func rLit(s string) *sx.Node {
	var parts []*sx.Node
	for i := 0; i < len(s); i++ {
		parts = append(parts, rChr(s[i]))
	}
	return rCat(parts...)
}

var rBol, rEol, rAnyC = sx.A("bol"), sx.A("eol"), sx.A("any")

var patternPool = []*sx.Node{
	rCat(rBol, rPlus(rCls(false, [2]byte{'a', 'z'})), rEol),                                   // ^[a-z]+$
	rCat(rBol, rPlus(rCls(false, [2]byte{'0', '9'})), rEol),                                   // ^[0-9]+$
	rCat(rBol, rCls(false, [2]byte{'a', 'z'}, [2]byte{'A', 'Z'}), rStar(rCls(false, [2]byte{'a', 'z'}, [2]byte{'0', '9'}, [2]byte{'_', '_'})), rEol),
	rLit("ab"),                                                                                // unanchored
	rCat(rBol, rAlt(rLit("foo"), rLit("ba")), rStar(rAnyC)),                                   // ^(?:foo|ba).*
	rCat(rStar(rCls(true, [2]byte{'x', 'x'})), rEol),                                          // [^x]*$
	rCat(rBol, rStar(rAlt(rLit("a"), rLit("ab"))), rLit("c"), rEol),                           // ^(?:a|ab)*c$
}

// ---- value constructors ----
var tAnySlice = sx.L(sx.A("slice"), sx.A("any"))
var tAnyMap = sx.L(sx.A("map"), sx.A("any"), sx.A("any"))
var tStrMap = sx.L(sx.A("map"), sx.A("str"), sx.A("any"))

func vNil() *sx.Node                     { return sx.A("nil") }
func vI(t string, z int64) *sx.Node      { return sx.L(sx.A("i"), sx.A(t), sx.I(z)) }
func vU(t string, z uint64) *sx.Node     { return sx.L(sx.A("i"), sx.A(t), sx.U(z)) }
func vF(t string, f float64) *sx.Node    { return sx.L(sx.A("f"), sx.A(t), flSx(f)) }
func vS(s string) *sx.Node               { return sx.L(sx.A("s"), sx.A("str"), sx.S(s)) }
func vB(b bool) *sx.Node                 { return sx.L(sx.A("b"), sx.A("bool"), sx.B(b)) }
func vNamed(kind, name string, under string, payload *sx.Node) *sx.Node {
	return sx.L(sx.A(kind), sx.L(sx.A("named"), sx.S(name), sx.A(under)), payload)
}
func vSl(t *sx.Node, items ...*sx.Node) *sx.Node {
	n := sx.L(sx.A("sl"), t, sx.A("0"))
	return n.Append(items...)
}
func vM(t *sx.Node, kv ...*sx.Node) *sx.Node {
	n := sx.L(sx.A("m"), t, sx.A("0"))
	for i := 0; i+1 < len(kv); i += 2 {
		n.Append(sx.L(kv[i], kv[i+1]))
	}
	return n
}
func op(kind string, v *sx.Node) *sx.Node { return sx.L(sx.A(kind), v) }

var intKinds = []string{"i0", "i8", "i16", "i32", "i64", "u0", "u8", "u16", "u32", "u64"}

func kindRange(k string) (lo, hi float64) {
	switch k {
	case "i8":
		return -128, 127
	case "i16":
		return -32768, 32767
	case "i32":
		return -2147483648, 2147483647
	case "i0", "i64":
		return -9223372036854775808, 9223372036854775807
	case "u8":
		return 0, 255
	case "u16":
		return 0, 65535
	case "u32":
		return 0, 4294967295
	}
	return 0, 18446744073709551615
}

// intReprs: every Go representation of the integer z a decoder may hand over.
func intReprs(z int64) []*sx.Node {
	var out []*sx.Node
	for _, k := range intKinds {
		lo, hi := kindRange(k)
		if float64(z) >= lo && float64(z) <= hi && !(k[0] == 'u' && z < 0) {
			out = append(out, vI(k, z))
		}
	}
	f := float64(z)
	if int64(f) == z && math.Abs(f) < 9.3e18 {
		out = append(out, vF("f64", f))
		if float64(float32(f)) == f {
			out = append(out, vF("f32", f))
		}
	}
	out = append(out, vS(fmt.Sprintf("%d", z)))
	return out
}

// ---- env: oracle tables recorded from the real libraries ----

func collectDefaults(n *sx.Node, out map[string]bool) {
	if !n.IsList() {
		return
	}
	if n.Head() == "prop" && len(n.List) == 12 && !isNone(n.List[7]) {
		out[n.List[7].Str] = true
	}
	for _, c := range n.List {
		collectDefaults(c, out)
	}
}
func hasPattern(n *sx.Node) bool {
	if !n.IsList() {
		return !n.IsStr && n.Atom == "pattern"
	}
	for _, c := range n.List {
		if hasPattern(c) {
			return true
		}
	}
	return false
}
func collectLeafStrings(n *sx.Node, out map[string]bool) {
	if !n.IsList() {
		return
	}
	switch n.Head() {
	case "s":
		out[n.List[2].Str] = true
		return
	case "i":
		out[n.List[2].Atom] = true
		return
	case "f":
		out[fmt.Sprintf("%f", flFromSx(n.List[2]))] = true
		return
	case "re":
		// a native *regexp.Regexp: Serialize prints its source, which a later Unserialize (op sr) compiles again
		if len(n.List) == 2 && n.List[1].IsStr {
			out[n.List[1].Str] = true
		}
		return
	}
	for _, c := range n.List {
		collectLeafStrings(c, out)
	}
}

// jsonDecoded decodes a default text with encoding/json exactly as the SDK does.
func jsonDecoded(txt string) *sx.Node {
	var v any
	if err := json.Unmarshal([]byte(txt), &v); err != nil {
		return sx.A("fail")
	}
	return valSx(v)
}

// mkEnv computes the env of a case: external namespaces plus the oracle tables.
func mkEnv(ext *sx.Node, schemaN *sx.Node, ops []*sx.Node) *sx.Node {
	if ext == nil {
		ext = sx.L()
	}
	js := sx.L()
	defaults := map[string]bool{}
	collectDefaults(schemaN, defaults)
	collectDefaults(ext, defaults)
	for _, txt := range sortedKeys(defaults) {
		js.Append(sx.L(sx.S(txt), jsonDecoded(txt)))
		q := "\"" + txt + "\""
		js.Append(sx.L(sx.S(q), jsonDecoded(q)))
	}
	rs := sx.L()
	if hasPattern(schemaN) || hasPattern(ext) {
		strs := map[string]bool{}
		for _, o := range ops {
			collectLeafStrings(o.List[1], strs)
		}
		for _, txt := range sortedKeys(defaults) { // defaults may reach a pattern property
			var v any
			if json.Unmarshal([]byte(txt), &v) == nil {
				collectLeafStrings(valSx(v), strs)
			}
		}
		for _, s := range sortedKeys(strs) {
			_, err := regexp.Compile(s)
			rs.Append(sx.L(sx.S(s), sx.B(err == nil)))
		}
	}
	return sx.L(sx.A("env"), sx.L(sx.A("ext"), ext), sx.L(sx.A("json"), js), sx.L(sx.A("reok"), rs))
}

func sortedKeys(m map[string]bool) []string {
	var ks []string
	for k := range m {
		ks = append(ks, k)
	}
	for i := 1; i < len(ks); i++ {
		for j := i; j > 0 && ks[j] < ks[j-1]; j-- {
			ks[j], ks[j-1] = ks[j-1], ks[j]
		}
	}
	return ks
}

func schCase(ext *sx.Node, schemaN *sx.Node, ops ...*sx.Node) *sx.Node {
	l := sx.L(sx.A("ops"))
	l.Append(ops...)
	return sx.L(sx.A("sch"), mkEnv(ext, schemaN, ops), schemaN, l)
}

// emitBatched splits a long op list over several cases of the same schema.
func emitBatched(emit func(*sx.Node), ext, schemaN *sx.Node, ops []*sx.Node, batch int) {
	for i := 0; i < len(ops); i += batch {
		j := i + batch
		if j > len(ops) {
			j = len(ops)
		}
		emit(schCase(ext, schemaN, ops[i:j]...))
	}
}
