// C07 — the ATP server against a scripted client (DESIGN §4.3 "scripted peer", §5 C07).
//
// A case is a SCRIPT of client / environment actions executed one after the other against the
// REAL atp.RunATPServer; after every action the runner waits for quiescence (every goroutine of
// the process other than the runner is blocked in the runtime), so the order of "end of input"
// versus "step completion" is exactly the order written in the script.
//
//	case    ::= (script [burst] action*)   ; burst: the actions are performed without waiting in between
//	action  ::= start                       ; the empty start message
//	          | (ws RUN STEP TOK BEH SLOW)  ; work-start; RUN ::= "id" | norun (key omitted)
//	          | (wsbad RUN)                 ; work-start whose data is not a map
//	          | (sig RUN SIGID DATAOK)      ; signal, data accepted (1) / rejected (0) by the data schema
//	          | (sigbad RUN)                ; signal whose data is not a map
//	          | (sigv RUN SIGID VALUE)      ; signal "sig" / "stop" / "two" whose data field is VALUE (a value of values.go,
//	                                        ; or `absent`: no data field at all) - nil, scalars, lists, maps: whether the
//	                                        ; signal's data schema takes it is for the model (Schema/Ops.v) to say
//	          | (wsv RUN STEP TOK VALUE)    ; work-start of step "z" (input: an object WITHOUT properties) or "o" (input: an
//	                                        ; object with the ONE property tok) whose config is VALUE | absent
//	          | (unk MSGID RUN)             ; a message id the server does not know
//	          | done                        ; client-done
//	          | (garbage KIND)              ; bytes that are not a runtime message
//	          | (cut action K)              ; the first K bytes of a message, then end of input
//	          | eof                         ; end of input on a message boundary
//	          | (release TOK)               ; let the slow step with token TOK finish
//	          | cancel                      ; cancel the context handed to RunATPServer
//	          | closeout                    ; the client closes its end of the server's output
//	BEH     ::= ok | errout | undecl | invalid | panic | badinput
//	obs     ::= (r returned|running (errs (RUN SF VF)*) (out item*))       ; both lists sorted
//	item    ::= hello | (done RUN OUTPUT) | (err RUN SF VF) | (other ID)
//
// A panic in a goroutine without recover or "send on closed channel" kills the worker process:
// main.go's supervision turns that into `crash`.
package main

import (
	"bytes"
	"context"
	"fmt"
	"io"
	"runtime"
	"sort"
	"strings"
	"sync"
	"time"

	"github.com/fxamacker/cbor/v2"
	"go.flow.arcalot.io/pluginsdk/atp"
	"go.flow.arcalot.io/pluginsdk/schema"

	"verif/harness/sx"
)

// ---------------------------------------------------------------------------------------
// an OS-pipe-like transport: writes never block (kernel buffer), reads block until data or end
// ---------------------------------------------------------------------------------------

type bufPipe struct {
	mu      sync.Mutex
	cond    *sync.Cond
	buf     []byte
	wclosed bool // writer closed: EOF after the buffer is drained
	rclosed bool // reader closed: reads and writes fail
}

func newBufPipe() *bufPipe {
	p := &bufPipe{}
	p.cond = sync.NewCond(&p.mu)
	return p
}

type bufPipeReader struct{ p *bufPipe }
type bufPipeWriter struct{ p *bufPipe }

func (r bufPipeReader) Read(b []byte) (int, error) {
	p := r.p
	p.mu.Lock()
	defer p.mu.Unlock()
	for {
		if p.rclosed {
			return 0, io.ErrClosedPipe
		}
		if len(p.buf) > 0 {
			n := copy(b, p.buf)
			p.buf = p.buf[n:]
			return n, nil
		}
		if p.wclosed {
			return 0, io.EOF
		}
		p.cond.Wait()
	}
}
func (r bufPipeReader) Close() error {
	p := r.p
	p.mu.Lock()
	p.rclosed = true
	p.mu.Unlock()
	p.cond.Broadcast()
	return nil
}
func (w bufPipeWriter) Write(b []byte) (int, error) {
	p := w.p
	p.mu.Lock()
	defer p.mu.Unlock()
	if p.rclosed || p.wclosed {
		return 0, io.ErrClosedPipe
	}
	p.buf = append(p.buf, b...)
	p.cond.Broadcast()
	return len(b), nil
}
func (w bufPipeWriter) Close() error {
	p := w.p
	p.mu.Lock()
	p.wclosed = true
	p.mu.Unlock()
	p.cond.Broadcast()
	return nil
}

// ---------------------------------------------------------------------------------------
// quiescence: every goroutine except the caller is blocked in the runtime
// ---------------------------------------------------------------------------------------

var blockedStates = []string{"chan receive", "chan send", "select", "IO wait", "sync.Mutex.Lock", "sync.Cond.Wait",
	"semacquire", "sync.WaitGroup.Wait", "sync.RWMutex.Lock", "sync.RWMutex.RLock"}

var stackBuf = make([]byte, 4<<20)

func allBlocked() (bool, int) {
	n := runtime.Stack(stackBuf, true)
	blocks := strings.Split(string(stackBuf[:n]), "\n\n")
	for i, b := range blocks {
		if i == 0 { // the calling goroutine
			continue
		}
		if !strings.HasPrefix(b, "goroutine ") {
			continue
		}
		lb := strings.IndexByte(b, '[')
		rb := strings.IndexByte(b, ']')
		if lb < 0 || rb < lb {
			return false, len(blocks)
		}
		st := b[lb+1 : rb]
		if c := strings.IndexByte(st, ','); c >= 0 {
			st = st[:c]
		}
		ok := false
		for _, s := range blockedStates {
			if st == s {
				ok = true
			}
		}
		if !ok {
			return false, len(blocks)
		}
	}
	return true, len(blocks)
}

// waitQuiescent returns false when the process does not come to rest within the backstop. The backstop
// counts polls (about 8 s of this process actually running), not wall-clock time: a stall of the whole
// machine must not look like a server that never comes to rest.
func waitQuiescent() bool {
	seen := 0
	d := 20 * time.Microsecond
	for polls := 0; polls < 9000; polls++ {
		runtime.Gosched()
		if ok, _ := allBlocked(); ok {
			seen++
			if seen >= 2 {
				return true
			}
		} else {
			seen = 0
		}
		time.Sleep(d)
		if d < time.Millisecond {
			d *= 2
		}
	}
	return false
}

// ---------------------------------------------------------------------------------------
// the plugin under the server: behaviour and timing come from the work-start's config
// ---------------------------------------------------------------------------------------

type c07Gates struct {
	mu  sync.Mutex
	m   map[int64]chan struct{}
	all bool // teardown: every gate is open
}

func (g *c07Gates) get(tok int64) chan struct{} {
	g.mu.Lock()
	defer g.mu.Unlock()
	c, ok := g.m[tok]
	if !ok {
		c = make(chan struct{})
		if g.all {
			close(c)
		}
		g.m[tok] = c
	}
	return c
}
func (g *c07Gates) release(tok int64) {
	c := g.get(tok)
	g.mu.Lock()
	defer g.mu.Unlock()
	select {
	case <-c:
	default:
		close(c)
	}
}

func (g *c07Gates) releaseAll() {
	g.mu.Lock()
	defer g.mu.Unlock()
	g.all = true
	for _, c := range g.m {
		select {
		case <-c:
		default:
			close(c)
		}
	}
}

type c07StepData struct{ signals int }

func c07Plugin(g *c07Gates) *schema.CallableSchema {
	intP := func() *schema.PropertySchema {
		return schema.NewPropertySchema(schema.NewIntSchema(nil, nil, nil), nil, true, nil, nil, nil, nil, nil)
	}
	in := schema.NewScopeSchema(schema.NewObjectSchema("in", map[string]*schema.PropertySchema{
		"tok":  intP(),
		"beh":  schema.NewPropertySchema(schema.NewStringSchema(nil, nil, nil), nil, true, nil, nil, nil, nil, nil),
		"slow": schema.NewPropertySchema(schema.NewBoolSchema(), nil, true, nil, nil, nil, nil, nil),
	}))
	okOut := schema.NewScopeSchema(schema.NewObjectSchema("okout", map[string]*schema.PropertySchema{"v": intP()}))
	errOut := schema.NewScopeSchema(schema.NewObjectSchema("errout", map[string]*schema.PropertySchema{
		"msg": schema.NewPropertySchema(schema.NewStringSchema(nil, nil, nil), nil, true, nil, nil, nil, nil, nil)}))
	sigData := schema.NewScopeSchema(schema.NewObjectSchema("sigdata", map[string]*schema.PropertySchema{"n": intP()}))
	sig := schema.NewCallableSignal[*c07StepData, map[string]any]("sig", sigData, nil,
		func(_ context.Context, sd *c07StepData, _ map[string]any) {})
	// data schemas with ZERO properties (a data-less signal such as "stop") and with TWO optional ones: a lone non-map value
	// is the shorthand of a ONE-property object only
	optP := func(t schema.Type) *schema.PropertySchema {
		return schema.NewPropertySchema(t, nil, false, nil, nil, nil, nil, nil)
	}
	stopData := func() *schema.ScopeSchema {
		return schema.NewScopeSchema(schema.NewObjectSchema("stopdata", map[string]*schema.PropertySchema{}))
	}
	twoData := func() *schema.ScopeSchema {
		return schema.NewScopeSchema(schema.NewObjectSchema("twodata", map[string]*schema.PropertySchema{
			"a": optP(schema.NewIntSchema(nil, nil, nil)), "b": optP(schema.NewStringSchema(nil, nil, nil))}))
	}
	sigsS := map[string]schema.CallableSignal{"sig": sig,
		"stop": schema.NewCallableSignal[*c07StepData, map[string]any]("stop", stopData(), nil,
			func(_ context.Context, sd *c07StepData, _ map[string]any) {}),
		"two": schema.NewCallableSignal[*c07StepData, map[string]any]("two", twoData(), nil,
			func(_ context.Context, sd *c07StepData, _ map[string]any) {})}
	// step "t" keeps its per-run data in an INTERFACE-typed StepData and has no initialiser: its signal handler
	// receives the nil interface (D65: the type assertion on it used to panic in a goroutine without recover)
	sigAny := schema.NewCallableSignal[any, map[string]any]("sig", sigData, nil,
		func(_ context.Context, sd any, _ map[string]any) {})
	sigsT := map[string]schema.CallableSignal{"sig": sigAny,
		"stop": schema.NewCallableSignal[any, map[string]any]("stop", stopData(), nil,
			func(_ context.Context, sd any, _ map[string]any) {}),
		"two": schema.NewCallableSignal[any, map[string]any]("two", twoData(), nil,
			func(_ context.Context, sd any, _ map[string]any) {})}
	handler := func(_ context.Context, input map[string]any) (string, any) {
		tok, _ := input["tok"].(int64)
		beh, _ := input["beh"].(string)
		slow, _ := input["slow"].(bool)
		if slow {
			<-g.get(tok)
		}
		switch beh {
		case "ok":
			return "success", map[string]any{"v": tok}
		case "errout":
			return "error", map[string]any{"msg": "declared failure"}
		case "undecl":
			return "nosuchoutput", map[string]any{}
		case "invalid":
			return "success", map[string]any{"v": "not an integer"}
		default:
			panic("step handler panics")
		}
	}
	outs := func() map[string]*schema.StepOutputSchema {
		return map[string]*schema.StepOutputSchema{
			"success": schema.NewStepOutputSchema(okOut, nil, false),
			"error":   schema.NewStepOutputSchema(errOut, nil, true),
		}
	}
	s := schema.NewCallableStepWithSignals[*c07StepData, map[string]any]("s", in, outs(),
		sigsS, nil, nil,
		func() *c07StepData { return &c07StepData{} },
		func(ctx context.Context, _ *c07StepData, input map[string]any) (string, any) { return handler(ctx, input) })
	t := schema.NewCallableStepWithSignals[any, map[string]any]("t", in, outs(),
		sigsT, nil, nil,
		nil,
		func(ctx context.Context, _ any, input map[string]any) (string, any) { return handler(ctx, input) })
	// step "z": an input object WITHOUT properties; step "o": an input object with ONE property (a lone non-map config is its
	// shorthand); both answer at once
	zIn := schema.NewScopeSchema(schema.NewObjectSchema("zin", map[string]*schema.PropertySchema{}))
	oIn := schema.NewScopeSchema(schema.NewObjectSchema("oin", map[string]*schema.PropertySchema{"tok": intP()}))
	// (every step declares the same three signals: the server model's signal table is not per step)
	z := schema.NewCallableStepWithSignals[any, map[string]any]("z", zIn, outs(), sigsT, nil, nil, nil,
		func(_ context.Context, _ any, _ map[string]any) (string, any) { return "success", map[string]any{"v": int64(0)} })
	o := schema.NewCallableStepWithSignals[any, map[string]any]("o", oIn, outs(), sigsT, nil, nil, nil,
		func(_ context.Context, _ any, in map[string]any) (string, any) { return "success", map[string]any{"v": in["tok"]} })
	return schema.NewCallableSchema(s, t, z, o)
}

// ---------------------------------------------------------------------------------------
// encoding of client messages (deterministic bytes: keys in a fixed order)
// ---------------------------------------------------------------------------------------

var c07Enc = func() cbor.EncMode {
	m, err := cbor.CanonicalEncOptions().EncMode()
	if err != nil {
		panic(err)
	}
	return m
}()

func c07Item(v any) []byte {
	b, err := c07Enc.Marshal(v)
	if err != nil {
		panic(err)
	}
	return b
}

// envelope: {"id": ID, ["run_id": RUN,] ["data": DATA]}
func c07Envelope(id any, run *sx.Node, data []byte) []byte {
	n := 1
	var b bytes.Buffer
	body := append(c07Item("id"), c07Item(id)...)
	if !run.IsAtom("norun") {
		n++
		body = append(body, c07Item("run_id")...)
		body = append(body, c07Item(run.Str)...)
	}
	if data != nil {
		n++
		body = append(body, c07Item("data")...)
		body = append(body, data...)
	}
	b.WriteByte(byte(0xa0 + n))
	b.Write(body)
	return b.Bytes()
}

// c07Bytes returns the bytes an action puts on the wire (nil for environment actions).
func c07Bytes(a *sx.Node) []byte {
	if a.IsAtom("start") {
		return []byte{0xf6}
	}
	if a.IsAtom("done") {
		return c07Envelope(uint32(atp.MessageTypeClientDone), sx.S(""), c07Item(map[string]any{}))
	}
	switch a.Head() {
	case "ws":
		beh := a.List[4].Atom
		var tok any = a.List[3].Int()
		if beh == "badinput" {
			tok = "not a number"
		}
		cfg := map[string]any{"tok": tok, "beh": beh, "slow": a.List[5].Atom == "1"}
		return c07Envelope(uint32(atp.MessageTypeWorkStart), a.List[1], c07Item(map[string]any{"id": a.List[2].Str, "config": cfg}))
	case "wsbad":
		return c07Envelope(uint32(atp.MessageTypeWorkStart), a.List[1], c07Item(int64(7)))
	case "sig":
		var n any = int64(1)
		if a.List[3].Atom != "1" {
			n = "not a number"
		}
		return c07Envelope(uint32(atp.MessageTypeSignal), a.List[1], c07Item(map[string]any{"signal_id": a.List[2].Str, "data": map[string]any{"n": n}}))
	case "sigbad":
		return c07Envelope(uint32(atp.MessageTypeSignal), a.List[1], c07Item("not a map"))
	case "sigv":
		m := map[string]any{"signal_id": a.List[2].Str}
		if !a.List[3].IsAtom("absent") {
			m["data"] = valFromSx(a.List[3])
		}
		return c07Envelope(uint32(atp.MessageTypeSignal), a.List[1], c07Item(m))
	case "wsv":
		m := map[string]any{"id": a.List[2].Str}
		if !a.List[4].IsAtom("absent") {
			m["config"] = valFromSx(a.List[4])
		}
		return c07Envelope(uint32(atp.MessageTypeWorkStart), a.List[1], c07Item(m))
	case "unk":
		return c07Envelope(uint32(a.List[1].Int()), a.List[2], c07Item(map[string]any{}))
	case "garbage":
		switch a.List[1].Int() {
		case 0:
			return []byte{0xff, 0xff, 0x01} // a "break" outside an indefinite-length item
		case 1:
			return []byte{0x18, 0x2a} // a well-formed item that is not a map
		case 2:
			return c07Envelope("one", sx.S("a"), c07Item(map[string]any{})) // message id of the wrong type
		default:
			return []byte{0x1c} // reserved additional-information value
		}
	case "cut":
		b := c07Bytes(a.List[1])
		k := int(a.List[2].Int())
		if k > len(b) {
			k = len(b)
		}
		return b[:k]
	}
	return nil
}

// ---------------------------------------------------------------------------------------
// the runner
// ---------------------------------------------------------------------------------------

type c07Out struct {
	mu    sync.Mutex
	items []string
}

func (o *c07Out) add(s string) {
	o.mu.Lock()
	o.items = append(o.items, s)
	o.mu.Unlock()
}

func c07ReadOutput(r io.Reader, o *c07Out) {
	dec := cbor.NewDecoder(r)
	for {
		var raw cbor.RawMessage
		if err := dec.Decode(&raw); err != nil {
			return
		}
		var generic map[string]any
		if err := cbor.Unmarshal(raw, &generic); err != nil {
			o.add("(other -1)")
			continue
		}
		if _, isHello := generic["version"]; isHello {
			o.add("hello")
			continue
		}
		var m atp.DecodedRuntimeMessage
		if err := cbor.Unmarshal(raw, &m); err != nil {
			o.add("(other -2)")
			continue
		}
		switch m.MessageID {
		case atp.MessageTypeWorkDone:
			var wd atp.WorkDoneMessage
			if err := cbor.Unmarshal(m.RawMessageData, &wd); err != nil {
				o.add("(other 2)")
				continue
			}
			o.add(sx.L(sx.A("done"), sx.S(m.RunID), sx.S(wd.OutputID)).String())
		case atp.MessageTypeError:
			var em atp.ErrorMessage
			if err := cbor.Unmarshal(m.RawMessageData, &em); err != nil {
				o.add("(other 5)")
				continue
			}
			o.add(sx.L(sx.A("err"), sx.S(m.RunID), sx.B(em.StepFatal), sx.B(em.ServerFatal)).String())
		default:
			o.add(fmt.Sprintf("(other %d)", m.MessageID))
		}
	}
}

func runAtpsrv(p *sx.Node) *sx.Node {
	if p.Head() != "script" {
		return sx.L(sx.A("bad"), sx.S("atpsrv case"))
	}
	gates := &c07Gates{m: map[int64]chan struct{}{}}
	plugin := c07Plugin(gates)
	in, out := newBufPipe(), newBufPipe()
	obs := &c07Out{}
	go c07ReadOutput(bufPipeReader{out}, obs)
	ctx, cancel := context.WithCancel(context.Background())
	defer cancel()
	type result struct {
		errs     []*atp.ServerError
		panicked bool
	}
	resCh := make(chan result, 1)
	go func() {
		defer func() {
			if r := recover(); r != nil {
				resCh <- result{panicked: true}
			}
		}()
		resCh <- result{errs: atp.RunATPServer(ctx, bufPipeReader{in}, bufPipeWriter{out}, plugin)}
	}()
	quiet := waitQuiescent()
	actions := p.List[1:]
	burst := false // burst: no waiting between the actions, the goroutines race freely
	if len(actions) > 0 && actions[0].IsAtom("burst") {
		burst = true
		actions = actions[1:]
	}
	for _, a := range actions {
		if !quiet {
			break
		}
		switch {
		case a.IsAtom("eof"):
			_ = bufPipeWriter{in}.Close()
		case a.IsAtom("cancel"):
			cancel()
		case a.IsAtom("closeout"):
			_ = bufPipeReader{out}.Close()
		case a.Head() == "release":
			gates.release(a.List[1].Int())
		default:
			b := c07Bytes(a)
			if len(b) > 0 {
				_, _ = bufPipeWriter{in}.Write(b)
			}
			if a.Head() == "cut" {
				_ = bufPipeWriter{in}.Close()
			}
		}
		if !burst {
			quiet = waitQuiescent()
		}
	}
	if burst && quiet {
		quiet = waitQuiescent()
	}
	if !quiet {
		return sx.L(sx.A("r"), sx.A("noquiesce"))
	}
	outcome := "running"
	var errs []string
	select {
	case r := <-resCh:
		if r.panicked {
			return sx.A("panic")
		}
		outcome = "returned"
		for _, e := range r.errs {
			errs = append(errs, sx.L(sx.S(e.RunID), sx.B(e.StepFatal), sx.B(e.ServerFatal)).String())
		}
		// nothing of the session is left: let the output reader go
		_ = bufPipeWriter{out}.Close()
	default:
	}
	obs.mu.Lock()
	items := append([]string(nil), obs.items...)
	obs.mu.Unlock()
	if outcome == "running" {
		// Teardown, after the observation has been taken: the session's goroutines must not pile up in
		// the worker process. These are legitimate client actions (end of input, every step may finish,
		// nobody reads the output any more), so a server that dies here has a real defect; it is then
		// reported for this script.
		_ = bufPipeWriter{in}.Close()
		gates.releaseAll()
		cancel()
		waitQuiescent()
		select {
		case <-resCh:
		default:
			// still blocked (a server that never returns): abandon it with its pipes closed
			_ = bufPipeReader{in}.Close()
			_ = bufPipeReader{out}.Close()
			waitQuiescent()
		}
		_ = bufPipeWriter{out}.Close()
	}
	sort.Strings(errs)
	sort.Strings(items)
	el := sx.L(sx.A("errs"))
	for _, e := range errs {
		n, _ := sx.Parse(e)
		el.Append(n)
	}
	ol := sx.L(sx.A("out"))
	for _, e := range items {
		n, _ := sx.Parse(e)
		ol.Append(n)
	}
	return sx.L(sx.A("r"), sx.A(outcome), el, ol)
}

// ---------------------------------------------------------------------------------------
// the generator
// ---------------------------------------------------------------------------------------

func c07WS(run, step string, tok int64, beh string, slow bool) *sx.Node {
	r := sx.S(run)
	if run == "\x00norun" {
		r = sx.A("norun")
	}
	return sx.L(sx.A("ws"), r, sx.S(step), sx.I(tok), sx.A(beh), sx.B(slow))
}
func c07Run(run string) *sx.Node {
	if run == "\x00norun" {
		return sx.A("norun")
	}
	return sx.S(run)
}
func c07Rel(tok int64) *sx.Node { return sx.L(sx.A("release"), sx.I(tok)) }
func c07Script(as ...*sx.Node) *sx.Node {
	return sx.L(append([]*sx.Node{sx.A("script")}, as...)...)
}

const c07NoRun = "\x00norun"

var c07Behs = []string{"ok", "errout", "undecl", "invalid", "panic", "badinput"}

// c07Enders: the ways a client ends (or wrecks) its input
func c07Enders() []*sx.Node {
	return []*sx.Node{sx.A("eof"), sx.A("done"), sx.L(sx.A("garbage"), sx.I(0)), sx.L(sx.A("garbage"), sx.I(1)),
		sx.L(sx.A("garbage"), sx.I(2)), sx.L(sx.A("garbage"), sx.I(3)),
		sx.L(sx.A("cut"), sx.L(sx.A("unk"), sx.I(9), sx.S("")), sx.I(3))}
}

// c07Invalid: one invalid (but well-formed) client message
func c07Invalid(r *Rng, k int, runs []string) *sx.Node {
	run := "zz"
	if len(runs) > 0 && r.Chance(60) {
		run = pick(r, runs)
	}
	switch k % 12 {
	case 0:
		return sx.L(sx.A("unk"), sx.I(int64(pick(r, []int{0, 2, 5, 6, 99, 4294967295}))), c07Run(pick(r, []string{"", run, c07NoRun})))
	case 1:
		return c07WS(run, "nosuchstep", int64(900+k), "ok", false)
	case 2:
		return c07WS("", "s", int64(900+k), "ok", false)
	case 3:
		return c07WS(c07NoRun, "s", int64(900+k), "ok", false)
	case 4:
		return c07WS(run, "", int64(900+k), "ok", false)
	case 5:
		return sx.L(sx.A("wsbad"), c07Run(pick(r, []string{run, "", c07NoRun})))
	case 6:
		return sx.L(sx.A("sig"), sx.S(run), sx.S("nosuchsignal"), sx.B(true))
	case 7:
		return sx.L(sx.A("sig"), sx.S("unknownrun"), sx.S("sig"), sx.B(true))
	case 8:
		return sx.L(sx.A("sig"), c07Run(pick(r, []string{"", c07NoRun})), sx.S("sig"), sx.B(true))
	case 9:
		return sx.L(sx.A("sigbad"), c07Run(pick(r, []string{run, "", c07NoRun})))
	case 10:
		return sx.L(sx.A("sig"), sx.S(run), sx.S("sig"), sx.B(false))
	default:
		return sx.L(sx.A("sig"), sx.S(run), sx.S("sig"), sx.B(true))
	}
}

// c07Random: a seeded script over the whole grammar: work-starts (some slow), invalid traffic,
// releases placed before or after the end of input, optional cancel / closeout.
func c07Random(r *Rng) *sx.Node {
	var as []*sx.Node
	if !r.Chance(3) {
		as = append(as, sx.A("start"))
	}
	var runs []string
	var slowToks []int64
	tok := int64(1)
	n := 1 + r.Intn(7)
	ended := false
	for i := 0; i < n; i++ {
		switch c := r.Intn(100); {
		case c < 40:
			run := pick(r, []string{"a", "b", "c"})
			if len(runs) > 0 && r.Chance(10) {
				run = pick(r, runs) // duplicate run id
			}
			step := pick(r, []string{"s", "s", "t"})
			beh := pick(r, c07Behs)
			slow := r.Chance(60)
			as = append(as, c07WS(run, step, tok, beh, slow))
			runs = append(runs, run)
			if slow {
				slowToks = append(slowToks, tok)
			}
			tok++
		case c < 75:
			as = append(as, c07Invalid(r, r.Intn(12), runs))
		case c < 85 && len(slowToks) > 0:
			j := r.Intn(len(slowToks))
			as = append(as, c07Rel(slowToks[j]))
			slowToks = append(slowToks[:j], slowToks[j+1:]...)
		case c < 89:
			as = append(as, sx.A("cancel"))
		case c < 92:
			as = append(as, sx.A("closeout"))
		default:
			as = append(as, c07Invalid(r, 11, runs))
		}
	}
	if !r.Chance(8) {
		as = append(as, pick(r, c07Enders()))
		ended = true
	}
	_ = ended
	// releases after the end of input, in a random order; sometimes one is never released
	for len(slowToks) > 0 {
		j := r.Intn(len(slowToks))
		if !r.Chance(5) {
			as = append(as, c07Rel(slowToks[j]))
		}
		slowToks = append(slowToks[:j], slowToks[j+1:]...)
		if r.Chance(10) {
			as = append(as, c07Invalid(r, r.Intn(12), runs)) // traffic after the end: never read
		}
	}
	return c07Script(as...)
}

// c07Truncations: the script cut at every byte offset of its transcript. Environment actions keep
// their place up to the cut; releases after the cut are kept (so every started step can finish).
func c07Truncations(script *sx.Node, emit func(*sx.Node)) {
	as := script.List[1:]
	for i, a := range as {
		b := c07Bytes(a)
		if len(b) == 0 || a.Head() == "cut" {
			continue
		}
		for k := 0; k < len(b); k++ {
			var out []*sx.Node
			out = append(out, as[:i]...)
			if k == 0 {
				out = append(out, sx.A("eof"))
			} else {
				out = append(out, sx.L(sx.A("cut"), a, sx.I(int64(k))))
			}
			for _, rest := range as[i+1:] {
				if rest.Head() == "release" || rest.IsAtom("cancel") {
					out = append(out, rest)
				}
			}
			emit(c07Script(out...))
		}
	}
}

func genAtpsrv(r *Rng, tier string, emit func(*sx.Node)) {
	start := sx.A("start")
	// (0) replays of the defects found on the unchanged tree (D21 three ways, D22, D23, D24)
	for _, end := range []*sx.Node{sx.A("eof"), sx.A("done"), sx.L(sx.A("garbage"), sx.I(0))} {
		emit(c07Script(start, c07WS("a", "s", 1, "undecl", true), end, c07Rel(1)))
	}
	emit(c07Script(start, c07WS("a", "s", 1, "ok", false), sx.L(sx.A("sig"), sx.S("a"), sx.S("nosuchsignal"), sx.B(true)), sx.A("eof")))
	// D65: a VALID signal for a run of step "t" (interface-typed step data, no initialiser), before and after the step ended
	emit(c07Script(start, c07WS("b", "t", 1, "ok", true), sx.L(sx.A("sig"), sx.S("b"), sx.S("sig"), sx.B(true)), c07Rel(1), sx.A("eof")))
	emit(c07Script(start, c07WS("b", "t", 1, "ok", false), sx.L(sx.A("sig"), sx.S("b"), sx.S("sig"), sx.B(true)), sx.A("done")))
	emit(c07Script(start, c07WS("a", "s", 1, "ok", false), c07WS(c07NoRun, "s", 2, "ok", false), sx.A("eof")))
	emit(c07Script(start, c07WS("a", "s", 1, "ok", false), sx.L(sx.A("unk"), sx.I(9), sx.A("norun")), sx.A("eof")))
	{
		as := []*sx.Node{start, sx.A("cancel")}
		for i := 0; i < 6; i++ {
			as = append(as, sx.L(sx.A("unk"), sx.I(9), sx.S("")))
		}
		emit(c07Script(append(as, sx.A("eof"))...))
		as = []*sx.Node{start, sx.A("closeout")}
		for i := 0; i < 6; i++ {
			as = append(as, sx.L(sx.A("unk"), sx.I(9), sx.S("")))
		}
		emit(c07Script(append(as, sx.A("eof"))...))
	}
	// (1) exhaustive small scope: one work-start x behaviour x slow x every ender x release before / after / never
	for _, beh := range c07Behs {
		for _, step := range []string{"s", "nosuchstep"} {
			for _, end := range c07Enders() {
				emit(c07Script(start, c07WS("a", step, 1, beh, false), end))
				emit(c07Script(start, c07WS("a", step, 1, beh, true), c07Rel(1), end))
				emit(c07Script(start, c07WS("a", step, 1, beh, true), end, c07Rel(1)))
				emit(c07Script(start, c07WS("a", step, 1, beh, true), end))
			}
			emit(c07Script(start, c07WS("a", step, 1, beh, true), c07Rel(1)))
		}
	}
	// (2) two work-starts, every pair of behaviours, every order of the two completions around the end of input
	for _, b1 := range c07Behs[:5] {
		for _, b2 := range c07Behs[:5] {
			for _, end := range c07Enders()[:3] {
				w1, w2 := c07WS("a", "s", 1, b1, true), c07WS("b", "t", 2, b2, true)
				emit(c07Script(start, w1, w2, c07Rel(1), c07Rel(2), end))
				emit(c07Script(start, w1, w2, c07Rel(2), end, c07Rel(1)))
				emit(c07Script(start, w1, w2, end, c07Rel(2), c07Rel(1)))
				emit(c07Script(start, w1, end, c07Rel(1)))
			}
		}
	}
	// (3) handshake faults and environment actions before the start message
	for _, end := range c07Enders() {
		emit(c07Script(end))
		emit(c07Script(sx.A("closeout"), start, end))
		emit(c07Script(sx.A("cancel"), start, end))
		emit(c07Script(start, end))
	}
	emit(c07Script(sx.L(sx.A("unk"), sx.I(9), sx.S("")), c07WS("a", "s", 1, "ok", false), sx.A("eof"))) // any item serves as start message
	// (4) runs of 1..8 invalid messages (the report channel holds 3) with cancel / closeout / a fatal report first
	for k := 0; k < 12; k++ {
		for n := 1; n <= 8; n++ {
			for _, pre := range []*sx.Node{nil, sx.A("cancel"), sx.A("closeout")} {
				as := []*sx.Node{start, c07WS("a", "s", 1, "ok", false)}
				if pre != nil {
					as = append(as, pre)
				}
				for i := 0; i < n; i++ {
					as = append(as, c07Invalid(r, k, []string{"a"}))
				}
				as = append(as, pick(r, c07Enders()))
				emit(c07Script(as...))
			}
		}
	}
	// (5) seeded scripts over the whole grammar
	nRand, nTrunc := 10000, 70
	if tier == "thorough" {
		nRand, nTrunc = 80000, 400
	}
	var bases []*sx.Node
	for i := 0; i < nRand; i++ {
		s := c07Random(r)
		emit(s)
		if i%3 == 0 { // the same script with the goroutines racing freely
			emit(c07Script(append([]*sx.Node{sx.A("burst")}, s.List[1:]...)...))
		}
		if len(bases) < nTrunc && i%7 == 0 {
			bases = append(bases, s)
		}
	}
	// (6) truncation at every byte offset of: fixed representative transcripts + sampled random ones
	fixed := []*sx.Node{
		c07Script(start, c07WS("a", "s", 1, "ok", true), c07WS("b", "t", 2, "undecl", true), sx.L(sx.A("sig"), sx.S("a"), sx.S("sig"), sx.B(true)),
			c07Rel(1), sx.A("done"), c07Rel(2)),
		c07Script(start, c07WS("a", "s", 1, "panic", true), sx.L(sx.A("unk"), sx.I(9), sx.S("")), sx.L(sx.A("wsbad"), sx.S("b")),
			sx.L(sx.A("sigbad"), sx.S("a")), sx.A("done"), c07Rel(1)),
	}
	for _, s := range append(fixed, bases...) {
		c07Truncations(s, emit)
	}
	// (7) PAYLOADS against data schemas of every arity: signals "stop" (an object WITHOUT properties), "sig" (ONE required
	// integer), "two" (two optional properties) and an unknown one, x every payload shape (no data field, nil, scalars, lists,
	// maps: empty / fitting / unknown key / wrongly typed member), x the run being in progress (steps "s" and "t"), finished, or
	// unknown; and the same shapes as the config of steps "z" (input WITHOUT properties) and "o" (ONE property)
	pls := c07Payloads()
	for _, sg := range []string{"stop", "sig", "two", "nosuchsignal"} {
		for _, v := range pls {
			sv := func(run string) *sx.Node { return sx.L(sx.A("sigv"), c07Run(run), sx.S(sg), v) }
			emit(c07Script(start, c07WS("a", "s", 1, "ok", true), sv("a"), c07Rel(1), sx.A("done")))
			emit(c07Script(start, c07WS("b", "t", 1, "ok", true), sv("b"), sx.A("eof"), c07Rel(1)))
			emit(c07Script(start, c07WS("a", "s", 1, "ok", false), sv("a"), sv("zz"), sx.A("done")))
		}
	}
	for _, st := range []string{"z", "o", "nosuchstep"} {
		for i, v := range pls {
			emit(c07Script(start, sx.L(sx.A("wsv"), sx.S("a"), sx.S(st), sx.I(int64(500+i)), v), pick(r, c07Enders())))
		}
	}
	// (8) seeded scripts with such messages mixed in
	nV := 600
	if tier == "thorough" {
		nV = 6000
	}
	for i := 0; i < nV; i++ {
		base := c07Random(r).List[1:]
		var as []*sx.Node
		runs := []string{"a", "b", "c", "zz", "", c07NoRun}
		for j, a := range base {
			as = append(as, a)
			if a.IsAtom("start") || r.Chance(45) {
				for k := r.Intn(3); k >= 0; k-- {
					if r.Chance(70) {
						as = append(as, sx.L(sx.A("sigv"), c07Run(pick(r, runs)), sx.S(pick(r, []string{"stop", "stop", "sig", "two", "nosuchsignal"})), pick(r, pls)))
					} else {
						as = append(as, sx.L(sx.A("wsv"), c07Run(pick(r, runs)), sx.S(pick(r, []string{"z", "o", "o", "nosuchstep", ""})), sx.I(int64(600+10*j+k)), pick(r, pls)))
					}
				}
			}
		}
		emit(c07Script(as...))
		if i%3 == 0 {
			emit(c07Script(append([]*sx.Node{sx.A("burst")}, as...)...))
		}
	}
}

// c07Payloads: the shapes of a signal's data / a work-start's config.
func c07Payloads() []*sx.Node {
	m := func(kv ...*sx.Node) *sx.Node { return vM(tAnyMap, kv...) }
	return []*sx.Node{
		sx.A("absent"), vNil(), vS("now"), vS(""), vI("i64", 1), vI("i64", -7), vSl(tAnySlice), vSl(tAnySlice, vI("i64", 1)),
		m(), m(vS("n"), vI("i64", 1)), m(vS("n"), vS("not a number")), m(vS("zz"), vI("i64", 1)),
		m(vS("n"), vI("i64", 1), vS("zz"), vI("i64", 2)), m(vS("a"), vI("i64", 3)), m(vS("a"), vI("i64", 3), vS("b"), vS("q")),
		m(vS("a"), vS("bad")), m(vS("tok"), vI("i64", 5)), m(vS("tok"), vSl(tAnySlice)), m(vI("i64", 1), vI("i64", 1)),
		m(vS("n"), vNil()), vSl(tAnySlice, m()),
	}
}

func init() {
	families["atpsrv"] = &Family{Gen: genAtpsrv, Run: runAtpsrv}
}
