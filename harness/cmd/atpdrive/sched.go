package main

// The gate scheduler of DESIGN §4.3: SDK goroutines park at the gates inserted by cmd/instrument; the
// driver releases exactly one of them at a time and waits for quiescence (every goroutine of the process
// other than the driver is parked or blocked in the runtime, judged from a WHITELIST of goroutine states
// seen on two consecutive polls).

import (
	"regexp"
	"runtime"
	"strconv"
	"strings"
	"sync"
	"time"

	"go.flow.arcalot.io/pluginsdk/atp"
)

type parked struct {
	site    string
	kind    string
	release chan struct{}
}

type role struct {
	name   string
	gid    int
	at     *parked // non-nil while parked at a gate
	exited bool
	// bookkeeping used by the explore mode
	sent bool // passed an Encode gate (work start sent)
}

type scheduler struct {
	mu      sync.Mutex
	active  bool
	byGid   map[int]*role
	roles   []*role
	traces  map[string][]string // role name -> kinds passed, in order
	order   []string            // role names in order of first appearance
	tokens  map[int]*role       // spawn token -> parent role
	nextTok int
	nLoops  int
}

var sch = &scheduler{}

func (s *scheduler) reset() {
	s.mu.Lock()
	s.active = false
	s.byGid = map[int]*role{}
	s.roles = nil
	s.traces = map[string][]string{}
	s.order = nil
	s.tokens = map[int]*role{}
	s.nextTok = 0
	s.nLoops = 0
	s.mu.Unlock()
}

func goid() int {
	var buf [64]byte
	n := runtime.Stack(buf[:], false)
	f := strings.Fields(string(buf[:n]))
	id, _ := strconv.Atoi(f[1])
	return id
}

// kindOfSite extracts the operation kind from `<func>|<Kind>:<recv>[#Woke]`.
func kindOfSite(site string) string {
	if strings.HasSuffix(site, "#Woke") {
		return "Woke"
	}
	i := strings.Index(site, "|")
	rest := site[i+1:]
	if j := strings.Index(rest, ":"); j >= 0 {
		return rest[:j]
	}
	return rest
}

func funcOfSite(site string) string {
	if i := strings.Index(site, "|"); i >= 0 {
		return site[:i]
	}
	return site
}

// register names the calling goroutine (harness goroutines that call into the SDK).
func (s *scheduler) register(name string) *role {
	s.mu.Lock()
	defer s.mu.Unlock()
	g := goid()
	r := s.byGid[g]
	if r == nil {
		r = &role{gid: g}
		s.byGid[g] = r
		s.roles = append(s.roles, r)
	}
	r.name = name
	r.sent = false
	s.noteRole(name)
	return r
}

func (s *scheduler) noteRole(name string) {
	if _, ok := s.traces[name]; !ok {
		s.traces[name] = nil
		s.order = append(s.order, name)
	}
}

func (s *scheduler) unregister() {
	s.mu.Lock()
	if r := s.byGid[goid()]; r != nil {
		r.exited = true
	}
	s.mu.Unlock()
}

func (s *scheduler) park(site string) {
	s.mu.Lock()
	if !s.active {
		s.mu.Unlock()
		return
	}
	r := s.byGid[goid()]
	if r == nil {
		s.mu.Unlock()
		return
	}
	p := &parked{site: site, kind: kindOfSite(site), release: make(chan struct{})}
	r.at = p
	s.mu.Unlock()
	<-p.release
}

func hookGate(site string) { sch.park(site) }

// roleName: the role of the calling goroutine ("?" when it has none).
func (s *scheduler) roleName() string {
	s.mu.Lock()
	defer s.mu.Unlock()
	if r := s.byGid[goid()]; r != nil {
		return r.name
	}
	return "?"
}

func hookSpawn(site string) int {
	sch.park(site)
	sch.mu.Lock()
	defer sch.mu.Unlock()
	if !sch.active {
		return 0
	}
	sch.nextTok++
	sch.tokens[sch.nextTok] = sch.byGid[goid()]
	return sch.nextTok
}

func hookStart(tok int, site string) {
	sch.mu.Lock()
	defer sch.mu.Unlock()
	if !sch.active || tok == 0 {
		return
	}
	parent := sch.tokens[tok]
	name := "g?"
	switch funcOfSite(site) {
	case "Execute":
		name = "sig" + strings.TrimPrefix(parentName(parent), "caller")
	case "prepareResultChannels":
		sch.nLoops++
		name = "loop" + strconv.Itoa(sch.nLoops)
	case "waitWithTimeout":
		name = "waiter"
	default:
		name = "spawn:" + funcOfSite(site)
	}
	r := &role{name: name, gid: goid()}
	sch.byGid[r.gid] = r
	sch.roles = append(sch.roles, r)
	sch.noteRole(name)
}

func parentName(r *role) string {
	if r == nil {
		return "?"
	}
	return r.name
}

func hookExit() {
	sch.mu.Lock()
	if r := sch.byGid[goid()]; r != nil {
		r.exited = true
	}
	sch.mu.Unlock()
}

func installHooks() {
	atp.VGateHook = hookGate
	atp.VSpawnHook = hookSpawn
	atp.VStartHook = hookStart
	atp.VExitHook = hookExit
}

var hdr = regexp.MustCompile(`(?m)^goroutine (\d+) \[([^\],]+)`)

var blockedStates = map[string]bool{"chan receive": true, "chan send": true, "select": true, "IO wait": true,
	"sync.Mutex.Lock": true, "sync.Cond.Wait": true, "semacquire": true, "sync.WaitGroup.Wait": true, "sleep": true,
	"finalizer wait": true, "chan receive (nil chan)": true, "select (no cases)": true, "sync.RWMutex.Lock": true,
	"sync.RWMutex.RLock": true, "GC worker (idle)": true, "GC sweep wait": true, "GC scavenge wait": true,
	"force gc (idle)": true}

var stackBuf = make([]byte, 1<<20)

// waitQuiescent returns when every goroutine except the caller is blocked (two consecutive polls).
// The wall-clock bound is a backstop only (a goroutine spinning forever); it reports false then.
var statPolls, statWaits int
var statBusy = map[string]int{}
var statDur time.Duration

func waitQuiescent() bool {
	t0 := time.Now()
	defer func() { statDur += time.Since(t0); statWaits++ }()
	self := goid()
	calm := 0
	deadline := time.Now().Add(20 * time.Second)
	for i := 0; ; i++ {
		statPolls++
		n := runtime.Stack(stackBuf, true)
		for n == len(stackBuf) {
			stackBuf = make([]byte, 2*len(stackBuf))
			n = runtime.Stack(stackBuf, true)
		}
		busy := false
		for _, m := range hdr.FindAllSubmatch(stackBuf[:n], -1) {
			id, _ := strconv.Atoi(string(m[1]))
			if id == self {
				continue
			}
			if !blockedStates[string(m[2])] {
				busy = true
				statBusy[string(m[2])]++
				break
			}
		}
		if !busy {
			calm++
			if calm >= 2 {
				return true
			}
		} else {
			calm = 0
		}
		if i > 50 {
			time.Sleep(20 * time.Microsecond)
			if time.Now().After(deadline) {
				return false
			}
		} else {
			runtime.Gosched()
		}
	}
}

// confirmQuiescent is used before any verdict that reads "a goroutine never got there" (an Execute / Close that
// has not returned, a role that is not parked where the model expects it): the two-poll quiescence is re-established
// after pauses of increasing length, so that the verdict does not depend on how fast a loaded machine schedules a
// goroutine that was just made runnable.  It costs time only on the failure paths.
func confirmQuiescent() bool {
	ok := true
	for _, d := range []time.Duration{time.Millisecond, 5 * time.Millisecond, 25 * time.Millisecond} {
		time.Sleep(d)
		if !waitQuiescent() {
			ok = false
		}
	}
	return ok
}

// goroutineStates returns the state of each goroutine id (for the final "who is left blocked" report).
func goroutineStates() map[int]string {
	n := runtime.Stack(stackBuf, true)
	out := map[int]string{}
	for _, m := range hdr.FindAllSubmatch(stackBuf[:n], -1) {
		id, _ := strconv.Atoi(string(m[1]))
		out[id] = string(m[2])
	}
	return out
}

// parkedRoles lists the roles currently parked at a gate, in order of creation.
func (s *scheduler) parkedRoles() []*role {
	s.mu.Lock()
	defer s.mu.Unlock()
	var out []*role
	for _, r := range s.roles {
		if r.at != nil && !r.exited {
			out = append(out, r)
		}
	}
	return out
}

func (s *scheduler) find(name string) *role {
	s.mu.Lock()
	defer s.mu.Unlock()
	for i := len(s.roles) - 1; i >= 0; i-- {
		if s.roles[i].name == name && !s.roles[i].exited {
			return s.roles[i]
		}
	}
	return nil
}

// releaseOne lets role r pass the gate it is parked at, records the kind, and waits for quiescence.
func (s *scheduler) releaseOne(r *role) (kind, site string) { return s.release(r, true) }

func (s *scheduler) release(r *role, record bool) (kind, site string) {
	s.mu.Lock()
	p := r.at
	r.at = nil
	if p.kind == "Encode" {
		r.sent = true
	}
	if record {
		s.traces[r.name] = append(s.traces[r.name], p.kind)
	}
	s.mu.Unlock()
	p.release <- struct{}{}
	waitQuiescent()
	return p.kind, p.site
}

// deactivate turns every gate into a no-op and frees whoever is parked.
func (s *scheduler) deactivate() {
	s.mu.Lock()
	s.active = false
	for _, r := range s.roles {
		if r.at != nil {
			close(r.at.release)
			r.at = nil
		}
	}
	s.mu.Unlock()
}

func (s *scheduler) activate() {
	s.mu.Lock()
	s.active = true
	s.mu.Unlock()
}
