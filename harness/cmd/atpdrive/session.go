package main

// Sessions: what the harness does with one client (lanes of Execute calls, an optional Close), what the
// scripted peer answers, and the transport.  The same description is read by the Coq model
// (Interp/RunATPClient.v); see the grammar there.
//
//	(session (frag N) (wfail N|-1) (close 0|1) [(wfrag N)]     ; wfrag: explore mode only (transport.go)
//	         (calls (call RUN LANE SIGTO CLOSECH SIGFROM) ...)        ; in caller-index order
//	         (peer ordered|any (pm RUN KIND) ...))
//
// KIND: done | stepfatal | stepfatal_norun | svfatal | notice | signal | unknown | baddone | badrt |
//       eof | readerr | garbage | partial

import (
	"bytes"
	"context"
	"fmt"
	"io"
	"strconv"
	"sync"

	"github.com/fxamacker/cbor/v2"
	"go.flow.arcalot.io/pluginsdk/atp"
	"go.flow.arcalot.io/pluginsdk/schema"
	"verif/harness/sx"
)

type call struct {
	run     string
	lane    int
	sigTo   int // number of signals the harness offers; -1: signalsToStep == nil
	closeCh bool
	sigFrom bool
}

type pmsg struct {
	run  string
	kind string
}

type session struct {
	frag    int
	wfail   int
	close   bool
	calls   []call
	ordered bool
	script  []pmsg
	faultN  int    // -1: no fault; otherwise the (faultN+1)-th emission of the peer is replaced by the sticky fault
	faultK  string // eof | readerr | garbage | partial
	// nodata: the malformed work-done messages of the script (kind baddone) are runtime messages WITHOUT a data field
	// ({id, run_id}) instead of one with data of the wrong shape; the model reads both as BadPayload (it ignores the flag)
	nodata bool
	wfrag  int // > 0: the client's Writes reach the stream in chunks of this many bytes, a scheduler gate in between
}

func parseSession(n *sx.Node) (*session, error) {
	if n.Head() != "session" {
		return nil, fmt.Errorf("not a session")
	}
	s := &session{wfail: -1, faultN: -1}
	for _, f := range n.List[1:] {
		switch f.Head() {
		case "frag":
			s.frag = int(f.List[1].Int())
		case "wfail":
			s.wfail = int(f.List[1].Int())
		case "close":
			s.close = f.List[1].Int() == 1
		case "calls":
			for _, c := range f.List[1:] {
				s.calls = append(s.calls, call{run: c.List[1].Str, lane: int(c.List[2].Int()), sigTo: int(c.List[3].Int()),
					closeCh: c.List[4].Int() == 1, sigFrom: c.List[5].Int() == 1})
			}
		case "wfrag":
			s.wfrag = int(f.List[1].Int())
		case "nodata":
			s.nodata = f.List[1].Int() == 1
		case "fault":
			s.faultN = int(f.List[1].Int())
			s.faultK = f.List[2].Atom
		case "peer":
			s.ordered = f.List[1].IsAtom("ordered")
			for _, m := range f.List[2:] {
				s.script = append(s.script, pmsg{run: m.List[1].Str, kind: m.List[2].Atom})
			}
		}
	}
	return s, nil
}

func (s *session) sx() *sx.Node {
	calls := sx.L(sx.A("calls"))
	for _, c := range s.calls {
		calls.Append(sx.L(sx.A("call"), sx.S(c.run), sx.I(int64(c.lane)), sx.I(int64(c.sigTo)), sx.B(c.closeCh), sx.B(c.sigFrom)))
	}
	peer := sx.L(sx.A("peer"), sx.A(map[bool]string{true: "ordered", false: "any"}[s.ordered]))
	for _, m := range s.script {
		peer.Append(sx.L(sx.A("pm"), sx.S(m.run), sx.A(m.kind)))
	}
	n := sx.L(sx.A("session"), sx.L(sx.A("frag"), sx.I(int64(s.frag))), sx.L(sx.A("wfail"), sx.I(int64(s.wfail))),
		sx.L(sx.A("close"), sx.B(s.close)), calls, peer)
	if s.faultN >= 0 {
		n.Append(sx.L(sx.A("fault"), sx.I(int64(s.faultN)), sx.A(s.faultK)))
	}
	if s.nodata {
		n.Append(sx.L(sx.A("nodata"), sx.B(true)))
	}
	if s.wfrag > 0 {
		n.Append(sx.L(sx.A("wfrag"), sx.I(int64(s.wfrag))))
	}
	return n
}

// ---------------------------------------------------------------------------------------------------
// wire messages of the scripted peer
// ---------------------------------------------------------------------------------------------------

var helloBytes []byte

func theSchema() *schema.CallableSchema {
	in := schema.NewScopeSchema(schema.NewObjectSchema("I", map[string]*schema.PropertySchema{}))
	out := schema.NewScopeSchema(schema.NewObjectSchema("O", map[string]*schema.PropertySchema{}))
	step := schema.NewCallableStep[map[string]any]("s", in, map[string]*schema.StepOutputSchema{
		"ok": schema.NewStepOutputSchema(out, nil, false)}, nil,
		func(ctx context.Context, in map[string]any) (string, any) { return "ok", map[string]any{} })
	return schema.NewCallableSchema(step)
}

func mustMarshal(v any) []byte {
	b, err := cbor.Marshal(v)
	if err != nil {
		panic(err)
	}
	return b
}

func hello(version int64) []byte {
	ser, err := theSchema().SelfSerialize()
	if err != nil {
		panic(err)
	}
	return mustMarshal(atp.HelloMessage{Version: version, Schema: ser})
}

// encodePeer returns the bytes and the sticky fault of one scripted peer message.
func encodePeer(m pmsg) ([]byte, error) {
	rt := func(id uint32, data any) []byte {
		return mustMarshal(atp.RuntimeMessage{MessageID: id, RunID: m.run, MessageData: data})
	}
	switch m.kind {
	case "done":
		return rt(atp.MessageTypeWorkDone, atp.WorkDoneMessage{StepID: "s", OutputID: "ok", OutputData: map[string]any{}}), nil
	case "stepfatal":
		return rt(atp.MessageTypeError, atp.ErrorMessage{Error: "e", StepFatal: true}), nil
	case "stepfatal_norun":
		return mustMarshal(atp.RuntimeMessage{MessageID: atp.MessageTypeError, RunID: "", MessageData: atp.ErrorMessage{Error: "e", StepFatal: true}}), nil
	case "svfatal":
		return rt(atp.MessageTypeError, atp.ErrorMessage{Error: "e", StepFatal: true, ServerFatal: true}), nil
	case "notice":
		return rt(atp.MessageTypeError, atp.ErrorMessage{Error: "n"}), nil
	case "signal":
		return rt(atp.MessageTypeSignal, atp.SignalMessage{SignalID: "sg", Data: map[string]any{}}), nil
	case "unknown":
		return rt(99, map[string]any{}), nil
	case "baddone": // known id, data of the wrong shape
		return rt(atp.MessageTypeWorkDone, "not a map"), nil
	case "badrt": // well-formed CBOR that is not a runtime message
		return mustMarshal(map[string]any{"id": "x"}), nil
	case "eof":
		return nil, io.EOF
	case "readerr":
		return nil, errInjectedRead
	case "garbage":
		return []byte{0xff, 0xff, 0xff, 0xff}, io.EOF
	case "partial":
		b := rt(atp.MessageTypeWorkDone, atp.WorkDoneMessage{StepID: "s", OutputID: "ok", OutputData: map[string]any{}})
		return b[:len(b)/2], io.EOF
	}
	panic("unknown peer message kind " + m.kind)
}

// decodeClientMsg decodes the next message written by the client; ok=false when none is complete.
func decodeClientMsg(t *transport) (kind string, run string, ok bool) {
	b := t.pending()
	if len(b) == 0 {
		return "", "", false
	}
	dec := cbor.NewDecoder(bytes.NewReader(b))
	var m atp.DecodedRuntimeMessage
	if err := dec.Decode(&m); err != nil {
		return "", "", false
	}
	t.consume(dec.NumBytesRead())
	switch m.MessageID {
	case atp.MessageTypeWorkStart:
		return "workstart", m.RunID, true
	case atp.MessageTypeSignal:
		return "signal", m.RunID, true
	case atp.MessageTypeClientDone:
		return "clientdone", "", true
	}
	return "other" + strconv.Itoa(int(m.MessageID)), m.RunID, true
}

// ---------------------------------------------------------------------------------------------------
// one running session
// ---------------------------------------------------------------------------------------------------

type result struct {
	done bool
	ok   bool
	out  string
	n    int // times the call returned (must be 1)
}

type running struct {
	s        *session
	tr       *transport
	cl       atp.Client
	mu       sync.Mutex
	results  []result
	closeRes string // "" (not returned), ok, err, panic
	emitted  []int  // signals received from step per call
	sigCh    []chan schema.Input
	offered  []int // signals offered per call
	chClosed []bool
	accepted map[string]bool
	// sessions that RE-USE a run id (reuse): the peer answers every accepted work start once - the k-th segment of
	// the run's script (events up to and including a terminal message) may be sent once k work starts were accepted
	reuse     bool
	acceptedN map[string]int
	termSent  map[string]int
	quit      chan struct{} // closed at teardown: releases the consumers of emitted signals
	peerDone  bool
	sent      []bool // script message already sent
	dead      bool   // a fault item was sent: the peer sends nothing more
	nEmitted  int
	lanes     int
	wire      []string
	garbled   string // first foreign message the peer decoded ("" = none)
	lanesWG   sync.WaitGroup
}

// startSession creates the client, performs the handshake free-running, then activates the gates and
// starts the harness goroutines (lanes, closer), which park at their first gate.
func startSession(s *session) (*running, error) {
	sch.reset()
	r := &running{s: s, tr: newTransport(s.frag, false, -1), accepted: map[string]bool{}, acceptedN: map[string]int{},
		termSent: map[string]int{}, quit: make(chan struct{}), reuse: s.reusesRunIDs()}
	r.results = make([]result, len(s.calls))
	r.emitted = make([]int, len(s.calls))
	r.sigCh = make([]chan schema.Input, len(s.calls))
	r.offered = make([]int, len(s.calls))
	r.chClosed = make([]bool, len(s.calls))
	r.sent = make([]bool, len(s.script))
	r.cl = atp.NewClient(r.tr)
	// handshake
	herr := make(chan error, 1)
	go func() { _, err := r.cl.ReadSchema(); herr <- err }()
	r.tr.waitClientBytes()
	r.tr.consume(len(r.tr.pending()))
	if helloBytes == nil {
		helloBytes = hello(3)
	}
	r.tr.peerSend(helloBytes, nil)
	r.tr.allowMore(1)
	if err := <-herr; err != nil {
		return nil, fmt.Errorf("handshake failed: %w", err)
	}
	// the write side may fail from now on
	r.tr.mu.Lock()
	if s.wfail >= 0 {
		r.tr.writeOK = r.tr.writes + s.wfail
	}
	r.tr.wfrag = s.wfrag
	r.tr.mu.Unlock()
	sch.activate()
	for _, c := range s.calls {
		if c.lane+1 > r.lanes {
			r.lanes = c.lane + 1
		}
	}
	for l := 0; l < r.lanes; l++ {
		r.lanesWG.Add(1)
		go r.lane(l)
	}
	if s.close {
		r.lanesWG.Add(1)
		go r.closer()
	}
	waitQuiescent()
	return r, nil
}

func (r *running) lane(l int) {
	defer r.lanesWG.Done()
	defer sch.unregister()
	for i, c := range r.s.calls {
		if c.lane != l {
			continue
		}
		sch.register("caller" + strconv.Itoa(i))
		var sigTo chan schema.Input
		var sigFrom chan schema.Input
		if c.sigTo >= 0 {
			sigTo = make(chan schema.Input)
			r.mu.Lock()
			r.sigCh[i] = sigTo
			r.mu.Unlock()
		}
		if c.sigFrom {
			sigFrom = make(chan schema.Input)
			go func(i int) { // consumer_reads: the caller consumes every emitted signal
				for {
					select {
					case _, ok := <-sigFrom:
						if !ok {
							return
						}
						r.mu.Lock()
						r.emitted[i]++
						r.mu.Unlock()
					case <-r.quit: // the channel of a refused Execute is never closed by the client
						return
					}
				}
			}(i)
		}
		var res atp.ExecutionResult
		if sigTo == nil {
			res = r.cl.Execute(schema.Input{RunID: c.run, ID: "s", InputData: map[string]any{}}, nil, sigFrom)
		} else {
			res = r.cl.Execute(schema.Input{RunID: c.run, ID: "s", InputData: map[string]any{}}, sigTo, sigFrom)
		}
		r.mu.Lock()
		r.results[i].done = true
		r.results[i].n++
		r.results[i].ok = res.Error == nil
		r.results[i].out = res.OutputID
		r.mu.Unlock()
	}
}

func (r *running) closer() {
	defer r.lanesWG.Done()
	defer sch.unregister()
	sch.register("closer")
	res := "ok"
	func() {
		defer func() {
			if p := recover(); p != nil {
				res = "panic"
			}
		}()
		if err := r.cl.Close(); err != nil {
			res = "err"
		}
	}()
	r.mu.Lock()
	r.closeRes = res
	r.mu.Unlock()
}

// peer actions (executed synchronously by the driver) ---------------------------------------------

// peerAccept consumes the next client message, if one is complete.
func (r *running) peerAccept() (string, bool) {
	kind, run, ok := decodeClientMsg(r.tr)
	if !ok {
		return "", false
	}
	switch kind {
	case "workstart":
		r.accepted[run] = true
		r.acceptedN[run]++
	case "clientdone":
		r.peerDone = true
	}
	r.wire = append(r.wire, kind+":"+run)
	if r.garbled == "" {
		known := kind == "clientdone"
		for _, c := range r.s.calls {
			if (kind == "workstart" || kind == "signal") && c.run == run {
				known = true
			}
		}
		if !known {
			r.garbled = "the peer decoded a message the harness never had the client send: " + kind + " run " + strconv.Quote(run)
		}
	}
	return kind + ":" + run, true
}

// wireGarbled: what the transport and the peer saw of the client -> server stream that the client cannot have meant: two
// of its writers inside the transport's Write at once, a decoded message nobody sent, or - once nothing moves any more and
// no Write is in progress - bytes left that do not decode as a runtime message.  "" = the stream is the sequence of the
// messages sent.
func (r *running) wireGarbled(final bool) string {
	r.tr.mu.Lock()
	ov, inflight := r.tr.overlap, r.tr.wInFlight
	r.tr.mu.Unlock()
	if ov != "" {
		return "two writers of the client were inside the transport's Write at the same time (" + ov + "): their messages are interleaved in the client -> server stream"
	}
	if r.garbled != "" {
		return r.garbled
	}
	if final && inflight == 0 && len(r.tr.pending()) > 0 && !r.canAccept() {
		return "bytes of the client -> server stream do not decode as a runtime message although no Write is in progress"
	}
	return ""
}

func (r *running) canAccept() bool {
	b := r.tr.pending()
	if len(b) == 0 {
		return false
	}
	var m atp.DecodedRuntimeMessage
	return cbor.NewDecoder(bytes.NewReader(b)).Decode(&m) == nil
}

// nextOf returns the index of the first unsent script message of a run (-1: none).
func (r *running) nextOf(run string) int {
	for i, m := range r.s.script {
		if m.run == run && !r.sent[i] {
			return i
		}
	}
	return -1
}

// sendable: the peer may emit the next event of this run's plan (the run was accepted, the plan is not
// exhausted, no fault has been emitted yet).
func (r *running) sendable(run string) bool {
	if r.reuse && r.termSent[run] >= r.acceptedN[run] {
		return false // every accepted work start of this run id has its terminal message already
	}
	return !r.dead && r.accepted[run] && r.nextOf(run) >= 0
}

func isTerminalKind(k string) bool {
	switch k {
	case "done", "stepfatal", "stepfatal_norun", "svfatal", "baddone":
		return true
	}
	return false
}

// reusesRunIDs: two calls of the session carry the same run id.
func (s *session) reusesRunIDs() bool {
	seen := map[string]bool{}
	for _, c := range s.calls {
		if seen[c.run] {
			return true
		}
		seen[c.run] = true
	}
	return false
}

// expectedClass: the class (ok | err) of the result of call i when the session determines it: a healthy script (work
// done / step-fatal error for the run, signals, notices), no fault, and every call with this run id issued by the same
// harness goroutine, one after the other - then the k-th of them is an ordinary call answered by the k-th terminal
// message of that run id.  "" when the property does not fix the class (error fan-outs, faults, a run id in use on
// two goroutines: the later call may be refused).
func (s *session) expectedClass(i int) string {
	if s.faultN >= 0 || s.wfail >= 0 {
		return ""
	}
	for _, m := range s.script {
		switch m.kind {
		case "done", "stepfatal", "signal", "notice", "unknown":
		default:
			return ""
		}
	}
	c := s.calls[i]
	k := 0
	for j, d := range s.calls {
		if d.run != c.run {
			continue
		}
		if d.lane != c.lane {
			return ""
		}
		if j < i {
			k++
		}
	}
	n := 0
	for _, m := range s.script {
		if m.run == c.run && (m.kind == "done" || m.kind == "stepfatal") {
			if n == k {
				if m.kind == "done" {
					return "ok"
				}
				return "err"
			}
			n++
		}
	}
	return ""
}

// peerSend emits the next event of the run's plan - or, when this is the emission the session's fault
// replaces, the sticky fault.
func (r *running) peerSend(run string) string {
	if r.s.faultN >= 0 && r.nEmitted == r.s.faultN {
		b, fault := encodePeer(pmsg{run: "", kind: r.s.faultK})
		r.dead = true
		r.tr.peerSend(b, fault)
		return "fault:" + r.s.faultK
	}
	i := r.nextOf(run)
	m := r.s.script[i]
	b, fault := encodePeer(m)
	if m.kind == "baddone" && r.s.nodata {
		// a work-done message from which the data field is missing: nothing to decode a result from
		b = mustMarshal(map[string]any{"id": atp.MessageTypeWorkDone, "run_id": m.run})
	}
	r.sent[i] = true
	r.nEmitted++
	if isTerminalKind(m.kind) {
		r.termSent[m.run]++
	}
	if fault != nil {
		r.dead = true
	}
	r.tr.peerSend(b, fault)
	return m.kind + ":" + m.run
}

// runs lists the distinct runs of the script in order of first appearance.
func (r *running) runs() []string {
	var out []string
	seen := map[string]bool{}
	for _, m := range r.s.script {
		if !seen[m.run] {
			seen[m.run] = true
			out = append(out, m.run)
		}
	}
	return out
}

// finish tears the session down: gates off, wire closed; then waits (bounded) for the harness goroutines.
func (r *running) finish() {
	sch.deactivate()
	r.tr.shutdown()
	close(r.quit)
	r.mu.Lock()
	for i, ch := range r.sigCh {
		if ch != nil && !r.chClosed[i] {
			r.chClosed[i] = true
			close(ch)
		}
	}
	r.mu.Unlock()
}

func cborUnmarshal(b []byte, v any) error { return cbor.Unmarshal(b, v) }

// decodeStart decodes the next message the client wrote (v3: a runtime message; v1: a bare work-start message).
func decodeStart(b []byte, ver int) (n int, run string, isStart bool, ok bool) {
	dec := cbor.NewDecoder(bytes.NewReader(b))
	if ver == 1 {
		var m atp.WorkStartMessage
		if err := dec.Decode(&m); err != nil {
			return 0, "", false, false
		}
		return dec.NumBytesRead(), "", true, true
	}
	var m atp.DecodedRuntimeMessage
	if err := dec.Decode(&m); err != nil {
		return 0, "", false, false
	}
	return dec.NumBytesRead(), m.RunID, m.MessageID == atp.MessageTypeWorkStart, true
}
