package main

// Session generators.  Every random choice derives from the seed (VERIF_SEED).

import (
	"bufio"
	"fmt"
	"os"

	"verif/harness/sx"
)

var runNames = []string{"a", "b", "c", "d", "e", "f"}

// healthySession: n calls on random lanes, optional signal traffic both ways, every run answered by exactly one
// terminal message (work done or step-fatal error) preceded by the signals/notices the step emits.
func healthySession(r *Rng, n int, signals bool) *session {
	s := &session{wfail: -1, faultN: -1, ordered: false}
	lanes := 1 + r.Intn(n)
	switch r.Intn(3) {
	case 0:
		s.frag = 0
	case 1:
		s.frag = 1 + r.Intn(4)
	default:
		s.frag = 5 + r.Intn(40)
	}
	s.close = r.Intn(2) == 0
	for i := 0; i < n; i++ {
		c := call{run: runNames[i], lane: r.Intn(lanes), sigTo: -1}
		if i == 0 {
			c.lane = 0
		}
		if signals && r.Intn(3) == 0 {
			c.sigTo = r.Intn(3)
			c.closeCh = r.Intn(2) == 0
		}
		if signals && r.Intn(2) == 0 {
			c.sigFrom = true
		}
		s.calls = append(s.calls, c)
		if signals {
			for k := r.Intn(3); k > 0; k-- {
				s.script = append(s.script, pmsg{c.run, []string{"signal", "notice", "unknown", "signal"}[r.Intn(4)]})
			}
		}
		term := "done"
		if r.Intn(5) == 0 {
			term = "stepfatal"
		}
		s.script = append(s.script, pmsg{c.run, term})
	}
	// shuffle the script while keeping per-run order (only matters for `ordered` peers; harmless otherwise)
	return s
}

func choicesNode(r *Rng, n int) *sx.Node {
	l := sx.L(sx.A("choices"))
	for i := 0; i < n; i++ {
		l.Append(sx.I(int64(r.Intn(1 << 16))))
	}
	return l
}

// fixedSmall: the small sessions whose schedules are enumerated completely.
func fixedSmall() []*session {
	one := &session{wfail: -1, faultN: -1, calls: []call{{run: "a", sigTo: -1}}, script: []pmsg{{"a", "done"}}}
	serial2 := &session{wfail: -1, faultN: -1, calls: []call{{run: "a", sigTo: -1}, {run: "b", sigTo: -1}}, script: []pmsg{{"a", "done"}, {"b", "done"}}}
	par2 := &session{wfail: -1, faultN: -1, calls: []call{{run: "a", sigTo: -1}, {run: "b", lane: 1, sigTo: -1}}, script: []pmsg{{"a", "done"}, {"b", "stepfatal"}}}
	oneClose := &session{wfail: -1, faultN: -1, close: true, calls: []call{{run: "a", sigTo: -1}}, script: []pmsg{{"a", "done"}}}
	oneSig := &session{wfail: -1, faultN: -1, close: true, calls: []call{{run: "a", sigTo: 1, sigFrom: true}}, script: []pmsg{{"a", "signal"}, {"a", "done"}}}
	return []*session{one, serial2, par2, oneClose, oneSig}
}

func genCases(kind, tier string, seed uint64, outPath string) {
	out, err := os.Create(outPath)
	if err != nil {
		panic(err)
	}
	w := bufio.NewWriter(out)
	r := &Rng{s: seed}
	id := 0
	emit := func(fam string, s *session, mode *sx.Node) {
		id++
		fmt.Fprintln(w, sx.L(sx.A("case"), sx.I(int64(id)), sx.A(fam), sx.L(s.sx(), mode)).String())
	}
	switch kind {
	case "c06":
		enumMax := 400
		nRandom := 500
		if tier == "thorough" {
			enumMax = 20000
			nRandom = 8000
		}
		for _, s := range fixedSmall() {
			emit("atpclient", s, sx.L(sx.A("enum"), sx.I(int64(enumMax))))
		}
		for i := 0; i < nRandom; i++ {
			n := 1 + r.Intn(4)
			s := healthySession(r, n, r.Intn(3) > 0)
			emit("atpclient", s, choicesNode(r, 60+40*n))
		}
	case "c06x": // sessions for the search on the implementation
		nSess := 14
		if tier == "thorough" {
			nSess = 80
		}
		for _, s := range fixedSmall() {
			emit("atpexplore", s, sx.L(sx.A("delay2"), sx.I(400), sx.I(int64(r.Intn(1<<30)))))
		}
		for i := 0; i < nSess; i++ {
			n := 2 + r.Intn(3)
			s := healthySession(r, n, r.Intn(2) == 0)
			if i%2 == 0 {
				emit("atpexplore", s, sx.L(sx.A("random"), sx.I(int64(r.Intn(1<<30))), sx.I(25)))
			} else {
				emit("atpexplore", s, sx.L(sx.A("delay2"), sx.I(60), sx.I(int64(r.Intn(1<<30)))))
			}
		}
	default:
		genFaultCases(kind, tier, r, emit)
	}
	w.Flush()
	out.Close()
	fmt.Printf("generated %d cases\n", id)
}
