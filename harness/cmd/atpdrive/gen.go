package main

// Session generators.  Every random choice derives from the seed (VERIF_SEED).

import (
	"bufio"
	"fmt"
	"os"

	"verif/harness/sx"
)

var runNames = []string{"a", "b", "c", "d", "e", "f"}

// healthySession: n calls on random lanes, optional signal traffic both ways, every run answered by exactly one
// terminal message (work done or step-fatal error) preceded by the signals/notices the step emits.
func healthySession(r *Rng, n int, signals bool) *session {
	s := &session{wfail: -1, faultN: -1, ordered: false}
	lanes := 1 + r.Intn(n)
	switch r.Intn(3) {
	case 0:
		s.frag = 0
	case 1:
		s.frag = 1 + r.Intn(4)
	default:
		s.frag = 5 + r.Intn(40)
	}
	s.close = r.Intn(2) == 0
	for i := 0; i < n; i++ {
		c := call{run: runNames[i], lane: r.Intn(lanes), sigTo: -1}
		if i == 0 {
			c.lane = 0
		}
		if signals && r.Intn(3) == 0 {
			c.sigTo = r.Intn(3)
			c.closeCh = r.Intn(2) == 0
		}
		if signals && r.Intn(2) == 0 {
			c.sigFrom = true
		}
		s.calls = append(s.calls, c)
		if signals {
			for k := r.Intn(3); k > 0; k-- {
				s.script = append(s.script, pmsg{c.run, []string{"signal", "notice", "unknown", "signal"}[r.Intn(4)]})
			}
		}
		term := "done"
		if r.Intn(5) == 0 {
			term = "stepfatal"
		}
		s.script = append(s.script, pmsg{c.run, term})
	}
	// shuffle the script while keeping per-run order (only matters for `ordered` peers; harmless otherwise)
	return s
}

// errorSession: a healthy session in which the server ends one run the hard (but protocol-conforming) way: with a
// server-fatal error message, or with a step-fatal error message that carries no run id (what the real server sends for a
// work start without step id).  Both are fanned out by the client to EVERY pending Execute - whether or not it
// registered a channel for emitted signals - and only the server-fatal one ends the read loop.  The real server goes on
// reporting the runs that are still executing, so the other runs keep their own terminal messages.
func errorSession(r *Rng, n int, signals bool) *session {
	s := healthySession(r, n, signals)
	// An error fan-out can end a read loop while answers for the failed runs are still in its decoder's read-ahead.  The
	// model's read-ahead is whole messages; on an unfragmented transport so is the decoder's (a Read returns whole
	// messages), so the model is exact.  (With fragmented reads the next loop may start inside a message: C08's sessions.)
	s.frag = 0
	var terms []int
	for j, m := range s.script {
		if m.kind == "done" || m.kind == "stepfatal" {
			terms = append(terms, j)
		}
	}
	j := terms[r.Intn(len(terms))]
	s.script[j].kind = []string{"svfatal", "stepfatal_norun"}[r.Intn(2)]
	return s
}

// reuseSession: run ids are RE-USED - by a later Execute on the same harness goroutine (the earlier one has returned: an
// ordinary call), or by an Execute on another goroutine (while the earlier one is pending it is refused with an error,
// afterwards it is an ordinary call).  The peer answers every work start it accepts: the script holds one segment
// (signals/notices, then a terminal message) per call; a segment is used when the k-th work start of that run id has
// been accepted, the segment of a refused call is never used.  These sessions are outside the model's good sessions
// (distinct run ids): they are explored on the implementation and judged by the property's own predicate.
func reuseSession(r *Rng, n int, signals bool) *session {
	s := healthySession(r, n, signals)
	// at least one duplicate: every call after the first takes the id of an earlier call with probability 1/2
	dup := false
	for i := 1; i < n; i++ {
		if r.Intn(2) == 0 || (i == n-1 && !dup) {
			s.calls[i].run = s.calls[r.Intn(i)].run
			dup = true
		}
	}
	// the script follows the calls: rebuild it with the final run ids
	old := s.script
	s.script = nil
	k := 0
	for i := range s.calls {
		for ; k < len(old); k++ {
			m := old[k]
			s.script = append(s.script, pmsg{s.calls[i].run, m.kind})
			if m.kind == "done" || m.kind == "stepfatal" {
				k++
				break
			}
		}
	}
	return s
}

// signalTrafficSession: 2-4 Execute calls on harness goroutines of their own, most of them fed signals (1-3 each) through
// signalsToStep while the other calls start, finish and the client is closed - over a transport whose Write is not atomic for
// concurrent callers (wfrag: every Write of the client reaches the stream in small chunks, with a scheduling point in
// between).  The client has ONE encoder for work starts, signals and client-done: whatever the interleaving, the peer must
// decode exactly the messages that were sent.
func signalTrafficSession(r *Rng, coarse bool) *session {
	n := 2 + r.Intn(3)
	s := &session{wfail: -1, faultN: -1, ordered: false}
	s.frag = []int{0, 3, 16}[r.Intn(3)]
	s.wfrag = []int{1, 2, 3, 5, 8, 13}[r.Intn(6)]
	if coarse { // delay-bounded exploration re-runs the session once per step: fewer, larger chunks
		s.wfrag = []int{9, 14, 20}[r.Intn(3)]
	}
	s.close = r.Intn(3) > 0
	for i := 0; i < n; i++ {
		c := call{run: runNames[i], lane: i, sigTo: -1}
		if i == 0 || r.Intn(3) > 0 {
			c.sigTo = 1 + r.Intn(3)
			c.closeCh = r.Intn(2) == 0
		}
		c.sigFrom = r.Intn(4) == 0
		s.calls = append(s.calls, c)
		if c.sigFrom && r.Intn(2) == 0 {
			s.script = append(s.script, pmsg{c.run, "signal"})
		}
		term := "done"
		if r.Intn(5) == 0 {
			term = "stepfatal"
		}
		s.script = append(s.script, pmsg{c.run, term})
	}
	return s
}

func choicesNode(r *Rng, n int) *sx.Node {
	l := sx.L(sx.A("choices"))
	for i := 0; i < n; i++ {
		l.Append(sx.I(int64(r.Intn(1 << 16))))
	}
	return l
}

// fixedSmall: the small sessions whose schedules are enumerated completely.
func fixedSmall() []*session {
	one := &session{wfail: -1, faultN: -1, calls: []call{{run: "a", sigTo: -1}}, script: []pmsg{{"a", "done"}}}
	serial2 := &session{wfail: -1, faultN: -1, calls: []call{{run: "a", sigTo: -1}, {run: "b", sigTo: -1}}, script: []pmsg{{"a", "done"}, {"b", "done"}}}
	par2 := &session{wfail: -1, faultN: -1, calls: []call{{run: "a", sigTo: -1}, {run: "b", lane: 1, sigTo: -1}}, script: []pmsg{{"a", "done"}, {"b", "stepfatal"}}}
	oneClose := &session{wfail: -1, faultN: -1, close: true, calls: []call{{run: "a", sigTo: -1}}, script: []pmsg{{"a", "done"}}}
	oneSig := &session{wfail: -1, faultN: -1, close: true, calls: []call{{run: "a", sigTo: 1, sigFrom: true}}, script: []pmsg{{"a", "signal"}, {"a", "done"}}}
	return []*session{one, serial2, par2, oneClose, oneSig}
}

// fixedError: small sessions with the two error fan-outs (server-fatal; step-fatal without run id), the second run
// pending or started later, with and without a channel for emitted signals.
func fixedError() []*session {
	parFatal := &session{wfail: -1, faultN: -1, close: true, calls: []call{{run: "a", sigTo: -1, sigFrom: true}, {run: "b", lane: 1, sigTo: -1}},
		script: []pmsg{{"a", "svfatal"}, {"b", "done"}}}
	serNorun := &session{wfail: -1, faultN: -1, close: true, calls: []call{{run: "a", sigTo: -1}, {run: "b", sigTo: -1}},
		script: []pmsg{{"a", "stepfatal_norun"}, {"b", "done"}}}
	parNorun := &session{wfail: -1, faultN: -1, close: true, calls: []call{{run: "a", sigTo: -1}, {run: "b", lane: 1, sigTo: -1, sigFrom: true}},
		script: []pmsg{{"a", "stepfatal_norun"}, {"b", "done"}}}
	return []*session{parFatal, serNorun, parNorun}
}

// fixedReuse: the small sessions that re-use a run id.
func fixedReuse() []*session {
	serial := &session{wfail: -1, faultN: -1, close: true, calls: []call{{run: "a", sigTo: -1, sigFrom: true}, {run: "a", sigTo: -1}},
		script: []pmsg{{"a", "signal"}, {"a", "done"}, {"a", "done"}}}
	serialFail := &session{wfail: -1, faultN: -1, calls: []call{{run: "a", sigTo: -1}, {run: "a", sigTo: -1}, {run: "a", sigTo: -1, sigFrom: true}},
		script: []pmsg{{"a", "stepfatal"}, {"a", "done"}, {"a", "done"}}}
	overlap := &session{wfail: -1, faultN: -1, close: true, calls: []call{{run: "a", sigTo: -1}, {run: "a", lane: 1, sigTo: -1}},
		script: []pmsg{{"a", "done"}, {"a", "done"}}}
	overlap3 := &session{wfail: -1, faultN: -1, close: true, calls: []call{{run: "a", sigTo: -1, sigFrom: true}, {run: "b", lane: 1, sigTo: -1}, {run: "a", lane: 2, sigTo: -1}},
		script: []pmsg{{"a", "done"}, {"b", "done"}, {"a", "stepfatal"}}}
	return []*session{serial, serialFail, overlap, overlap3}
}

func genCases(kind, tier string, seed uint64, outPath string) {
	out, err := os.Create(outPath)
	if err != nil {
		panic(err)
	}
	w := bufio.NewWriter(out)
	r := &Rng{s: seed}
	id := 0
	emit := func(fam string, s *session, mode *sx.Node) {
		id++
		fmt.Fprintln(w, sx.L(sx.A("case"), sx.I(int64(id)), sx.A(fam), sx.L(s.sx(), mode)).String())
	}
	switch kind {
	case "c06":
		enumMax := 400
		nRandom := 460
		nError := 50
		if tier == "thorough" {
			enumMax = 20000
			nRandom = 8000
			nError = 1500
		}
		for _, s := range fixedSmall() {
			emit("atpclient", s, sx.L(sx.A("enum"), sx.I(int64(enumMax))))
		}
		for i := 0; i < nRandom; i++ {
			n := 1 + r.Intn(4)
			s := healthySession(r, n, r.Intn(3) > 0)
			emit("atpclient", s, choicesNode(r, 60+40*n))
		}
		// error fan-outs: the fixed small ones several times (different random schedules), then generated ones
		for rep := 0; rep < 3; rep++ {
			for _, s := range fixedError() {
				emit("atpclient", s, choicesNode(r, 140))
			}
		}
		for i := 0; i < nError; i++ {
			n := 2 + r.Intn(3)
			s := errorSession(r, n, r.Intn(3) > 0)
			emit("atpclient", s, choicesNode(r, 60+40*n))
		}
	case "c06x": // sessions for the search on the implementation
		nSess := 14
		nErr, nReuse := 4, 6
		if tier == "thorough" {
			nSess = 80
			nErr, nReuse = 40, 60
		}
		for _, s := range fixedSmall() {
			emit("atpexplore", s, sx.L(sx.A("delay2"), sx.I(400), sx.I(int64(r.Intn(1<<30)))))
		}
		for i := 0; i < nSess; i++ {
			n := 2 + r.Intn(3)
			s := healthySession(r, n, r.Intn(2) == 0)
			if i%2 == 0 {
				emit("atpexplore", s, sx.L(sx.A("random"), sx.I(int64(r.Intn(1<<30))), sx.I(25)))
			} else {
				emit("atpexplore", s, sx.L(sx.A("delay2"), sx.I(60), sx.I(int64(r.Intn(1<<30)))))
			}
		}
		// error fan-outs and re-used run ids
		for _, s := range fixedError() {
			emit("atpexplore", s, sx.L(sx.A("delay2"), sx.I(60), sx.I(int64(r.Intn(1<<30)))))
		}
		for i := 0; i < nErr; i++ {
			s := errorSession(r, 2+r.Intn(3), r.Intn(2) == 0)
			emit("atpexplore", s, sx.L(sx.A("random"), sx.I(int64(r.Intn(1<<30))), sx.I(20)))
		}
		for _, s := range fixedReuse() {
			emit("atpexplore", s, sx.L(sx.A("delay2"), sx.I(60), sx.I(int64(r.Intn(1<<30)))))
		}
		for i := 0; i < nReuse; i++ {
			s := reuseSession(r, 2+r.Intn(3), r.Intn(2) == 0)
			if i%2 == 0 {
				emit("atpexplore", s, sx.L(sx.A("random"), sx.I(int64(r.Intn(1<<30))), sx.I(20)))
			} else {
				emit("atpexplore", s, sx.L(sx.A("delay2"), sx.I(40), sx.I(int64(r.Intn(1<<30)))))
			}
		}
	case "c05m": // C05: MODEL schedules (coq/ATP/Client.v) forced on the real client - sessions in which the peer sends NON-TERMINAL
		// messages that carry a run id (a non-fatal error report = notice, emitted signals, unknown message ids) before the run's
		// terminal message: the model routes by run id and message class (C05_client_routes_by_run_id), the result of every
		// Execute is compared with the model's
		nSess := 36
		if tier == "thorough" {
			nSess = 600
		}
		for i := 0; i < nSess; i++ {
			n := 1 + r.Intn(3)
			s := healthySession(r, n, true)
			// every run gets at least one notice in front of its terminal message
			var script []pmsg
			for _, m := range s.script {
				if isTerminalKind(m.kind) {
					for k := 1 + r.Intn(2); k > 0; k-- {
						script = append(script, pmsg{m.run, "notice"})
					}
				}
				script = append(script, m)
			}
			s.script = script
			emit("atpclient", s, choicesNode(r, 80+50*n))
		}
	case "c05x": // C05: results are never lost, duplicated or delivered to another call, under controlled interleavings
		nSess := 6
		if tier == "thorough" {
			nSess = 60
		}
		for _, s := range fixedSmall() {
			emit("atpexplore", s, sx.L(sx.A("delay2"), sx.I(250), sx.I(int64(r.Intn(1<<30)))))
		}
		for _, s := range fixedReuse()[:2] { // run ids re-used one call after the other: ordinary calls
			emit("atpexplore", s, sx.L(sx.A("delay2"), sx.I(100), sx.I(int64(r.Intn(1<<30)))))
		}
		for i := 0; i < nSess; i++ {
			n := 2 + r.Intn(3)
			s := healthySession(r, n, r.Intn(2) == 0)
			if i%2 == 0 {
				emit("atpexplore", s, sx.L(sx.A("random"), sx.I(int64(r.Intn(1<<30))), sx.I(20)))
			} else {
				emit("atpexplore", s, sx.L(sx.A("delay2"), sx.I(40), sx.I(int64(r.Intn(1<<30)))))
			}
		}
		// signal traffic to running steps while other calls start, over a transport whose Write is not atomic
		{
			two := &session{wfail: -1, faultN: -1, close: true, wfrag: 12, calls: []call{{run: "a", sigTo: 2}, {run: "b", lane: 1, sigTo: -1}},
				script: []pmsg{{"a", "done"}, {"b", "done"}}}
			emit("atpexplore", two, sx.L(sx.A("delay2"), sx.I(150), sx.I(int64(r.Intn(1<<30)))))
			emit("atpexplore", two, sx.L(sx.A("random"), sx.I(int64(r.Intn(1<<30))), sx.I(20)))
		}
		nSig := 8
		if tier == "thorough" {
			nSig = 80
		}
		for i := 0; i < nSig; i++ {
			s := signalTrafficSession(r, i%2 == 1)
			if i%2 == 0 {
				emit("atpexplore", s, sx.L(sx.A("random"), sx.I(int64(r.Intn(1<<30))), sx.I(16)))
			} else {
				emit("atpexplore", s, sx.L(sx.A("delay2"), sx.I(30), sx.I(int64(r.Intn(1<<30)))))
			}
		}
	default:
		genFaultCases(kind, tier, r, emit)
	}
	w.Flush()
	out.Close()
	fmt.Printf("generated %d cases\n", id)
}
