package main

// replay mode: a schedule computed by the Coq model (a list of (role, label, argument, expected gate kinds))
// is forced on the real client; the observation is the per-role trace of gate kinds, the result of every
// Execute and of Close, the messages the peer received, and who is left parked or blocked at the end.

import (
	"fmt"
	"sort"
	"strconv"
	"strings"
	"time"

	"go.flow.arcalot.io/pluginsdk/schema"
	"verif/harness/sx"
)

type mstep struct {
	role  string
	label string
	arg   int
	sarg  string
	kinds []string
}

func parseSteps(n *sx.Node) []mstep {
	var out []mstep
	for _, s := range n.List[1:] {
		st := mstep{role: s.List[1].Atom, label: s.List[2].Atom}
		if s.List[3].IsStr {
			st.sarg = s.List[3].Str
		} else {
			st.arg = int(s.List[3].Int())
		}
		for _, k := range s.List[4].List {
			st.kinds = append(st.kinds, k.Atom)
		}
		out = append(out, st)
	}
	return out
}

func (r *running) offerSignal(i int) {
	r.mu.Lock()
	ch := r.sigCh[i]
	r.offered[i]++
	r.mu.Unlock()
	go func() {
		defer func() { _ = recover() }() // the channel may be closed at teardown
		ch <- schema.Input{RunID: r.s.calls[i].run, ID: "sg", InputData: map[string]any{}}
	}()
}

func (r *running) closeSigCh(i int) {
	r.mu.Lock()
	if !r.chClosed[i] {
		r.chClosed[i] = true
		close(r.sigCh[i])
	}
	r.mu.Unlock()
}

func callIndexOfRole(name string) int {
	for _, p := range []string{"caller", "sig"} {
		if strings.HasPrefix(name, p) {
			i, err := strconv.Atoi(name[len(p):])
			if err == nil {
				return i
			}
		}
	}
	return -1
}

// diverged: the implementation cannot follow the model's schedule at step idx.  The session is then CONTINUED on the
// real client alone, gate by gate, under a deterministic scheduler (keep running the current agent while it is
// enabled, else the first enabled one; the peer accepts and answers) until nothing is enabled any more: if an Execute
// or Close has still not returned the divergence is not just a difference of traces but a hang, and the observation
// carries it (`then (stuck 1) FINAL (choices ...)`); the schedule prefix + those choices is the failing input.
func (r *running) diverged(idx int, role, want, got string) *sx.Node {
	d := sx.L(sx.A("diverged"), sx.I(int64(idx)), sx.A(role), sx.A(want), sx.A(got))
	d.Append(r.continueFree())
	return d
}

func (r *running) continueFree() *sx.Node {
	r.tr.mu.Lock()
	r.tr.free = true
	r.tr.cond.Broadcast()
	r.tr.mu.Unlock()
	waitQuiescent()
	trace := sx.L(sx.A("choices"))
	cur := ""
	for steps := 0; steps < 3000; steps++ {
		en := r.enabled()
		if len(en) == 0 {
			break
		}
		k := 0
		for i, a := range en {
			if a.name == cur {
				k = i
			}
		}
		pick := en[k]
		cur = pick.name
		r.takeStep(pick)
		trace.Append(sx.A(pick.name))
	}
	// Close in waitWithTimeout (its waiter goroutine exists): the 5 s timer decides, wait for it (bounded)
	if r.s.close && sch.find("waiter") != nil {
		for i := 0; i < 800; i++ {
			r.mu.Lock()
			d := r.closeRes != ""
			r.mu.Unlock()
			if d {
				break
			}
			time.Sleep(10 * time.Millisecond)
		}
	}
	obs := r.observe()
	return sx.L(sx.A("then"), sx.L(sx.A("stuck"), sx.B(r.stuck())), obs, trace)
}

// parkedAt returns the gate the role is parked at; a role that is not parked is looked at again after a confirmed
// quiescence before the driver concludes that it never got to a gate.
func parkedAt(role *role) *parked {
	sch.mu.Lock()
	at := role.at
	sch.mu.Unlock()
	if at == nil {
		confirmQuiescent()
		sch.mu.Lock()
		at = role.at
		sch.mu.Unlock()
	}
	return at
}

// replaySchedule forces the steps; returns the observation.
func replaySchedule(s *session, steps []mstep) *sx.Node {
	r, err := startSession(s)
	if err != nil {
		return sx.L(sx.A("handshake-failed"))
	}
	defer r.finish()
	for idx, st := range steps {
		if st.role == "peer" {
			switch st.label {
			case "accept":
				if _, ok := r.peerAccept(); !ok {
					return r.diverged(idx, "peer", "accept", "nothing-to-accept")
				}
			case "send":
				if !r.sendable(st.sarg) {
					return r.diverged(idx, "peer", "send", "not-sendable")
				}
				r.peerSend(st.sarg)
			}
			waitQuiescent()
			continue
		}
		if st.label == "timeout" {
			// the 5 s timer of waitWithTimeout: wait (bounded) until Close has returned or panicked
			for i := 0; i < 800; i++ {
				r.mu.Lock()
				d := r.closeRes != ""
				r.mu.Unlock()
				if d {
					break
				}
				time.Sleep(10 * time.Millisecond)
			}
			waitQuiescent()
			continue
		}
		role := sch.find(st.role)
		if role == nil {
			confirmQuiescent()
			role = sch.find(st.role)
		}
		if role == nil {
			return r.diverged(idx, st.role, st.label, "no-such-goroutine")
		}
		switch st.label {
		case "decode":
			if st.arg > 0 {
				r.tr.allowMore(st.arg)
			}
		case "sigforward":
			r.offerSignal(callIndexOfRole(st.role))
			waitQuiescent()
		case "sigclosed":
			r.closeSigCh(callIndexOfRole(st.role))
		}
		for _, want := range st.kinds {
			if strings.HasPrefix(want, "Fan:") {
				// sendErrorToAll: Signal / ChanClose gates in map-iteration order; only the totals are fixed
				f := strings.Split(want, ":")
				ns, _ := strconv.Atoi(f[1])
				nc, _ := strconv.Atoi(f[2])
				for ns+nc > 0 {
					at := parkedAt(role)
					if at == nil {
						return r.diverged(idx, st.role, want, "not-parked")
					}
					switch {
					case at.kind == "Signal" && ns > 0:
						ns--
					case at.kind == "ChanClose" && nc > 0:
						nc--
					default:
						return r.diverged(idx, st.role, want, at.kind)
					}
					sch.release(role, false)
				}
				sch.mu.Lock()
				sch.traces[role.name] = append(sch.traces[role.name], want)
				sch.mu.Unlock()
				continue
			}
			at := parkedAt(role)
			if at == nil {
				return r.diverged(idx, st.role, want, "not-parked")
			}
			if at.kind != want {
				return r.diverged(idx, st.role, want, at.kind)
			}
			sch.releaseOne(role)
		}
	}
	return r.observe()
}

// observe prints the final state of the session.
func (r *running) observe() *sx.Node {
	waitQuiescent()
	if r.stuck() {
		// something has not returned: make sure that this is not a goroutine the machine has not scheduled yet
		confirmQuiescent()
	}
	traces := sx.L(sx.A("traces"))
	sch.mu.Lock()
	names := append([]string(nil), sch.order...)
	sort.Strings(names)
	for _, n := range names {
		if len(sch.traces[n]) == 0 {
			continue
		}
		t := sx.L(sx.A(n))
		for _, k := range sch.traces[n] {
			t.Append(sx.A(k))
		}
		traces.Append(t)
	}
	left := sx.L(sx.A("left"))
	var ln []string
	seen := map[string]*role{}
	for _, ro := range sch.roles {
		if !ro.exited {
			seen[ro.name] = ro
			ln = append(ln, ro.name)
		}
	}
	sort.Strings(ln)
	for _, n := range ln {
		ro := seen[n]
		if ro.at != nil {
			left.Append(sx.L(sx.A(n), sx.A("parked"), sx.A(ro.at.kind)))
		} else {
			left.Append(sx.L(sx.A(n), sx.A("blocked")))
		}
	}
	sch.mu.Unlock()
	r.mu.Lock()
	defer r.mu.Unlock()
	res := sx.L(sx.A("results"))
	for i, c := range r.s.calls {
		x := r.results[i]
		cls := "none"
		if x.done && x.ok {
			cls = "ok"
		} else if x.done {
			cls = "err"
		}
		res.Append(sx.L(sx.S(c.run), sx.A(cls), sx.I(int64(x.n))))
	}
	cl := r.closeRes
	if cl == "" {
		cl = "none"
	}
	em := sx.L(sx.A("emitted"))
	for _, e := range r.emitted {
		em.Append(sx.I(int64(e)))
	}
	wire := sx.L(sx.A("wire"))
	for _, w := range r.wire {
		wire.Append(sx.A(w))
	}
	return sx.L(sx.A("final"), traces, res, sx.L(sx.A("close"), sx.A(cl)), em, wire, left)
}

func (r *running) stuck() bool {
	r.mu.Lock()
	defer r.mu.Unlock()
	for _, x := range r.results {
		if !x.done {
			return true
		}
	}
	return r.s.close && r.closeRes == ""
}

func fmtSteps(steps []mstep) string {
	var b strings.Builder
	for _, s := range steps {
		fmt.Fprintf(&b, "%s:%s ", s.role, s.label)
	}
	return b.String()
}
