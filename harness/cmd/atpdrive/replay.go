package main

// replay mode: a schedule computed by the Coq model (a list of (role, label, argument, expected gate kinds))
// is forced on the real client; the observation is the per-role trace of gate kinds, the result of every
// Execute and of Close, the messages the peer received, and who is left parked or blocked at the end.

import (
	"fmt"
	"sort"
	"strconv"
	"strings"
	"time"

	"go.flow.arcalot.io/pluginsdk/schema"
	"verif/harness/sx"
)

type mstep struct {
	role  string
	label string
	arg   int
	sarg  string
	kinds []string
}

func parseSteps(n *sx.Node) []mstep {
	var out []mstep
	for _, s := range n.List[1:] {
		st := mstep{role: s.List[1].Atom, label: s.List[2].Atom}
		if s.List[3].IsStr {
			st.sarg = s.List[3].Str
		} else {
			st.arg = int(s.List[3].Int())
		}
		for _, k := range s.List[4].List {
			st.kinds = append(st.kinds, k.Atom)
		}
		out = append(out, st)
	}
	return out
}

func (r *running) offerSignal(i int) {
	r.mu.Lock()
	ch := r.sigCh[i]
	r.offered[i]++
	r.mu.Unlock()
	go func() {
		defer func() { _ = recover() }() // the channel may be closed at teardown
		ch <- schema.Input{RunID: r.s.calls[i].run, ID: "sg", InputData: map[string]any{}}
	}()
}

func (r *running) closeSigCh(i int) {
	r.mu.Lock()
	if !r.chClosed[i] {
		r.chClosed[i] = true
		close(r.sigCh[i])
	}
	r.mu.Unlock()
}

func callIndexOfRole(name string) int {
	for _, p := range []string{"caller", "sig"} {
		if strings.HasPrefix(name, p) {
			i, err := strconv.Atoi(name[len(p):])
			if err == nil {
				return i
			}
		}
	}
	return -1
}

// replaySchedule forces the steps; returns the observation.
func replaySchedule(s *session, steps []mstep) *sx.Node {
	r, err := startSession(s)
	if err != nil {
		return sx.L(sx.A("handshake-failed"))
	}
	defer r.finish()
	for idx, st := range steps {
		if st.role == "peer" {
			switch st.label {
			case "accept":
				if _, ok := r.peerAccept(); !ok {
					return sx.L(sx.A("diverged"), sx.I(int64(idx)), sx.A("peer"), sx.A("accept"), sx.A("nothing-to-accept"))
				}
			case "send":
				if !r.sendable(st.sarg) {
					return sx.L(sx.A("diverged"), sx.I(int64(idx)), sx.A("peer"), sx.A("send"), sx.A("not-sendable"))
				}
				r.peerSend(st.sarg)
			}
			waitQuiescent()
			continue
		}
		if st.label == "timeout" {
			// the 5 s timer of waitWithTimeout: wait (bounded) until Close has returned or panicked
			for i := 0; i < 800; i++ {
				r.mu.Lock()
				d := r.closeRes != ""
				r.mu.Unlock()
				if d {
					break
				}
				time.Sleep(10 * time.Millisecond)
			}
			waitQuiescent()
			continue
		}
		role := sch.find(st.role)
		if role == nil {
			return sx.L(sx.A("diverged"), sx.I(int64(idx)), sx.A(st.role), sx.A(st.label), sx.A("no-such-goroutine"))
		}
		switch st.label {
		case "decode":
			if st.arg > 0 {
				r.tr.allowMore(st.arg)
			}
		case "sigforward":
			r.offerSignal(callIndexOfRole(st.role))
			waitQuiescent()
		case "sigclosed":
			r.closeSigCh(callIndexOfRole(st.role))
		}
		for _, want := range st.kinds {
			if strings.HasPrefix(want, "Fan:") {
				// sendErrorToAll: Signal / ChanClose gates in map-iteration order; only the totals are fixed
				f := strings.Split(want, ":")
				ns, _ := strconv.Atoi(f[1])
				nc, _ := strconv.Atoi(f[2])
				for ns+nc > 0 {
					sch.mu.Lock()
					at := role.at
					sch.mu.Unlock()
					if at == nil {
						return sx.L(sx.A("diverged"), sx.I(int64(idx)), sx.A(st.role), sx.A(want), sx.A("not-parked"))
					}
					switch {
					case at.kind == "Signal" && ns > 0:
						ns--
					case at.kind == "ChanClose" && nc > 0:
						nc--
					default:
						return sx.L(sx.A("diverged"), sx.I(int64(idx)), sx.A(st.role), sx.A(want), sx.A(at.kind))
					}
					sch.release(role, false)
				}
				sch.mu.Lock()
				sch.traces[role.name] = append(sch.traces[role.name], want)
				sch.mu.Unlock()
				continue
			}
			sch.mu.Lock()
			at := role.at
			sch.mu.Unlock()
			if at == nil {
				return sx.L(sx.A("diverged"), sx.I(int64(idx)), sx.A(st.role), sx.A(want), sx.A("not-parked"))
			}
			if at.kind != want {
				return sx.L(sx.A("diverged"), sx.I(int64(idx)), sx.A(st.role), sx.A(want), sx.A(at.kind))
			}
			sch.releaseOne(role)
		}
	}
	return r.observe()
}

// observe prints the final state of the session.
func (r *running) observe() *sx.Node {
	waitQuiescent()
	traces := sx.L(sx.A("traces"))
	sch.mu.Lock()
	names := append([]string(nil), sch.order...)
	sort.Strings(names)
	for _, n := range names {
		if len(sch.traces[n]) == 0 {
			continue
		}
		t := sx.L(sx.A(n))
		for _, k := range sch.traces[n] {
			t.Append(sx.A(k))
		}
		traces.Append(t)
	}
	left := sx.L(sx.A("left"))
	var ln []string
	seen := map[string]*role{}
	for _, ro := range sch.roles {
		if !ro.exited {
			seen[ro.name] = ro
			ln = append(ln, ro.name)
		}
	}
	sort.Strings(ln)
	for _, n := range ln {
		ro := seen[n]
		if ro.at != nil {
			left.Append(sx.L(sx.A(n), sx.A("parked"), sx.A(ro.at.kind)))
		} else {
			left.Append(sx.L(sx.A(n), sx.A("blocked")))
		}
	}
	sch.mu.Unlock()
	r.mu.Lock()
	defer r.mu.Unlock()
	res := sx.L(sx.A("results"))
	for i, c := range r.s.calls {
		x := r.results[i]
		cls := "none"
		if x.done && x.ok {
			cls = "ok"
		} else if x.done {
			cls = "err"
		}
		res.Append(sx.L(sx.S(c.run), sx.A(cls), sx.I(int64(x.n))))
	}
	cl := r.closeRes
	if cl == "" {
		cl = "none"
	}
	em := sx.L(sx.A("emitted"))
	for _, e := range r.emitted {
		em.Append(sx.I(int64(e)))
	}
	wire := sx.L(sx.A("wire"))
	for _, w := range r.wire {
		wire.Append(sx.A(w))
	}
	return sx.L(sx.A("final"), traces, res, sx.L(sx.A("close"), sx.A(cl)), em, wire, left)
}

func (r *running) stuck() bool {
	r.mu.Lock()
	defer r.mu.Unlock()
	for _, x := range r.results {
		if !x.done {
			return true
		}
	}
	return r.s.close && r.closeRes == ""
}

func fmtSteps(steps []mstep) string {
	var b strings.Builder
	for _, s := range steps {
		fmt.Fprintf(&b, "%s:%s ", s.role, s.label)
	}
	return b.String()
}
