package main

// explore mode (search on the implementation, no model involved): gate-by-gate scheduling of the real client
// against the scripted healthy peer, seeded random or delay-bounded (a deterministic round-robin scheduler in
// which chosen steps are "delayed": the agent that would run is skipped once - every step singly and in
// pairs, as the quantifier of C06 says).  A session that ends with an Execute (or Close) not returned while
// nothing can move any more - every goroutine parked-and-disabled or blocked in the runtime, the peer with
// nothing left to accept or send - is a hang; the list of choices is its replay.

import (
	"fmt"
	"strconv"
	"strings"

	"verif/harness/sx"
)

type agent struct {
	name string // role name, or peer:accept / peer:send:RUN
	role *role
	send string
}

// enabled lists the agents that can take a step now, in canonical order (roles by creation, then the peer).
func (r *running) enabled() []agent {
	var out []agent
	for _, ro := range sch.parkedRoles() {
		sch.mu.Lock()
		kind := ro.at.kind
		name := ro.name
		sch.mu.Unlock()
		if name == "closer" && kind == "Cancel" && !r.allSent() {
			continue // harness rule: Close is called once every Execute has sent its work start
		}
		if strings.HasPrefix(name, "sig") && kind == "Select" {
			i := callIndexOfRole(name)
			c := r.s.calls[i]
			r.mu.Lock()
			more := r.offered[i] < c.sigTo
			closed := r.chClosed[i]
			r.mu.Unlock()
			if !(r.cancelled() || more || c.closeCh || closed) {
				continue // would block for ever: nothing to receive, channel stays open, no Close
			}
		}
		out = append(out, agent{name: name, role: ro})
	}
	if r.canAccept() {
		out = append(out, agent{name: "peer:accept"})
	}
	for _, run := range r.runs() {
		if r.sendable(run) {
			out = append(out, agent{name: "peer:send:" + run, send: run})
		}
	}
	return out
}

func (r *running) cancelled() bool {
	sch.mu.Lock()
	defer sch.mu.Unlock()
	for _, k := range sch.traces["closer"] {
		if k == "Cancel" {
			return true
		}
	}
	return false
}

func (r *running) allSent() bool {
	r.mu.Lock()
	defer r.mu.Unlock()
	sch.mu.Lock()
	defer sch.mu.Unlock()
	for i := range r.s.calls {
		if r.results[i].done {
			continue
		}
		ok := false
		for _, ro := range sch.roles {
			if ro.name == "caller"+strconv.Itoa(i) && ro.sent {
				ok = true
			}
		}
		if !ok {
			return false
		}
	}
	return true
}

// takeStep performs one agent's step.
func (r *running) takeStep(a agent) string {
	switch {
	case a.name == "peer:accept":
		w, _ := r.peerAccept()
		waitQuiescent()
		return w
	case strings.HasPrefix(a.name, "peer:send:"):
		w := r.peerSend(a.send)
		waitQuiescent()
		return w
	}
	sch.mu.Lock()
	kind := a.role.at.kind
	sch.mu.Unlock()
	if strings.HasPrefix(a.name, "sig") && kind == "Select" && !r.cancelled() {
		i := callIndexOfRole(a.name)
		c := r.s.calls[i]
		r.mu.Lock()
		more := r.offered[i] < c.sigTo
		r.mu.Unlock()
		if more {
			r.offerSignal(i)
			waitQuiescent()
		} else if c.closeCh {
			r.closeSigCh(i)
		}
	}
	_, site := sch.releaseOne(a.role)
	return site
}

type strategy struct {
	kind    string // random | delay | choices
	rng     *Rng
	delays  map[int]bool
	choices []string
}

// recvOfSite extracts the receiver expression from `<func>|<Kind>:<recv>[#Woke]`.
func recvOfSite(site string) string {
	i := strings.Index(site, ":")
	if i < 0 {
		return ""
	}
	return strings.TrimSuffix(site[i+1:], "#Woke")
}

// Rng is splitmix64 (the same generator as the case generators).
type Rng struct{ s uint64 }

func (r *Rng) Next() uint64 {
	r.s += 0x9e3779b97f4a7c15
	z := r.s
	z = (z ^ (z >> 30)) * 0xbf58476d1ce4e5b9
	z = (z ^ (z >> 27)) * 0x94d049bb133111eb
	return z ^ (z >> 31)
}
func (r *Rng) Intn(n int) int { return int(r.Next() % uint64(n)) }

// exploreOnce runs one session under a strategy; returns the observation and the number of steps taken.
func exploreOnce(s *session, st strategy) (*sx.Node, int) {
	r, err := startSession(s)
	if err != nil {
		return sx.L(sx.A("handshake-failed")), 0
	}
	r.tr.mu.Lock()
	r.tr.free = true
	r.tr.mu.Unlock()
	defer r.finish()
	trace := sx.L(sx.A("choices"))
	sites := sx.L(sx.A("sites"))
	cur := ""
	steps := 0
	// the lock discipline of the shared encoder (coq/ATP/Wire.v, C05_wire_framed): a goroutine passes an Encode gate of
	// c.encoder - and hands pieces of a Write to the transport - only between its own Lock and Unlock gates of c.mutex
	held := map[string]bool{}
	lockfree := ""
	for ; steps < 3000; steps++ {
		en := r.enabled()
		if len(en) == 0 {
			break
		}
		var pick agent
		switch st.kind {
		case "random":
			pick = en[st.rng.Intn(len(en))]
		case "choices":
			if steps >= len(st.choices) {
				pick = en[0]
			} else {
				found := false
				for _, a := range en {
					if a.name == st.choices[steps] {
						pick, found = a, true
					}
				}
				if !found {
					return sx.L(sx.A("choice-not-enabled"), sx.I(int64(steps)), sx.A(st.choices[steps])), steps
				}
			}
		default: // delay-bounded round robin: keep running the current agent while it is enabled
			k := 0
			for i, a := range en {
				if a.name == cur {
					k = i
				}
			}
			if st.delays[steps] && len(en) > 1 {
				k = (k + 1) % len(en)
			}
			pick = en[k]
		}
		cur = pick.name
		site := r.takeStep(pick)
		if pick.role != nil {
			kind, recv := kindOfSite(site), recvOfSite(site)
			switch {
			case kind == "Lock" && recv == "c.mutex":
				held[pick.name] = true
			case kind == "Unlock" && recv == "c.mutex":
				held[pick.name] = false
			case (kind == "Encode" && recv == "c.encoder") || kind == "WChunk":
				if !held[pick.name] && lockfree == "" {
					lockfree = pick.name + " passed " + site + " without holding c.mutex (its own gate trace has no Lock of c.mutex since its last Unlock)"
				}
			}
		}
		trace.Append(sx.A(pick.name))
		sites.Append(sx.S(pick.name + " " + site))
	}
	obs := r.observe()
	stuck := r.stuck()
	double := false
	wrong := ""
	r.mu.Lock()
	for i, x := range r.results {
		if x.n > 1 {
			double = true
		}
		// the result a call got is not the one the peer sent for it (where the session determines it)
		if want := s.expectedClass(i); want != "" && x.done && wrong == "" {
			got := "err"
			if x.ok {
				got = "ok"
			}
			if got != want {
				wrong = fmt.Sprintf("Execute #%d (run %q) returned %s; the peer answered this call with %s", i, s.calls[i].run,
					map[string]string{"ok": "success", "err": "an error"}[got],
					map[string]string{"ok": "a work-done message", "err": "a step-fatal error for its run id"}[want])
			}
		}
	}
	r.mu.Unlock()
	if g := r.wireGarbled(true); g != "" && wrong == "" {
		// C05: results are never corrupted by interleaved writes - reported through the `wrong` slot of the summary
		wrong = g
	}
	return sx.L(sx.A("xobs"), sx.L(sx.A("stuck"), sx.B(stuck)), sx.L(sx.A("double"), sx.B(double)), obs, trace, sites,
		sx.L(sx.A("wrong"), sx.B(wrong != ""), sx.S(wrong)), sx.L(sx.A("lockfree"), sx.B(lockfree != ""), sx.S(lockfree))), steps
}
