package main

// The client's view of the wire under driver control: an in-memory ClientChannel.
//
//   server -> client: the peer appends whole *items* (one encoded message, or a fault marker); the client may
//   read only up to a limit expressed in items (`allow`), at most `frag` bytes per Read (fragmenting mode);
//   a fault item makes every Read at that point return its error again (sticky).
//   client -> server: Write appends to a buffer the peer decodes from; after `writeOK` successful writes the
//   write side fails (C08 "the write side failing independently").  With `wfrag` > 0 (explore mode) a Write is NOT atomic
//   for concurrent callers - like an OS pipe above PIPE_BUF, or any writer that forwards in pieces: it hands its bytes over
//   in chunks of `wfrag` bytes and the calling goroutine parks at a scheduler gate (kind WChunk) between two chunks, so the
//   driver decides who runs while a message is half written.  Two Write calls in the transport at the same time are recorded
//   (`overlap`): the client's messages are then interleaved in the stream (C05: "never corrupted by interleaved writes").

import (
	"errors"
	"io"
	"sync"
)

var errInjectedRead = errors.New("injected read error")
var errInjectedWrite = errors.New("injected write error (write side closed)")

type item struct {
	end   int   // end offset (exclusive) of this item's bytes in toClient
	fault error // non-nil: after its bytes have been read every further Read returns this error
}

type transport struct {
	mu   sync.Mutex
	cond *sync.Cond

	toClient []byte
	items    []item
	readOff  int // bytes consumed by the client
	allowed  int // number of items the client may read (all = len(items) in free mode)
	free     bool
	frag     int
	closed   bool

	fromClient []byte
	peerOff    int
	writes     int
	writeOK    int // -1: never fails
	nReads     int
	wfrag      int    // > 0: bytes per chunk of a Write, a gate between two chunks
	wInFlight  int    // Write calls that have begun and not finished
	wOwners    []string
	overlap    string // the first overlap of two Write calls (roles), "" = none
}

func newTransport(frag int, free bool, writeOK int) *transport {
	t := &transport{frag: frag, free: free, writeOK: writeOK}
	t.cond = sync.NewCond(&t.mu)
	return t
}

// limit: the offset up to which the client may read, and the sticky error at that offset (if any).
func (t *transport) limit() (int, error) {
	n := t.allowed
	if t.free || n > len(t.items) {
		n = len(t.items)
	}
	lim := 0
	for i := 0; i < n; i++ {
		lim = t.items[i].end
		if t.items[i].fault != nil {
			return lim, t.items[i].fault
		}
	}
	return lim, nil
}

func (t *transport) Read(p []byte) (int, error) {
	t.mu.Lock()
	defer t.mu.Unlock()
	for {
		lim, ferr := t.limit()
		if t.readOff < lim {
			n := lim - t.readOff
			if n > len(p) {
				n = len(p)
			}
			if t.frag > 0 && n > t.frag {
				n = t.frag
			}
			copy(p, t.toClient[t.readOff:t.readOff+n])
			t.readOff += n
			t.nReads++
			return n, nil
		}
		if ferr != nil {
			return 0, ferr
		}
		if t.closed {
			return 0, io.EOF
		}
		t.cond.Wait()
	}
}

func (t *transport) Write(p []byte) (int, error) {
	t.mu.Lock()
	if t.closed {
		t.mu.Unlock()
		return 0, io.ErrClosedPipe
	}
	if t.writeOK >= 0 && t.writes >= t.writeOK {
		t.mu.Unlock()
		return 0, errInjectedWrite
	}
	t.writes++
	if t.wfrag <= 0 {
		t.fromClient = append(t.fromClient, p...)
		t.cond.Broadcast()
		t.mu.Unlock()
		return len(p), nil
	}
	me := sch.roleName()
	if t.wInFlight > 0 && t.overlap == "" {
		t.overlap = me + " started a Write while " + t.wOwners[len(t.wOwners)-1] + " was inside one"
	}
	t.wInFlight++
	t.wOwners = append(t.wOwners, me)
	t.mu.Unlock()
	n := 0
	for n < len(p) {
		k := t.wfrag
		if k > len(p)-n {
			k = len(p) - n
		}
		t.mu.Lock()
		if t.closed {
			t.wInFlight--
			t.mu.Unlock()
			return n, io.ErrClosedPipe
		}
		t.fromClient = append(t.fromClient, p[n:n+k]...)
		t.cond.Broadcast()
		t.mu.Unlock()
		n += k
		if n < len(p) {
			sch.park("transport.Write|WChunk:client->server") // no-op for an unregistered goroutine / gates off
		}
	}
	t.mu.Lock()
	t.wInFlight--
	for i, o := range t.wOwners {
		if o == me {
			t.wOwners = append(t.wOwners[:i], t.wOwners[i+1:]...)
			break
		}
	}
	t.mu.Unlock()
	return len(p), nil
}

func (t *transport) Close() error { return nil }

// peer side -----------------------------------------------------------------------------------------

func (t *transport) peerSend(b []byte, fault error) {
	t.mu.Lock()
	t.toClient = append(t.toClient, b...)
	t.items = append(t.items, item{end: len(t.toClient), fault: fault})
	t.cond.Broadcast()
	t.mu.Unlock()
}

// allow lets the client read n more items than it has fully consumed so far.
func (t *transport) allowMore(n int) {
	t.mu.Lock()
	done := 0
	for done < len(t.items) && t.items[done].end <= t.readOff && t.items[done].fault == nil {
		done++
	}
	if t.allowed < done {
		t.allowed = done
	}
	t.allowed += n
	t.cond.Broadcast()
	t.mu.Unlock()
}

func (t *transport) shutdown() {
	t.mu.Lock()
	t.closed = true
	t.cond.Broadcast()
	t.mu.Unlock()
}

// pending returns the bytes written by the client that the peer has not consumed yet.
func (t *transport) pending() []byte {
	t.mu.Lock()
	defer t.mu.Unlock()
	return append([]byte(nil), t.fromClient[t.peerOff:]...)
}

func (t *transport) consume(n int) {
	t.mu.Lock()
	t.peerOff += n
	t.mu.Unlock()
}

// waitClientBytes blocks (driver side, handshake only) until the client has written something new.
func (t *transport) waitClientBytes() {
	t.mu.Lock()
	for len(t.fromClient) == t.peerOff && !t.closed {
		t.cond.Wait()
	}
	t.mu.Unlock()
}
