// Command atpdrive is the controlled-schedule / scripted-peer driver for the ATP client (DESIGN §4.3).
// It must be built with `go build -overlay` against the instrumented copy of atp/client.go produced by
// cmd/instrument from the tree under test.
//
//	atpdrive replay  IN OUT         force model schedules on the client      (sched ID SESSION (steps ...)) -> (obs ID ...)
//	atpdrive explore IN OUT         search on the implementation             (explore ID SESSION STRATEGY)  -> (xsum ID ...)
//	atpdrive gen KIND TIER SEED OUT sessions (+ choice lists) for the model  (case ID atpclient SESSION MODE)
//	atpdrive fault ...              C08 (fault.go)
package main

import (
	"bufio"
	"fmt"
	"os"
	"strconv"
	"strings"

	"verif/harness/sx"
)

func readLines(path string) []string {
	f, err := os.Open(path)
	if err != nil {
		panic(err)
	}
	defer f.Close()
	sc := bufio.NewScanner(f)
	sc.Buffer(make([]byte, 1<<20), 1<<28)
	var out []string
	for sc.Scan() {
		l := sc.Text()
		if l == "" || strings.HasPrefix(l, ";") {
			continue
		}
		out = append(out, l)
	}
	return out
}

func main() {
	if len(os.Args) < 2 {
		fmt.Fprintln(os.Stderr, "usage: atpdrive replay|explore|gen|fault ...")
		os.Exit(2)
	}
	installHooks()
	switch os.Args[1] {
	case "replay":
		out, _ := os.Create(os.Args[3])
		w := bufio.NewWriter(out)
		for _, l := range readLines(os.Args[2]) {
			n, err := sx.Parse(l)
			if err != nil {
				panic(err)
			}
			s, err := parseSession(n.List[2])
			if err != nil {
				panic(err)
			}
			obs := replaySchedule(s, parseSteps(n.List[3]))
			fmt.Fprintln(w, sx.L(sx.A("obs"), n.List[1], obs).String())
			w.Flush()
		}
		out.Close()
	case "explore":
		out, _ := os.Create(os.Args[3])
		w := bufio.NewWriter(out)
		for _, l := range readLines(os.Args[2]) {
			n, err := sx.Parse(l)
			if err != nil {
				panic(err)
			}
			s, err := parseSession(n.List[3].List[0])
			if err != nil {
				panic(err)
			}
			fmt.Fprintln(w, exploreCase(n.List[1], s, n.List[3].List[1]).String())
			w.Flush()
		}
		out.Close()
	case "gen":
		seed, _ := strconv.ParseUint(os.Args[4], 10, 64)
		genCases(os.Args[2], os.Args[3], seed, os.Args[5])
	case "fault":
		faultMain(os.Args[2:])
	default:
		fmt.Fprintln(os.Stderr, "unknown command")
		os.Exit(2)
	}
	if os.Getenv("ATPDRIVE_STATS") != "" {
		fmt.Fprintf(os.Stderr, "waits=%d polls=%d dur=%v busy=%v\n", statWaits, statPolls, statDur, statBusy)
	}
}

// exploreCase runs the trials of one strategy description and summarises them.
//
//	(random SEED N) | (delay1) | (delay2 MAXPAIRS SEED) | (choices a b c ...)
func exploreCase(id *sx.Node, s *session, st *sx.Node) *sx.Node {
	trials, stuck, double, wrong := 0, 0, 0, 0
	lockfree, lockfreeText := 0, ""
	var first *sx.Node
	maxSteps := 0
	note := func(o *sx.Node, steps int) {
		trials++
		if steps > maxSteps {
			maxSteps = steps
		}
		if o.Head() != "xobs" {
			if first == nil {
				first = o
			}
			return
		}
		bad := false
		if o.List[1].List[1].Atom == "1" {
			stuck++
			bad = true
		}
		if o.List[2].List[1].Atom == "1" {
			double++
			bad = true
		}
		if len(o.List) > 6 && o.List[6].Head() == "wrong" && o.List[6].List[1].Atom == "1" {
			wrong++
			bad = true
		}
		if len(o.List) > 7 && o.List[7].Head() == "lockfree" && o.List[7].List[1].Atom == "1" {
			lockfree++
			if lockfreeText == "" {
				lockfreeText = o.List[7].List[2].Str
			}
		}
		if bad && first == nil {
			first = o
		}
	}
	switch st.Head() {
	case "random":
		seed := uint64(st.List[1].Int())
		n := int(st.List[2].Int())
		for i := 0; i < n && stuck+double+wrong < 2; i++ {
			o, k := exploreOnce(s, strategy{kind: "random", rng: &Rng{s: seed*1000003 + uint64(i)}})
			note(o, k)
		}
	case "choices":
		var ch []string
		for _, c := range st.List[1:] {
			ch = append(ch, c.Atom)
		}
		o, k := exploreOnce(s, strategy{kind: "choices", choices: ch})
		note(o, k)
		if first == nil {
			first = o
		}
	case "delay1", "delay2":
		o, n := exploreOnce(s, strategy{kind: "delay", delays: map[int]bool{}})
		note(o, n)
		for i := 0; i < n+2 && stuck+double+wrong < 2; i++ {
			o, k := exploreOnce(s, strategy{kind: "delay", delays: map[int]bool{i: true}})
			note(o, k)
		}
		if st.Head() == "delay2" {
			maxPairs := int(st.List[1].Int())
			rng := &Rng{s: uint64(st.List[2].Int())}
			total := (n + 2) * (n + 1) / 2
			for i := 0; i < n+2; i++ {
				for j := i + 1; j < n+2 && stuck+double+wrong < 2; j++ {
					if total > maxPairs && rng.Intn(total) >= maxPairs {
						continue
					}
					o, k := exploreOnce(s, strategy{kind: "delay", delays: map[int]bool{i: true, j: true}})
					note(o, k)
				}
			}
		}
	}
	res := sx.L(sx.A("xsum"), id, sx.L(sx.A("trials"), sx.I(int64(trials))), sx.L(sx.A("stuck"), sx.I(int64(stuck))),
		sx.L(sx.A("double"), sx.I(int64(double))), sx.L(sx.A("maxsteps"), sx.I(int64(maxSteps))), sx.L(sx.A("wrong"), sx.I(int64(wrong))))
	if first != nil {
		res.Append(sx.L(sx.A("first"), first))
	}
	res.Append(sx.L(sx.A("lockfree"), sx.I(int64(lockfree)), sx.S(lockfreeText)))
	return res
}
