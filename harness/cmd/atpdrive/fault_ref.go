package main

// C08, single-byte corruption of a recorded transcript: the REFERENCE oracle.
//
// A corruption of one byte either (a) makes the stream undecodable (not a CBOR item / a truncated item / an item of the
// wrong shape / a map with an unknown key - the client decodes with ExtraDecErrorUnknownField), or (b) leaves another
// well-formed message.  (b) is indistinguishable from a lying peer and outside C08; (a) must make the calls fail.  Which
// of the two a given corruption is, is not guessed: the corrupted transcript is decoded here with fxamacker/cbor
// configured exactly as atp.NewClientWithLogger configures it (stream items: DecOptions{ExtraReturnErrors:
// ExtraDecErrorUnknownField}; payload of a runtime message: cbor.Unmarshal with the default options, as
// handleWorkDoneMessage / handleErrorMessage do), and the few lines of protocol semantics of the client are applied to
// what was decoded (a work-done message ends its run; a step-fatal error its run, or every run when it carries no run
// id; a server-fatal error every run; anything else is skipped; a decode error or the end of the stream fails every
// pending and every later call).
//
// The fault of the sweep kind `flipB` at offset k: bit B of byte k is inverted, the stream is delivered up to the end of
// the message that contains byte k, then it ends (EOF).  So everything before that message is intact, and nothing comes
// after it.

import (
	"bytes"
	"io"
	"reflect"

	"github.com/fxamacker/cbor/v2"
	"go.flow.arcalot.io/pluginsdk/atp"
	"go.flow.arcalot.io/pluginsdk/schema"
	"verif/harness/sx"
)

var refDecMode = func() cbor.DecMode {
	m, err := cbor.DecOptions{ExtraReturnErrors: cbor.ExtraDecErrorUnknownField}.DecMode()
	if err != nil {
		panic(err)
	}
	return m
}()

type refOut struct {
	schema string   // ok | err | panic
	exec   []string // ok | err | any | skipped      (any: depends on the interleaving of concurrent calls / another valid message)
	class  []string // before | intact | othervalid | detected | othererr | eof | -
}

func (o refOut) sx() *sx.Node {
	e := sx.L(sx.A("exec"))
	for _, x := range o.exec {
		e.Append(sx.A(x))
	}
	c := sx.L(sx.A("class"))
	for _, x := range o.class {
		c.Append(sx.A(x))
	}
	return sx.L(sx.A("ref"), sx.L(sx.A("schema"), sx.A(o.schema)), e, c)
}

// msgIndexAt returns the index of the message that contains stream offset k, and the offset of its first byte.
func msgIndexAt(t *transcript, k int) (int, int) {
	off := 0
	for i, m := range t.msgs {
		if k < off+len(m) {
			return i, off
		}
		off += len(m)
	}
	return -1, off
}

type refItem struct {
	id        uint32
	run       string
	payloadOK bool
	done      atp.WorkDoneMessage
	stepFatal bool
	srvFatal  bool
}

// refWalk decodes the items of one stream segment the way the client's read loop does, every item into a FRESH decode
// target: a field that is missing from a message is missing (D80: the unrepaired loop re-used one target, so a message
// without "data" was completed with the previous message's payload).  cleanEnd: every byte was consumed by well-formed items.
func refWalk(seg []byte) (items []refItem, cleanEnd bool) {
	dec := refDecMode.NewDecoder(bytes.NewReader(seg))
	for {
		var m atp.DecodedRuntimeMessage
		if err := dec.Decode(&m); err != nil {
			return items, err == io.EOF
		}
		it := refItem{id: m.MessageID, run: m.RunID}
		switch m.MessageID {
		case atp.MessageTypeWorkDone:
			it.payloadOK = cbor.Unmarshal(m.RawMessageData, &it.done) == nil
		case atp.MessageTypeError:
			var e atp.ErrorMessage
			_ = cbor.Unmarshal(m.RawMessageData, &e) // the client logs a decode error here and goes on with what was decoded
			it.stepFatal, it.srvFatal = e.StepFatal, e.ServerFatal
		}
		items = append(items, it)
	}
}

func sentWorkDone(t *transcript, j int) (atp.WorkDoneMessage, bool) {
	var d atp.WorkDoneMessage
	if t.ver == 1 {
		return d, cbor.Unmarshal(t.msgs[j], &d) == nil
	}
	var m atp.DecodedRuntimeMessage
	if cbor.Unmarshal(t.msgs[j], &m) != nil || m.MessageID != atp.MessageTypeWorkDone {
		return d, false
	}
	return d, cbor.Unmarshal(m.RawMessageData, &d) == nil
}

func sameWorkDone(a, b atp.WorkDoneMessage) bool { return reflect.DeepEqual(a, b) }

// termOf: index of the terminal message of call i in the transcript (-1: none).
func termOf(t *transcript, runs []string, i int) int {
	if t.ver == 1 {
		if i+1 < len(t.msgs) {
			return i + 1
		}
		return -1
	}
	idx := -1
	for m := 1; m < len(t.msgs); m++ {
		if t.runs[m] == runs[i] && t.term[m] {
			idx = m
		}
	}
	return idx
}

// refCorrupt: what the unchanged client semantics give for the transcript with `mask` xor-ed into byte k.
func refCorrupt(t *transcript, runs []string, k int, mask byte) refOut {
	o := refOut{schema: "ok", exec: make([]string, len(runs)), class: make([]string, len(runs))}
	j, start := msgIndexAt(t, k)
	seg := append([]byte(nil), t.msgs[j]...)
	seg[k-start] ^= mask
	for i := range runs {
		o.exec[i], o.class[i] = "skipped", "-"
	}
	if j == 0 {
		// the hello message: strict decode, version check, schema
		var h atp.HelloMessage
		if err := refDecMode.NewDecoder(bytes.NewReader(seg)).Decode(&h); err != nil {
			o.schema = "err"
			return o
		}
		supported := false
		for _, v := range atp.VerifSupportedServerVersions() {
			if v == h.Version {
				supported = true
			}
		}
		if !supported {
			o.schema = "err"
			return o
		}
		func() {
			defer func() {
				if p := recover(); p != nil {
					o.schema = "panic"
				}
			}()
			if _, err := schema.UnserializeSchema(h.Schema); err != nil {
				o.schema = "err"
			}
		}()
		if o.schema == "ok" {
			// another valid hello: the calls then meet the end of the stream
			for i := range runs {
				o.exec[i], o.class[i] = "err", "eof"
			}
		}
		return o
	}
	// messages before j are intact, nothing comes after message j
	pendingAtJ := []int{}
	for i := range runs {
		tm := termOf(t, runs, i)
		switch {
		case tm >= 0 && tm < j:
			o.class[i] = "before"
			if t.ok[tm] {
				o.exec[i] = "ok"
			} else {
				o.exec[i] = "err"
			}
		default:
			o.exec[i], o.class[i] = "err", "eof"
			pendingAtJ = append(pendingAtJ, i)
		}
	}
	sent, haveSent := sentWorkDone(t, j)
	if t.ver == 1 {
		// getResultV1: one strict decode of a bare work-done message by the decoder of that Execute
		c := j - 1
		if c >= len(runs) {
			return o
		}
		var d atp.WorkDoneMessage
		if err := refDecMode.NewDecoder(bytes.NewReader(seg)).Decode(&d); err != nil {
			o.exec[c], o.class[c] = "err", "detected"
			return o
		}
		o.exec[c] = "ok"
		if haveSent && sameWorkDone(d, sent) {
			o.class[c] = "intact"
		} else {
			o.class[c] = "othervalid"
		}
		return o
	}
	items, _ := refWalk(seg)
	if t.conc {
		// A call whose work-done message arrived intact BEFORE the corruption may still get the stream error: the fatal
		// fan-out overwrites a result that was stored but not yet collected by its caller (an error is never a violation
		// of C08); a call that had failed before stays failed.
		for i := range runs {
			if o.class[i] == "before" && o.exec[i] == "ok" {
				o.exec[i] = "any"
			}
		}
		// which of the pending calls are registered when an item is handled depends on the interleaving: a call can
		// succeed only through a work-done item for its run id whose payload decodes; otherwise it must fail
		for _, i := range pendingAtJ {
			for _, it := range items {
				if it.id == atp.MessageTypeWorkDone && it.run == runs[i] && it.payloadOK {
					o.exec[i], o.class[i] = "any", "othervalid"
				}
			}
			if o.exec[i] == "err" {
				o.class[i] = "detected"
			}
		}
		return o
	}
	// serial: exactly one call is pending while message j is read; its read loop ends with its result
	if len(pendingAtJ) == 0 {
		return o
	}
	c := pendingAtJ[0]
	o.exec[c], o.class[c] = "err", "detected"
	if len(items) > 0 {
		o.class[c] = "othererr" // well-formed items, none of which is an intact answer for this run; then the stream ends
	}
	for _, it := range items {
		decided := false
		switch it.id {
		case atp.MessageTypeWorkDone:
			if it.run == runs[c] {
				decided = true
				if !it.payloadOK {
					o.exec[c], o.class[c] = "err", "detected"
				} else {
					o.exec[c] = "ok"
					if haveSent && sameWorkDone(it.done, sent) {
						o.class[c] = "intact"
					} else {
						o.class[c] = "othervalid"
					}
				}
			}
		case atp.MessageTypeError:
			if it.srvFatal || (it.stepFatal && (it.run == "" || it.run == runs[c])) {
				decided = true
				o.exec[c], o.class[c] = "err", "othererr"
			}
		}
		if decided {
			break
		}
	}
	return o
}
