package main

// C08: a broken or garbled server stream fails client calls; it never hangs them.
//
//  1. fault SESSIONS for the model-schedule replay (genFaultCases): the scripted peer's n-th emission is
//     replaced by a sticky fault (eof / readerr / garbage / partial), the write side may fail after k writes;
//  2. the BYTE-OFFSET sweep (faultMain): server transcripts - recorded from the real RunATPServer (v3) or
//     synthesised in the v1 framing - are replayed to the real client, free-running, with the fault injected at
//     every byte offset; the verdict on hangs comes from goroutine-state quiescence.

import (
	"bufio"
	"context"
	"fmt"
	"io"
	"os"
	"strconv"
	"sync"

	"go.flow.arcalot.io/pluginsdk/atp"
	"go.flow.arcalot.io/pluginsdk/schema"
	"verif/harness/sx"
)

var faultKinds = []string{"eof", "readerr", "garbage", "partial"}

func genFaultCases(kind, tier string, r *Rng, emit func(fam string, s *session, mode *sx.Node)) {
	if kind != "c08" {
		panic("unknown generator " + kind)
	}
	nRandom := 260
	if tier == "thorough" {
		nRandom = 4000
	}
	// every emission index x every fault kind of three fixed sessions, schedules sampled
	fixed := []*session{
		{wfail: -1, faultN: -1, close: true, calls: []call{{run: "a", sigTo: -1}}, script: []pmsg{{"a", "done"}}},
		{wfail: -1, faultN: -1, close: true, calls: []call{{run: "a", sigTo: -1}, {run: "b", sigTo: -1}},
			script: []pmsg{{"a", "signal"}, {"a", "done"}, {"b", "done"}}},
		{wfail: -1, faultN: -1, close: true, calls: []call{{run: "a", sigTo: -1, sigFrom: true}, {run: "b", lane: 1, sigTo: -1}, {run: "c", lane: 2, sigTo: -1}},
			script: []pmsg{{"a", "signal"}, {"a", "done"}, {"b", "stepfatal"}, {"c", "done"}}},
	}
	// a work-done message WITHOUT data (and one with data of the wrong shape) behind an intact one, both runs pending on the
	// same read loop: nothing of the first message may leak into the second run's result (D80)
	for rep := 0; rep < 8; rep++ {
		emit("atpclient", &session{wfail: -1, faultN: -1, close: true, nodata: rep%4 != 3,
			calls:  []call{{run: "a", sigTo: -1}, {run: "b", lane: 1, sigTo: -1}, {run: "c", lane: 2, sigTo: -1}},
			script: []pmsg{{"a", "done"}, {"b", "baddone"}, {"c", "done"}}}, choicesNode(r, 200))
	}
	for _, base := range fixed {
		for n := 0; n <= len(base.script); n++ {
			for _, fk := range faultKinds {
				for rep := 0; rep < 2; rep++ {
					s := *base
					s.faultN, s.faultK = n, fk
					emit("atpclient", &s, choicesNode(r, 200))
				}
			}
		}
	}
	// unhealthy but well-formed peers: server-fatal errors, run-less step-fatal errors, malformed work-done payloads
	for i := 0; i < nRandom; i++ {
		n := 1 + r.Intn(3)
		s := healthySession(r, n, r.Intn(2) == 0)
		s.close = r.Intn(3) > 0
		switch r.Intn(4) {
		case 0:
			s.faultN, s.faultK = r.Intn(len(s.script)+1), faultKinds[r.Intn(4)]
		case 1:
			j := r.Intn(len(s.script))
			term := s.script[j].kind == "done" || s.script[j].kind == "stepfatal"
			if term {
				// a terminal message may be replaced only by something that still ends the run (a peer that simply
				// never answers is not a broken stream and is outside C08)
				s.script[j].kind = []string{"svfatal", "stepfatal_norun", "baddone"}[r.Intn(3)]
				s.nodata = r.Intn(2) == 0
			} else {
				s.script[j].kind = []string{"stepfatal_norun", "unknown", "notice"}[r.Intn(3)]
			}
			if s.script[j].kind == "svfatal" {
				// the peer sends nothing after a server-fatal error
				s.faultN, s.faultK = j+1, "eof"
			}
		case 2:
			s.faultN, s.faultK = r.Intn(len(s.script)+1), faultKinds[r.Intn(4)]
			j := r.Intn(len(s.script))
			if s.script[j].kind == "done" || s.script[j].kind == "stepfatal" {
				s.script[j].kind = []string{"baddone", "stepfatal_norun"}[r.Intn(2)]
			}
		default:
			s.faultN, s.faultK = r.Intn(len(s.script)+1), "eof"
		}
		emit("atpclient", s, choicesNode(r, 220))
	}
	genWfailCases(r, emit)
}

// write-side failures (D25): the handshake succeeds, then the k-th write fails
func genWfailCases(r *Rng, emit func(fam string, s *session, mode *sx.Node)) {
	for k := 0; k <= 1; k++ {
		s := &session{wfail: k, faultN: -1, close: true, calls: []call{{run: "a", sigTo: -1}}, script: []pmsg{{"a", "done"}}}
		emit("atpclient", s, choicesNode(r, 100))
	}
}

// ---------------------------------------------------------------------------------------------------
// transcripts
// ---------------------------------------------------------------------------------------------------

type transcript struct {
	name string
	ver  int
	msgs [][]byte // msgs[0] = hello; then the server's messages in the order it wrote them
	runs []string // run id the i-th message (i >= 1) belongs to ("" = none)
	term []bool   // the i-th message is the terminal message of its run
	ok   []bool   // ... and it is a work-done (the Execute must succeed iff it arrives intact)
	conc bool     // runs are executed concurrently
	bad  bool     // the hello message is intact CBOR but unusable (unsupported version / schema that does not unserialize)
}

type recWriter struct {
	mu   sync.Mutex
	w    io.WriteCloser
	msgs [][]byte
}

func (r *recWriter) Write(p []byte) (int, error) {
	r.mu.Lock()
	r.msgs = append(r.msgs, append([]byte(nil), p...))
	r.mu.Unlock()
	return r.w.Write(p)
}
func (r *recWriter) Close() error { return r.w.Close() }

type pipeChan struct {
	io.Reader
	io.Writer
}

func (pipeChan) Close() error { return nil }

// recordV3 runs the REAL server over a pipe against the real client and records what the server wrote.
func recordV3(runs []string, failing map[string]bool, conc bool, withSignal bool) *transcript {
	in := schema.NewScopeSchema(schema.NewObjectSchema("I", map[string]*schema.PropertySchema{}))
	out := schema.NewScopeSchema(schema.NewObjectSchema("O", map[string]*schema.PropertySchema{}))
	step := schema.NewCallableStep[map[string]any]("s", in, map[string]*schema.StepOutputSchema{
		"ok": schema.NewStepOutputSchema(out, nil, false)}, nil,
		func(ctx context.Context, in map[string]any) (string, any) { return "ok", map[string]any{} })
	cs := schema.NewCallableSchema(step)
	r1, w1 := io.Pipe()
	r2, w2 := io.Pipe()
	rec := &recWriter{w: w2}
	done := make(chan struct{})
	go func() { atp.RunATPServer(context.Background(), r1, rec, cs); close(done) }()
	cl := atp.NewClient(pipeChan{r2, w1})
	if _, err := cl.ReadSchema(); err != nil {
		panic(err)
	}
	exec := func(run string) {
		id := "s"
		if failing[run] {
			id = "nosuchstep" // the real server answers with a step-fatal error message
		}
		cl.Execute(schema.Input{RunID: run, ID: id, InputData: map[string]any{}}, nil, nil)
	}
	if conc {
		var wg sync.WaitGroup
		for _, run := range runs {
			wg.Add(1)
			go func(run string) { defer wg.Done(); exec(run) }(run)
		}
		wg.Wait()
	} else {
		for _, run := range runs {
			exec(run)
		}
	}
	_ = cl.Close()
	<-done
	t := &transcript{ver: 3, conc: conc}
	rec.mu.Lock()
	t.msgs = rec.msgs
	rec.mu.Unlock()
	// classify by decoding what was recorded
	t.runs = make([]string, len(t.msgs))
	t.term = make([]bool, len(t.msgs))
	t.ok = make([]bool, len(t.msgs))
	for i := 1; i < len(t.msgs); i++ {
		var m atp.DecodedRuntimeMessage
		if err := cborUnmarshal(t.msgs[i], &m); err != nil {
			panic(err)
		}
		t.runs[i] = m.RunID
		t.term[i] = m.MessageID == atp.MessageTypeWorkDone || m.MessageID == atp.MessageTypeError
		t.ok[i] = m.MessageID == atp.MessageTypeWorkDone
	}
	return t
}

// badHello: a transcript that consists of one intact hello message the client must refuse.
func badHello(version int64, schemaData any) *transcript {
	return &transcript{ver: 3, bad: true, msgs: [][]byte{mustMarshal(atp.HelloMessage{Version: version, Schema: schemaData})},
		runs: []string{""}, term: []bool{false}, ok: []bool{false}}
}

func goodSchemaData() any {
	ser, err := theSchema().SelfSerialize()
	if err != nil {
		panic(err)
	}
	return ser
}

// synthV1: a v1-speaking server script: hello with version 1, then one bare work-done message per run.
func synthV1(runs []string) *transcript {
	t := &transcript{ver: 1, msgs: [][]byte{hello(1)}, runs: []string{""}, term: []bool{false}, ok: []bool{false}}
	for _, r := range runs {
		t.msgs = append(t.msgs, mustMarshal(atp.WorkDoneMessage{StepID: "s", OutputID: "ok", OutputData: map[string]any{}}))
		t.runs = append(t.runs, r)
		t.term = append(t.term, true)
		t.ok = append(t.ok, true)
	}
	return t
}

// ---------------------------------------------------------------------------------------------------
// the byte-offset sweep
// ---------------------------------------------------------------------------------------------------

// faultTransport serves the transcript to the client: message i >= 1 becomes readable once the client has written
// (i) work starts (v1: serial) / once the work start of its run was seen (v3); at byte offset `at` the fault happens.
type faultTransport struct {
	mu      sync.Mutex
	cond    *sync.Cond
	t       *transcript
	stream  []byte
	ends    []int // end offset of message i
	readOff int
	at      int
	kind    string
	wrote   []byte
	peerOff int
	started map[string]bool
	nStart  int
	closed  bool
	cut     int // the offset at which the stream stops being delivered (= at; flipB: the end of the corrupted message)
}

// flipMask: kind `flipB` (B = 0..7) inverts bit B of the byte at the offset; ok=false for the other kinds.
func flipMask(kind string) (byte, bool) {
	if len(kind) == 5 && kind[:4] == "flip" && kind[4] >= '0' && kind[4] <= '7' {
		return 1 << (kind[4] - '0'), true
	}
	return 0, false
}

func newFaultTransport(t *transcript, at int, kind string) *faultTransport {
	f := &faultTransport{t: t, at: at, kind: kind, started: map[string]bool{}, cut: at}
	f.cond = sync.NewCond(&f.mu)
	for _, m := range t.msgs {
		f.stream = append(f.stream, m...)
		f.ends = append(f.ends, len(f.stream))
	}
	if mask, ok := flipMask(kind); ok && at >= 0 && at < len(f.stream) {
		// single-byte corruption: the byte is changed, the message it lies in is delivered to its end, then the stream ends
		f.stream[at] ^= mask
		for _, e := range f.ends {
			if at < e {
				f.cut = e
				break
			}
		}
	}
	return f
}

// released: how many bytes of the stream the server would have written by now
func (f *faultTransport) released() int {
	n := 0
	if len(f.wrote) > 0 {
		n = f.ends[0]
	}
	seen := 0
	for i := 1; i < len(f.t.msgs); i++ {
		ok := false
		if f.t.ver == 1 {
			if f.t.term[i] {
				seen++
			}
			ok = f.nStart >= seen
		} else {
			ok = f.started[f.t.runs[i]] || (f.t.runs[i] == "" && f.nStart > 0)
		}
		if !ok || n != f.ends[i-1] {
			break
		}
		n = f.ends[i]
	}
	return n
}

func (f *faultTransport) Read(p []byte) (int, error) {
	f.mu.Lock()
	defer f.mu.Unlock()
	for {
		lim := f.released()
		faulted := false
		if f.at >= 0 && lim >= f.cut {
			lim, faulted = f.cut, true
		}
		if f.readOff < lim {
			n := lim - f.readOff
			if n > len(p) {
				n = len(p)
			}
			copy(p, f.stream[f.readOff:f.readOff+n])
			f.readOff += n
			return n, nil
		}
		if faulted {
			switch f.kind {
			case "eof":
				return 0, io.EOF
			case "readerr":
				return 0, errInjectedRead
			case "garbage": // bytes that are no CBOR item, then the end of the stream
				if f.readOff < f.at+4 {
					n := copy(p, []byte{0xff, 0xff, 0xff, 0xff}[f.readOff-f.at:])
					f.readOff += n
					return n, nil
				}
				return 0, io.EOF
			default: // flipB: the corrupted message has been delivered; the stream ends
				return 0, io.EOF
			}
		}
		if f.closed {
			return 0, io.EOF
		}
		f.cond.Wait()
	}
}

func (f *faultTransport) Write(p []byte) (int, error) {
	f.mu.Lock()
	defer f.mu.Unlock()
	f.wrote = append(f.wrote, p...)
	// decode what the client wrote so far to learn which work starts were sent
	for {
		b := f.wrote[f.peerOff:]
		if len(b) == 0 {
			break
		}
		if f.peerOff == 0 { // the start message (nil)
			f.peerOff = 1
			continue
		}
		n, run, isStart, ok := decodeStart(b, f.t.ver)
		if !ok {
			break
		}
		f.peerOff += n
		if isStart {
			f.started[run] = true
			f.nStart++
		}
	}
	f.cond.Broadcast()
	return len(p), nil
}

func (f *faultTransport) Close() error { return nil }

func (f *faultTransport) shutdown() {
	f.mu.Lock()
	f.closed = true
	f.cond.Broadcast()
	f.mu.Unlock()
}

type sweepObs struct {
	schema string   // ok | err
	exec   []string // ok | err | hang | skipped
	close  string   // ok | err | panic | hang | skipped
}

// runSweepCase: ReadSchema, the Execute calls (serially or concurrently), Close - free running; a state in which
// every goroutine is blocked while the client call has not returned is a hang.
func runSweepCase(t *transcript, runs []string, at int, kind string) sweepObs {
	f := newFaultTransport(t, at, kind)
	cl := atp.NewClient(f)
	obs := sweepObs{exec: make([]string, len(runs))}
	var mu sync.Mutex
	phase := "schema"
	finished := false
	go func() {
		defer func() {
			if p := recover(); p != nil {
				mu.Lock()
				if phase == "schema" && obs.schema == "" {
					obs.schema = "panic"
				}
				if obs.close == "" {
					obs.close = "panic"
				}
				finished = true
				mu.Unlock()
			}
		}()
		_, err := cl.ReadSchema()
		mu.Lock()
		obs.schema = map[bool]string{true: "ok", false: "err"}[err == nil]
		phase = "exec"
		mu.Unlock()
		if err == nil {
			one := func(i int) {
				res := cl.Execute(schema.Input{RunID: runs[i], ID: "s", InputData: map[string]any{}}, nil, nil)
				mu.Lock()
				obs.exec[i] = map[bool]string{true: "ok", false: "err"}[res.Error == nil]
				mu.Unlock()
			}
			if t.conc {
				var wg sync.WaitGroup
				for i := range runs {
					wg.Add(1)
					go func(i int) { defer wg.Done(); one(i) }(i)
				}
				wg.Wait()
			} else {
				for i := range runs {
					one(i)
				}
			}
			mu.Lock()
			phase = "close"
			mu.Unlock()
			cerr := cl.Close()
			mu.Lock()
			obs.close = map[bool]string{true: "ok", false: "err"}[cerr == nil]
			mu.Unlock()
		}
		mu.Lock()
		finished = true
		mu.Unlock()
	}()
	for {
		waitQuiescent()
		mu.Lock()
		fin := finished
		mu.Unlock()
		if fin {
			break
		}
		// quiescent but not finished: confirm (pauses of increasing length, quiescence re-established), then it is a hang
		confirmQuiescent()
		mu.Lock()
		fin = finished
		ph := phase
		if !fin {
			switch ph {
			case "schema":
				obs.schema = "hang"
			case "exec":
				for i := range obs.exec {
					if obs.exec[i] == "" {
						obs.exec[i] = "hang"
					}
				}
			default:
				obs.close = "hang"
			}
		}
		mu.Unlock()
		break
	}
	f.shutdown()
	mu.Lock()
	defer mu.Unlock()
	for i := range obs.exec {
		if obs.exec[i] == "" {
			obs.exec[i] = "skipped"
		}
	}
	if obs.close == "" {
		obs.close = "skipped"
	}
	return obs
}

func (o sweepObs) sx() *sx.Node {
	e := sx.L(sx.A("exec"))
	for _, x := range o.exec {
		e.Append(sx.A(x))
	}
	return sx.L(sx.A("sweep"), sx.L(sx.A("schema"), sx.A(o.schema)), e, sx.L(sx.A("close"), sx.A(o.close)))
}

// faultMain: atpdrive fault sweep TIER SEED OUT | atpdrive fault one NAME KIND OFFSET
//
// output lines: (tr NAME (ver V) (conc B) (ends E0 E1 ...) (okmsg i ...) (runs "a" ...))
//
//	(sw NAME KIND OFFSET (sweep (schema ..) (exec ..) (close ..)))
func faultMain(args []string) {
	trs := map[string]func() (*transcript, []string){
		"v3serial2": func() (*transcript, []string) {
			return recordV3([]string{"a", "b"}, nil, false, false), []string{"a", "b"}
		},
		"v3serial3err": func() (*transcript, []string) {
			return recordV3([]string{"a", "b", "c"}, map[string]bool{"b": true}, false, false), []string{"a", "b", "c"}
		},
		"v3conc3": func() (*transcript, []string) {
			return recordV3([]string{"a", "b", "c"}, map[string]bool{"c": true}, true, false), []string{"a", "b", "c"}
		},
		"v1serial2": func() (*transcript, []string) { return synthV1([]string{"a", "b"}), []string{"a", "b"} },
		"v1serial1": func() (*transcript, []string) { return synthV1([]string{"a"}), []string{"a"} },
		// hello messages that arrive intact but must be refused: unsupported versions, schemas that do not unserialize
		"hellobadver2":   func() (*transcript, []string) { return badHello(2, goodSchemaData()), nil },
		"hellobadver9":   func() (*transcript, []string) { return badHello(9, goodSchemaData()), nil },
		"hellobadschema": func() (*transcript, []string) { return badHello(3, map[string]any{"steps": "not a map"}), nil },
		"hellonilschema": func() (*transcript, []string) { return badHello(3, nil), nil },
	}
	order := []string{"v3serial2", "v1serial2", "v3serial3err", "v3conc3", "v1serial1",
		"hellobadver2", "hellobadver9", "hellobadschema", "hellonilschema"}
	describe := func(w *bufio.Writer, name string, t *transcript, runs []string) {
		ends := sx.L(sx.A("ends"))
		off := 0
		for _, m := range t.msgs {
			off += len(m)
			ends.Append(sx.I(int64(off)))
		}
		okm := sx.L(sx.A("okmsg"))
		for _, r := range runs {
			idx := -1
			for i := 1; i < len(t.msgs); i++ {
				if t.runs[i] == r && t.ok[i] {
					idx = i
				}
			}
			okm.Append(sx.I(int64(idx)))
		}
		rs := sx.L(sx.A("runs"))
		for _, r := range runs {
			rs.Append(sx.S(r))
		}
		fmt.Fprintln(w, sx.L(sx.A("tr"), sx.A(name), sx.L(sx.A("ver"), sx.I(int64(t.ver))), sx.L(sx.A("conc"), sx.B(t.conc)), ends, okm, rs,
			sx.L(sx.A("badhello"), sx.B(t.bad))).String())
	}
	switch args[0] {
	case "sweep":
		tier := args[1]
		out, _ := os.Create(args[3])
		w := bufio.NewWriter(out)
		part, _ := strconv.Atoi(args[4])
		parts, _ := strconv.Atoi(args[5])
		for ti, name := range order {
			t, runs := trs[name]()
			t.name = name
			describe(w, name, t, runs)
			total := 0
			for _, m := range t.msgs {
				total += len(m)
			}
			if t.bad && part == 0 {
				// the unusable hello arrives intact and nothing else goes wrong
				o := runSweepCase(t, runs, -1, "none")
				fmt.Fprintln(w, sx.L(sx.A("sw"), sx.A(name), sx.A("none"), sx.I(-1), o.sx()).String())
			}
			for ki, kind := range []string{"eof", "readerr", "garbage"} {
				stride := 1 // every byte offset: the transcripts are a few hundred bytes
				_ = tier
				for k := (ki + ti) % stride; k <= total; k += stride {
					if k%parts != part {
						continue
					}
					o := runSweepCase(t, runs, k, kind)
					fmt.Fprintln(w, sx.L(sx.A("sw"), sx.A(name), sx.A(kind), sx.I(int64(k)), o.sx()).String())
				}
			}
			// single-byte corruption: one inverted bit at EVERY offset of the messages after the hello (all 8 bits), and of
			// the hello message of one transcript per protocol version (quick: 3 of the 8 bits per offset, rotating);
			// judged against the reference decoding of the corrupted transcript (fault_ref.go)
			if !t.bad {
				helloEnd := len(t.msgs[0])
				withHello := name == "v3serial2" || name == "v1serial1"
				for k := 0; k < total; k++ {
					if k%parts != part || (k < helloEnd && !withHello) {
						continue
					}
					for b := 0; b < 8; b++ {
						if k < helloEnd && tier != "thorough" && b != k%8 && b != (k+3)%8 && b != (k+5)%8 {
							continue
						}
						kind := "flip" + strconv.Itoa(b)
						o := runSweepCase(t, runs, k, kind)
						ref := refCorrupt(t, runs, k, 1<<uint(b))
						fmt.Fprintln(w, sx.L(sx.A("sw"), sx.A(name), sx.A(kind), sx.I(int64(k)), o.sx(), ref.sx()).String())
					}
				}
			}
			w.Flush()
		}
		w.Flush()
		out.Close()
	case "one":
		t, runs := trs[args[1]]()
		k, _ := strconv.Atoi(args[3])
		w := bufio.NewWriter(os.Stdout)
		describe(w, args[1], t, runs)
		o := runSweepCase(t, runs, k, args[2])
		line := sx.L(sx.A("sw"), sx.A(args[1]), sx.A(args[2]), sx.I(int64(k)), o.sx())
		if mask, ok := flipMask(args[2]); ok {
			line.Append(refCorrupt(t, runs, k, mask).sx())
		}
		fmt.Fprintln(w, line.String())
		w.Flush()
	}
}
