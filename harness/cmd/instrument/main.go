// Command instrument is the go/ast gate inserter of DESIGN §4.3.
//
//	instrument REPO OUTDIR [file.go ...]
//
// It parses REPO/atp/<file> (default: client.go) of the tree under test, inserts a call to vgate(...)
// before every synchronisation-relevant statement, and writes the instrumented copies to OUTDIR/atp/
// together with OUTDIR/atp/zz_vgate.go (the hook variables, added to package atp) and
// OUTDIR/overlay.json for `go build -overlay`.  Nothing is written into REPO.
//
// Gate labels are `<enclosing func>|<Kind>:<receiver expr>`; only Kind (and, for Wait, the object class)
// is matched against the model, so renaming or moving code does not disturb the tie, while adding,
// removing, splitting or merging a critical section does.
//
// Kinds: Lock Unlock Wait Woke Signal Broadcast WgAdd WgDone WgWait Encode Decode Spawn ChanSend
// ChanRecv ChanClose Select Cancel Close.
//
// Rewrites beyond plain insertion:
//   - `defer X.Unlock()` / `defer X.Done()` become `defer func() { vgate(..); X.Unlock() }()` so that every
//     unlock is visible in the trace;
//   - `X.Wait()` on a condition variable becomes `vcondwait(X.Wait, X.L, site)`: gate, wait, then the
//     re-acquisition of the mutex is made schedulable (unlock, gate "Woke", lock) - sync.Cond.Wait
//     re-locks non-atomically after the notification, so this adds no behaviour;
//   - `X.Wait()` on a wait group becomes `vwgwait(X.Add, X.Wait, site)`; the class is guessed from the
//     receiver's spelling and a wrong guess does not compile (a Cond has no Add, a WaitGroup no L);
//   - `go func() { body }()` becomes `vtok := vspawn(site); go func() { vstart(vtok, site); defer vexit(); body }()`
//     so that the driver can name the new goroutine by its parent and spawn site.
package main

import (
	"bytes"
	"encoding/json"
	"fmt"
	"go/ast"
	"go/format"
	"go/parser"
	"go/token"
	"os"
	"path/filepath"
	"regexp"
	"strings"
)

var kindOf = map[string]string{"Lock": "Lock", "Unlock": "Unlock", "Signal": "Signal", "Broadcast": "Broadcast",
	"Add": "WgAdd", "Done": "WgDone", "Encode": "Encode", "Decode": "Decode", "Close": "Close"}

var wgName = regexp.MustCompile(`(?i)(wg|waitgroup|group)$`)
var cancelName = regexp.MustCompile(`(?i)cancel`)

type inst struct {
	fset  *token.FileSet
	fn    string
	gates int
	tokN  int
}

func (in *inst) expr(e ast.Expr) string {
	var b bytes.Buffer
	_ = format.Node(&b, in.fset, e)
	return b.String()
}

func lit(s string) ast.Expr { return &ast.BasicLit{Kind: token.STRING, Value: fmt.Sprintf("%q", s)} }

func (in *inst) gate(kind, recv string) ast.Stmt {
	in.gates++
	return &ast.ExprStmt{X: &ast.CallExpr{Fun: ast.NewIdent("vgate"), Args: []ast.Expr{lit(in.fn + "|" + kind + ":" + recv)}}}
}

// callOf returns the call expression a statement consists of (expression statement, single
// assignment, if-initialiser, return of one call).
func callOf(s ast.Stmt) *ast.CallExpr {
	switch st := s.(type) {
	case *ast.ExprStmt:
		c, _ := st.X.(*ast.CallExpr)
		return c
	case *ast.AssignStmt:
		if len(st.Rhs) == 1 {
			c, _ := st.Rhs[0].(*ast.CallExpr)
			return c
		}
	case *ast.IfStmt:
		if st.Init != nil {
			return callOf(st.Init)
		}
	case *ast.ReturnStmt:
		if len(st.Results) == 1 {
			c, _ := st.Results[0].(*ast.CallExpr)
			return c
		}
	}
	return nil
}

func hasRecv(s ast.Stmt) (ast.Expr, bool) {
	var x ast.Expr
	switch st := s.(type) {
	case *ast.ExprStmt:
		x = st.X
	case *ast.AssignStmt:
		if len(st.Rhs) == 1 {
			x = st.Rhs[0]
		}
	}
	if u, ok := x.(*ast.UnaryExpr); ok && u.Op == token.ARROW {
		return u.X, true
	}
	return nil, false
}

// rewrite one statement into the statements replacing it.
func (in *inst) stmt(s ast.Stmt) []ast.Stmt {
	switch st := s.(type) {
	case *ast.DeferStmt:
		if sel, ok := st.Call.Fun.(*ast.SelectorExpr); ok && len(st.Call.Args) == 0 {
			if k, ok := kindOf[sel.Sel.Name]; ok && (k == "Unlock" || k == "WgDone") {
				body := &ast.BlockStmt{List: []ast.Stmt{in.gate(k, in.expr(sel.X)), &ast.ExprStmt{X: st.Call}}}
				return []ast.Stmt{&ast.DeferStmt{Call: &ast.CallExpr{Fun: &ast.FuncLit{Type: &ast.FuncType{Params: &ast.FieldList{}}, Body: body}}}}
			}
		}
		return []ast.Stmt{s}
	case *ast.SendStmt:
		return []ast.Stmt{in.gate("ChanSend", in.expr(st.Chan)), s}
	case *ast.SelectStmt:
		return []ast.Stmt{in.gate("Select", ""), s}
	case *ast.GoStmt:
		if fl, ok := st.Call.Fun.(*ast.FuncLit); ok && len(st.Call.Args) == 0 {
			in.tokN++
			in.gates++
			tok := fmt.Sprintf("vtok%d", in.tokN)
			site := in.fn + "|Spawn:"
			asg := &ast.AssignStmt{Lhs: []ast.Expr{ast.NewIdent(tok)}, Tok: token.DEFINE,
				Rhs: []ast.Expr{&ast.CallExpr{Fun: ast.NewIdent("vspawn"), Args: []ast.Expr{lit(site)}}}}
			start := &ast.ExprStmt{X: &ast.CallExpr{Fun: ast.NewIdent("vstart"), Args: []ast.Expr{ast.NewIdent(tok), lit(site)}}}
			exit := &ast.DeferStmt{Call: &ast.CallExpr{Fun: ast.NewIdent("vexit")}}
			fl.Body.List = append([]ast.Stmt{start, exit}, fl.Body.List...)
			return []ast.Stmt{asg, s}
		}
		return []ast.Stmt{in.gate("Spawn", ""), s}
	}
	if ch, ok := hasRecv(s); ok {
		return []ast.Stmt{in.gate("ChanRecv", in.expr(ch)), s}
	}
	call := callOf(s)
	if call == nil {
		return []ast.Stmt{s}
	}
	if id, ok := call.Fun.(*ast.Ident); ok && id.Name == "close" && len(call.Args) == 1 {
		return []ast.Stmt{in.gate("ChanClose", in.expr(call.Args[0])), s}
	}
	sel, ok := call.Fun.(*ast.SelectorExpr)
	if !ok {
		return []ast.Stmt{s}
	}
	if cancelName.MatchString(sel.Sel.Name) && len(call.Args) == 0 {
		return []ast.Stmt{in.gate("Cancel", in.expr(sel.X)), s}
	}
	if sel.Sel.Name == "Wait" && len(call.Args) == 0 {
		if _, isExpr := s.(*ast.ExprStmt); !isExpr {
			return []ast.Stmt{s}
		}
		recv := in.expr(sel.X)
		last := recv
		if i := strings.LastIndex(recv, "."); i >= 0 {
			last = recv[i+1:]
		}
		in.gates++
		if wgName.MatchString(last) {
			site := in.fn + "|WgWait:" + recv
			return []ast.Stmt{&ast.ExprStmt{X: &ast.CallExpr{Fun: ast.NewIdent("vwgwait"), Args: []ast.Expr{
				&ast.SelectorExpr{X: sel.X, Sel: ast.NewIdent("Add")}, &ast.SelectorExpr{X: sel.X, Sel: ast.NewIdent("Wait")}, lit(site)}}}}
		}
		site := in.fn + "|Wait:" + recv
		return []ast.Stmt{&ast.ExprStmt{X: &ast.CallExpr{Fun: ast.NewIdent("vcondwait"), Args: []ast.Expr{
			&ast.SelectorExpr{X: sel.X, Sel: ast.NewIdent("Wait")}, &ast.SelectorExpr{X: sel.X, Sel: ast.NewIdent("L")}, lit(site)}}}}
	}
	if k, ok := kindOf[sel.Sel.Name]; ok {
		return []ast.Stmt{in.gate(k, in.expr(sel.X)), s}
	}
	return []ast.Stmt{s}
}

func (in *inst) list(l []ast.Stmt) []ast.Stmt {
	var out []ast.Stmt
	for _, s := range l {
		out = append(out, in.stmt(s)...)
	}
	return out
}

func instrumentFile(src, dst string) (int, error) {
	fset := token.NewFileSet()
	f, err := parser.ParseFile(fset, src, nil, parser.ParseComments)
	if err != nil {
		return 0, err
	}
	in := &inst{fset: fset}
	for _, d := range f.Decls {
		fd, ok := d.(*ast.FuncDecl)
		if !ok || fd.Body == nil {
			continue
		}
		in.fn = fd.Name.Name
		// post-order: rewrite inner blocks first so inserted nodes are not visited again
		var walk func(n ast.Node)
		walk = func(n ast.Node) {
			ast.Inspect(n, func(c ast.Node) bool {
				if c == n || c == nil {
					return true
				}
				switch b := c.(type) {
				case *ast.BlockStmt:
					walk(b)
					b.List = in.list(b.List)
					return false
				case *ast.CaseClause:
					walk(b)
					b.Body = in.list(b.Body)
					return false
				case *ast.CommClause:
					walk(b)
					b.Body = in.list(b.Body)
					return false
				}
				return true
			})
		}
		walk(fd.Body)
		fd.Body.List = in.list(fd.Body.List)
	}
	var buf bytes.Buffer
	if err := format.Node(&buf, fset, f); err != nil {
		return 0, err
	}
	// re-parse: the result must be valid Go
	if _, err := parser.ParseFile(token.NewFileSet(), dst, buf.Bytes(), 0); err != nil {
		return 0, fmt.Errorf("instrumented %s does not parse: %w", src, err)
	}
	return in.gates, os.WriteFile(dst, buf.Bytes(), 0o644)
}

const vgateSrc = `package atp

import "sync"

// Hooks installed by the verification driver (cmd/atpdrive); nil means every gate is a no-op.
// This file exists only in the build overlay generated at check time.
var (
	VGateHook  func(site string)
	VSpawnHook func(site string) int
	VStartHook func(tok int, site string)
	VExitHook  func()
)

func vgate(site string) {
	if h := VGateHook; h != nil {
		h(site)
	}
}

func vspawn(site string) int {
	if h := VSpawnHook; h != nil {
		return h(site)
	}
	return 0
}

func vstart(tok int, site string) {
	if h := VStartHook; h != nil {
		h(tok, site)
	}
}

func vexit() {
	if h := VExitHook; h != nil {
		h()
	}
}

// vcondwait is sync.Cond.Wait with the re-acquisition of the mutex made schedulable.
func vcondwait(wait func(), l sync.Locker, site string) {
	vgate(site)
	wait()
	if VGateHook != nil {
		l.Unlock()
		vgate(site + "#Woke")
		l.Lock()
	}
}

func vwgwait(add func(int), wait func(), site string) {
	_ = add
	vgate(site)
	wait()
}
`

func main() {
	if len(os.Args) < 3 {
		fmt.Fprintln(os.Stderr, "usage: instrument REPO OUTDIR [file.go ...]")
		os.Exit(2)
	}
	repo, out := os.Args[1], os.Args[2]
	files := os.Args[3:]
	if len(files) == 0 {
		files = []string{"client.go"}
	}
	if err := os.MkdirAll(filepath.Join(out, "atp"), 0o755); err != nil {
		panic(err)
	}
	overlay := map[string]string{}
	total := 0
	for _, f := range files {
		src := filepath.Join(repo, "atp", f)
		dst := filepath.Join(out, "atp", f)
		n, err := instrumentFile(src, dst)
		if err != nil {
			fmt.Fprintln(os.Stderr, "instrument:", err)
			os.Exit(1)
		}
		if n == 0 {
			fmt.Fprintln(os.Stderr, "instrument: no gates inserted in", src)
			os.Exit(1)
		}
		total += n
		overlay[src] = dst
		fmt.Printf("%s: %d gates\n", f, n)
	}
	vg := filepath.Join(out, "atp", "zz_vgate.go")
	if err := os.WriteFile(vg, []byte(vgateSrc), 0o644); err != nil {
		panic(err)
	}
	overlay[filepath.Join(repo, "atp", "zz_vgate.go")] = vg
	js, _ := json.MarshalIndent(map[string]any{"Replace": overlay}, "", " ")
	if err := os.WriteFile(filepath.Join(out, "overlay.json"), js, 0o644); err != nil {
		panic(err)
	}
	fmt.Printf("total %d gates\n", total)
}
