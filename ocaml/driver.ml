(* driver.ml — reads one s-expression case per line on stdin, evaluates the extracted
   Coq model (Model.run_case) and prints one observation per line on stdout.
   All logic is in the extracted code; this file is text <-> Model.sexp only. *)

let explode (s : string) : char list = List.init (String.length s) (String.get s)
let implode (l : char list) : string =
  let b = Buffer.create 16 in List.iter (Buffer.add_char b) l; Buffer.contents b

exception Parse_error of string

let hexval c = match c with
  | '0'..'9' -> Char.code c - 48
  | 'a'..'f' -> Char.code c - 87
  | 'A'..'F' -> Char.code c - 55
  | _ -> raise (Parse_error "hex")

(* parse one sexp starting at position i; returns (sexp, next position) *)
let rec parse (s : string) (i : int) : Model.sexp * int =
  let n = String.length s in
  let rec skip i = if i < n && (s.[i] = ' ' || s.[i] = '\t') then skip (i + 1) else i in
  let i = skip i in
  if i >= n then raise (Parse_error "eof")
  else if s.[i] = '(' then begin
    let rec items i acc =
      let i = skip i in
      if i >= n then raise (Parse_error "unclosed")
      else if s.[i] = ')' then (Model.Ls (List.rev acc), i + 1)
      else let (x, j) = parse s i in items j (x :: acc)
    in items (i + 1) []
  end else if s.[i] = '"' then begin
    let b = Buffer.create 16 in
    let rec go i =
      if i >= n then raise (Parse_error "unclosed string")
      else if s.[i] = '"' then i + 1
      else if s.[i] = '\\' then begin
        if i + 2 >= n then raise (Parse_error "escape");
        Buffer.add_char b (Char.chr (hexval s.[i+1] * 16 + hexval s.[i+2])); go (i + 3)
      end else begin Buffer.add_char b s.[i]; go (i + 1) end
    in
    let j = go (i + 1) in
    (Model.St (explode (Buffer.contents b)), j)
  end else begin
    let rec go j = if j < n && s.[j] <> ' ' && s.[j] <> '(' && s.[j] <> ')' && s.[j] <> '"' then go (j + 1) else j in
    let j = go i in
    (Model.At (explode (String.sub s i (j - i))), j)
  end

let plain c = let k = Char.code c in k >= 0x20 && k <= 0x7e && c <> '"' && c <> '\\'

let rec print (b : Buffer.t) (x : Model.sexp) : unit =
  match x with
  | Model.At a -> Buffer.add_string b (implode a)
  | Model.St s ->
      Buffer.add_char b '"';
      List.iter (fun c -> if plain c then Buffer.add_char b c
                          else Buffer.add_string b (Printf.sprintf "\\%02x" (Char.code c))) s;
      Buffer.add_char b '"'
  | Model.Ls l ->
      Buffer.add_char b '(';
      List.iteri (fun i y -> if i > 0 then Buffer.add_char b ' '; print b y) l;
      Buffer.add_char b ')'

let () =
  let b = Buffer.create 4096 in
  (try
    while true do
      let line = input_line stdin in
      if String.length line > 0 && line.[0] <> ';' then begin
        Buffer.clear b;
        (match (try Some (fst (parse line 0)) with Parse_error _ -> None) with
         | Some x -> print b (Model.run_case x)
         | None -> Buffer.add_string b "(bad \"parse error\")");
        Buffer.add_char b '\n';
        print_string (Buffer.contents b)
      end
    done
  with End_of_file -> ());
  flush stdout
