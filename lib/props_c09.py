"""C09 (self-description is a fixed point; schema/schema_schema.go and friends): registration of the
property, statistics of the family c09describe, the property's own predicate on an observation, and
the class predicates of the open known findings (schemas that can be built but not described).
Hooked into props.py by `props_c09.register(_sys.modules[__name__])`.

Case / observation syntax: harness/cmd/harness/c09_describe.go, coq/Interp/RunDescribe.v.
"""
import hashlib
import re

_P = None

_ID_RE = re.compile(r"^[$@a-zA-Z0-9\-_]+$")


def _walk(n, f):
    f(n)
    if isinstance(n, list):
        for c in n:
            _walk(c, f)


def _schema_of(case):
    return _P.case_payload(case)


def _str(x):
    return x[1] if isinstance(x, tuple) else None


def _quirks(pl):
    """The not-describable classes present in a case's schema descriptor (D28, D29, D50, D69)."""
    found = set()

    def disp(d):
        if isinstance(d, list) and d and d[0] == "disp":
            for x in d[1:]:
                if isinstance(x, tuple) and x[1] == "":
                    found.add("empty-display")

    def visit(n):
        if not isinstance(n, list) or not n:
            return
        h = n[0]
        if h == "map" and isinstance(n[1], list) and n[1] and n[1][0] in ("enum_int", "enum_str"):
            found.add("enum-key")
        if h == "enum_int" or h == "enum_str":
            vals = n[1] if h == "enum_int" else n[2]
            if not vals:
                found.add("empty-enum")
            for v in vals:
                if v[1] == "none":
                    found.add("nil-enum-display")
                disp(v[1])
            if h == "enum_str" and n[1] != "none":
                found.add("typed-enum")
        if h == "object":
            if not _ok_id(_str(n[1])):
                found.add("bad-id")
            for p in n[3]:
                if _str(p[0]) == "":
                    found.add("bad-id")
                disp(p[1][2])
        if h == "ref":
            if not _ok_id(_str(n[1])):
                found.add("bad-id")
            disp(n[3])
        if h == "scope":
            for o in n[1]:
                if not _ok_id(_str(o[0])):
                    found.add("bad-id")
        if h == "disp":
            disp(n)

    _walk(pl[3], visit)
    return found


def _ok_id(s):
    return s is not None and 1 <= len(s.encode("latin-1", "replace")) <= 255 and _ID_RE.match(s) is not None


def _kinds(pl):
    kinds = {}

    def visit(n):
        if isinstance(n, list) and n and isinstance(n[0], str) and n[0] in (
                "int", "float", "string", "enum_int", "enum_str", "list", "map", "object", "oneof", "ref", "scope", "units", "disp", "pat"):
            kinds[n[0]] = kinds.get(n[0], 0) + 1
        if isinstance(n, str) and n in ("bool", "pattern", "any"):
            kinds[n] = kinds.get(n, 0) + 1
    _walk(pl[3], visit)
    return kinds


def _erase_named(text):
    # the rebuilt schema of a typed string enum (not describable anyway) would return plain strings
    return re.sub(r'\(named "[A-Za-z0-9]+" ([a-z0-9]+)\)', r"\1", text)


def _beh_pairs(o):
    """[(label, o1, o2)] from a parsed observation."""
    out = []
    for part in o[1:]:
        if isinstance(part, list) and part and part[0] == "beh":
            out += [("", p[0], p[1]) for p in part[1:] if isinstance(p, list) and len(p) == 2]
        if isinstance(part, list) and part and part[0] == "behs":
            for b in part[1:]:
                if isinstance(b, list):
                    out += [(b[0][1], p[0], p[1]) for p in b[1:] if isinstance(p, list) and len(p) == 2]
                else:
                    out.append((str(b), "shape", "differs"))
    return out


def _class(x):
    if isinstance(x, list) and x:
        return x[0]
    return x


def describe_stats(rows):
    kinds, quirks, outcomes = {}, {}, {}
    distinct = set()
    nontrivial = 0
    accepted = rejected = 0
    samples = []
    for case, obs, pred in rows:
        pl = _P.case_payload(case)
        for k, n in _kinds(pl).items():
            kinds[k] = kinds.get(k, 0) + n
        for q in _quirks(pl):
            quirks[q] = quirks.get(q, 0) + 1
        o = _P.sx_parse(obs)[2]
        key = pl[1] + ": " + ("described" if len(o) > 1 and _class(o[1]) == "ok" else "not described")
        outcomes[key] = outcomes.get(key, 0) + 1
        for _, o1, o2 in _beh_pairs(o):
            if _class(o1) == "ok":
                accepted += 1
            else:
                rejected += 1
        h = hashlib.sha1(re.sub(r"^\(case \S+ ", "", case).encode()).digest()
        if h in distinct:
            continue
        distinct.add(h)
        # non-trivial: described, and the schema uses at least four different kinds of node
        if len(o) > 2 and len(_kinds(pl)) >= 4:
            nontrivial += 1
        if len(samples) < 3 and len(distinct) % 131 == 3:
            samples.append({"case": case[:1500], "observed": obs[:600]})
    return {"cases": len(rows), "distinct": len(distinct), "distinct_nontrivial": nontrivial, "outcomes": outcomes,
            "schema_nodes_by_kind": kinds, "not_describable_classes_seeded": quirks,
            "behaviour_inputs": {"accepted_by_original": accepted, "rejected_by_original": rejected},
            "samples": samples}


def describe_direct(case, obs):
    """The property text on the observation alone."""
    if obs in ("panic", "crash", "hang"):
        return "describing / rebuilding the schema ended in a " + obs
    if obs.startswith("(bad") or obs.startswith("(build-failed"):
        return None
    o = _P.sx_parse(obs)
    what = _P.case_payload(case)[1]
    if len(o) == 2:
        return "SelfSerialize of a %s built through the public constructors failed (%s)" % (what, o[1])
    if o[2] != "ok":
        return "the SDK does not accept its own description of a %s: Unserialize%s / first use gave %s" % (
            what, "Scope" if what == "scope" else "Schema", o[2])
    if o[3] != "same":
        return "describing the rebuilt %s gives a different description (%s)" % (what, _class(o[3]))
    for via in o[4:6]:
        if via[2] != "same":
            return "after a %s round trip of the description the rebuilt %s describes itself differently (%s)" % (
                via[0].upper(), what, _class(via[2]))
    for label, o1, o2 in _beh_pairs(o):
        a = _erase_named(_P.strip_err_paths(_sx(o1)))
        b = _erase_named(_P.strip_err_paths(_sx(o2)))
        if a != b:
            return "the rebuilt schema %sbehaves differently from the original on an input: original %s, rebuilt %s" % (
                ("(" + label + ") ") if label else "", a[:300], b[:300])
    return None


def _sx(n):
    if isinstance(n, tuple):
        return '"' + n[1] + '"'
    if isinstance(n, list):
        return "(" + " ".join(_sx(c) for c in n) + ")"
    return n


def describe_agree(case, obs, pred):
    return _P.strip_err_paths(obs) == _P.strip_err_paths(pred)


def describe_explain(case, obs, pred):
    # the model is tied node by node to the real description; a difference there is a broken
    # correspondence, not by itself a failing input of the property
    return None


# ---- family c09hello: the plugin schema served by the real ATP server and read by the real ATP client ----

# what the decoder of the ATP client accepts (fxamacker/cbor default MaxNestedLevels; Schema/DescribeNest.v
# cbor_max_nested): a hello message nested deeper is outside the property as long as it is rejected with an error
HELLO_MAX_NEST = 32


def _hello_parts(obs):
    """(d1_class, nest, res, shut, rest) of a parsed c09hello observation, None when it has another shape."""
    o = _P.sx_parse(obs)[2]
    if not isinstance(o, list) or not o or o[0] != "h":
        return None
    if len(o) == 2:
        return (_class(o[1]), None, None, None, [])
    try:
        nest = int(o[2])
    except (TypeError, ValueError):
        return None
    return (_class(o[1]), nest, o[3], o[4] if len(o) > 4 else None, o[5:])


def hello_stats(rows):
    by_nest, outcomes, kinds = {}, {}, {}
    distinct = set()
    nontrivial = accepted = rejected = 0
    samples = []
    for case, obs, pred in rows:
        pl = _P.case_payload(case)
        for k, n in _kinds(pl).items():
            kinds[k] = kinds.get(k, 0) + n
        parts = _hello_parts(obs) if obs.startswith("(obs") else None
        if parts is None:
            outcomes["other"] = outcomes.get("other", 0) + 1
            continue
        d1, nest, res, shut, rest = parts
        if nest is not None:
            by_nest[nest] = by_nest.get(nest, 0) + 1
        key = "not described" if nest is None else (
            ("within the limit" if nest <= HELLO_MAX_NEST else "beyond the limit") + ": ReadSchema " + str(res))
        outcomes[key] = outcomes.get(key, 0) + 1
        for _, o1, o2 in _beh_pairs(["r"] + [x for x in rest if isinstance(x, list)]):
            if _class(o1) == "ok":
                accepted += 1
            else:
                rejected += 1
        h = hashlib.sha1(re.sub(r"^\(case \S+ ", "", case).encode()).digest()
        if h in distinct:
            continue
        distinct.add(h)
        # non-trivial: read through the transport, the hello message nests at least 20 levels (two scopes inside the
        # data schema, or as many list / map / one-of levels) and the schema uses at least four kinds of node
        if res == "ok" and nest is not None and nest >= 20 and len(_kinds(pl)) >= 4:
            nontrivial += 1
        if len(samples) < 2 and len(distinct) % 61 == 7:
            samples.append({"case": case[:1500], "observed": obs[:400]})
    return {"cases": len(rows), "distinct": len(distinct), "distinct_nontrivial": nontrivial, "outcomes": outcomes,
            "hello_message_nesting": {str(k): by_nest[k] for k in sorted(by_nest)},
            "schema_nodes_by_kind": kinds,
            "behaviour_inputs": {"accepted_by_original": accepted, "rejected_by_original": rejected},
            "samples": samples}


def hello_direct(case, obs):
    """The last clause of the property on the observation alone: the schema the ATP client returns."""
    if obs in ("panic", "crash", "hang"):
        return "serving a plugin schema over ATP and reading it with the ATP client ended in a " + obs
    if obs.startswith("(bad") or obs.startswith("(build-failed"):
        return None
    parts = _hello_parts("(obs x " + obs + ")")
    if parts is None:
        return None
    d1, nest, res, shut, rest = parts
    if nest is None:
        return "SelfSerialize of a plugin schema built through the public constructors failed (%s)" % d1
    if res in ("panic", "hang"):
        return ("Client.ReadSchema against the real ATP server ended in a %s (plugin schema whose hello message nests "
                "%d levels)" % (res, nest))
    if res != "ok":
        if nest <= HELLO_MAX_NEST:
            return ("the plugin schema is not carried in the ATP hello message: the real server sent it, Client.ReadSchema "
                    "returned an error (hello message nested %d levels, the transport carries %d; SelfSerialize and the "
                    "direct rebuild of the same description work)" % (nest, HELLO_MAX_NEST))
        return None  # deeper than the transport carries, and rejected with an error: outside the property
    if not rest:
        return None
    if rest[0] != "ok":
        return "the plugin schema the ATP client returned cannot be used: first use of its data schemas gave %s" % rest[0]
    if len(rest) > 1 and rest[1] != "same":
        return ("the plugin schema the ATP client returned describes itself differently from the one the plugin serves (%s)"
                % _class(rest[1]))
    for label, o1, o2 in _beh_pairs(["r"] + [x for x in rest[2:] if isinstance(x, list)]):
        a = _erase_named(_P.strip_err_paths(_sx(o1)))
        b = _erase_named(_P.strip_err_paths(_sx(o2)))
        if a != b:
            return ("the plugin schema the ATP client returned %sbehaves differently from the plugin's own on an input: "
                    "original %s, read from the hello message %s" % (("(" + label + ") ") if label else "", a[:300], b[:300]))
    return None


def _known(quirk):
    def pred(m, case, obs, pred_):
        # only the defect itself: SelfSerialize fails, and the schema carries the class
        return obs in ("(r err)",) and quirk in _quirks(_P.case_payload(case))
    return pred


def register(props):
    global _P
    _P = props
    # c09hello cases are whole plugin schemas nested up to the transport's limit: 8 of them re-evaluated inside Coq cost
    # what 24 cases of another family cost (the in-Coq sample keeps extraction under test; the model comparison covers all)
    if not hasattr(props, "COQ_SAMPLE_N"):
        props.COQ_SAMPLE_N = {}
    props.COQ_SAMPLE_N["c09hello"] = 8
    props.FAMILY_STATS["c09describe"] = describe_stats
    props.DIRECT[("C09", "c09describe")] = describe_direct
    props.EXPLAIN[("C09", "c09describe")] = describe_explain
    props.AGREE = getattr(props, "AGREE", {})
    props.AGREE[("C09", "c09describe")] = describe_agree
    props.FAMILY_STATS["c09hello"] = hello_stats
    props.DIRECT[("C09", "c09hello")] = hello_direct
    props.EXPLAIN[("C09", "c09hello")] = describe_explain
    props.AGREE[("C09", "c09hello")] = describe_agree
    for q in ("enum-key", "typed-enum"):
        props.KNOWN_PREDICATES["c09-" + q] = _known(q)
    d29 = [_known(q) for q in ("bad-id", "empty-display", "empty-enum", "nil-enum-display")]
    props.KNOWN_PREDICATES["c09-d29"] = lambda m, case, obs, pred_: any(f(m, case, obs, pred_) for f in d29)
    props.PROPS["C09"] = {
        "theory": "Properties/C09.v",
        "families": ["c09describe", "c09hello"],
        "rule": "c09describe: generated scopes (1-4 objects, every type kind, built-in and generated units, enums with display "
                "data, defaults, examples, presence rules, disabled properties with and without reason, inline objects, nested "
                "scopes with shadowed ids, recursive and namespaced references, int/string one-ofs inlined or not) and whole plugin "
                "schemas (1-2 steps, 1-3 outputs, 0-2 signal handlers and emitters each with its own scope); real SelfSerialize -> "
                "UnserializeScope / UnserializeSchema -> SelfSerialize, directly and through real CBOR and yaml.v3 round trips; the "
                "description compared node by node with the model's `describe`; 8-12 generated inputs (40 % mutated) unserialized by "
                "the original and by the rebuilt schema, a fifth of the bounded numbers in them exactly on a declared bound; 8 % of "
                "the schemas carry one of the not-describable classes; also generated: integer bounds, size bounds, int enum values "
                "and int one-of keys at the ends of the int64 range (MaxInt64 arrives as a uint64 after CBOR), patterns that begin "
                "or end with white space, whole scopes as one-of members (both key kinds), objects without properties built with a "
                "nil property map; distinct by case text; non-trivial = described and at least four different node kinds. "
                "c09hello: the last clause through the REAL transport: the plugin is built as a schema.NewCallableSchema (steps with "
                "handlers, signal handlers and emitters whose scopes are the generated ones), served by atp.RunATPServer over "
                "in-process pipes and read by atp.NewClient(...).ReadSchema(); the schema the client returns is linked, described "
                "again (must equal the original description, which is compared node by node with the model's) and probed with 3 "
                "generated inputs per data schema (35 % mutated) next to the original; DEEP schemas: a spine of containers (a scope "
                "as a property type, as a list item, a map value, a one-of member; lists, maps, inline objects, one-ofs over "
                "objects) with units / enums with display data / defaults at the leaf, in the input, an output, a handled or an "
                "emitted signal, filled up to a budget of CBOR nesting levels of the hello message: 60 % at 30-32 (32 = the "
                "decoder's limit: hello > schema > steps > step > input > objects > object > properties > property > type is 10; a "
                "scope adds 5, a one-of over objects 5, an inline object 3, a list or map 1, units 3, enum display 2; outputs and "
                "signal data schemas start one map deeper than an input does... two: 12), 10 % at 33-36 (must be rejected with an "
                "error, never a hang or panic: outside the property), the rest 12-31; plus a fixed ladder: for scope / list / map / "
                "one-of a chain over an integer with units at every nesting from 28 to 35 the kind can reach, as input and as output; every case has "
                "5 s watchdogs on ReadSchema, Close and the server's return, and the runner closes all four pipe ends; a ReadSchema "
                "error at nesting <= 32 is a violation with the schema as the failing input; non-trivial = read through the "
                "transport, nesting >= 20, at least four node kinds",
        "assumptions": ["schemas are map-based (struct-mapped objects are not in the shared syntax); a typed string enum cannot be "
                        "described at all (known finding D69), so `erase` only drops TreatEmptyAsDefaultValue",
                        "references into other namespaces are compared after the same namespace was applied to both schemas",
                        "YAML: floats that are whole numbers below 1e6 come back as integers (modelled by yaml_norm, compared on every case)"],
        "level_text": "Proved in Coq over Schema/Describe.v (hand-written from schema_schema.go, schema.go, scope.go as they are after "
                      "the fixes D27/D30/D31/D32/D40), for EVERY schema, all recorded library behaviour quantified: C09_fixpoint "
                      "(describable + links => UnserializeScope(SelfSerialize s) = erase s and the second description is identical), "
                      "C09_transport / C09_transport_any / C09_transport_plugin (the CBOR normal form of a description is rebuilt to "
                      "the same result, for every scope and plugin), C09_behaviour (the rebuilt schema unserializes every input in "
                      "every environment exactly like the original), C09_behaviour_all_paths (the same for Validate, Serialize and "
                      "data-mode ValidateCompatibility: identical outcome - value, or error with class and path - on every value, every "
                      "fuel, every environment; plain equality, because TreatEmptyAsDefaultValue - all that `erase` drops - is read only "
                      "by struct-mapped objects and a typed string enum is not describable), C09_erase_invisible_all_paths (no "
                      "hypothesis on the schema), C09_behaviour_plugin_all_paths (every data schema of a rebuilt plugin schema), "
                      "C09_plugin (whole plugin schemas with signal data schemas), "
                      "C09_not_describable_refuted (the hypothesis is necessary: D28, D29, D69 witnesses). "
                      "C09_describe_nesting_bound / C09_hello_nesting_bound / C09_hello_within_transport (Proofs/C09Nest.v, "
                      "Schema/DescribeNest.v): for EVERY schema the CBOR nesting of its description is at most the structural budget "
                      "tnest s (5 per scope, 5 per one-of over objects, 3 per inline object, 1 per list / map, leaf 4 with units, 3 enum, "
                      "2 ref, 1 otherwise), the hello message of EVERY plugin schema nests at most 4 + plugin_nest p levels, so a budget "
                      "of 28 stays within the 32 levels the decoder of the ATP client accepts - the depth limit of family c09hello's "
                      "generator; that ReadSchema returns a schema that describes itself and behaves like the plugin's own is TESTED "
                      "through the real atp.RunATPServer / atp.NewClient on every run (family c09hello), the limit itself "
                      "(cbor_max_nested = 32, fxamacker/cbor's default) is a recorded library fact checked by the family's ladder "
                      "(32 carried, 33..37 rejected with an error). "
                      "Over the GENERATED meta-schema table (Generated/MetaDesc.v = DescribeScope/DescribeSchema/DescribeStepOutput"
                      "().SelfSerialize() of the SDK under test, re-dumped on every run, turned into a `schema` by the model's reader in "
                      "Schema/MetaTable.v; regexp/syntax's parse of the table's patterns and encoding/json on its default texts dumped "
                      "alongside): C09_accepted - for EVERY describable scope (all fourteen kinds at any nesting) whose patterns compile, the "
                      "GENERIC Unserialize of Schema/Ops.v run on the Scope table accepts `describe s` at every fuel from the explicit bound "
                      "c09_fuel s on (one lemma per meta object, 19 objects, induction over the described schema); C09_accepted_type - the "
                      "same for the description of every describable type against the table's one-of over type_id; C09_accepted_plugin - "
                      "the generated Schema table (what UnserializeSchema / ReadSchema run) accepts describe_plugin p for every plugin schema "
                      "with admissible ids / displays and describable data scopes (the Schema table provably contains the Scope table's "
                      "objects unchanged, plus Schema, Step, StepOutput, Signal); "
                      "C09_table_agrees_with_reader_partial - (a) on describe s both the table and the hand-written reader accept, (b) for "
                      "the kinds without fields (bool, any, pattern) the table accepts ANY value iff the reader does, and for the string, integer "
                      "and float kinds whatever value the table accepts the reader accepts, at any fuel (string: its character units are "
                      "Generated/Tables.v unit_characters, which is what the table carries; integer / float: through the nested Units and "
                      "Unit objects and the multipliers map) - all six scalar kinds have table => reader on arbitrary values, (c) the table's "
                      "defaulted fields are exactly Property.required, Object.id_unenforced, OneOfInt/OneOfString.discriminator_inlined, "
                      "Ref.namespace, and for each the value the reader assumes for an absent field equals the table's default text as "
                      "encoding/json decodes it. NOT proved: YAML transport "
                      "(tested on every case through yaml.v3); behaviour of a rebuilt schema whose ORIGINAL was struct-mapped (the "
                      "rebuilt one is map-based: different Go values by construction; tested, class exclusion as in C03); "
                      "`accepted by the table => accepted by the reader` for ARBITRARY values of the non-scalar kinds "
                      "(enums, list, map, object, one-of, ref, scope - partial: tested by c10mutants on every mutated "
                      "description); the StepOutput table (DescribeStepOutput) is dumped and rebuilt (Example meta_stepoutput_rebuilt) but has "
                      "no acceptance theorem of its own (its objects are those of the Schema table).",
        "level_note": "Model = Schema/Describe.v (reader, describe) and Schema/MetaTable.v (the generated table as a schema); tie = family "
                      "c09describe (description compared node by node, acceptance, second description, CBOR and YAML normal forms, behaviour "
                      "on inputs) and the re-dump of the table on every run: an edit of schema_schema.go that breaks acceptance of a "
                      "description breaks a lemma of Proofs/C09AccTable.v / C09AccReader.v (coq-build, no-failing-input-found) unless a "
                      "family finds the input first.",
        "design_ref": "DESIGN.md §5 C09",
    }
