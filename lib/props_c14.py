"""C14 (references resolve lexically; inlining never changes behaviour): registration, statistics of the
`c14scopes` family, the property's own predicates on an observation.

Case / observation syntax: coq/Interp/RunLink.v and harness/cmd/harness/c14_scopes.go.
"""
import hashlib
import re

_P = None


def _txt(x):
    return x[1] if isinstance(x, tuple) else str(x)


def _states(o):
    """(r ST... (rev ST) (ops ...) (inl ...)) -> (states, rev, ops, inl); a state is ('st', links, vr) or 'panic'."""
    body = o[1:]
    states, rev, ops, inl = [], None, None, None
    for x in body:
        if isinstance(x, list) and x and x[0] == "st":
            states.append(x)
        elif isinstance(x, list) and x and x[0] == "rev":
            rev = x[1]
        elif isinstance(x, list) and x and x[0] == "ops":
            ops = x[1:]
        elif isinstance(x, list) and x and x[0] == "inl":
            inl = x[1:]
        else:
            states.append(x)
    return states, rev, ops, inl


def _nearest_scope(path):
    """the path of the nearest enclosing scope of a reference: everything before the last /O:<id> segment"""
    i = path.rfind("/O:")
    return path[:i] if i >= 0 else None


def _weq(a, b):
    """equality of parsed observations where the projection (err any) — an error whose constraint flag depends on
    Go's map iteration order (several faults in one input, see c14Unser) — matches every error"""
    if isinstance(a, list) and isinstance(b, list):
        if a[:1] == ["err"] and b[:1] == ["err"] and ("any" in a[1:2] or "any" in b[1:2]):
            return True
        return len(a) == len(b) and all(_weq(x, y) for x, y in zip(a, b))
    return a == b


def scopes_agree(case, obs, pred):
    if obs == pred:
        return True
    try:
        return _weq(_P.sx_parse(obs), _P.sx_parse(pred))
    except Exception:
        return False


def scopes_stats(rows):
    distinct = set()
    nontrivial = 0
    outcomes = {}
    nrefs, nshadow, next_, nrec = 0, 0, 0, 0
    n_so, n_dis, n_vs, n_rb = 0, 0, 0, 0
    samples = []
    for case, obs, pred in rows:
        h = hashlib.sha1(re.sub(r"^\(case \S+ ", "", case).encode()).digest()
        o = _P.sx_parse(re.sub(r"^\(obs \S+ (.*)\)$", r"\1", obs)) if obs.startswith("(obs") else None
        kind = "states"
        if o is None or not isinstance(o, list):
            kind = obs
        elif len(o) == 2 and o[1] == "build-panic":
            kind = "build-panic"
        elif any(x == "panic" for x in o[1:]):
            kind = "apply-panic"
        outcomes[kind] = outcomes.get(kind, 0) + 1
        if h in distinct:
            continue
        distinct.add(h)
        n_so += 1 if "(order-so " in case or "(order-so)" in case else 0
        n_rb += 1 if "(order-rb " in case or "(order-rb)" in case else 0
        n_dis += 1 if re.search(r'\) [01] 1 (none|"[^"]*")\)', case) else 0
        n_vs += case.count("(vs ")
        if isinstance(o, list) and len(o) > 2:
            sts, rev, ops, inl = _states(o)
            links = sts[-1][1] if sts and isinstance(sts[-1], list) else []
            nrefs += len(links)
            deep = [l for l in links if _txt(l[0]).count("/O:") >= 2]
            nshadow += len(deep)
            next_ += len([l for l in links if _txt(l[2]) != ""])
            # non-trivial: at least one reference under a container or in a nested scope or to an external namespace
            if any("/i" in _txt(l[0]) or "/v" in _txt(l[0]) or "/m:" in _txt(l[0]) or _txt(l[2]) != "" for l in links) or deep:
                nontrivial += 1
        if len(samples) < 2 and len(distinct) % 61 == 1:
            samples.append({"case": case[:500], "observed": obs[:500]})
    return {"cases": len(rows), "distinct": len(distinct), "distinct_nontrivial": nontrivial, "outcomes": outcomes,
            "reference_occurrences": nrefs, "in_nested_scopes": nshadow, "to_external_namespaces": next_,
            "cases_applied_through_a_step_output": n_so, "cases_on_the_tree_rebuilt_from_its_description": n_rb, "cases_with_a_disabled_property": n_dis,
            "validate_serialize_ops_on_native_values": n_vs, "samples": samples}


def scopes_direct(case, obs):
    """The property text on one observation: lexical targets, untouched namespaces, ValidateReferences iff linked,
    order irrelevance, and the metamorphic equality with the inlined partner."""
    if obs.startswith("(bad") or obs in ("crash", "hang"):
        return "the SDK %s on a linking case" % ("crashed" if obs == "crash" else "hung") if obs in ("crash", "hang") else None
    o = _P.sx_parse(obs)
    if len(o) == 2 and o[1] == "build-panic":
        return ("constructing the scope panicked although every self-namespace reference names an object of its own scope "
                "(references to namespaces that are not applied yet must be left untouched)")
    if len(o) == 2 and o[1] == "rebuild-failed":
        return ("the scope was built and described (SelfSerialize), but UnserializeScope does not rebuild it from that "
                "description: a reference that resolves lexically in the code-built tree must resolve in the rebuilt tree")
    pl = _P.case_payload(case)
    order = [_txt(x) for x in pl[3][1:]]
    so = " [namespaces applied through a StepOutputSchema wrapping the scope]" if pl[3][0] == "order-so" else ""
    if pl[3][0] == "order-rb":
        so = (" [the scope tree REBUILT from its description: SelfSerialize, then UnserializeScope — no scope of the tree went "
              "through NewScopeSchema; the reverse-order state is that of the code-built tree]")
    r = _direct(o, order)
    return (r + so) if r else None


def _direct(o, order):
    sts, rev, ops, inl = _states(o)
    applied = set()
    prev = None
    for i, st in enumerate(sts):
        if st == "panic":
            return "ApplyNamespace(%s) panicked" % (order[i - 1] if 0 < i <= len(order) else "?")
        if i > 0:
            applied.add(order[i - 1])
        links, vr = st[1], st[2]
        all_linked = True
        for l in links:
            path, rid, ns, tgt = _txt(l[0]), _txt(l[1]), _txt(l[2]), l[3]
            if ns == "":
                want = ["scope", ("s", _nearest_scope(path))]
                if tgt != want:
                    return ("the reference to %r at %s is linked to %s, not to the object of that id in its nearest enclosing "
                            "scope (%r)" % (rid, path, tgt, _nearest_scope(path)))
            elif ns in applied:
                if tgt != ["ext", ("s", ns)]:
                    return "after applying namespace %r the reference %s:%s at %s is linked to %s" % (ns, ns, rid, path, tgt)
            else:
                if tgt != "nil":
                    return ("the reference %s:%s at %s is linked (%s) although its namespace has not been applied (applying one "
                            "namespace must leave the others untouched)" % (ns, rid, path, tgt))
            if tgt == "nil":
                all_linked = False
        if (vr == "ok") != all_linked:
            return ("ValidateReferences returned %s although %s reference is unlinked (after %s)"
                    % (vr, "no" if all_linked else "a", "construction" if i == 0 else "applying " + ", ".join(order[:i])))
    if rev is not None and sts and rev != sts[-1]:
        return "applying the namespaces in the reverse order gives another link state: %s vs %s" % (str(rev)[:300], str(sts[-1])[:300])
    if ops is not None and inl is not None and not _weq(ops, inl):
        for k, (a, b) in enumerate(zip(ops, inl)):
            if not _weq(a, b):
                return ("replacing the references by the objects they denote changed behaviour on input #%d: with references %s, "
                        "inlined %s" % (k + 1, str(a)[:300], str(b)[:300]))
        return "replacing the references by the objects they denote changed behaviour: %s vs %s" % (str(ops)[:200], str(inl)[:200])
    if ops is not None and any(x == "panic" or (isinstance(x, list) and "panic" in x) for x in ops):
        return "an operation on a fully linked schema panicked"
    return None


def scopes_explain(case, obs, pred):
    return None


def kf_inline_cycle(m, case, obs, pred):
    """D11: a scope whose root is a one-property object whose property refers (through self references and further
    one-property objects) back to it, given a non-map input: the SDK overflows its stack, the model exhausts its fuel."""
    pl = _P.case_payload(case)
    try:
        root = _txt(pl[2][2])
        objs = {_txt(o[0]): o[1] for o in pl[2][1]}
        seen, cur = set(), root
        while cur not in seen:
            seen.add(cur)
            props = objs[cur][3]
            if len(props) != 1:
                return False
            t = props[0][1][1]
            if not (isinstance(t, list) and t[0] == "ref" and _txt(t[2]) == ""):
                return False
            cur = _txt(t[1])
        return (obs == "crash" or "diverged" in obs) and "diverged" in pred
    except Exception:
        return False


# ---- struct-mapped scopes: family c14xinline (harness/cmd/harness/c14_xinline.go, coq/Interp/RunXSchema.v) ----

def _xparts(obs):
    o = _P.sx_parse(_P.strip_err_paths(obs)) if obs.startswith("(") else None
    if not isinstance(o, list) or len(o) != 3 or o[0] != "r":
        return None, None
    return o[1][1:], o[2][1:]


def _fmtx(x):
    if isinstance(x, tuple):
        return '"%s"' % x[1]
    if isinstance(x, list):
        return "(" + " ".join(_fmtx(y) for y in x) + ")"
    return str(x)


def xinline_direct(case, obs):
    """with references == with the references replaced by their objects, operation by operation (error paths aside)"""
    if obs in ("crash", "hang"):
        return "the SDK %s on a struct-mapped scope" % ("crashed" if obs == "crash" else "hung")
    ops, inl = _xparts(obs)
    if ops is None:
        return ("constructing a struct-mapped scope (or its inlined partner) panicked: %s" % case[:600]) if "build-panic" in obs else None
    pl = _P.case_payload(case)
    calls = pl[5][1:]
    names = {"u": "Unserialize", "rt": "the round trip Unserialize / Validate / Serialize", "v": "Validate", "s": "Serialize",
             "sr": "Serialize, then Unserialize of the result,"}
    for k, (a, b) in enumerate(zip(ops, inl)):
        if a != b:
            c = calls[k] if k < len(calls) else ["?", "?"]
            return ("replacing the references of a STRUCT-MAPPED scope by the objects they denote changed behaviour: %s of %s gives %s "
                    "with the references and %s with the objects inlined; scope %s"
                    % (names.get(c[0], c[0]), _fmtx(c[1])[:300], _fmtx(a)[:400], _fmtx(b)[:400], _fmtx(pl[3])[:900]))
    if len(ops) != len(inl):
        return "the inlined partner answered %d operations, the scope %d" % (len(inl), len(ops))
    return None


def xinline_agree(case, obs, pred):
    if obs in ("crash", "hang"):
        return "diverged" in pred
    return _P.strip_err_paths(obs) == _P.strip_err_paths(pred)


def xinline_stats(rows):
    distinct, nontrivial = set(), 0
    structs, kinds, opk = {}, {"by reference": 0, "declared object default on a member": 0, "three levels": 0}, {}
    filled = 0
    samples = []
    for case, obs, pred in rows:
        h = hashlib.sha1(re.sub(r"^\(case \S+ ", "", case).encode()).digest()
        if h in distinct:
            continue
        distinct.add(h)
        m = re.search(r'\(xobject "Root" \S+ .*?\(si "(\w+)"', case)
        if m:
            structs[m.group(1)] = structs.get(m.group(1), 0) + 1
        for k in re.findall(r"\((u|rt|v|s|sr) (?:\(|nil)", case):
            opk[k] = opk.get(k, 0) + 1
        kinds["by reference"] += 1 if '(ref "XI"' in case or '(ref "A"' in case else 0
        kinds["declared object default on a member"] += 1 if re.search(r'\) "\{[^"]*\}" \(\) [01] [01] ', case.replace('\\"', "'")) else 0
        kinds["three levels"] += 1 if '(object "MO"' in case and ('(object "MI"' in case or '"o" (prop (xobject' in case) else 0
        # non-trivial: the scope holds a member by reference and an Unserialize that omitted it succeeded
        if ('(ref "XI"' in case or '(ref "A"' in case) and "(rt (ok " in obs:
            nontrivial += 1
        if len(samples) < 2 and len(distinct) % 41 == 1:
            samples.append({"case": case[:1500], "observed": obs[:600]})
    return {"cases": len(rows), "distinct": len(distinct), "distinct_nontrivial": nontrivial, "root_struct_types": structs,
            "ops": opk, "schema_classes": kinds, "samples": samples,
            "rule": "distinct by case text; non-trivial = a member held by reference and an accepted Unserialize"}


def xinline_explain(case, obs, pred):
    return None


def register(props):
    global _P
    _P = props
    props.FAMILY_STATS["c14xinline"] = xinline_stats
    props.DIRECT[("C14", "c14xinline")] = xinline_direct
    props.EXPLAIN[("C14", "c14xinline")] = xinline_explain
    props.AGREE[("C14", "c14xinline")] = xinline_agree
    props.FAMILY_STATS["c14scopes"] = scopes_stats
    props.DIRECT[("C14", "c14scopes")] = scopes_direct
    props.EXPLAIN[("C14", "c14scopes")] = scopes_explain
    props.AGREE[("C14", "c14scopes")] = scopes_agree
    props.KNOWN_PREDICATES["c14_inline_cycle"] = kf_inline_cycle
    props.PROPS["C14"] = {
        "theory": "Properties/C14.v",
        "families": ["c14scopes", "c14xinline"],
        "rule": "c14xinline: STRUCT-MAPPED scopes from the shared struct-mapped generator (harness xstruct_gen.go: a struct-mapped "
                "root over the struct family of xstruct_types.go; its sub-objects held by reference to the scope objects XI "
                "(struct-mapped, member defaults) and A (map-based, a default, possibly a member of its own by reference), by value, "
                "behind pointers, two and three levels deep with a plain object in the middle; member properties with defaults, "
                "declared full / partial / empty object defaults on the member properties, rule lists of several names) against the "
                "same scope with every self reference mechanically replaced by its object, on inputs that omit every member, supply "
                "each member (and each member's member) as the empty map, generated and mutated raw inputs (round trip) and native "
                "struct values (Validate; Serialize then Unserialize); predicted by the struct-mapped model (Schema/XOps.v "
                "xsub_defaults: the propagation goes through Ref.GetObject() and through the object alike). c14scopes: fixed scope trees (an inner scope re-declaring the ids of the outer one; references under list, map, "
                "one-of and property; two external namespaces with colliding ids applied in both orders and partially; one-of "
                "members living in external namespaces; a self-referential and a mutually referential scope with inputs nested "
                "1..150 levels) plus generated scope trees whose object ids come from one shared pool (so nested scopes collide), "
                "with references to later objects of the nearest scope and to both external namespaces under every container (every fixed case with external namespaces also, and 60% of the generated ones, with the two namespaces NAMED by a near-equal pair: differing only in letter case - ASCII and the Kelvin sign -, one a prefix of the other, a leading / trailing space, blank names next to the self namespace, swapped; both tables hold an object X of different shapes), each "
                "with 6-9 generated / mutated inputs; 8% of the optional properties are DISABLED (with / without a reason) whatever their "
                "type — references under them must be linked all the same — and scopes that have one also get native values "
                "carrying those fields for Validate / Serialize; a fixed tree of scopes nested DIRECTLY as property types three deep "
                "(also under a list, a map and as a one-of member), every level re-declaring A and B; a third of the generated cases "
                "(and three fixed ones) apply the "
                "namespaces and ask ValidateReferences THROUGH a StepOutputSchema wrapping the scope, the reverse-order run "
                "applies them to the scope directly; another third (and seven fixed ones) run on the tree REBUILT from its "
                "description (SelfSerialize, then UnserializeScope: no scope of the tree went through NewScopeSchema, one ApplySelf "
                "of the outermost scope links it all), the reverse-order run being the code-built tree. Observed: the link target of EVERY reference occurrence and "
                "ValidateReferences after construction and after each ApplyNamespace, the final state of the reverse order on a "
                "fresh build, and unserialize / validate / serialize of every input on the schema and on its mechanically inlined "
                "partner. distinct by case text; non-trivial = a reference under a container, in a nested scope, or to an external "
                "namespace",
        "assumptions": ["scope nests are trees (two scopes sharing one Go object by pointer are outside the quantifier)",
                        "error PATHS are not compared between a schema and its inlined partner (several faults: first error "
                        "depends on map order); outcome class, constraint flag and values are; a failing Unserialize is "
                        "repeated 200 times and a constraint flag that varies with Go's map iteration order is projected to "
                        "(err any), which matches every error"],
        "level_text": "Theorems, all unbounded (every schema, table, input and fuel; induction on fuel / on the schema): "
                      "ApplyNamespace(ns) sets EXACTLY the occurrences of namespace ns, each to the object of that id in the table "
                      "handed to it (C14_sets_exactly) and leaves all others untouched (C14_other_ns_untouched); after construction "
                      "every self reference inside a scope is linked to the object of that id in the NEAREST enclosing scope, inner "
                      "scopes shadowing outer ones (C14_lexical); with the namespaces of the environment applied in any order the "
                      "link table equals the environment lookup `resolve` of Schema/Ops.v at EVERY reference occurrence "
                      "(C14_link_agrees; C14_apply_namespaces for any partial list of applications); any permutation of the external-namespace applications returns iff the given order "
                      "does and gives the same link table (C14_order_irrelevant); ValidateReferences holds iff every occurrence is linked (C14_validate_refs_iff); "
                      "replacing any number of self references by their objects IN AN ARBITRARY CONTEXT (relation inlines_to, closed "
                      "under list / map / property / one-of member / scope, with the inlined tables entered by scopes) preserves "
                      "unserialize / validate / serialize on all inputs: every non-OutOfFuel result of the original is the result of "
                      "the inlined schema at the same fuel, and conversely at twice the fuel (C14_inline_equiv_{unser,validate,"
                      "serialize}; C14_inline_refs_equiv(_back) for the mechanical inliner used as metamorphic partner; "
                      "C14_inline_step_* for one step); self- and mutually-referential objects are not OutOfFuel from the explicit "
                      "bound fuel_bound K e s v = K + 3 + (4*nic_fuel e s + 8)*(1 + vdepth v) on, under wf_schema, no_inline_cycle "
                      "and defaults_total K (C14_recursive_terminates, built on the C04 termination proof of work package c04c12); "
                      "without no_inline_cycle it is refuted: the self-referential one-property scope diverges on a non-map input "
                      "for every fuel (C14_recursive_refuted, D11). Side conditions are boolean functions with examples: luniq "
                      "(unique keys, as in Go maps), ns_names_ok (distinct namespace names, none the self namespace), "
                      "refs_to_objects (scope tables hold objects); all three are evaluated by the model run on every generated "
                      "case (a case violating one would be reported as a disagreement). C14_order_irrelevant is total: if one "
                      "order returns, every permutation returns, with the same table. Partial: two scopes sharing one Go object "
                      "by pointer are outside the model (scope nests are trees).",
        "level_note": "Struct-mapped scopes: Schema/XSyntax.v + Schema/XOps.v (family c14xinline; direct predicate: ref form == inlined "
                      "form, operation by operation). Model = Schema/Link.v (link table keyed by the STRUCTURED path — a list of steps — of each reference "
                      "occurrence, so that distinct occurrences provably have distinct paths; lpath_text gives the text the "
                      "harness prints; ApplyNamespace, NewScopeSchema construction order, ValidateReferences), hand-written from "
                      "scope.go / ref.go and the ApplyNamespace methods of list, map, object, property, one-of after the fix for "
                      "D61; the data operations are Schema/Ops.v with its environment lookup. Proofs: Proofs/Link.v, Link2.v "
                      "(linking), Link2Inline.v (inlining), Link2Term.v + Schema/Wf.v, Schema/Total.v, Proofs/C04Inv.v, "
                      "C04Term.v, OpsEq.v, MonoEq.v (termination; copied from work package c04c12).",
        "design_ref": "DESIGN.md §5 C14",
    }
