#!/bin/bash
# usage: lib/mkmut.sh Cxx [suffix] — scratch worktree + prompt for an independent mutation sub-agent (gets ONLY the property text)
set -e
p=$1; sfx=${2:-}; W=/tmp/mut-$p$sfx
mkdir -p $W/out
[ -d $W/repo ] || git -C /repo worktree add --detach $W/repo HEAD >/dev/null
python3 - "$p" "$W" <<'PY'
import json, sys
pid, W = sys.argv[1], sys.argv[2]
for l in open('/verif/properties.jsonl'):
    d = json.loads(l)
    if d['id'] == pid:
        break
txt = f"""You are testing how robust a Go library's correctness tooling is. You work ONLY inside {W}: {W}/repo is your private git worktree of the Go repository arcalot/arcaflow-plugin-sdk-go (module go.flow.arcalot.io/pluginsdk); write your results to {W}/out. Do not read or write anything under /verif or /repo. There is no network; in every shell run: export GOFLAGS=-mod=mod GOPROXY=off GOSUMDB=off GOTOOLCHAIN=local . The existing test suite is run with: (cd {W}/repo && go test -vet=off -count=1 ./...) && (cd {W}/repo/cmd/arcaflow-codegen && go test -vet=off -count=1 ./...) and passes on the unchanged tree (about 10 s).

This semantic property of the library is supposed to hold on the unchanged tree:

TITLE: {d['title']}
STATEMENT: {d['statement']}
QUANTIFIER: {d['quantifier']['text']}
WHY TESTS CANNOT SETTLE IT: {d.get('why_tests_cant','')}
CODE ANCHORS: {json.dumps(d['anchors'])}

Your job: produce SIX different, realistic changes (bugs a developer could plausibly introduce: an off-by-one, a dropped or inverted guard, a wrong variable, a reordered pair of statements, a missed case in a switch, a cache that is not invalidated, a lock taken too late, an error swallowed …) to the NON-TEST source of the repository, each of which (1) still compiles, (2) still passes the whole existing test suite unedited, and (3) BREAKS the property above. Prefer changes that need something specific to manifest — a particular unusual input, a boundary value, a multi-step sequence of operations, a particular interleaving or fault at a particular point, or two cooperating sites that each look fine alone — NOT ones that any ordinary use would expose at once. Make them diverse: touch different functions / files / clauses of the property. Each change must be small (a few lines).

For each change k = 1..6 create the directory {W}/out/m<k>/ containing:
  patch.diff   — `git diff` of the change against the unchanged worktree (apply-able with `git apply` at the repository root);
  demo_test.go (or demo/main.go) — a demonstration: a Go test or small program that FAILS (or prints FAIL and exits non-zero) with the change applied and PASSES without it; say in meta.json where the file must be placed and the exact command to run it;
  meta.json    — {{"property": "{pid}", "summary": "...what was changed and which clause of the property it breaks...", "needs": "...what specific input / sequence / schedule is needed for it to manifest...", "demo_place": "...", "demo_cmd": "...", "suite_passes_with_change": true, "demo_fails_with_change": true, "demo_passes_without_change": true}} — only claim what you actually ran.
Verify every claim yourself: apply the patch, run the full suite (must pass), run the demo (must fail), `git checkout -- . && git clean -fdq` , run the demo on the unchanged tree (must pass; remove the demo file afterwards). Leave the worktree clean at the end. Your final message: one line per change (summary, needs, verified yes/no)."""
open(W + '/PROMPT.md', 'w').write(txt)
PY
echo $W
