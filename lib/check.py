#!/usr/bin/env python3
"""Orchestrator for the per-property checks (DESIGN §6).

  check.py <Cxx> <quick|thorough>   decide one property on /repo's current working tree
  check.py --setup                  clean build of everything (Coq, extraction, OCaml, Go)
  check.py --replay <path>          re-run a recorded replay on the implementation and the model

Exit 0: the property held on everything explored (KNOWN-FINDING lines may be printed).
Exit 1: a line `VIOLATION property=<id> replay=<path>` was printed.
"""
import fcntl
import hashlib
import json
import os
import re
import shutil
import subprocess
import sys
import time

ROOT = os.path.dirname(os.path.dirname(os.path.abspath(__file__)))
COQ = os.path.join(ROOT, "coq")
BUILD = os.path.join(ROOT, "build")
BIN = os.path.join(BUILD, "bin")
HARNESS = os.path.join(BIN, "harness")
DRIVER = os.path.join(BUILD, "ocaml", "driver")
EVID = os.path.join(ROOT, "evidence")
REPLAYS = os.path.join(ROOT, "replays")
# the tree under test; /repo unless a builder works against a scratch worktree
REPO = os.environ.get("VERIF_REPO", "/repo")

sys.path.insert(0, os.path.join(ROOT, "lib"))
# engines in lib/props_*.py do `import check` (for run, ProofBroken, BUILD, REPO ...): make that
# the SAME module object even when this file runs as __main__, so their ProofBroken is caught here
sys.modules.setdefault("check", sys.modules[__name__])

GOENV = dict(os.environ, GOFLAGS="-mod=mod", GOPROXY="off", GOSUMDB="off", GOTOOLCHAIN="local",
             CGO_ENABLED=os.environ.get("CGO_ENABLED", "0"))

HYGIENE_RE = re.compile(
    r"\b(Admitted|admit|Axiom|Axioms|Parameter|Parameters|Conjecture|Conjectures|Admit Obligations)\b"
    r"|Unset\s+Guard|bypass_check|Unset\s+Positivity|Unset\s+Universe|type-in-type|impredicative-set")

# axioms of the standard library a proof may depend on (none expected; listed in DESIGN §8 if used)
ALLOWED_AXIOMS = set()


class ProofBroken(Exception):
    def __init__(self, what, detail=""):
        super().__init__(what)
        self.what = what
        self.detail = detail


def log(*a):
    print(*a, flush=True)


def run(cmd, cwd=None, env=None, timeout=1800, check=False, capture=True):
    p = subprocess.run(cmd, cwd=cwd, env=env, timeout=timeout, stdout=subprocess.PIPE if capture else None,
                       stderr=subprocess.STDOUT if capture else None, text=True)
    if check and p.returncode != 0:
        raise RuntimeError("command failed: %s\n%s" % (cmd, p.stdout))
    return p


class Lock:
    def __init__(self, name):
        os.makedirs(BUILD, exist_ok=True)
        self.path = os.path.join(BUILD, name + ".lock")

    def __enter__(self):
        self.f = open(self.path, "w")
        fcntl.flock(self.f, fcntl.LOCK_EX)
        return self

    def __exit__(self, *a):
        fcntl.flock(self.f, fcntl.LOCK_UN)
        self.f.close()


# ----------------------------------------------------------------------------------------
# build
# ----------------------------------------------------------------------------------------

def build_harness():
    os.makedirs(BIN, exist_ok=True)
    hdir = os.path.join(ROOT, "harness")
    shutil.copyfile(os.path.join(REPO, "go.sum"), os.path.join(hdir, "go.sum"))
    cmd = ["go", "build", "-tags", "verif", "-o", HARNESS]
    if REPO != "/repo":
        # an alternative go.mod whose replace directive points at the scratch tree
        alt = os.path.join(BUILD, "alt.mod")
        os.makedirs(BUILD, exist_ok=True)
        open(alt, "w").write(open(os.path.join(hdir, "go.mod")).read().replace("=> /repo", "=> " + REPO))
        shutil.copyfile(os.path.join(REPO, "go.sum"), os.path.join(BUILD, "alt.sum"))
        cmd += ["-modfile", alt]
    p = run(cmd + ["./cmd/harness"], cwd=hdir, env=GOENV, timeout=900)
    if p.returncode != 0:
        raise ProofBroken("harness-build", "the Go harness does not build against /repo's working tree:\n" + p.stdout[-4000:])


def coq_files():
    out = []
    for line in open(os.path.join(COQ, "_CoqProject")):
        line = line.strip()
        if line.endswith(".v"):
            out.append(line)
    return out


def hygiene():
    bad = []
    for f in coq_files():
        path = os.path.join(COQ, f)
        if not os.path.exists(path):
            continue
        src = open(path).read()
        # strip comments (non-nested is enough for our sources; nested handled by loop)
        prev = None
        while prev != src:
            prev = src
            src = re.sub(r"\(\*(?:(?!\(\*|\*\)).)*\*\)", " ", src, flags=re.S)
        for i, line in enumerate(src.split("\n")):
            if HYGIENE_RE.search(line):
                bad.append("%s:%d: %s" % (f, i + 1, line.strip()))
    return bad


def build_coq(clean=False, theory=None):
    """Regenerate tables from the live SDK, then make (full .vo build).  With `theory` (a property file)
    only that file's dependency closure and the extraction are built, so that the verdict on one
    property depends on its own theorems and models and not on another property's proof files."""
    p = run([HARNESS, "tables", os.path.join(COQ, "Generated", "Tables.v")], cwd=ROOT, env=GOENV, timeout=300)
    if p.returncode != 0:
        raise ProofBroken("tables", "table dumper failed:\n" + p.stdout[-2000:])
    mk = os.path.join(COQ, "Makefile")
    cp = os.path.join(COQ, "_CoqProject")
    if clean and os.path.exists(mk):
        run(["make", "clean"], cwd=COQ, timeout=300)
        for f in ("Makefile", "Makefile.conf", ".Makefile.d"):
            try:
                os.remove(os.path.join(COQ, f))
            except FileNotFoundError:
                pass
    if not os.path.exists(mk) or os.path.getmtime(mk) < os.path.getmtime(cp):
        run(["coq_makefile", "-f", "_CoqProject", "-o", "Makefile"], cwd=COQ, check=True)
    t0 = time.time()
    # Interp/SexpEq.vo: needed by the in-Coq re-evaluation of sampled cases (coq_sample), imported by nothing else
    targets = [theory[:-2] + ".vo", "Extract/Extract.vo", "Interp/SexpEq.vo"] if theory else []
    p = run(["make", "-j16"] + targets, cwd=COQ, timeout=3000)
    os.makedirs(os.path.join(BUILD, "logs"), exist_ok=True)
    with open(os.path.join(BUILD, "logs", "coq_make.log"), "a") as f:
        f.write("==== make at %s (%.1fs) rc=%d\n%s\n" % (time.ctime(), time.time() - t0, p.returncode, p.stdout))
    if p.returncode != 0:
        m = re.search(r'File "\./([^"]+)", line (\d+)', p.stdout)
        where = "%s:%s" % (m.group(1), m.group(2)) if m else "?"
        raise ProofBroken("coq-build", "make failed at %s\n%s" % (where, p.stdout[-3000:]))
    bad = hygiene()
    if bad:
        raise ProofBroken("hygiene", "forbidden constructs:\n" + "\n".join(bad))


def build_driver():
    odir = os.path.join(BUILD, "ocaml")
    os.makedirs(odir, exist_ok=True)
    changed = False
    for src, dst in ((os.path.join(COQ, "model.ml"), "model.ml"), (os.path.join(COQ, "model.mli"), "model.mli"),
                     (os.path.join(ROOT, "ocaml", "driver.ml"), "driver.ml")):
        d = os.path.join(odir, dst)
        new = open(src, "rb").read()
        if not os.path.exists(d) or open(d, "rb").read() != new:
            open(d, "wb").write(new)
            changed = True
    if changed or not os.path.exists(DRIVER):
        p = run(["ocamlfind", "ocamlopt", "-w", "-a", "-inline", "100", "model.mli", "model.ml", "driver.ml", "-o", "driver"],
                cwd=odir, timeout=900)
        if p.returncode != 0:
            raise ProofBroken("driver-build", p.stdout[-3000:])


def build_all(clean=False, theory=None):
    with Lock("build"):
        build_harness()
        build_coq(clean=clean, theory=theory)
        build_driver()


# ----------------------------------------------------------------------------------------
# proof accounting
# ----------------------------------------------------------------------------------------

def coq_closure(vfile):
    """Transitive closure of project-local dependencies of a .v file (from .Makefile.d)."""
    deps = {}
    dfile = os.path.join(COQ, ".Makefile.d")
    if os.path.exists(dfile):
        txt = open(dfile).read().replace("\\\n", " ")
        for line in txt.split("\n"):
            if ":" not in line:
                continue
            lhs, rhs = line.split(":", 1)
            tg = [t for t in lhs.split() if t.endswith(".vo")]
            if not tg:
                continue
            ds = [d[:-1] for d in rhs.split() if d.endswith(".vo") and not d.startswith("/")]
            for t in tg:
                deps[t[:-1]] = ds
    seen, todo = set(), [vfile]
    while todo:
        f = todo.pop()
        if f in seen:
            continue
        seen.add(f)
        todo.extend(deps.get(f, []))
    return sorted(seen)


def count_qed(files):
    n = 0
    names = []
    for f in files:
        path = os.path.join(COQ, f)
        if not os.path.exists(path):
            continue
        src = open(path).read()
        n += len(re.findall(r"\b(Qed|Defined)\s*\.", src))
        names += re.findall(r"\b(?:Theorem|Lemma|Corollary|Example|Fact|Proposition)\s+([A-Za-z0-9_']+)", src)
    return n, names


def print_assumptions(vfile):
    """Re-run coqc on the property file and collect the Print Assumptions reports."""
    p = run(["coqc", "-Q", ".", "Verif", "-w", "-notation-overridden", vfile], cwd=COQ, timeout=1800)
    if p.returncode != 0:
        raise ProofBroken("property-file", "%s does not check:\n%s" % (vfile, p.stdout[-3000:]))
    reports = []
    cur = None
    for line in p.stdout.split("\n"):
        if line.startswith("Closed under the global context"):
            reports.append(("closed", []))
            cur = None
        elif line.startswith("Axioms:"):
            cur = []
            reports.append(("axioms", cur))
        elif cur is not None and line.strip():
            m = re.match(r"^([A-Za-z0-9_.']+)\s*:", line)
            if m:
                cur.append(m.group(1))
    axioms = sorted({a for kind, l in reports for a in l})
    foreign = [a for a in axioms if a not in ALLOWED_AXIOMS]
    if foreign:
        raise ProofBroken("assumptions", "%s depends on axioms outside the trusted base: %s" % (vfile, foreign))
    return len(reports), axioms


def property_theorems(vfile):
    src = open(os.path.join(COQ, vfile)).read()
    return re.findall(r"\bTheorem\s+([A-Za-z0-9_']+)", src)


# ----------------------------------------------------------------------------------------
# correspondence
# ----------------------------------------------------------------------------------------

def run_family(prop, fam, tier, seed, work):
    """Generate, run on the implementation and on the model; return list of (case, obs, pred)."""
    os.makedirs(work, exist_ok=True)
    cases = os.path.join(work, fam + ".cases")
    obs = os.path.join(work, fam + ".obs")
    pred = os.path.join(work, fam + ".pred")
    with open(cases, "w") as out:
        corpus = os.path.join(ROOT, "corpus", fam + ".cases")
        ncorp = 0
        if os.path.exists(corpus):
            for line in open(corpus):
                if line.strip() and not line.startswith(";"):
                    out.write(line if line.endswith("\n") else line + "\n")
                    ncorp += 1
    gen = os.path.join(work, fam + ".gen")
    p = run([HARNESS, "gen", fam, tier, str(seed), gen], cwd=work, env=GOENV, timeout=1800)
    if p.returncode != 0:
        raise RuntimeError("generator failed: " + p.stdout[-2000:])
    with open(cases, "a") as out:
        for line in open(gen):
            out.write(line)
    os.remove(gen)
    return run_cases(cases, obs, pred, work)


def run_cases(cases, obs, pred, work):
    p = run([HARNESS, "run", cases, obs], cwd=work, env=GOENV, timeout=7200)
    if p.returncode != 0:
        raise ProofBroken("harness-run", "the harness crashed while running cases:\n" + p.stdout[-3000:])
    with open(cases) as fin, open(pred, "w") as fout:
        q = subprocess.run([DRIVER], stdin=fin, stdout=fout, stderr=subprocess.PIPE, timeout=7200)
    if q.returncode != 0:
        raise ProofBroken("driver-run", "the model driver crashed: " + q.stderr.decode()[-2000:])
    cl = [l.rstrip("\n") for l in open(cases) if l.strip() and not l.startswith(";")]
    ol = [l.rstrip("\n") for l in open(obs)]
    pl = [l.rstrip("\n") for l in open(pred)]
    if not (len(cl) == len(ol) == len(pl)):
        raise ProofBroken("harness-run", "case/observation/prediction counts differ: %d %d %d" % (len(cl), len(ol), len(pl)))
    return list(zip(cl, ol, pl))


def _gallina_str(text):
    b = text.encode("latin-1")
    if all(0x20 <= c <= 0x7e for c in b):
        return '"%s"' % text.replace('"', '""')
    return "(bs [%s])" % ";".join(str(c) for c in b)


def _gallina_sexp(x):
    if isinstance(x, list):
        return "(Ls [" + "; ".join(_gallina_sexp(y) for y in x) + "])"
    if isinstance(x, tuple):
        return "(St %s)" % _gallina_str(x[1])
    return "(At %s)" % _gallina_str(x)


def coq_sample(rows, work, fam, n=24):
    """Re-evaluate a sample of the cases with vm_compute INSIDE Coq and compare with what the
    extracted OCaml program printed (keeps extraction and the driver under test, DESIGN 2.3)."""
    import props
    if not rows:
        return 0
    n = getattr(props, "COQ_SAMPLE_N", {}).get(fam, n)     # a family of very large cases may ask for a smaller sample
    step = max(1, len(rows) // n)
    sample = [r for r in rows[::step] if len(r[0]) < 20000 and len(r[2]) < 20000][:n]
    if not sample:
        return 0
    vf = os.path.join(work, "Sample_%s.v" % re.sub(r"\W", "_", fam))
    with open(vf, "w") as f:
        f.write("From Coq Require Import List String. Import ListNotations.\n"
                "From Verif Require Import Interp.Sexp Interp.SexpEq Interp.Run.\nOpen Scope string_scope.\n")
        f.write("Definition cases : list sexp := [\n " + ";\n ".join(_gallina_sexp(props.sx_parse(c)) for c, _, _ in sample) + "].\n")
        f.write("Definition preds : list sexp := [\n " + ";\n ".join(_gallina_sexp(props.sx_parse(p)) for _, _, p in sample) + "].\n")
        f.write("Definition M := Eval vm_compute in mismatches run_case 0 cases preds.\nPrint M.\n")
    p = run(["coqc", "-Q", COQ, "Verif", "-w", "-notation-overridden", vf], cwd=work, timeout=900)
    out = re.sub(r"\s+", " ", p.stdout)
    if p.returncode != 0:
        raise ProofBroken("coq-sample", "in-Coq re-evaluation of sampled cases failed to check:\n" + p.stdout[-2000:])
    m = re.search(r"M = (\[[^\]]*\])", out)
    if not m or m.group(1).replace(" ", "") != "[]":
        raise ProofBroken("coq-sample", "vm_compute inside Coq and the extracted OCaml model disagree on sampled cases %s of family %s "
                          "(extraction or driver bug)" % (m.group(1) if m else "?", fam))
    return len(sample)


def strip_id(line):
    """(obs ID rest) / (case ID FAM rest) -> text without the id."""
    m = re.match(r"^\((obs|case) \S+ (.*)\)$", line)
    return m.group(2) if m else line


def write_replay(prop, fam, case, obs, pred, reason, theorem=None, found=True):
    os.makedirs(REPLAYS, exist_ok=True)
    h = hashlib.sha1((case + obs + reason).encode()).hexdigest()[:12]
    path = os.path.join(REPLAYS, "%s-%s.json" % (prop, h))
    with open(path, "w") as f:
        json.dump({"property": prop, "family": fam, "case": case, "observed": obs, "predicted": pred,
                   "reason": reason, "theorem_or_correspondence": theorem,
                   "failing_input_found": found,
                   "replay_cmd": "./check.sh --replay " + os.path.relpath(path, ROOT)}, f, indent=1)
    return os.path.relpath(path, ROOT)


# ----------------------------------------------------------------------------------------
# main check
# ----------------------------------------------------------------------------------------

def load_known():
    path = os.path.join(ROOT, "known_findings.json")
    if not os.path.exists(path):
        return []
    return json.load(open(path))["findings"]


def check(prop, tier):
    import props
    spec = props.PROPS[prop]
    seed = int(os.environ.get("VERIF_SEED", "1") or "1")
    t0 = time.time()
    work = os.path.join(BUILD, "work", prop)
    shutil.rmtree(work, ignore_errors=True)
    os.makedirs(work, exist_ok=True)
    violations = []       # (replay path, suffix)
    known_hits = {}       # finding id -> example
    cov = {"obligations": 0, "discharged": 0, "checker_cmd": "", "trusted_base": [], "evaluations": 0,
           "distinct_nontrivial": 0, "samples": [], "disagreements_checked": 0, "families": {}}
    proof_ok = True
    proof_fail = None
    try:
        build_all(clean=(tier == "thorough" and os.environ.get("VERIF_NO_CLEAN") != "1"), theory=spec["theory"])
        files = coq_closure(spec["theory"])
        nq, names = count_qed(files)
        nrep, axioms = print_assumptions(spec["theory"])
        thms = property_theorems(spec["theory"])
        if nrep < len(thms):
            raise ProofBroken("assumptions", "missing Print Assumptions under a property theorem in " + spec["theory"])
        cov["obligations"] = nq
        cov["discharged"] = nq
        cov["property_theorems"] = thms
        cov["axioms"] = axioms
        cov["checker_cmd"] = "coq_makefile -f _CoqProject -o Makefile && make -j16 (coqc 8.16.1, full .vo); coqc %s (Print Assumptions)" % spec["theory"]
        if tier == "thorough" and os.environ.get("VERIF_NO_COQCHK") != "1":
            cov["coqchk"] = coqchk(spec["theory"])
    except ProofBroken as e:
        proof_ok = False
        proof_fail = e
        log("proof obligation or build broken: %s\n%s" % (e.what, e.detail))

    known = [k for k in load_known() if k["property"] == prop and k.get("status", "open") == "open"]
    disagreements = []
    direct_fail = []
    if proof_ok or os.path.exists(HARNESS) and os.path.exists(DRIVER):
        try:
            for fam in spec["families"]:
                rows = run_family(prop, fam, tier, seed, work)
                stats = props.family_stats(fam, rows)
                cov["families"][fam] = stats
                # a case line may hold many operations (each one an evaluation on both sides); families that
                # count their non-trivial OPERATIONS report how many operations they ran, never fewer than those
                ev = next((x for x in (stats.get("evaluations"), stats.get("operations")) if isinstance(x, int)), len(rows))
                dn = stats.get("distinct_nontrivial", 0)
                cov["evaluations"] += max(ev, len(rows), dn if isinstance(dn, int) else 0)
                cov["distinct_nontrivial"] += stats.get("distinct_nontrivial", 0)
                cov["samples"] += stats.get("samples", [])[:3]
                cov["reevaluated_in_coq"] = cov.get("reevaluated_in_coq", 0) + coq_sample(rows, work, fam)
                for case, obs, pred in rows:
                    o, p_ = strip_id(obs), strip_id(pred)
                    reason = props.direct_check(prop, fam, case, o)
                    agree = props.agree(prop, fam, case, o, p_)
                    if reason is None and agree:
                        continue
                    kf = props.match_known(known, fam, case, o, p_)
                    if kf is not None:
                        known_hits.setdefault(kf["id"], (kf, case, o))
                        continue
                    if reason is not None:
                        direct_fail.append((fam, case, o, p_, reason))
                    else:
                        disagreements.append((fam, case, o, p_))
            # extra, property-specific engines (ATP driver, codegen runner, race runs ...)
            for eng in spec.get("engines", []):
                res = eng(prop, tier, seed, work, known)
                cov["evaluations"] += res.get("evaluations", 0)
                cov["distinct_nontrivial"] += res.get("distinct_nontrivial", 0)
                cov["samples"] += res.get("samples", [])[:3]
                cov["families"][res["name"]] = res.get("stats", {})
                # proof obligations an engine discharged itself (generated lemmas checked by coqc on this run)
                cov["obligations"] += res.get("obligations", 0)
                cov["discharged"] += res.get("obligations", 0)
                for (kf, case, o) in res.get("known_hits", []):
                    known_hits.setdefault(kf["id"], (kf, case, o))
                for v in res.get("violations", []):
                    direct_fail.append(v)
                for d in res.get("disagreements", []):
                    disagreements.append(d)
                if "traces_validated_against_impl" in res:
                    cov["traces_validated_against_impl"] = cov.get("traces_validated_against_impl", 0) + res["traces_validated_against_impl"]
        except ProofBroken as e:
            proof_ok = False
            proof_fail = proof_fail or e
            log("correspondence machinery broken: %s\n%s" % (e.what, e.detail))

    cov["disagreements_checked"] = len(disagreements) + len(direct_fail)

    # verdicts -----------------------------------------------------------------------
    for fam, case, o, p_, reason in direct_fail[:20]:
        path = write_replay(prop, fam, case, o, p_, reason)
        violations.append((path, ""))
    # a disagreement between the implementation and the proved model: search for a failing input
    for fam, case, o, p_ in disagreements[:50]:
        reason = props.explain_disagreement(prop, fam, case, o, p_)
        if reason is not None:
            path = write_replay(prop, fam, case, o, p_, reason)
            violations.append((path, ""))
    if disagreements and not violations:
        fam, case, o, p_ = disagreements[0]
        path = write_replay(prop, fam, case, o, p_,
                            "correspondence between the Coq model and the implementation no longer holds "
                            "(%d disagreeing cases); no input violating the property itself was found" % len(disagreements),
                            theorem="correspondence:" + fam, found=False)
        violations.append((path, " no-failing-input-found"))
    if not proof_ok and not violations:
        path = write_replay(prop, "-", "-", "-", "-", "%s: %s" % (proof_fail.what, proof_fail.detail[:1500]),
                            theorem=proof_fail.what + ":" + spec["theory"], found=False)
        violations.append((path, " no-failing-input-found"))

    for kid, (kf, case, o) in sorted(known_hits.items()):
        log("KNOWN-FINDING: property=%s %s [%s] e.g. %s -> %s" % (prop, kf["what"], kid, case[:200], o[:120]))

    cov["trusted_base"] = props.TRUSTED_BASE + spec.get("trusted", [])
    cov["rule"] = spec.get("rule", "")
    cov["known_findings_reproduced"] = sorted(known_hits)
    ev = {"property_id": prop, "tier": tier, "seed": seed, "level": "proof", "coverage": cov,
          "assumptions": spec.get("assumptions", []), "wall_s": round(time.time() - t0, 1),
          "violations": len(violations)}
    os.makedirs(EVID, exist_ok=True)
    with open(os.path.join(EVID, prop + ".json"), "w") as f:
        json.dump(ev, f, indent=1)
    for path, suffix in violations[:10]:
        log("VIOLATION property=%s replay=%s%s" % (prop, path, suffix))
    if violations:
        return 1
    log("OK property=%s tier=%s obligations=%d evaluations=%d wall=%.1fs" %
        (prop, tier, cov["obligations"], cov["evaluations"], time.time() - t0))
    return 0


def coqchk(vfile):
    """Independent re-check of the compiled property file and everything it depends on."""
    mod = "Verif." + vfile[:-2].replace("/", ".")
    with Lock("coqchk"):
        p = run(["coqchk", "-silent", "-o", "-Q", ".", "Verif", mod], cwd=COQ, timeout=5400)
    tail = p.stdout[-3000:]
    if p.returncode != 0:
        raise ProofBroken("coqchk", tail)
    m = re.search(r"\* Axioms:\s*(.*?)(?:\n\s*\n|\* |$)", p.stdout, flags=re.S)
    return {"rc": p.returncode, "axioms_section": (m.group(1).strip()[:1500] if m else "")}


def replay(path):
    import props
    d = json.load(open(path if os.path.isabs(path) else os.path.join(ROOT, path)))
    build_all()
    if d["family"] == "-":
        log("this replay names a broken proof obligation, not an input:\n" + d["reason"])
        return 1
    work = os.path.join(BUILD, "work", "replay")
    shutil.rmtree(work, ignore_errors=True)
    os.makedirs(work)
    handler = props.REPLAY_HANDLERS.get(d["family"])
    if handler:
        return handler(d, work)
    cases = os.path.join(work, "r.cases")
    open(cases, "w").write(d["case"] + "\n")
    rows = run_cases(cases, os.path.join(work, "r.obs"), os.path.join(work, "r.pred"), work)
    case, obs, pred = rows[0]
    log("case:       " + case)
    log("implementation: " + obs)
    log("model:          " + pred)
    o, p_ = strip_id(obs), strip_id(pred)
    reason = props.direct_check(d["property"], d["family"], case, o)
    if reason is None and not props.agree(d["property"], d["family"], case, o, p_):
        reason = props.explain_disagreement(d["property"], d["family"], case, o, p_) or "implementation and model disagree"
    if reason:
        log("VIOLATION property=%s replay=%s" % (d["property"], path))
        log("reason: " + reason)
        return 1
    log("no violation on the current tree")
    return 0


def main():
    if len(sys.argv) >= 2 and sys.argv[1] == "--setup":
        build_all(clean=True)
        log("setup complete")
        return 0
    if len(sys.argv) >= 3 and sys.argv[1] == "--replay":
        return replay(sys.argv[2])
    if len(sys.argv) >= 3:
        return check(sys.argv[1], sys.argv[2])
    print(__doc__)
    return 2


def _main_deep():
    """Observations of deeply nested inputs (C14 recurses 150 levels, each level several sexp levels) are
    parsed and compared by recursive Python functions: run everything in a thread with a large stack and a
    high recursion limit, so that the depth of a case never depends on the interpreter's defaults."""
    import threading
    sys.setrecursionlimit(1000000)
    threading.stack_size(1024 * 1024 * 1024)
    box = []

    def body():
        try:
            box.append(main())
        except SystemExit as e:
            box.append(e.code if isinstance(e.code, int) else 1)

    t = threading.Thread(target=body)
    t.start()
    t.join()
    return box[0] if box else 1


if __name__ == "__main__":
    sys.exit(_main_deep())
