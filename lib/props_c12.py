"""C12 (schema operations are pure: deterministic under map order, argument-preserving,
history-free): registration, family statistics, the property's own predicate on an observation,
explanation of disagreements, class predicate of the open known finding D19.

  c12pure   (c12 ENV SCHEMA (coll B) (calls (u|v|s|c V)...))
            -> (r (coll B) (CLS same|differs kept|mutated)... (state same|changed) (after same|differs) (desc same|changed))
  c12struct (c12s NAME (calls ...)) -> the same with CLS projected to t          (direct check only)

Harness: harness/cmd/harness/c12_pure.go; model side: coq/Interp/RunC12.v.
"""
import hashlib
import re

_P = None
OPNAME = {"u": "Unserialize", "v": "Validate", "s": "Serialize", "c": "ValidateCompatibility",
          "cs": "ValidateCompatibility with the SCHEMA"}


def _sx(x):
    if isinstance(x, tuple):
        return '"%s"' % x[1]
    if isinstance(x, list):
        return "(" + " ".join(_sx(y) for y in x) + ")"
    return x


def _short(x, n=300):
    s = _sx(x)
    return s if len(s) <= n else s[:n] + "..."


def _calls(pl):
    return pl[-1][1:]


def _schema_text(pl):
    return _short(pl[2], 400) if pl[0] == "c12" else "struct-mapped schema " + _sx(pl[1])


def _parse_obs(obs):
    if not obs.startswith("(r"):
        return None
    return _P.sx_parse(obs)


def pure_direct(case, obs):
    """the three clauses of C12 on the implementation's observation alone"""
    pl = _P.case_payload(case)
    if obs in ("crash", "hang", "panic"):
        return None  # totality is C04's business; a crash here shows up as a disagreement
    o = _parse_obs(obs)
    if o is None:
        return None
    calls = _calls(pl)
    items = [x for x in o[1:] if isinstance(x, list) and x and x[0] not in ("coll", "state", "after", "desc")]
    for i, it in enumerate(items):
        if i >= len(calls):
            break
        what = "%s(%s) on %s" % (OPNAME.get(calls[i][0], calls[i][0]), _short(calls[i][1]), _schema_text(pl))
        if "differs" in it:
            return ("%d evaluations of %s on freshly built, equal arguments did not all give the same result "
                    "(the result depends on map iteration order - or on what the CALLER did with an earlier result: after each "
                    "result is printed the harness writes into every list and map of it, as a step handler may; a result that "
                    "shares memory with the schema's decoded defaults then comes back changed)" % (20, what))
        if "mutated" in it:
            return "%s modified the argument passed to it" % what
    for x in o[1:]:
        if isinstance(x, list) and x[0] == "state" and x[1] == "changed":
            return ("after the history %s the decoded defaults (GetDefaults) of the schema %s differ from those before it / of a "
                    "freshly built instance, or a FILLED cell of the unit caches of one of its units definitions (the multipliers "
                    "sorted largest first, the compiled parser expression with its group index - looked at after every call, "
                    "rejected ones included) no longer holds what a first use on a fresh instance puts there: a call wrote into the "
                    "schema" % (_short(pl[-1], 500), _schema_text(pl)))
        if isinstance(x, list) and x[0] == "desc" and x[1] == "changed":
            return ("during the history %s (followed by Unserialize of the empty map and of each member given as the empty map) the "
                    "SELF-DESCRIPTION of the schema %s - the flags, default text and rule lists (required_if / required_if_not / "
                    "conflicts, in the order the schema holds them) of every property of every object; SelfSerialize of a scope - "
                    "stopped being the one taken before the first call / that of a freshly built instance: a call (possibly a "
                    "rejected one) wrote into the schema" % (_short(pl[-1], 500), _schema_text(pl)))
        if isinstance(x, list) and x[0] == "after" and x[1] == "differs":
            return ("after the history %s the schema %s answers a later call differently from a freshly built instance"
                    % (_short(pl[-1], 500), _schema_text(pl)))
    return None


def pure_stats(rows):
    ncalls = 0
    lens, opk, cls = {}, {}, {}
    typed = {"typed slices ([]T, T not any)": 0, "typed maps (map[K]T, T not any)": 0,
             "narrow / unsigned integers and float32s (converted by the any type and the mappers)": 0}
    distinct = set()
    nontrivial = 0
    samples = []
    for case, obs, pred in rows:
        pl = _P.case_payload(case)
        calls = _calls(pl)
        lens[len(calls)] = lens.get(len(calls), 0) + 1
        typed["typed slices ([]T, T not any)"] += len(re.findall(r"\(sl \(slice (?!any\))", case))
        typed["typed maps (map[K]T, T not any)"] += len(re.findall(r"\(m \(map \S+ (?!any\))", case))
        typed["narrow / unsigned integers and float32s (converted by the any type and the mappers)"] += len(
            re.findall(r"\((?:i (?:i0|i8|i16|i32|u0|u8|u16|u32|u64)|f f32) ", case))
        o = _parse_obs(re.sub(r"^\(obs \S+ ", "", obs)[:-1])
        items = [x for x in (o[1:] if o else []) if isinstance(x, list) and x and x[0] not in ("coll", "state", "after", "desc")]
        failing = False
        for i, c in enumerate(calls):
            ncalls += 1
            opk[c[0]] = opk.get(c[0], 0) + 1
            k = items[i][0] if i < len(items) else "crash"
            cls[k] = cls.get(k, 0) + 1
            failing = failing or k == "err"
        h = hashlib.sha1(re.sub(r"^\(case \S+ ", "", case).encode()).digest()
        if h in distinct:
            continue
        distinct.add(h)
        # non-trivial: a history of at least two calls that contains a failing call or a structured argument
        if len(calls) >= 2 and (failing or any(not isinstance(c[1], str) and c[1][0] in ("m", "sl", "st", "p") for c in calls)):
            nontrivial += 1
        if len(samples) < 3 and len(distinct) % 997 == 1:
            samples.append({"case": case[:1500], "observed": obs[:400]})
    return {"cases": len(rows), "calls": ncalls, "evaluations_per_call": 20, "history_lengths": lens, "operations": opk,
            "outcome_classes": cls, "typed_values_in_arguments": typed, "distinct": len(distinct), "distinct_nontrivial": nontrivial, "samples": samples}


def pure_explain(case, obs, pred):
    """the model predicts same / kept / state same / after same (C12) and the outcome class; a difference in
    the outcome class alone is a model/code mismatch, not a failing input of C12"""
    return None


def d19_match(m, case, obs, pred):
    """class of D19: the model itself flags colliding keys in a call argument (Perm.has_key_collision), and the
    only failures are `differs` results of calls on such arguments (no mutation, no state change)"""
    if "(coll 1)" not in pred:
        return False
    if "mutated" in obs or "(state changed)" in obs or "(after differs)" in obs or "(desc changed)" in obs:
        return False
    o, p = _parse_obs(obs), _parse_obs(pred)
    if o is None or p is None or len(o) != len(p):
        return False
    pl = _P.case_payload(case)
    calls = _calls(pl)
    k = 0
    for a, b in zip(o[1:], p[1:]):
        if isinstance(a, list) and a and a[0] in ("coll", "state", "after", "desc"):
            if a != b:
                return False
            continue
        if a != b:
            # allowed only: differs instead of same, on a call whose own argument collides
            if not (isinstance(a, list) and isinstance(b, list) and a[0] == b[0] and a[2:] == b[2:] and a[1] == "differs"):
                return False
            if not _collides(calls[k][1]):
                return False
        k += 1
    return True


def _key_text(k):
    if isinstance(k, list) and k:
        if k[0] == "i":
            return k[2]
        if k[0] == "s":
            return k[2][1] if isinstance(k[2], tuple) else None
        if k[0] == "b":
            return k[2]
        if k[0] == "f" and isinstance(k[2], list) and len(k[2]) == 3:
            sign, m, e = k[2]
            m, e = int(m), int(e)
            if e >= 0 and m * 2 ** e < 2 ** 63:
                return ("-" if sign == "-" and m else "") + str(m * 2 ** e)
        if k[0] == "f" and k[2] in ("+0", "-0"):
            return "0"
    return None


def _collides(v):
    if not isinstance(v, list):
        return False
    if v and v[0] == "m":
        seen = set()
        for e in v[3:]:
            t = _key_text(e[0])
            if t is not None:
                if t in seen:
                    return True
                seen.add(t)
    return any(_collides(c) for c in v)


# ---- D72: keys that CONVERT to the same key under the key schema of the map they sit in -------------------
# (subsumes the text-based class of D19: equal texts convert alike under an int or a string key schema)

_INT_TEXT = re.compile(r"^[+-]?[0-9]+$")
_TRUE_WORDS = {"1", "yes", "y", "on", "true", "enable", "enabled"}
_FALSE_WORDS = {"0", "no", "n", "off", "false", "disable", "disabled"}


def _head(n):
    return n[0] if isinstance(n, list) and n and isinstance(n[0], str) else None


def _fl(x):
    return _P.fl_value(x)


def _conv_key(K, k):
    """the key a raw map key k becomes under the key schema K (a hashable), None when it is rejected or unknown"""
    if not isinstance(k, list) or len(k) != 3:
        return None
    kind, typ, pay = k
    plain = isinstance(typ, str)                      # not a named Go type
    hk = _head(K)
    if K == "any":
        # any.go checkAndConvert goes by reflect.Kind: named types convert like their underlying kinds
        if kind == "i":
            z = int(pay)
            return ("i", z) if z < 2 ** 63 else None
        if kind == "s":
            return ("s", pay[1])
        if kind == "f":
            v = _fl(pay)
            return ("f", v) if v is not None else None
        if kind == "b":
            return ("b", pay)
        return None
    if hk in ("int", "enum_int"):
        units = K[3] if hk == "int" else K[2]
        if kind == "i" and plain:
            z = int(pay)
            return ("i", z) if -2 ** 63 <= z < 2 ** 63 else None
        if kind == "s" and plain:
            txt = pay[1]
            if units != "none":
                return ("i", int(txt)) if re.match(r"^[0-9]+$", txt) else None   # unit strings: only bare counts are read here
            if _INT_TEXT.match(txt) and -2 ** 63 <= int(txt) < 2 ** 63:
                return ("i", int(txt))
            return None
        if kind == "f" and plain:
            v = _fl(pay)
            if v is not None and v == int(v) and abs(v) < 2 ** 63:
                return ("i", int(v))
            return None
        if kind == "b" and plain:
            return ("i", 1 if pay == "1" else 0)
        return None
    if hk in ("string", "enum_str"):
        if kind == "s" and plain:
            return ("s", pay[1])
        if kind == "i" and plain:
            return ("s", str(int(pay)))
        if kind == "f" and plain:
            v = _fl(pay)
            return ("s", "%f" % v) if v is not None else None
        return None
    if hk == "float":
        if K[3] != "none":
            return None
        if kind == "f":
            return ("f", _fl(pay))
        if kind == "i" and plain:
            return ("f", float(int(pay)))
        if kind == "s" and plain:
            try:
                return ("f", float(pay[1]))
            except ValueError:
                return None
        return None
    if K == "bool":
        if kind == "b":
            return ("b", pay == "1")
        if kind == "i" and pay in ("0", "1"):
            return ("b", pay == "1")
        if kind == "s" and plain:
            w = pay[1].lower()
            return ("b", True) if w in _TRUE_WORDS else ("b", False) if w in _FALSE_WORDS else None
        return None
    return None


def _value_collision(t, v, tab, ext, depth=0):
    """the argument v, read under the schema t, contains a map two of whose keys convert to the same key"""
    if depth > 60 or not isinstance(v, list) or not v:
        return False
    h = _head(t)
    if t == "any":
        if v[0] == "sl":
            return any(_value_collision("any", x, tab, ext, depth + 1) for x in v[3:])
        if v[0] == "m":
            seen = set()
            for e in v[3:]:
                c = _conv_key("any", e[0])
                if c is not None:
                    if c in seen:
                        return True
                    seen.add(c)
            return any(_value_collision("any", e[1], tab, ext, depth + 1) for e in v[3:])
        return False
    if h == "ref":
        ns = t[2][1]
        table = tab if ns == "" else ext.get(ns, {})
        o = table.get(t[1][1])
        return o is not None and _value_collision(o, v, table, ext, depth + 1)
    if h == "scope":
        table = {o[0][1]: o[1] for o in t[1]}
        o = table.get(t[2][1])
        return o is not None and _value_collision(o, v, table, ext, depth + 1)
    if h == "list":
        return v[0] == "sl" and any(_value_collision(t[1], x, tab, ext, depth + 1) for x in v[3:])
    if h == "map":
        if v[0] != "m":
            return False
        seen = set()
        for e in v[3:]:
            c = _conv_key(t[1], e[0])
            if c is not None:
                if c in seen:
                    return True
                seen.add(c)
        return any(_value_collision(t[2], e[1], tab, ext, depth + 1) for e in v[3:])
    if h == "object":
        props = {p[0][1]: p[1][1] for p in t[3]}
        if v[0] == "m":
            for e in v[3:]:
                k = e[0]
                if isinstance(k, list) and len(k) == 3 and k[0] == "s" and isinstance(k[2], tuple) and k[2][1] in props:
                    if _value_collision(props[k[2][1]], e[1], tab, ext, depth + 1):
                        return True
            return False
        if len(props) == 1:                            # single-property shorthand
            return _value_collision(list(props.values())[0], v, tab, ext, depth + 1)
        return False
    if h == "oneof":
        return any(_value_collision(m[1], v, tab, ext, depth + 1) for m in t[2])
    return False


def _ext_tables(env):
    out = {}
    try:
        for ns in env[1][1]:
            out[ns[0][1]] = {o[0][1]: o[1] for o in ns[1]}
    except Exception:
        pass
    return out


def collides_by_value(pl, arg):
    return _value_collision(pl[2], arg, {}, _ext_tables(pl[1]))


def d72_match(m, case, obs, pred):
    """class of D19 / D72 decided on the CONVERTED keys: the only failures of the case are `differs` results of
    calls whose own argument holds a map two of whose keys become the same key under that map's key schema
    (int mapper, string mapper, float / bool mapper, the any conversion).  No mutation, no state change, every
    other item exactly as the model predicts."""
    if "mutated" in obs or "(state changed)" in obs or "(after differs)" in obs or "(desc changed)" in obs:
        return False
    o, p = _parse_obs(obs), _parse_obs(pred)
    if o is None or p is None or len(o) != len(p):
        return False
    pl = _P.case_payload(case)
    if pl[0] != "c12":
        return False
    calls = _calls(pl)
    k = 0
    hit = False
    for a, b in zip(o[1:], p[1:]):
        if isinstance(a, list) and a and a[0] in ("coll", "state", "after", "desc"):
            if a != b:
                return False
            continue
        if a != b:
            if not (isinstance(a, list) and isinstance(b, list) and a[0] == b[0] and a[2:] == b[2:] and a[1] == "differs"):
                return False
            if k >= len(calls) or not collides_by_value(pl, calls[k][1]):
                return False
            hit = True
        k += 1
    return hit


def register(props):
    global _P
    _P = props
    props.FAMILY_STATS["c12pure"] = pure_stats
    props.FAMILY_STATS["c12struct"] = pure_stats
    props.DIRECT[("C12", "c12pure")] = pure_direct
    props.DIRECT[("C12", "c12struct")] = pure_direct
    props.EXPLAIN[("C12", "c12pure")] = pure_explain
    props.KNOWN_PREDICATES["c12_key_collision"] = d19_match
    props.KNOWN_PREDICATES["c12_key_collision_by_value"] = d72_match
    props.PROPS["C12"] = {
        "theory": "Properties/C12.v",
        "families": ["c12pure", "c12struct"],
        "rule": "[result aliasing: after every successful Unserialize / Serialize the harness writes into every []any / map[string]any / "
                "map[any]any of the RESULT (the caller's own value): GetDefaults (`state`), the next evaluation of the same call "
                "(`same`) and the used-vs-fresh comparison (`after`) must not see it] "
                "[unit caches: `state` also covers the two lazily filled caches of every units definition of the instance (sorted "
                "multipliers, compiled expression + group index), read passively by reflection after EVERY call (rejected ones "
                "included): a filled cell must hold what a first use on a separate fresh instance computes; `after` also compares "
                "Format{Short,Long}{Int,Float} of fixed probe numbers of every units definition (used vs untouched instance) and "
                "evaluates every call once on an instance that has seen NOTHING (not even the earlier calls of the comparison "
                "loop); 36 (thorough 600) unit-bearing FLOAT / integer schemas (built-in and generated definitions; bare, as an "
                "object property, as list items) with histories in which every text occurs before and after a REJECTED unit text, "
                "among them multi-term texts with a total in 2^53..2^62, odd small terms and a fractional base count (the exact "
                "sum is not a float64: the result depends on the order of addition)] "
                "[desc: the SELF-DESCRIPTION of the instance - flags, default text and rule lists (required_if / required_if_not / conflicts, "
                "in the order the schema holds them) of every property of every object, SelfSerialize of a scope - is taken before the "
                "first call, after EVERY call of the history (failing ones included), after the probes and on a fresh instance; "
                "c12pure also runs 40 objects of 3..5 properties whose rule lists name up to three properties in ANY order with "
                "histories that end in the empty map (every property unset: the rejections of the presence rules); c12struct draws its "
                "generated schemas from the shared struct-mapped generator incl. XMid (three levels with a plain object in the middle), "
                "XHold (a one-of member), multi-name rule lists, every other case in rich mode (member defaults and declared partial "
                "object defaults everywhere), 40 % of the history slots followed by the empty map (fills every default at every level), "
                "and probes every object-typed member (and its members) given as the empty map against a fresh instance] "
                "c12pure: call histories of 1..12 calls (valid raw values, mutated ones, an arbitrary Go value injected at a random "
                "position, the empty map that fills every default, native values for Validate/Serialize; failing calls included) on "
                "every fixed schema of the C04 family, on seeded generated scopes and on three fixed scope-free schemas whose "
                "objects have defaults (top level, inline sub-object, list of objects); every call evaluated 20 times on freshly built "
                "arguments on ONE instance; observables: outcome class, same/differs over the 20 results (canonical value), kept/mutated "
                "(canonical print of the argument before/after), state (GetDefaults of every contained object before/after/fresh), "
                "after (every call and three probes on the used vs a fresh instance; for schemas with inline objects and no scope "
                "also once on an instance whose objects are struct literals - not built by a constructor, decoded-default cache "
                "empty - before anything else touched it). Added input classes: one entry of a map with >= 2 entries corrupted "
                "(ValidateCompatibility / Unserialize must not stop at the first entry); two spellings of one integer key ('7' / "
                "'07' / '+7' / int64 7: known-finding class D72); (cs SCHEMA2): ValidateCompatibility with a SCHEMA as argument - "
                "the schema itself or a copy with one node changed (enum value added / dropped / named, bounds moved, property "
                "dropped), built afresh for each of the 20 evaluations; its verdict is projected away (C15's), its purity flags are "
                "not; typed containers at `any` positions (40 % of the raw values generated for an `any`, half of the `any` "
                "positions of the native arguments of Validate / Serialize, found by walking schema and value together): "
                "[]int8 .. []uint64, []string, []float32, []bool, map[string]intN, map[string]string, map[int64]string, "
                "[]map[string]any, and []any / map[string]any / map[any]any whose elements or integer keys are narrow or unsigned "
                "integers, float32s or such containers again - everything the any type converts element by element, so a "
                "conversion written back into the caller's value shows as `mutated`. c12struct: the same on struct-mapped parents with struct-typed members that have defaults, and on generated "
                "struct-mapped schemas over the struct family of xstruct_types.go (T and *T, embedded structs and embedded pointers, "
                "nil pointers at every pointer position of the native arguments). distinct by case text; non-trivial = >= 2 calls "
                "with a failing call or a structured argument",
        "assumptions": ["no two keys of one map read the same after conversion (D19: known-finding class, refuted in the model)",
                        "argument preservation is observed on the implementation (Gallina values are immutable): partial"],
        "level_text": "Theorems (all fuels, environments, schemas, values): (1) C12_order_independent - verdict AND results, both "
                      "sides at once: on (e, s, v) and (e', s', v') that differ only in the order of association lists - of the "
                      "environment's tables, of the schema (properties, one-of members, scope/namespace tables, enum values) and of the "
                      "entries of every map of the argument, at any depth - Unserialize, Validate, Serialize and data-mode "
                      "ValidateCompatibility take the same accept/reject decision [C12_order_independent_verdict_partial, from "
                      "C12_schema_order_all_operations, C12_unserialize_schema_order, C12_value_order_all_operations; well-formed "
                      "descriptions, no_key_collision], and the RESULTS of Unserialize and of Serialize are equal up to the order of map "
                      "entries (perm_val) [C12_unserialize_results_order_free, C12_serialize_results_order_free; well-formedness on "
                      "the first description only] under keys_distinct Ub v (at every map of the argument no two keys can be read as "
                      "the same key by the int mapper under units accepted by Ub, the string mapper, reflect's int64/string "
                      "conversions or the any conversion), map_key_units Ub e s (the int-keyed maps of the schema read their keys "
                      "under units accepted by Ub) and defaults_distinct Ub (the same for decoded property defaults); (2) the result "
                      "half is FALSE under the boolean class predicate no_key_collision alone [C12_result_refuted: string keys "
                      "\"1\" and \"01\" under an int-keyed map; reproduced on the Go code], and with two keys the predicate does see "
                      "[C12_collision_refuted, D19]; underneath: C12_order_independent_partial, C12_schema_lookups_order_free; "
                      "(3) history freedom with ALL lazily filled caches as explicit state - the decoded property defaults AND the "
                      "unit caches (compiled parser expression, sorted multipliers): for every history of calls (failing ones "
                      "included), from every coherent cache, every result equals the pure function's, the cache stays coherent "
                      "and nothing filled is overwritten [C12_history_free, for every function saying which cells a call touches: "
                      "the lazy one of the code - exactly the cells of the operation's primitive uses, Schema/FootprintOps.v - and the "
                      "eager one]; what a cell holds after any history is a function of its key, i.e. of the schema "
                      "[C12_cache_cells_function_of_schema]; with the eager toucher the whole cache after any non-empty history is "
                      "one table [C12_state_is_function_of_schema_all_caches]; the earlier default-cache-only forms are kept "
                      "[C12_oracles_pointwise, C12_history_free_partial, C12_state_is_function_of_schema]. Well-formedness is "
                      "assumed on the first description only: perm_env/perm_schema preserve wf_schema [C12_wf_order_free, "
                      "C12_order_independent_verdict]. Remaining partial: the caches are keyed by CONTENT (a units definition, a "
                      "default text), not by Go object identity - two nodes with equal definitions share a model cell, which is "
                      "immaterial for results; within one call reads see the cache as it was when the call started (a cell filled "
                      "earlier in the same call holds the value a miss computes, so the values agree); argument preservation is "
                      "observed on the implementation, not proved.",
        "level_note": "Model = Schema/Ops.v; Schema/Perm.v (perm_val, perm_schema, has_key_collision); Proofs/C12ResultBase.v "
                      "(keys_distinct = kfree, kc). Tied to the code by the c12pure family (outcome class + the purity flags); "
                      "struct-mapped objects by the direct check only. The class predicate of D19 (has_key_collision, key TEXTS) "
                      "under-approximates the defect class: keys whose texts differ but that convert to one key (\"1\"/\"01\", "
                      "\"1\"/\"+1\" under int keys) are outside it (C12_result_refuted); they are generated, and recognised by the "
                      "class predicate c12_key_collision_by_value (D72), which walks schema and argument together and compares the "
                      "keys AS CONVERTED by the key schema of the map they sit in (int / string / float / bool mappers, the any "
                      "conversion) - an order dependence anywhere else is still a violation.",
        "design_ref": "DESIGN.md §5 C12",
    }
