"""C06 (every Execute on a healthy connection returns exactly once): configuration and the engine that ties
coq/ATP/Client.v to atp/client.go through the overlay instrumenter and the gate driver (DESIGN §4.3)."""
import hashlib
import os
import re

import atp_engine as ae
import check


def _results(final):
    """(final ... (results ("a" ok 1) ...) (close X) ... (left ...)) -> ([(run, cls, n)], close, left text)"""
    res = ae.field(final, "results")
    out = []
    for e in ae.split_top(res)[1:]:
        f = ae.split_top(e)
        out.append((f[0].strip('"'), f[1], int(f[2])))
    close = ae.split_top(ae.field(final, "close"))[1]
    left = ae.split_top(ae.field(final, "left"))[1:]
    return out, close, left


def direct_final(session, final):
    """The property's own predicate on one observed session end (healthy peer): every Execute returned exactly once,
    Close returned, and after Close nothing the client started is still parked or blocked."""
    if not final.startswith("(final"):
        return None
    res, close, left = _results(final)
    for run, cls, n in res:
        if n > 1:
            return "Execute for run %r returned %d times" % (run, n)
        if cls == "none":
            return "Execute for run %r never returned: the session ended with every goroutine parked or blocked (left: %s)" % (run, " ".join(left))
    has_close = "(close 1)" in session
    if has_close and close == "none":
        return "Close never returned (left: %s)" % " ".join(left)
    if has_close and close == "panic":
        return "Close panicked on a healthy connection"
    if has_close and close == "ok" and left:
        return "after Close returned, goroutines started by the client are still blocked: %s" % " ".join(left)
    return None


def error_fanout_session(session):
    """the peer ends a run with a server-fatal error or a step-fatal error without run id (both fanned out to every waiter)"""
    return "svfatal" in session or "stepfatal_norun" in session


def crash_text(obs):
    """`(crash "stderr tail")`: the driver process died while it was running this case - a panic inside the client (in a
    goroutine nobody can recover from) kills the process; the Execute calls of the session never return."""
    if obs is not None and obs.startswith("(crash"):
        return "the process died while the real client was running this session (panic in a client goroutine?): " + obs[7:-1][-500:]
    return None


def judge_explore(xl, xr, res, prop_words):
    """Search on the implementation (explore mode): every case line of xl with its summary xr[id].  A trial that ends with
    an Execute / Close not returned while nothing can move, an Execute that returned twice, a result that is not the one the
    peer sent for that call, or the death of the process is a violation with the scheduling choices as replay."""
    trials = 0
    kinds = {"healthy": 0, "error-fanout": 0, "run-id-reuse": 0}
    for line in xl:
        e = ae.split_top(line)
        cid = e[1]
        session = ae.split_top(e[3])[0]
        runs = re.findall(r'\(call ("[^"]*")', session)
        kinds["error-fanout" if error_fanout_session(session) else "run-id-reuse" if len(set(runs)) < len(runs) else "healthy"] += 1
        out = xr.get(cid)
        body = ae.split_top(out)[2] if out is not None and out.startswith("(obs") else None
        cr = crash_text(body)
        if cr:
            res["violations"].append(("atpexplore", line, body[:600], "-", cr + " - replay = the session and the exploration strategy"))
            continue
        if out is None or not out.startswith("(xsum"):
            res["disagreements"].append(("atpexplore", line, out or "(missing)", "-"))
            continue
        trials += int(ae.split_top(ae.field(out, "trials"))[1])
        stuck = int(ae.split_top(ae.field(out, "stuck"))[1])
        double = int(ae.split_top(ae.field(out, "double"))[1])
        wf = ae.field(out, "wrong")
        wrong = int(ae.split_top(wf)[1]) if wf else 0
        first = ae.field(out, "first")
        if stuck or double or wrong:
            xobs = ae.split_top(first)[1]
            choices = ae.field(xobs, "choices")
            final = ae.field(xobs, "final")
            case = "(case %s atpexplore (%s %s))" % (cid, session, choices)
            wtxt = ae.field(xobs, "wrong")
            wmsg = ae.split_top(wtxt)[2].strip('"') if wtxt and ae.split_top(wtxt)[1] == "1" else None
            why = direct_final(session, final) or ("an Execute returned twice" if double else None) or wmsg or \
                "a call got a result that is not its own"
            if wmsg and wmsg not in why:
                why = wmsg + "; in the same trial: " + why
            res["violations"].append(("atpexplore", case, final, "-", why + " - found by schedule exploration of the real client "
                                      "(%s); replay = the list of scheduling choices" % prop_words))
        elif first is not None:
            res["disagreements"].append(("atpexplore", line, first, "-"))
        lf = ae.field(out, "lockfree")
        if lf and int(ae.split_top(lf)[1]) > 0 and not (stuck or double or wrong):
            # the lock discipline the model assumes (coq/ATP/Wire.v: every writer of the shared encoder takes c.mutex around
            # its message; ATP/Client.v: a send is one atomic append) does not hold on the implementation's own gate trace:
            # a broken correspondence - the interleaving itself (two writers inside Write) is the concrete failing input
            res["disagreements"].append(("atpexplore", line, "(lockfree %s)" % ae.split_top(lf)[2],
                                         "every Encode of c.encoder and every piece of a Write between Lock and Unlock of c.mutex "
                                         "(Properties/C05.v C05_wire_framed)"))
    return trials, kinds


def switches(steps):
    roles = re.findall(r"\(st (\S+) ", steps)
    roles = [r for r in roles if r != "peer"]
    return sum(1 for a, b in zip(roles, roles[1:]) if a != b)


def engine_c06(prop, tier, seed, work, known):
    t_gates = ae.build_drive()
    res = {"name": "atpclient", "evaluations": 0, "distinct_nontrivial": 0, "samples": [], "violations": [],
           "disagreements": [], "known_hits": [], "traces_validated_against_impl": 0}
    # ---- correspondence: model schedules forced on the real client --------------------------------------
    cases = os.path.join(work, "c06.cases")
    ae.gen_cases("c06", tier, seed, cases)
    scheds = ae.model_schedules(cases, os.path.join(work, "c06.pred"))
    items, expected, sess = [], {}, {}
    n_enum, n_sampled = 0, 0
    for cid, session, ss in scheds:
        for k, (steps, final, complete, flightok, lostbuf) in enumerate(ss):
            if lostbuf >= 0 and (not error_fanout_session(session) or "(frag 0)" not in session):
                # (an error fan-out may end the loop while answers for the failed runs are in its read-ahead: those sessions
                # use the unfragmented transport, where the model's whole-message read-ahead is exact)
                raise check.ProofBroken("model", "a read loop of a model schedule of a HEALTHY session ends with a non-empty read-ahead "
                                        "buffer (nothing can be in flight when no entry is pending): case %s" % cid)
            if not flightok:
                raise check.ProofBroken("model", "flight_ok is false in a state of a model schedule although C06_flight_ok proves it for "
                                        "every reachable state of every good session: the generated session is not a good session "
                                        "(distinct run ids, every run answered) or the extracted model differs from the proved one: case %s" % cid)
            if not complete:
                raise check.ProofBroken("model", "a model schedule did not end within the fuel: case %s" % cid)
            i = "%s.%d" % (cid, k)
            items.append((i, session, steps))
            expected[i] = final
            sess[i] = session
        if len(ss) > 1:
            n_enum += len(ss)
        else:
            n_sampled += len(ss)
    # the model itself must never predict a hang on these (healthy) sessions: C06_every_execute_returns_once
    for i, session, steps in items:
        why = direct_final(session, expected[i])
        if why:
            raise check.ProofBroken("model", "the model predicts a failure of the property on a healthy session "
                                    "(the theorem says it cannot): %s; session %s" % (why, session))
    obs = ae.replay(items, os.path.join(work, "replay"))
    distinct = set()
    nontrivial = 0
    n_err = 0
    steps_hist = {}
    for i, session, steps in items:
        o = obs[i]
        case = "(sched %s %s %s)" % (i, session, steps)
        h = hashlib.sha1((session + steps).encode()).digest()
        if h not in distinct:
            distinct.add(h)
            if switches(steps) >= 2:
                nontrivial += 1
        n = steps.count("(st ")
        steps_hist[n // 10 * 10] = steps_hist.get(n // 10 * 10, 0) + 1
        why = direct_final(session, o)
        dv = ae.diverged(o)
        n_err += error_fanout_session(session)
        if crash_text(o):
            res["violations"].append(("atpclient", case, o[:600], expected[i], crash_text(o) + " - schedule forced gate by gate on the real client"))
        elif why:
            res["violations"].append(("atpclient", case, o, expected[i], why + " - schedule forced gate by gate on the real client"))
        elif dv and (dv["stuck"] or (dv["final"] and direct_final(session, dv["final"]))):
            # the correspondence broke AND the continuation of that very run on the real client violates the property (an
            # Execute / Close that never returns, goroutines left blocked after Close): a concrete failing input
            res["violations"].append(("atpclient", case, o, expected[i],
                                      ae.diverged_text(dv, direct_final(session, dv["final"]) or "an Execute or Close that never returned")))
        elif o != expected[i]:
            res["disagreements"].append(("atpclient", case, o, expected[i]))
        else:
            res["traces_validated_against_impl"] += 1
        if len(res["samples"]) < 3 and len(distinct) % 211 == 1:
            res["samples"].append({"case": case[:1500], "observed": o[:800]})
    res["evaluations"] += len(items)
    res["distinct_nontrivial"] += nontrivial
    # ---- search on the implementation: delay-bounded and seeded random schedules, stuck detection ---------
    xcases = os.path.join(work, "c06x.cases")
    xl = ae.gen_cases("c06x", tier, seed, xcases)
    xr = ae.explore(xl, os.path.join(work, "explore"))
    trials, xkinds = judge_explore(xl, xr, res, "scripted peer that answers every accepted work start once")
    res["evaluations"] += trials
    res["stats"] = {"gates": t_gates, "model_schedules_replayed": len(items), "from_exhaustive_enumeration": n_enum,
                    "sampled": n_sampled, "distinct": len(distinct), "distinct_nontrivial": nontrivial,
                    "steps_per_schedule_histogram": dict(sorted(steps_hist.items())),
                    "explore_sessions": len(xl), "explore_trials": trials, "explore_sessions_by_kind": xkinds,
                    "model_schedules_of_error_fanout_sessions": n_err,
                    "rule": "a schedule is non-trivial when the client goroutines switch at least twice inside the session"}
    return res


def replay_atpclient(d, work):
    ae.build_drive()
    e = ae.split_top(d["case"])
    obs = ae.replay([(e[1], e[2], e[3])], work)[e[1]]
    check.log("schedule:        " + e[3][:3000])
    check.log("implementation:  " + obs)
    check.log("model:           " + d["predicted"])
    why = direct_final(e[2], obs)
    dv = ae.diverged(obs)
    if not why and dv and dv["stuck"]:
        why = ae.diverged_text(dv, direct_final(e[2], dv["final"]) or "an Execute or Close that never returned")
    if why or obs != d["predicted"]:
        check.log("VIOLATION property=%s replay=%s" % (d["property"], "replays/%s" % os.path.basename(d.get("path", ""))))
        check.log("reason: " + (why or "implementation and model disagree"))
        return 1
    check.log("no violation on the current tree")
    return 0


def replay_atpexplore(d, work):
    ae.build_drive()
    e = ae.split_top(d["case"])
    out = ae.explore([d["case"]], work)[e[1]]
    check.log("implementation:  " + out[:3000])
    stuck = int(ae.split_top(ae.field(out, "stuck"))[1])
    double = int(ae.split_top(ae.field(out, "double"))[1])
    first = ae.field(out, "first")
    if stuck or double or (first and "choice-not-enabled" not in first and "xobs" not in first):
        check.log("VIOLATION property=%s (the recorded choices still end with an Execute that never returns)" % d["property"])
        return 1
    check.log("no violation on the current tree" + (" (the recorded choices can no longer be followed)" if first and "choice-not-enabled" in first else ""))
    return 0


C06 = {
    "theory": "Properties/C06.v",
    "families": [],
    "engines": [engine_c06],
    "rule": "atpclient: sessions of 1-4 Execute calls on 1-4 harness goroutines (serial, overlapping, mixed), optional Close, signals "
            "to the step (0-2 per run, channel closed or left open), signals/notices/unknown messages from the step, terminal = work "
            "done or step-fatal error; transports: buffered and fragmenting (1-44 bytes per Read); for each session the model "
            "(coq/ATP/Client.v, extracted) produces maximal schedules - ALL of them for the five fixed small sessions up to a count, "
            "one per random choice list for the generated ones - and the driver forces each on the real client gate by gate; distinct "
            "by (session, schedule); non-trivial = at least two switches between client goroutines. Search on the implementation: "
            "delay-bounded (every step delayed singly; pairs: all for small sessions, sampled beyond) and seeded random scheduling. "
            "ERROR FAN-OUTS: sessions in which the peer ends a run with a server-fatal error or with a step-fatal error without run id "
            "(unfragmented transport) are replayed against the model and explored. RE-USED RUN IDS (two Execute calls with the same "
            "id, overlapping or one after the other, with / without signal channels; the peer answers every ACCEPTED work start once) "
            "are outside the model's good sessions: explored on the implementation only and judged by the property's predicate - "
            "every Execute returns exactly once, Close returns, nothing left blocked; where all calls of an id come from one goroutine "
            "the k-th is an ordinary call and gets the k-th answer. A death of the driver process while it runs a session (panic in a "
            "client goroutine) is a violation.",
    "assumptions": ["the peer is healthy: it answers every accepted work start with exactly one terminal message after the signals/notices "
                    "of that run, sends nothing unsolicited, never fails - or ends a run with a server-fatal / run-less step-fatal error message, which "
                    "answers every pending run; for the theorems and the model replays the run ids of one client are distinct (re-used ids "
                    "are checked on the implementation by the property's predicate alone)",
                    "the caller consumes every signal the step emits (consumer_reads); Close is called once every Execute has "
                    "sent its work-start message (an Execute started after Close is client misuse: the server ignores it)",
                    "sync.Mutex, sync.Cond, sync.WaitGroup, channels and select behave as documented; any interleaving of gated steps "
                    "is possible and nothing else (code between two gates touches shared state only under c.mutex - cross-checked by "
                    "go test -race); writes to the transport do not block (buffered); the 60 s/5 s timers are outside the model"],
    "level_text": "Theorems, machine-checked, closed under the global context, for every good session (any number of Execute calls with "
                  "distinct run ids on any number of harness goroutines, signals both ways, any peer script that answers every run, "
                  "optional Close) and every schedule (= every label list): C06_inv / C06_inv_inductive - the conservation "
                  "invariant (pending entry => live read loop that has not passed its exit check; entries <-> callers between "
                  "registration and return, distinct keys; wait group = live signal writers + live loop; every waiting caller's "
                  "answer is in to_server / owed by the peer / in from_server / in the loop's read-ahead buffer / held by the "
                  "loop) holds initially and is preserved by every step for every label; C06_flight_ok - it implies the executable "
                  "predicate the correspondence runs evaluate; C06_terminates - every step decreases a natural-number measure; "
                  "C06_no_stuck - no reachable state with an unreturned Execute is without an enabled step; "
                  "C06_every_execute_returns_once - in every maximal execution every Execute has returned and has exactly one "
                  "return event; C06_close_leaves_nothing_blocked - with Close and no write failure: Close returned nil, wait group "
                  "0, read loop and every signal writer exited. C06_window_refuted: the unchanged read loop hangs on a 16-step "
                  "schedule (D20).",
    "level_note": "No hypothesis is left on the theorems besides the session being good (distinct run ids, every run answered) - the "
                  "former side condition flight_ok is now a consequence (Proofs/ATPClientInv.v: one lemma per label kind and "
                  "sub-invariant). Model = coq/ATP/Client.v (hand-written, of the repaired client.go, one step per critical section of "
                  "c.mutex or I/O operation), tied to atp/client.go on every run: cmd/instrument rewrites the tree's client.go into a "
                  "gated copy outside the tree (go build -overlay), cmd/atpdrive forces model schedules on it and compares "
                  "per-goroutine gate-kind traces, results, wire and who is left blocked (a divergence is continued on the real client "
                  "until nothing moves, so a hang is reported with its schedule); plus schedule exploration of the implementation alone. "
                  "Outside the theorems: duplicate run ids (the peer model answers a run id once), the 60 s / 5 s timers, a caller that "
                  "does not consume emitted signals.",
    "design_ref": "DESIGN.md §4, §5 C06",
    "trusted": ["cmd/instrument + cmd/atpdrive (gate insertion, cooperative scheduler, quiescence from a whitelist of goroutine states)",
                "atomicity of the code between two gates (checked only by the race detector runs of the repository's own tests)"],
}


def register(props):
    props.PROPS["C06"] = C06
    props.REPLAY_HANDLERS["atpclient"] = replay_atpclient
    props.REPLAY_HANDLERS["atpexplore"] = replay_atpexplore
