#!/usr/bin/env python3
"""famcheck.py FAMILY [TIER] [SEED] — run one case family on the implementation and on the
extracted model and print the disagreements (development aid; not a registered check)."""
import os, sys
sys.path.insert(0, os.path.dirname(os.path.abspath(__file__)))
import check
fam = sys.argv[1]; tier = sys.argv[2] if len(sys.argv) > 2 else "quick"; seed = int(sys.argv[3]) if len(sys.argv) > 3 else 1
if os.environ.get("FAMCHECK_NOBUILD") != "1":
    check.build_all()
rows = check.run_family("dev", fam, tier, seed, os.path.join(check.BUILD, "work", "famcheck-" + fam))
import props
proj = (lambda t: props.strip_err_paths(t)) if os.environ.get("FAMCHECK_PATHS") != "1" else (lambda t: t)
bad = [(c, o, p) for c, o, p in rows if proj(check.strip_id(o)) != proj(check.strip_id(p))]
print("%s: %d cases, %d disagreements" % (fam, len(rows), len(bad)))
for c, o, p in bad[:int(os.environ.get("FAMCHECK_SHOW", "5"))]:
    print("CASE", c[:1500]); print(" IMPL ", o[:800]); print(" MODEL", p[:800])
sys.exit(1 if bad else 0)
